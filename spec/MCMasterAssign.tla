--------------------------- MODULE MCMasterAssign ---------------------------
(* Part A of Master exhaustively: every cluster size, shard count, replica    *)
(* factor, start index and shift inside the bounds, and growing by 1..3.      *)
EXTENDS Master
CONSTANTS MaxNodes, MaxShards
VARIABLE c
Nodes(n) == [i \in 1..n |-> i]
Cases == {x \in [n : 1..MaxNodes, shards : 1..MaxShards, rf : 1..MaxNodes, start : 0..(MaxNodes - 1), shift : 0..(MaxNodes - 1), grow : 0..3] :
            x.rf <= x.n /\ x.start < x.n /\ x.shift < x.n}
AInit == c \in Cases /\ Init
ANext == UNCHANGED <<c, vars>>
ASpec == AInit /\ [][ANext]_<<c, vars>>
A0 == AssignShards(Nodes(c.n), 0, c.shards, c.rf, c.start, c.shift)
\* growth uses fresh random start / shift in the code: check all of them
Grown(s2, h2) == LET add == AssignShards(Nodes(c.n), c.shards, c.grow, c.rf, s2, h2)
                 IN [sid \in 0..(c.shards + c.grow - 1) |-> IF sid < c.shards THEN A0[sid] ELSE add[sid]]
AssignOK ==
  /\ DOMAIN A0 = 0..(c.shards - 1)
  /\ ExactlyRfDistinct(A0, Nodes(c.n), c.rf)
  /\ RoundRobin(A0, Nodes(c.n))
GrowOK == c.grow > 0 =>
  \A s2 \in 0..(c.n - 1), h2 \in 0..(c.n - 1) :
     /\ ExactlyRfDistinct(Grown(s2, h2), Nodes(c.n), c.rf)
     /\ \A sid \in 0..(c.shards - 1) : Grown(s2, h2)[sid] = A0[sid]
=============================================================================
