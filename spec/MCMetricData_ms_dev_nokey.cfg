CONSTANTS
  Series = {1}
  Slots = {0, 1}
  Vals = {1, 2}
  Types <- TypesA
SPECIFICATION Spec
INVARIANTS BookkeepingNoKey
CHECK_DEADLOCK FALSE
