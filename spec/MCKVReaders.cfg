CONSTANTS
  SwitchCurrentEarly = FALSE
  NoNextFileNumberLog = FALSE
  StoreSnapshotLogsManifest = FALSE
  Reader = {"r1", "r2"}
  MaxFlush = 3
  MaxCompact = 1
  MaxCleanup = 2
  CollectActiveFirst = FALSE
  UnpendEarly = FALSE
SPECIFICATION MCSpec
INVARIANTS SnapshotFilesExist NeededFilesExist NoPartialVisible ContentIsCommitted
PROPERTIES CleanupRemovesOnlyDead
CHECK_DEADLOCK FALSE
