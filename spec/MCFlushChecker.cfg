\* the repaired code: the mark is stored with the check, before the request is handed over
CONSTANTS
  Req = {r1, r2, r3}
  MarkBeforeSend = TRUE
SPECIFICATION Spec
INVARIANTS NoStaleMark InFlightExact
CHECK_DEADLOCK FALSE
