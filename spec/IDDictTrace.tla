----------------------------- MODULE IDDictTrace -----------------------------
(* Trace validation for C09 against the SPECIFICATION layer of IDDict: the     *)
(* abstract dictionary.  The harness records Call / Ret of every get-or-create *)
(* and lookup on the real MetricMetaDatabase / MetricIndexDatabase (many       *)
(* goroutines, flushes, reopen, crash images); each return must be explained   *)
(* by a linearizable name -> id map.  The index-loop histories (shard index     *)
(* event loop under gated schedules, module IDDictSeries) add Postings.        *)
(* key = <<kind, scope, name>>; ids of one id space never collide.             *)
EXTENDS Integers, Sequences, FiniteSets, TLC, Json

Trace == ndJsonDeserialize("trace.ndjson")
VARIABLES l,
          dict,    \* [key -> id]
          conf,    \* keys created or seen again since the last reopen / recovery
          calls    \* [thread -> [key, create, pre]]   pre = id of the key when the call began (-1 = none)
vars == <<dict, conf, calls>>
tvars == <<vars, l>>
ASSUME TLCSet(1, 0)
Ev(e) == l <= Len(Trace) /\ Trace[l].ev = e /\ l' = l + 1
Line == Trace[l]

Empty == [x \in {} |-> 0]
Put1(f, k, v) == [x \in (DOMAIN f) \cup {k} |-> IF x = k THEN v ELSE f[x]]
Del1(f, k) == [x \in (DOMAIN f) \ {k} |-> f[x]]

\* field ids and series ids are unique per metric, the others come from one store-wide sequence
Space(key) == IF key[1] \in {"field", "series"} THEN <<key[1], key[2]>> ELSE <<key[1]>>
Used(space) == {dict[k] : k \in {x \in conf : Space(x) = space}}

TraceInit == l = 1 /\ dict = Empty /\ conf = {} /\ calls = Empty
TReset == Ev("Reset") /\ dict' = Empty /\ conf' = {} /\ calls' = Empty

KeyOf(ln) == <<ln.kind, ln.scope, ln.name>>

TCall ==
  /\ Ev("Call")
  /\ Line.t \notin DOMAIN calls
  /\ LET k == KeyOf(Line) IN
     calls' = Put1(calls, Line.t, [key |-> k, create |-> Line.create,
                                   pre |-> IF k \in DOMAIN dict /\ k \in conf THEN dict[k] ELSE -1])
  /\ UNCHANGED <<dict, conf>>

\* the call returned an id
TRetID ==
  /\ Ev("Ret") /\ Line.t \in DOMAIN calls /\ Line.found
  /\ LET c == calls[Line.t]  k == c.key  id == Line.id IN
     /\ \/ \* the name has an id (created before, or recovered): every caller gets that id
           /\ k \in DOMAIN dict /\ dict[k] = id
           /\ conf' = conf \cup {k} /\ UNCHANGED dict
        \/ \* the name has no (confirmed) id: the call created one, it must be unused in its id space
           \* (a lookup may also observe the id a still running create call has just assigned)
           /\ (c.create \/ \E t2 \in DOMAIN calls : calls[t2].key = k /\ calls[t2].create)
           /\ (k \notin DOMAIN dict \/ (k \in DOMAIN dict /\ k \notin conf /\ dict[k] # id))
           /\ id \notin Used(Space(k))
           /\ dict' = Put1(dict, k, id) /\ conf' = conf \cup {k}
     /\ calls' = Del1(calls, Line.t)

\* a lookup-only call did not find the name: legal only if the name had no id when the call began
\* (or its entry is an unconfirmed one from before a reopen: it may have been lost)
TRetNone ==
  /\ Ev("Ret") /\ Line.t \in DOMAIN calls /\ ~Line.found
  /\ LET c == calls[Line.t] IN
     /\ ~c.create
     /\ (c.pre = -1 \/ c.key \notin conf)
  /\ calls' = Del1(calls, Line.t)
  /\ UNCHANGED <<dict, conf>>

\* close + reopen, or recovery of a crash image: nothing is confirmed yet
TReopen == Ev("Reopen") /\ conf' = {} /\ calls' = Empty /\ UNCHANGED dict
\* flush steps do not change the abstract dictionary
TNote == Ev("Note") /\ UNCHANGED vars

\* level-0 compaction of the kv families behind the dictionaries (metadata store: ns / metric / schema / tv, shard index
\* store: series / metric / inverted / forward): the files are merged, NO name -> id mapping changes and nothing
\* becomes unconfirmed -- every later return is judged against the same dict / conf (SchemaStore!Compact is the
\* storage-level model: the merged file holds every entry of its inputs)
TCompact == Ev("Compact") /\ UNCHANGED vars

\* the series ids the shard index knows for one metric (metric => series ids postings, read at a quiescent point).
\* The next new series id of the metric is derived from them after a restart (IDDictSeries: NewID), so the id of
\* every series the dictionary resolves must be among them (IDDictSeries: UsedDurable, seen from outside).
TPostings ==
  /\ Ev("Postings")
  /\ LET ids == {Line.ids[i] : i \in 1..Len(Line.ids)} IN
     \A k \in conf : (k[1] = "series" /\ k[2] = Line.scope) => dict[k] \in ids
  /\ UNCHANGED vars

\* the reverse lookup of one tag key (CollectTagValues: ids -> names, the group-by path), at a quiescent point: every
\* returned pair is a pair of the dictionary, and every confirmed name whose id was asked for is returned
TCollect ==
  /\ Ev("Collect")
  /\ LET asked == {Line.asked[i] : i \in 1..Len(Line.asked)}
         P == Line.pairs
     IN /\ \A ids \in DOMAIN P :
             LET k == <<"tagvalue", Line.scope, P[ids]>> IN k \in DOMAIN dict /\ ToString(dict[k]) = ids /\ dict[k] \in asked
        /\ \A k \in conf : (k[1] = "tagvalue" /\ k[2] = Line.scope /\ dict[k] \in asked)
                              => (ToString(dict[k]) \in DOMAIN P /\ P[ToString(dict[k])] = k[3])
  /\ UNCHANGED vars

TraceNext == TReset \/ TCollect \/ TCall \/ TRetID \/ TRetNone \/ TReopen \/ TNote \/ TCompact \/ TPostings
TraceSpec == TraceInit /\ [][TraceNext]_tvars

\* C09 on the abstract dictionary: injective per id space over the confirmed entries
\* (\A a, b \in conf : (Space(a) = Space(b) /\ dict[a] = dict[b]) => a = b, written as a count so that its evaluation
\* is not quadratic in the number of names: k |-> <<Space(k), dict[k]>> is one-to-one on conf)
Injective == Cardinality({<<Space(k), dict[k]>> : k \in conf}) = Cardinality(conf)

HighWater == TLCSet(1, IF l > TLCGet(1) THEN l ELSE TLCGet(1))
TraceAccepted ==
  LET hw == TLCGet(1) IN
  IF hw = Len(Trace) + 1 THEN TRUE
  ELSE /\ PrintT(<<"TRACE-REJECTED-AT-LINE", hw>>)
       /\ FALSE
=============================================================================
