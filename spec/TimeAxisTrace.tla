--------------------------- MODULE TimeAxisTrace ---------------------------
(* Trace validation of lindb's real time bucketing (harness `vdrive taxis`) against TimeAxis.      *)
(* The driver logs inputs and the REAL outputs; every event must carry exactly what the reference  *)
(* operators yield for its inputs.  Calc / SlotRange / Group / Plan are pure (the state does not    *)
(* change); Create / Lookup run on a real shard whose set of families is the state `fams`, and      *)
(* LookupMatchesOverlap is checked as an invariant after every lookup.                              *)
EXTENDS TimeAxis, Json
CONSTANT AnyIntervalSlots   \* TRUE: the planned range must select the requested storage slots for EVERY stored interval
                            \* FALSE: only for regular ones (used to recognise the known finding about irregular intervals)

Trace == ndJsonDeserialize("trace.ndjson")
VARIABLE l
tvars == <<vars, l>>
ASSUME TLCSet(1, 0)
Ev(e) == l <= Len(Trace) /\ Trace[l].ev = e /\ l' = l + 1
Line == Trace[l]
NoneOf(g) == {}
ToSet(s) == {s[i] : i \in DOMAIN s}
NoDup(s) == Cardinality(ToSet(s)) = Len(s)

TraceInit == l = 1 /\ mode = "shard" /\ Idle
TReset == /\ Ev("Reset")
          /\ siv' = 0 /\ fams' = {} /\ last' = NoLookup
          /\ UNCHANGED <<mode, grp, day, civ, inst, pin>>

\* every calculator method of timeutil.Interval(iv).Calculator() on the instant t
CalcOK(e) ==
  LET K == TypeOf(e.iv)
      t == e.t
      fs == FamilyStart(K, t)
  IN /\ e.type = K
     /\ e.seg = ToString(SegNameNum(K, t))                  \* GetSegment
     /\ e.segt = <<SegStartS(K, t), 0>>                     \* CalcSegmentTime
     /\ e.pseg = e.segt                                     \* ParseSegmentTime(GetSegment(t))
     /\ e.fam = FamilyIdx(K, t)                             \* CalcFamily
     /\ e.ft = fs                                           \* CalcFamilyTime
     /\ e.fs = fs                                           \* CalcFamilyStartTime(segment, family)
     /\ e.fe = FamilyEnd(K, t)                              \* CalcFamilyEndTime
     /\ e.slot = Slot(K, t, e.iv)                           \* CalcSlot
     /\ e.back = SlotStart(K, t, e.iv)                      \* CalcTimestamp(family start, slot, interval)
TCalc == Ev("Calc") /\ CalcOK(Line) /\ UNCHANGED vars

\* timeutil.Interval.CalcSlotRange(family time, range)
TSlotRange ==
  /\ Ev("SlotRange")
  /\ LET e == Line
         K == TypeOf(e.iv)
     IN /\ FamilyStart(K, e.f) = e.f
        /\ <<e.lo, e.hi>> = SlotRange(K, e.f, e.from, e.to, e.iv)
  /\ UNCHANGED vars

\* BrokerBatchShardFamilyIterator: the rows of a batch grouped by family
RECURSIVE CatTs(_, _)
CatTs(gs, i) == IF i > Len(gs) THEN <<>> ELSE gs[i].ts \o CatTs(gs, i + 1)
Count(s, x) == Cardinality({i \in DOMAIN s : s[i] = x})
GroupOK(e) ==
  LET K == TypeOf(e.iv)
      all == CatTs(e.groups, 1)
  IN /\ \A i \in DOMAIN e.groups :
          /\ Len(e.groups[i].ts) > 0
          /\ \A j \in DOMAIN e.groups[i].ts : FamilyStart(K, e.groups[i].ts[j]) = e.groups[i].ft
     /\ \A i \in 1..(Len(e.groups) - 1) : Lt(e.groups[i].ft, e.groups[i + 1].ft)
     /\ Len(all) = Len(e.ts)
     /\ \A x \in ToSet(e.ts) \cup ToSet(all) : Count(e.ts, x) = Count(all, x)
TGroup == Ev("Group") /\ GroupOK(Line) /\ UNCHANGED vars

\* RootMetricContext.MakePlan -> calcTimeRangeAndInterval; timeutil.CalPointCount
TPlan ==
  /\ Ev("Plan")
  /\ LET e == Line
         in == [opts |-> ToSet(e.opts), qiv |-> e.qiv, auto |-> e.auto, from |-> e.from, to |-> e.to]
         out == [from |-> e.ofrom, to |-> e.oto, siv |-> e.osiv, ratio |-> e.oratio, iv |-> e.oiv]
     IN /\ out = Plan(in)
        /\ PlanOK(in, out)
        /\ (AnyIntervalSlots \/ Regular(out.siv)) => PlannedRangeSelectsRequestedSlots(in, out)
        /\ e.pc = PointCount(out.from[1], out.to[1], out.iv)
  /\ UNCHANGED vars

\* Shard.GetOrCrateDataFamily(t).TimeRange() / FamilyTime()
TCreate ==
  /\ Ev("Create")
  /\ LET K == TypeOf(Line.iv) IN
       /\ Line.fr = <<FamilyStart(K, Line.t), FamilyEnd(K, Line.t)>>
       /\ Line.ftime = FamilyStart(K, Line.t)
  /\ Create(Line.iv, Line.t)
\* Shard.GetDataFamilies(type, range): judged by the invariant LookupMatchesOverlap in the next state
TLookup ==
  /\ Ev("Lookup")
  /\ NoDup(Line.got)
  /\ LET K == TypeOf(Line.iv) IN Line.xseg = (SegStartS(K, Line.from) # SegStartS(K, Line.to))
  /\ Lookup(Line.iv, Line.from, Line.to, ToSet(Line.got))

TraceNext == TReset \/ TCalc \/ TSlotRange \/ TGroup \/ TPlan \/ TCreate \/ TLookup
TraceSpec == TraceInit /\ [][TraceNext]_tvars

HighWater == TLCSet(1, IF l > TLCGet(1) THEN l ELSE TLCGet(1))
TraceAccepted ==
  LET hw == TLCGet(1) IN
  IF hw = Len(Trace) + 1 THEN TRUE
  ELSE /\ PrintT(<<"TRACE-REJECTED-AT-LINE", hw>>)
       /\ FALSE
=============================================================================
