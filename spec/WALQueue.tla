------------------------------ MODULE WALQueue ------------------------------
(***************************************************************************)
(* The write-ahead-log queue of lindb: pkg/queue/queue.go (append path,    *)
(* C05), consumer_group.go + fanout_queue.go (consumer groups, C06),       *)
(* page/factory.go (memory-mapped pages).                                  *)
(*                                                                         *)
(* Granularity: one action per STORE into a mapped page (or page file      *)
(* creation / removal).  An API call computes, from the state it reads     *)
(* under its lock, the list of stores the code performs (`todo`), exactly  *)
(* in the order of the code; DoStore performs them one at a time, and      *)
(* Crash is enabled between any two.  What a process kill leaves behind is *)
(* the durable part (MAP_SHARED stores survive a SIGKILL).                 *)
(*                                                                         *)
(* Deviation switches (all TRUE on the repaired tree):                     *)
(*   AtomicPut      Put is one critical section (alloc, copy, publish)     *)
(*   ClampConsumed  a reloaded group raises consumed together with ack     *)
(*   MetaByPage     "this group has stored positions" is decided by the    *)
(*                  existence of its meta PAGE FILE (FALSE: by the         *)
(*                  existence of its directory, which the page factory     *)
(*                  makes before any page: positions are then read from a  *)
(*                  page file that was created, zero-filled, just now)     *)
(* Creation of a consumer group is two durable steps: the directory        *)
(* (`mkgdir`, made by the page factory constructor) and the meta page file *)
(* with its first two stores (`mkgroup`).  A page acquisition that fails   *)
(* (CreateGroupFail) or a kill between the two leaves the directory alone. *)
(* Documented abstractions: creation of a meta page file and its first     *)
(* stores are one step (see DESIGN.md, C05/C06 notes); index pages never   *)
(* roll over inside the bounds (262144 entries per page).                  *)
(***************************************************************************)
EXTENDS Integers, Sequences, FiniteSets, TLC

CONSTANTS PageSize, AtomicPut, ClampConsumed, MetaByPage

VARIABLES
  \* ---- durable ----
  idx,      \* [seq -> [page, off, len]]  index entries ever stored (partial function)
  data,     \* set of [page, off, len, id]: extents whose bytes are the payload `id`
  dpages,   \* data page files that exist
  meta,     \* [app, ack]: queue meta page
  gd,       \* [group -> [cons, ack]]: consumer group meta pages (domain = groups whose meta page FILE exists)
  gdir,     \* set of groups whose directory exists (a superset of DOMAIN gd)
  \* ---- volatile ----
  open, mApp, mAck, curPage, curOff,
  gm,       \* [group -> [cons, ack]]: groups in the fan-out map (memory copies)
  ops,      \* [thread -> op]: API calls in flight
  \* ---- ghost ----
  truth,    \* [seq -> id]: the payload whose append returned success under that sequence
  res       \* [thread -> result of its last completed call] (output only)

vars == <<idx, data, dpages, meta, gd, gdir, open, mApp, mAck, curPage, curOff, gm, ops, truth, res>>
durable == <<idx, data, dpages, meta, gd, gdir>>

Empty == [x \in {} |-> 0]
Put1(f, k, v) == [x \in (DOMAIN f) \cup {k} |-> IF x = k THEN v ELSE f[x]]
Del1(f, k) == [x \in (DOMAIN f) \ {k} |-> f[x]]
Min(S) == CHOOSE x \in S : \A y \in S : x <= y
Max2(a, b) == IF a >= b THEN a ELSE b

ZeroEntry == [page |-> 0, off |-> 0, len |-> 0]
IdxAt(s) == IF s \in DOMAIN idx THEN idx[s] ELSE ZeroEntry

Init ==
  /\ idx = Empty /\ data = {} /\ dpages = {0}
  /\ meta = [app |-> -1, ack |-> -1] /\ gd = Empty /\ gdir = {}
  /\ open = TRUE /\ mApp = -1 /\ mAck = -1 /\ curPage = 0 /\ curOff = 0
  /\ gm = Empty /\ ops = Empty /\ truth = Empty /\ res = Empty

\* ------------------------------------------------------------------ stores
Overlaps(e, f) == e.page = f.page /\ e.off < f.off + f.len /\ f.off < e.off + e.len

\* reading len bytes at (page, off): the payload id if exactly one intact extent is there,
\* 0 for the empty message, -1 for anything else (garbage)
ReadAt(page, off, len) ==
  IF len = 0 THEN 0
  ELSE IF \E e \in data : e.page = page /\ e.off = off /\ e.len = len
         THEN (CHOOSE e \in data : e.page = page /\ e.off = off /\ e.len = len).id
         ELSE -1

ApplyStore(st) ==
  CASE st.k = "data" ->
         /\ data' = IF st.len = 0 THEN data
                    ELSE {e \in data : ~Overlaps(e, st)} \cup
                         {[page |-> st.page, off |-> st.off, len |-> st.len, id |-> st.id]}
         /\ UNCHANGED <<idx, dpages, meta, gd, gdir>>
    [] st.k = "idx" ->
         /\ idx' = Put1(idx, st.seq, [IdxAt(st.seq) EXCEPT ![st.f] = st.v])
         /\ UNCHANGED <<data, dpages, meta, gd, gdir>>
    [] st.k = "meta" ->
         /\ meta' = [meta EXCEPT ![st.f] = st.v]
         /\ UNCHANGED <<idx, data, dpages, gd, gdir>>
    [] st.k = "g" ->
         /\ gd' = [gd EXCEPT ![st.g][st.f] = st.v]
         /\ UNCHANGED <<idx, data, dpages, meta, gdir>>
    [] st.k = "mkgdir" ->      \* the group's directory (page factory constructor), no page file yet
         /\ gdir' = gdir \cup {st.g}
         /\ UNCHANGED <<idx, data, dpages, meta, gd>>
    [] st.k = "mkgroup" ->     \* meta page file in the existing directory + its two first stores (abstraction)
         /\ gd' = Put1(gd, st.g, [cons |-> st.cons, ack |-> st.ack])
         /\ UNCHANGED <<idx, data, dpages, meta, gdir>>
    [] st.k = "mkpage" ->
         /\ dpages' = dpages \cup {st.page}
         /\ UNCHANGED <<idx, data, meta, gd, gdir>>
    [] st.k = "rmpage" ->      \* the page file is removed: its bytes are gone
         /\ dpages' = dpages \ {st.page}
         /\ data' = {e \in data : e.page # st.page}
         /\ UNCHANGED <<idx, meta, gd, gdir>>

\* ------------------------------------------------------------------ what each call does
\* Each operator returns [todo |-> Seq(store), later |-> set of Seq(store), eff |-> effect record].
\* Effects are applied to the volatile state when the last store is done.

NoEff == [k |-> "none"]

AllocOf(len) ==
  LET roll == curOff + len > PageSize
      p == IF roll THEN curPage + 1 ELSE curPage
      o == IF roll THEN 0 ELSE curOff
  IN [page |-> p, off |-> o]

PutAllocStores(len, id) ==
  LET a == AllocOf(len) IN
  (IF a.page \notin dpages THEN << [k |-> "mkpage", page |-> a.page] >> ELSE << >>)
  \o << [k |-> "data", page |-> a.page, off |-> a.off, len |-> len, id |-> id] >>

PutPersistStores(a, len, s) ==
  << [k |-> "idx", seq |-> s, f |-> "page", v |-> a.page],
     [k |-> "idx", seq |-> s, f |-> "off", v |-> a.off],
     [k |-> "idx", seq |-> s, f |-> "len", v |-> len],
     [k |-> "meta", f |-> "app", v |-> s] >>

\* NewConsumerGroup: does the group have stored positions?  (the code: the meta page file exists)
HasMeta(g) == IF MetaByPage THEN g \in DOMAIN gd ELSE g \in gdir
\* what is read from the group's meta page (a page file that is created by this very call is zero-filled)
StoredPos(g) == IF g \in DOMAIN gd THEN gd[g] ELSE [cons |-> 0, ack |-> 0]
\* positions read from the page, acknowledged raised to the queue-wide position qa, consumed raised with it
Clamped(p, qa) ==
  LET a == Max2(p.ack, qa)
      c == IF ClampConsumed /\ p.cons < a THEN a ELSE p.cons
  IN [cons |-> c, ack |-> a]
GroupLoad(g) == Clamped(StoredPos(g), mAck)   \* NewConsumerGroup on a group with stored positions
FreshPos == [cons |-> -1, ack |-> -1]        \* ... and on a group without: it starts before the first message

GroupStores(g, c, a) == << [k |-> "g", g |-> g, f |-> "cons", v |-> c],
                           [k |-> "g", g |-> g, f |-> "ack", v |-> a] >>

MinAck == Min({mApp} \cup {gm[g].ack : g \in DOMAIN gm})

\* value a thread's Get(s) returns
GetRes(s) ==
  IF s > mApp \/ s <= mAck THEN -2          \* ErrOutOfSequenceRange
  ELSE LET e == IdxAt(s) IN
       IF e.page \notin dpages THEN -3         \* ErrMsgNotFound
       ELSE ReadAt(e.page, e.off, e.len)

\* ------------------------------------------------------------------ actions
\* `ops` holds the calls that still have stores to perform; `res` remembers what the last
\* completed call of a thread returned (output only, hidden by the model-checking VIEW).
Quiet == DOMAIN ops = {}

Op(name, args, todo, later, eff, r) ==
  [name |-> name, args |-> args, todo |-> todo, later |-> later, eff |-> eff, res |-> r]

ApplyEff(e) ==
  CASE e.k = "none"  -> UNCHANGED <<mApp, mAck, gm, truth>>
    [] e.k = "put"   -> mApp' = e.seq /\ truth' = Put1(truth, e.seq, e.id) /\ UNCHANGED <<mAck, gm>>
    [] e.k = "gcons" -> gm' = [gm EXCEPT ![e.g].cons = e.v] /\ UNCHANGED <<mApp, mAck, truth>>
    [] e.k = "gack"  -> gm' = [gm EXCEPT ![e.g].ack = e.v] /\ UNCHANGED <<mApp, mAck, truth>>
    [] e.k = "qack"  -> mAck' = e.v /\ UNCHANGED <<mApp, gm, truth>>
    [] e.k = "gopen" -> gm' = Put1(gm, e.g, [cons |-> e.cons, ack |-> e.ack]) /\ UNCHANGED <<mApp, mAck, truth>>
    [] e.k = "gstop" -> gm' = Del1(gm, e.g) /\ UNCHANGED <<mApp, mAck, truth>>
    [] e.k = "reset" -> /\ mApp' = e.v /\ mAck' = e.v
                        /\ gm' = [g \in DOMAIN gm |-> [cons |-> e.v, ack |-> e.v]]
                        /\ UNCHANGED truth

\* a call begins: without stores it takes effect at once, otherwise it becomes in flight
Begin(t, op) ==
  IF op.todo = << >> /\ op.later = {} /\ op.name # "PutAlloc"
    THEN /\ ApplyEff(op.eff) /\ res' = Put1(res, t, op.res) /\ UNCHANGED ops
    ELSE /\ ops' = Put1(ops, t, op) /\ UNCHANGED <<mApp, mAck, gm, truth, res>>

\* -- Put ------------------------------------------------------------------
PutStart(t, len, id) ==
  /\ open /\ t \notin DOMAIN ops /\ len <= PageSize
  /\ IF AtomicPut
       THEN /\ Quiet
            /\ LET a == AllocOf(len) IN
               Begin(t, Op("Put", [len |-> len, id |-> id],
                           PutAllocStores(len, id) \o PutPersistStores(a, len, mApp + 1), {},
                           [k |-> "put", seq |-> mApp + 1, id |-> id], mApp + 1))
       ELSE \* deviation: alloc under the lock, copy outside, publish later
            /\ \A u \in DOMAIN ops : ops[u].name = "PutAlloc"
            /\ Begin(t, Op("PutAlloc", [len |-> len, id |-> id, a |-> AllocOf(len)],
                           PutAllocStores(len, id), {}, NoEff, 0))
  /\ LET a == AllocOf(len) IN curPage' = a.page /\ curOff' = a.off + len
  /\ UNCHANGED <<durable, open>>

\* a Put that has to roll over and cannot get its new data page (open / truncate / mmap of the page file fails)
\* returns an error: no sequence is consumed, the write cursor and every stored byte stay as they were
PutFail(t, len) ==
  /\ open /\ Quiet /\ len <= PageSize
  /\ AllocOf(len).page \notin dpages
  /\ UNCHANGED vars

\* deviation only: persistMetaOfMessage of a Put whose copy is finished
PutPublish(t) ==
  /\ ~AtomicPut /\ t \in DOMAIN ops /\ ops[t].name = "PutAlloc" /\ ops[t].todo = << >>
  /\ \A u \in DOMAIN ops : ops[u].name = "PutAlloc"
  /\ LET o == ops[t] IN
     ops' = [ops EXCEPT ![t] = Op("Put", o.args, PutPersistStores(o.args.a, o.args.len, mApp + 1), {},
                                  [k |-> "put", seq |-> mApp + 1, id |-> o.args.id], mApp + 1)]
  /\ UNCHANGED <<durable, open, mApp, mAck, curPage, curOff, gm, truth, res>>

Rest == UNCHANGED <<durable, open, curPage, curOff>>

\* -- consumer groups -------------------------------------------------------
ConsumeStart(t, g) ==
  /\ open /\ Quiet /\ g \in DOMAIN gm
  /\ LET c == gm[g].cons + 1 IN
     IF c <= mApp
       THEN Begin(t, Op("Consume", [g |-> g], << [k |-> "g", g |-> g, f |-> "cons", v |-> c] >>, {},
                        [k |-> "gcons", g |-> g, v |-> c], c))
       ELSE Begin(t, Op("Consume", [g |-> g], << >>, {}, NoEff, -1))
  /\ Rest

AckStart(t, g, s) ==
  /\ open /\ Quiet /\ g \in DOMAIN gm
  /\ IF s >= gm[g].ack /\ s <= gm[g].cons
       THEN Begin(t, Op("Ack", [g |-> g, s |-> s], GroupStores(g, gm[g].cons, s), {},
                        [k |-> "gack", g |-> g, v |-> s], 0))
       ELSE Begin(t, Op("Ack", [g |-> g, s |-> s], << >>, {}, NoEff, 0))
  /\ Rest

SetConsumedStart(t, g, s) ==
  /\ open /\ Quiet /\ g \in DOMAIN gm
  /\ Begin(t, Op("SetConsumed", [g |-> g, s |-> s], << [k |-> "g", g |-> g, f |-> "cons", v |-> s] >>, {},
                 [k |-> "gcons", g |-> g, v |-> s], 0))
  /\ Rest

SetAckOp(name, args, s) ==
  IF s > mAck /\ s <= mApp
    THEN Op(name, args, << [k |-> "meta", f |-> "ack", v |-> s] >>, {}, [k |-> "qack", v |-> s], 0)
    ELSE Op(name, args, << >>, {}, NoEff, 0)

SetAckStart(t, s) ==
  /\ open /\ Quiet
  /\ Begin(t, SetAckOp("SetAck", [s |-> s], s))
  /\ Rest

SyncStart(t) ==
  /\ open /\ Quiet
  /\ IF DOMAIN gm = {} \/ MinAck < 0
       THEN Begin(t, Op("Sync", [x |-> 0], << >>, {}, NoEff, 0))
       ELSE Begin(t, SetAckOp("Sync", [x |-> 0], MinAck))
  /\ Rest

GCStart(t) ==
  /\ open /\ Quiet
  /\ LET p == IdxAt(mAck).page
         dead == IF mAck < 0 THEN {} ELSE {q \in dpages : q < p}
     IN Begin(t, Op("GC", [x |-> 0], << >>, {<< [k |-> "rmpage", page |-> q] >> : q \in dead}, NoEff, 0))
  /\ Rest

\* GetOrCreateConsumerGroup of a group that is not in the map.  The page factory makes the directory if it
\* is missing; a group WITHOUT a meta page file - brand new, or a directory left behind by a failed / killed
\* creation - is a fresh group; a group WITH one continues from its stored positions.
MkDirStores(g) == IF g \in gdir THEN << >> ELSE << [k |-> "mkgdir", g |-> g] >>
CreateGroupStart(t, g) ==
  /\ open /\ Quiet /\ g \notin DOMAIN gm
  /\ LET p == IF HasMeta(g) THEN GroupLoad(g) ELSE FreshPos
         st == IF g \in DOMAIN gd
                 THEN GroupStores(g, p.cons, p.ack)
                 ELSE MkDirStores(g) \o << [k |-> "mkgroup", g |-> g, cons |-> p.cons, ack |-> p.ack] >>
     IN Begin(t, Op("CreateGroup", [g |-> g], st, {},
                    [k |-> "gopen", g |-> g, cons |-> p.cons, ack |-> p.ack], 0))
  /\ Rest

\* ... whose meta page file cannot be created (open / truncate / mmap fails): the call returns the error, the
\* group is not in the map, nothing but the directory (made before the page is acquired) is left behind
CreateGroupFailStart(t, g) ==
  /\ open /\ Quiet /\ g \notin DOMAIN gm /\ g \notin DOMAIN gd
  /\ Begin(t, Op("CreateGroupFail", [g |-> g], MkDirStores(g), {}, NoEff, 0))
  /\ Rest

StopGroup(t, g) ==       \* no store: the group leaves the map, its meta stays on disk
  /\ open /\ Quiet /\ g \in DOMAIN gm
  /\ Begin(t, Op("StopGroup", [g |-> g], << >>, {}, [k |-> "gstop", g |-> g], 0))
  /\ Rest

\* FanOutQueue.SetAppendedSeq: the explicit index reset (queue first, then every group in map order)
\* Scope: C05/C06 hold "outside an explicit index reset".  A downward reset leaves stored positions
\* of stopped groups, the write cursor and stale index entries above the new appended sequence
\* (TLC finds GC removing a live page after reset-down + reopen + append); only the forward reset
\* (what a follower that is behind its leader does) is part of this module.
SetAppendedStart(t, s) ==
  /\ open /\ Quiet /\ s >= mApp
  \* ... and a forward jump lands on a position whose index entry was never written (a stale
  \* entry left by an earlier reset or kill would mislead the cursor and GC: outside C05/C06)
  /\ (s > mApp => \A x \in DOMAIN idx : x <= mApp)
  /\ Begin(t, Op("SetAppended", [s |-> s],
                 << [k |-> "meta", f |-> "app", v |-> s], [k |-> "meta", f |-> "ack", v |-> s] >>,
                 {GroupStores(g, s, s) : g \in DOMAIN gm},
                 [k |-> "reset", v |-> s], 0))
  /\ Rest

\* -- performing stores ------------------------------------------------------
\* thread t performs the next store of its call (st = that store)
DoStoreOf(t, st, rest, later2) ==
  /\ ApplyStore(st)
  /\ IF rest = << >> /\ later2 = {} /\ ops[t].name # "PutAlloc"
       THEN /\ ApplyEff(ops[t].eff) /\ ops' = Del1(ops, t) /\ res' = Put1(res, t, ops[t].res)
       ELSE /\ ops' = [ops EXCEPT ![t].todo = rest, ![t].later = later2]
            /\ UNCHANGED <<mApp, mAck, gm, truth, res>>
  /\ UNCHANGED <<open, curPage, curOff>>

DoStore(t) ==
  /\ t \in DOMAIN ops
  /\ \/ /\ ops[t].todo # << >>
        /\ DoStoreOf(t, Head(ops[t].todo), Tail(ops[t].todo), ops[t].later)
     \/ /\ ops[t].todo = << >> /\ ops[t].later # {}
        /\ \E sq \in ops[t].later : DoStoreOf(t, Head(sq), Tail(sq), ops[t].later \ {sq})

\* -- process death / close / reopen -------------------------------------------
\* Scope limit: a kill between the two meta stores of an explicit index reset (SetAppendedSeq)
\* leaves appended = s with the old acknowledged position, i.e. a range of sequences that were
\* never appended looks live.  C05/C06 quantify over crash points of appends, not of resets, so
\* Down is not enabled there (recorded as an observation in DESIGN.md).
Down ==     \* Close() and a kill leave the same durable state: every store already is in the mapping
  /\ open /\ open' = FALSE
  /\ ~\E t \in DOMAIN ops : ops[t].name = "SetAppended"
  /\ ops' = Empty /\ gm' = Empty
  /\ UNCHANGED <<durable, mApp, mAck, curPage, curOff, truth, res>>

\* NewFanOutQueue on the directory: sequences from the meta page, cursor from the last appended
\* entry, every group directory loaded - NewConsumerGroup per directory entry: a directory without
\* meta page file (kill / fault inside the creation) becomes a fresh group, its page file is made now.
\* (A kill inside this sequence leaves a state that the next Reopen treats the same way: the stores
\* only rewrite loaded values / create fresh pages.)
Reopen ==
  /\ ~open /\ open' = TRUE
  /\ mApp' = meta.app /\ mAck' = meta.ack
  /\ LET e == IdxAt(meta.app)
         p == IF meta.app = -1 THEN 0 ELSE e.page
     IN /\ curPage' = p
        /\ curOff' = IF meta.app = -1 THEN 0 ELSE e.off + e.len
        /\ dpages' = dpages \cup {p}
  /\ LET ld(g) == IF HasMeta(g) THEN Clamped(StoredPos(g), meta.ack) ELSE FreshPos
     IN /\ gm' = [g \in gdir |-> ld(g)]
        /\ gd' = [g \in gdir |-> ld(g)]
  /\ ops' = Empty
  /\ UNCHANGED <<idx, data, meta, gdir, truth, res>>

\* ------------------------------------------------------------------ properties
Live == {s \in DOMAIN truth : s > mAck /\ s <= mApp}

\* C05: every successfully appended, unacknowledged message reads back byte for byte
Readable == open => \A s \in (mAck + 1)..mApp : s \in DOMAIN truth /\ GetRes(s) = truth[s]
\* ... also on the durable image, i.e. after a kill at this very point
Resetting == \E t \in DOMAIN ops : ops[t].name = "SetAppended"
DurablyReadable ==
  ~Resetting =>
  \A s \in (meta.ack + 1)..meta.app :
     /\ s \in DOMAIN truth
     /\ LET e == IdxAt(s) IN e.page \in dpages /\ ReadAt(e.page, e.off, e.len) = truth[s]
\* C05: dense numbering (an append returns the successor of the previous appended sequence)
Dense == \A t \in DOMAIN ops : ops[t].name = "Put" => ops[t].res = mApp + 1
MemoryMatchesDisk == (open /\ Quiet) => (mApp = meta.app /\ mAck = meta.ack
                                        /\ \A g \in DOMAIN gm : g \in DOMAIN gd /\ gm[g] = gd[g])

\* a meta page file lives in its group's directory
GroupDirs == DOMAIN gd \subseteq gdir

\* C06
GroupOrder == (open /\ Quiet) => \A g \in DOMAIN gm : gm[g].ack <= gm[g].cons /\ gm[g].cons <= mApp
QAckBounds == mAck <= mApp /\ (~Resetting => meta.ack <= meta.app)
\* (A group created after the queue-wide position moved starts at -1 / its stored position and is
\* legitimately below it: the property speaks of the groups existing at the moment the position
\* moves, which is the action property QAckMovesBelowMin below.)

IsReset == (\E t \in DOMAIN ops : ops[t].name = "SetAppended") \/ (\E t \in DOMAIN ops' : ops'[t].name = "SetAppended")
\* the queue-wide acknowledged position only moves forward (outside an explicit reset) ...
QAckMonotone == [][IsReset \/ mAck' >= mAck]_vars
\* ... and, when it moves, not beyond the smallest acknowledged position of the existing groups
QAckMovesBelowMin == [][(mAck' # mAck /\ ~IsReset /\ open /\ open')
                          => (\A g \in DOMAIN gm : mAck' <= gm[g].ack) /\ mAck' <= mApp]_vars
=============================================================================
