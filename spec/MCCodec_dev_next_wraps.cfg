CONSTANTS
  W = 2
  B = 4
  Vals = {0, 1, 3}
  Starts = {5}
  MCMaxSlot = 7
  MaxSlots = 3
  MaxBlocks = 2
  MaxLoads = 2
  MaxProbes = 1
  Dev = {"next_wraps"}
  K = 3
  DbpLen = 3
  MaxSlot <- MCMaxSlot
SPECIFICATION MCSpec
VIEW View
INVARIANTS NoDivergence SlotReadsAgree CursorInRange
CHECK_DEADLOCK FALSE
