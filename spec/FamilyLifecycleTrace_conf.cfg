\* conformance only: histories with a writer held between GetOrCreateMemoryDatabase and AcquireWrite (needs the proposed hook tsdb.VerifGate; rows are lost there, see AtomicWrite)
CONSTANTS
  Leader = {1, 2}
  MaxRow = 60
  MaxObj = 6
  MaxDb = 60
  DoubleWindow = TRUE
  CloseLocksFirst = FALSE
  RetryFailed = FALSE
  ClosedRejects = FALSE
  AtomicWrite = FALSE
  AtomicEvict = FALSE
  UniqueStamp = TRUE
  EvictChecksRef = TRUE
  EvictChecksMem = TRUE
  CloseFlushes = TRUE
  AckFrozen = TRUE
SPECIFICATION TraceSpec
INVARIANTS TypeOK FlushShape
CONSTRAINT HighWater
POSTCONDITION TraceAccepted
CHECK_DEADLOCK FALSE
