"""Shared by C11 and C12 (module Query): model legs, the trace judge with deviation reporting, binding self-tests."""
import json
import os
import re

import vcore

MODULE, CFG, STRICT = "QueryTrace", "QueryTrace.cfg", "QueryTrace_strict.cfg"
T_ACTIONS = ["TReset", "TWrite", "TFlush", "TCompact", "TReopen", "TQuery"]

# named deviations of the specification (constants Dev* of spec/Query.tla) -> what a KNOWN-DEVIATION marker means
CLASS_TEXT = {
    "order": "last/first merged in processing order",
    "partial": "function applied to per-source partial aggregates",
    "multi": "several aggregates on one field merged into each other",
    "hide": "DataFamily.Filter drops the whole family on a not-found of its memory database / files",
    "window": "write-window end marker moves down: later slots invisible and dropped at flush",
    "emptyseries": "series without any value listed",
    "likestar": "like '*' answered with slice bounds error",
    "compute": ">= 2 compute nodes: query never answers",
    "swallow": "error response before the root's completion is erased",
}


def model_legs(ctx, prop, thorough):
    """Leg M: the reference's algebra (Engine = Naive under every placement) and the code's named deviations."""
    if prop == "C11":
        ctx.model_check("MCQuery", "MCQuery_thorough.cfg" if thorough else "MCQuery_quick.cfg", timeout=3000)
        ctx.model_check("MCQuery", "MCQuery_families.cfg", timeout=900, coverage=thorough)
        if thorough:
            # three slots inside one write window (the end marker must keep the maximum) and one beyond it
            ctx.model_check("MCQuery", "MCQuery_window.cfg", timeout=1800)
        devs = ("partial", "order", "window", "hide")
    else:
        # series routed to two shards: the sources of several shards / leaves merged by the function's aggregate
        ctx.model_check("MCQuery", "MCQuery_shards_thorough.cfg" if thorough else "MCQuery_shards.cfg", timeout=3000)
        # the root's response handling: every answer-kind assignment x delivery order x position of its own completion
        ctx.model_check("MCQuery", "MCQuery_layout.cfg", timeout=300, coverage=thorough)
        # ... is sensitive to the not-found tolerance (one tolerated not-found instead of one per target)
        ctx.model_check("MCQuery", "MCQuery_layout_dev.cfg", expect="violation", timeout=300)
        # a leaf's error must never be lost: holds when the root's completion keeps an earlier error, fails with the code's
        # overwrite (known finding C12-K9 re-confirmed in the model)
        ctx.model_check("MCQuery", "MCQuery_layout_intended.cfg", timeout=300)
        ctx.model_check("MCQuery", "MCQuery_layout_dev_erase.cfg", expect="violation", timeout=300)
        devs = ("partial", "order")
    # each named deviation of the code, switched on alone, must break placement independence in the model
    for dev in devs:
        ctx.model_check("MCQuery", "MCQuery_dev_%s.cfg" % dev, expect="violation", timeout=600)


def _event(line):
    try:
        return json.loads(line)
    except ValueError:
        return {}


def shape(ev):
    """Query shape for signatures / samples (not an oracle: only what was asked)."""
    q = ev.get("q", {})
    items = ",".join((i["fn"] + "(" + i["f"] + ")") if i["fn"] else i["f"] for i in q.get("items", []))
    lay = ev.get("lay", {})
    return "items=%s group=%s qiv=%s leaves=%s computes=%s" % (
        items, "+".join(q.get("group", [])) or "-", q.get("qiv"), lay.get("leaves"), lay.get("computes"))


def judge(ctx, trace_path, max_rejections=8, timeout=1800):
    """Leg T with TLC as judge.  Every Query event is judged on its own: an answer the reference rejects but a
    named deviation (allowed by the cfg) explains is reported through ctx.violation with the deviation's class in
    the signature (-> KNOWN-FINDING if known_findings.json lists it, VIOLATION otherwise); an answer nothing
    explains stops its sub-trace and is a VIOLATION.  Returns (accepted sub-traces, stats)."""
    lines = vcore.read_lines(trace_path)
    traces = vcore.split_traces(lines)
    stats = {"queries": sum(1 for ln in lines if '"ev":"Query"' in ln), "clean": 0, "by_class": {}, "rejected": 0,
             "events": len(lines), "subtraces": len(traces), "marked": []}
    deviating = 0
    unknown = {}
    accepted = 0
    rejected = 0
    rounds = 0
    while traces:
        rounds += 1
        cur = os.path.join(ctx.scratch, "judge-%s-%d.ndjson" % (os.path.basename(trace_path), rounds))
        flat = [ln for t in traces for ln in t]
        with open(cur, "w") as f:
            f.write("".join(flat))
        res = ctx.tlc(MODULE, CFG, workers=1, files={"trace.ndjson": cur}, timeout=timeout)
        ctx.legs.append(dict({"leg": "T", "module": MODULE, "cfg": CFG, "label": os.path.basename(trace_path)}, **res.brief()))
        if res.kind in ("error", "timeout", "invariant", "liveness"):
            print(res.out[-3000:])
            raise vcore.Unresolved("TLC %s judging %s" % (res.kind, trace_path))
        hw = res.highwater if res.kind == "rejected" else len(flat) + 1
        if res.kind == "rejected" and not hw:
            raise vcore.Unresolved("trace rejected but no line reported")
        # deviations reported for the consumed part
        seen = set()
        for m in re.finditer(r'<<"KNOWN-DEVIATION", (\d+), \{([^}]*)\}>>', res.out):
            ln = int(m.group(1))
            if ln in seen or ln >= hw:
                continue
            seen.add(ln)
            ev = _event(flat[ln - 1])
            stats["marked"].append(ev.get("n"))
            classes = sorted(c.strip().strip('"') for c in m.group(2).split(","))
            deviating += 1
            # the sub-trace up to that line is the replay
            start = ln - 1
            while start > 0 and '"ev":"Reset"' not in flat[start]:
                start -= 1
            for c in classes:
                stats["by_class"][c] = stats["by_class"].get(c, 0) + 1
                if unknown.get(c, 0) >= 3:
                    continue  # already reported three times as a violation (not a known finding)
                if ctx.violation("%s:deviation:%s" % (MODULE, c),
                              "answer explained only by the named deviation %s (%s): %s -> %s" % (
                                  c, CLASS_TEXT.get(c, "?"), ev.get("sql", shape(ev)), json.dumps(ev.get("res"))[:300]),
                              replay_lines=flat[start:ln]):
                    unknown[c] = unknown.get(c, 0) + 1
        if res.kind == "ok":
            accepted += len(traces)
            break
        # locate the rejected sub-trace
        n = 0
        idx = len(traces) - 1
        for i, t in enumerate(traces):
            if n < hw <= n + len(t):
                idx = i
                break
            n += len(t)
        else:
            n = sum(len(t) for t in traces[:-1])
        bad = traces[idx]
        rel = hw - n
        ev = _event(bad[min(rel, len(bad)) - 1])
        accepted += idx
        rejected += 1
        stats["rejected"] += 1
        sig = "%s:rejected:%s" % (MODULE, ev.get("ev"))
        if ev.get("ev") == "Query":
            sig += ":" + shape(ev)
            # a query that ran while a flush of the queried family was in progress (known finding C11-K8: the family
            # hands out the new file AND the not yet dropped memory database between the two steps of the flush)
            if ev.get("window") == "after-commit":
                sig += ":flush-commit-window"
            elif ev.get("conc"):
                sig += ":concurrent-with-flush"
        stats["marked"].append(ev.get("n"))
        ctx.violation(sig, "no reference answer and no named deviation explains line %d of the sub-trace: %s -> %s" % (
            rel, ev.get("sql", ""), json.dumps(ev.get("res", ev))[:400]), replay_lines=bad[: rel])
        traces = traces[idx + 1:]
        if rejected >= max_rejections:
            ctx.log("too many rejected sub-traces; stopping")
            break
    stats["clean"] = stats["queries"] - deviating - stats["rejected"]
    marked = stats.pop("marked")
    stats["deviating"] = deviating
    stats["accepted_subtraces"] = accepted
    ctx.traces += accepted
    return accepted, stats, marked


def clean_prefix(ctx, trace_path, marked, want):
    """The longest prefix of a sub-trace that contains no deviating answer (so that the strict configuration, which
    allows no deviation, accepts it) and satisfies want -- the subject of the binding self-tests."""
    marked = set(marked)
    best = None
    for t in vcore.split_traces(vcore.read_lines(trace_path)):
        cut = len(t)
        for i, ln in enumerate(t):
            if _event(ln).get("n") in marked:
                cut = i
                break
        pre = t[:cut]
        if want(pre) and (best is None or len(pre) > len(best)):
            best = pre
    if best is None:
        return None
    out = os.path.join(ctx.scratch, "strict-accepted-%d.ndjson" % len(ctx.legs))
    with open(out, "w") as f:
        f.write("".join(best))
    res = ctx.tlc(MODULE, STRICT, workers=1, files={"trace.ndjson": out}, count=False)
    if res.kind != "ok":
        raise vcore.Unresolved("a prefix without deviating answers is not accepted by the strict configuration (%s)" % res.kind)
    return out


def mutate_query(fn, pred=None):
    """Mutation of the first Query event (for which pred holds) by fn(event dict)."""
    def m(lines):
        for i, ln in enumerate(lines):
            if '"ev":"Query"' in ln:
                d = json.loads(ln)
                if pred and not pred(d):
                    continue
                fn(d)
                out = list(lines)
                out[i] = json.dumps(d, separators=(",", ":")) + "\n"
                return out
        return None
    return m


def mutate_event(evname, fn, pred=None):
    def m(lines):
        for i, ln in enumerate(lines):
            if ('"ev":"%s"' % evname) in ln:
                d = json.loads(ln)
                if pred and not pred(d):
                    continue
                fn(d)
                out = list(lines)
                out[i] = json.dumps(d, separators=(",", ":")) + "\n"
                return out
        return None
    return m


def has_cells(d):
    return d["res"].get("ok") and len(d["res"].get("cells", [])) > 1


def selftests(ctx, trace_path, marked, thorough, extra=(), want_extra=None):
    """Binding self-tests: corrupted copies of a strictly accepted sub-trace must be rejected (each corrupts a
    different kind of real output / logged input)."""
    src = clean_prefix(ctx, trace_path, marked,
                       want=lambda t: sum(1 for ln in t if '"ev":"Query"' in ln and '"cells":[[' in ln) >= 2
                       and any('"ev":"Flush"' in ln and '"files":[[' in ln for ln in t)
                       and (want_extra is None or want_extra(t)))
    if not src:
        raise vcore.Unresolved("no sub-trace without deviations for the binding self-tests")

    def bump_value(d):
        d["res"]["cells"][0][3] += 1000

    def drop_cell(d):
        d["res"]["cells"].pop()

    def shift_start(d):
        d["res"]["start"] += d["res"]["iv"]

    def extra_series(d):
        d["res"]["series"].append(["zz"] * max(1, len(d["q"]["group"])))

    def move_cell(d):
        d["res"]["cells"][0][2] += d["res"]["iv"] * 7

    def more_files(d):
        d["files"][0][2] += 1

    def other_points(lines):
        out, hit = [], False
        for ln in lines:
            if '"ev":"Write"' in ln:
                d = json.loads(ln)
                for pt in d["pts"]:
                    pt[5] += 500
                ln = json.dumps(d, separators=(",", ":")) + "\n"
                hit = True
            out.append(ln)
        return out if hit else None

    tests = [
        (mutate_query(bump_value, has_cells), "a result value + 1000", CFG),
        (mutate_query(drop_cell, has_cells), "a result cell disappears", STRICT),
        (mutate_query(shift_start, has_cells), "the planned range starts one interval later", CFG),
        (mutate_query(extra_series, has_cells), "an unknown series is listed", CFG),
        (mutate_query(move_cell, has_cells), "a result cell moves to another time slot", STRICT),
        (mutate_event("Flush", more_files, lambda d: len(d["files"]) > 0), "the family reports one more level-0 file than the model has", CFG),
        (other_points, "the written values differ from what the answers are made of", STRICT),
    ]
    for mut, what, cfg in (tests if thorough else tests[:1] + tests[3:6]) + list(extra):
        vcore.corrupt_selftest(ctx, MODULE, cfg, src, mut, what)
    return src


def coverage(ctx, paths, need=None):
    """Every trace action must have been taken over the batch (no vacuous binding)."""
    need = need or T_ACTIONS
    both = os.path.join(ctx.scratch, "query-cover.ndjson")
    kinds = set()
    with open(both, "w") as f:
        for p in paths:
            # as many sub-traces as it takes to see every event kind (at least two)
            for k, t in enumerate(vcore.split_traces(vcore.read_lines(p))):
                if k >= 2 and len(kinds) >= len(need):
                    break
                kinds |= set(_event(ln).get("ev") for ln in t)
                f.write("".join(t))
    res = ctx.tlc(MODULE, CFG, workers=1, files={"trace.ndjson": both}, coverage=True, count=False, timeout=1800)
    taken = {}
    for k, v in res.coverage.items():
        name = k.split("@")[0]
        if name in T_ACTIONS:
            taken[name] = max(taken.get(name, 0), v)
    ctx.extra["trace_action_coverage"] = taken
    missing = [a for a in need if not taken.get(a)]
    if res.kind not in ("ok", "rejected") or missing:
        raise vcore.Unresolved("vacuous binding: trace actions never taken: %s (tlc %s)" % (missing, res.kind))


def run_driver(ctx, mode, label, args):
    tr = os.path.join(ctx.scratch, "query-%s.ndjson" % label)
    scr = os.path.join(ctx.scratch, "scr-%s" % label)
    os.makedirs(scr, exist_ok=True)
    summ, rc, out = ctx.run_vdrive(["query", "--mode", mode, "--seed", ctx.seed, "--out", tr, "--scratch", scr] + args,
                                   timeout=3000)
    for u in summ["unresolved"]:
        raise vcore.Unresolved("query driver: %s" % u)
    ctx.extra.setdefault("events_by_kind", {})
    for k, v in summ["extra"]["events_by_kind"].items():
        ctx.extra["events_by_kind"][k] = ctx.extra["events_by_kind"].get(k, 0) + v
    # the leaves of the layouts were planned by the real broker state manager (event Plan) and none of its plans was foreign
    # to its layout without the specification saying so (a foreign plan is a rejected Plan event, never silence)
    if mode != "probe2" and not summ["extra"]["events_by_kind"].get("Plan"):
        raise vcore.Unresolved("the query driver (%s) never asked the broker state manager for a plan" % mode)
    return tr


def samples(ctx, trace_path, n=3):
    k = 0
    for ln in vcore.read_lines(trace_path):
        if '"ev":"Query"' in ln and '"cells":[[' in ln:
            d = json.loads(ln)
            ctx.sample({"sql": d["sql"], "layout": d["lay"], "answer": {"start": d["res"]["start"], "iv": d["res"]["iv"],
                        "series": d["res"]["series"][:4], "cells": d["res"]["cells"][:6]}})
            k += 1
            if k >= n:
                break


ASSUMPTIONS = [
    "TZ=UTC; one stored interval (10 s, hour families), values are integral float64 so that aggregation is exact",
    "the supported query shape: select of bare fields / sum, min, max, last, first calls allowed by field.Type.IsFuncSupported, "
    "absolute time range, optional group by tag keys and time(n s), tag conditions =, !=, in, not in, like (prefix/suffix/contains), and/or, limit above the series count; "
    "rate, quantile, stddev, arithmetic between items, order by, having and histograms are not claimed",
    "last/first over a group of several series: the reference admits the value of any member series",
    "the query path runs in one process: real query.MetricDataSearch -> loopback transport -> real leaf (and intermediate) task processors -> real tsdb.Engine; "
    "the harness supplies TaskManager, TransportManager, NodeChoose/GetDatabaseCfg and the server streams",
]
