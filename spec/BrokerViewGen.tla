---------------------------- MODULE BrokerViewGen ----------------------------
(* Leg R of the extension module BrokerView: orders of the three watchers'    *)
(* events chosen by TLC (-simulate); one word per step in `script`;           *)
(* `vdrive brokerview --scripts` executes them against the real state manager *)
(* and channel manager, BrokerViewTrace validates.                            *)
EXTENDS MCBrokerView
VARIABLES script, kind
gvars == <<mcvars, script, kind>>
L(s) == script' = Append(script, s) /\ kind' = "none"
LiveWord(Lv) == IF Lv = {} THEN "-" ELSE IF Lv = {1} THEN "1" ELSE IF Lv = {2} THEN "2" ELSE "12"
Cnt(s, db) == IF db \in DOMAIN s.shards THEN Cardinality(DOMAIN s.shards[db]) ELSE 0
PubWord(s) == "publish:" \o LiveWord(s.live) \o ":" \o ToString(Cnt(s, "d1")) \o ":" \o ToString(Cnt(s, "d2"))
Kinds == (IF pendD # << >> THEN {"pd", "pd2"} ELSE {}) \cup (IF pendN # << >> THEN {"pn"} ELSE {})
         \cup (IF pendS # << >> THEN {"ps", "ps2"} ELSE {})
         \cup (IF ndb < MaxDbEv THEN {"db", "db2"} ELSE {}) \cup (IF nnode < MaxNodeEv THEN {"node"} ELSE {})
         \cup (IF npub < MaxPub THEN {"pub", "pub2"} ELSE {})
GInit == MCInit /\ script = <<>> /\ kind = "none"
Choose == kind = "none" /\ kind' \in Kinds /\ UNCHANGED <<mcvars, script>>
GNext ==
  \/ Choose
  \/ kind \in {"db", "db2"} /\ \E db \in Db : \/ PutDb(db) /\ ndb' = ndb + 1 /\ UNCHANGED <<npub, nnode>> /\ L("putdb:" \o db)
                                              \/ DropDb(db) /\ ndb' = ndb + 1 /\ UNCHANGED <<npub, nnode>> /\ L("dropdb:" \o db)
  \/ kind = "node" /\ \E b \in Broker : \/ BrokerUp(b) /\ nnode' = nnode + 1 /\ UNCHANGED <<npub, ndb>> /\ L("brokerup:" \o ToString(b))
                                        \/ BrokerDown(b) /\ nnode' = nnode + 1 /\ UNCHANGED <<npub, ndb>> /\ L("brokerdown:" \o ToString(b))
  \/ kind \in {"pub", "pub2"} /\ \E s \in PubStates : Publish(s) /\ npub' = npub + 1 /\ UNCHANGED <<ndb, nnode>> /\ L(PubWord(s))
  \/ kind \in {"pd", "pd2"} /\ ProcDb /\ UNCHANGED <<npub, ndb, nnode>> /\ L("proc:D")
  \/ kind = "pn" /\ ProcNode /\ UNCHANGED <<npub, ndb, nnode>> /\ L("proc:N")
  \/ kind \in {"ps", "ps2"} /\ (\E done \in SUBSET Db : ProcState(done)) /\ UNCHANGED <<npub, ndb, nnode>> /\ L("proc:S")
GSpec == GInit /\ [][GNext]_gvars
=============================================================================
