CONSTANTS
  Node = {n1, n2}
  None = None
  K = 2
  ChCap = 2
  MaxRetry = 1
  RetryDup = FALSE
  StopDropsRetry = FALSE
  StickyNotify = TRUE
  StopChunkFirst = FALSE
  RetryOnTick = TRUE
  TimerPushUnguarded = FALSE
  CloseOnDrop = TRUE
  MaxRow = 4
  MaxFaults = 2
  MaxLeader = 2
  AllowStop = TRUE
  AllowCancel = TRUE
  AllowAbort = TRUE
  AllowTimer = TRUE
  FaultsOnlyBeforeStop = FALSE
SPECIFICATION MCSpec
SYMMETRY Sym
INVARIANTS StaleStreamSignalled
CHECK_DEADLOCK FALSE
