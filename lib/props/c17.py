"""C17 -- a parsed statement survives the wire unchanged (module StmtWire)."""
import json
import os
import re

import vcore

MODULE, CFG = "StmtWireTrace", "StmtWireTrace.cfg"
T_ACTIONS = ["TReset", "TParse", "TParseError", "TWire", "TPlanWire", "TExprWire", "TParseRef", "TParseBegin", "TParseEnd"]
# the add-only hook the scripted overlap histories need (harness/cmd/vdrive/stmtwire_overlap.go)
HOOK_FILE, HOOK_NAME = "sql/zz_verif.go", "VerifSetSQLParserFunc"


def _mutate(ev, fn, pred=None):
    """Mutation of the first event of kind ev (for which pred holds) by fn(dict)."""
    def m(lines):
        for i, ln in enumerate(lines):
            if ('"ev":"%s"' % ev) in ln:
                d = json.loads(ln)
                if pred and not pred(d):
                    continue
                fn(d)
                out = list(lines)
                out[i] = json.dumps(d, separators=(",", ":")) + "\n"
                return out
        return None
    return m


def _has_nil(v, top=True):
    if isinstance(v, dict):
        if v.get("k") == "nil":
            return True
        for k, c in v.items():
            if top and k in ("cond", "having") and isinstance(c, dict) and c.get("k") == "nil":
                continue
            if _has_nil(c, False):
                return True
    elif isinstance(v, list):
        return any(_has_nil(c, False) for c in v)
    return False


def _bump_limit(d):
    d["r"]["limit"] = d["r"]["limit"] + 1


def _hook_in_repo():
    try:
        return HOOK_NAME in open(os.path.join(vcore.REPO, HOOK_FILE)).read()
    except OSError:
        return False


def _swap_bin(d):
    d["b"]["l"], d["b"]["r"] = d["b"]["r"], d["b"]["l"]


def _is_bin(d):
    return d["a"].get("k") == "bin" and d["a"]["l"] != d["a"]["r"]


def run(ctx, replay):
    if replay:
        ok, info = ctx.validate_trace(MODULE, CFG, replay, dfs=False)
        if not ok:
            ctx.violation("StmtWire:replay", "replayed trace rejected: %s" % info, replay_src=replay)
        return
    thorough = ctx.tier == "thorough"
    # ---- leg M: the tagged envelope is lossless on every tree / statement of the bounded model
    ctx.model_check("MCStmtWire", "MCStmtWire_thorough.cfg" if thorough else "MCStmtWire.cfg", coverage=thorough, timeout=1800)
    # the limit of the design, stated in the model: an interval that is not whole seconds does not survive
    ctx.model_check("MCStmtWire", "MCStmtWire_subsecond.cfg", expect="violation", timeout=600)
    # overlapping parse calls: with a pooled lexer held until the call ends every call returns the statement of its own
    # text; a lexer put back before its token stream has been read does not (the model is sensitive to it)
    ctx.model_check("MCStmtWire", "MCStmtWire_calls.cfg", timeout=600)
    ctx.model_check("MCStmtWire", "MCStmtWire_dev_earlyrelease.cfg", expect="violation", timeout=600)

    # ---- leg T: real parser, real wire, judged by the specification
    tr = os.path.join(ctx.scratch, "stmtwire.ndjson")
    trn = os.path.join(ctx.scratch, "stmtwire-nil.ndjson")
    nstmt, ntree, depth, nilmax = (30000, 30000, 3, 6) if thorough else (4000, 4000, 2, 3)
    ntext, workers, iters = (24, 8, 40) if thorough else (12, 4, 30)
    summ, rc, _ = ctx.run_vdrive(["stmtwire", "--seed", ctx.seed, "--statements", nstmt, "--trees", ntree, "--depth", depth,
                                  "--out", tr, "--nilout", trn, "--nilmax", nilmax,
                                  "--texts", ntext, "--workers", workers, "--iters", iters], timeout=1800)
    for u in summ["unresolved"]:
        raise vcore.Unresolved("stmtwire driver: %s" % u)
    for s in summ["samples"][:4]:
        ctx.sample(s)
    ctx.extra["events"] = summ["events"]
    for k in ("events_by_kind", "parsed", "rejected_by_parser", "statements_with_missing_child", "concurrent", "overlap_hook", "overlap_windows"):
        ctx.extra[k] = summ["extra"][k]
    if not sum(c["overlapped"] for c in summ["extra"]["concurrent"]):
        raise vcore.Unresolved("no two parse calls of the concurrent leg overlapped: vacuous")
    if _hook_in_repo():
        if not summ["extra"]["overlap_hook"] or not summ["extra"]["overlap_windows"]:
            raise vcore.Unresolved("%s has %s but the driver ran no scripted overlap history (stmtwire_overlap.go missing from the harness?)" % (HOOK_FILE, HOOK_NAME))
    else:
        ctx.log("scripted overlap histories not run: hook %s (%s) not in %s; concurrent leg only" % (HOOK_NAME, HOOK_FILE, vcore.REPO))
    if summ["extra"]["parsed"] < nstmt // 2:
        raise vcore.Unresolved("the parser rejected most generated statements (%d of %d accepted): vacuous" % (summ["extra"]["parsed"], nstmt))

    def describe(sig, lines, rel, info):
        try:
            d = json.loads(lines[min(rel, len(lines)) - 1])
        except ValueError:
            return sig
        if d.get("ev") in ("ParseRef", "ParseBegin", "ParseEnd"):
            # which family of histories: concurrent (goroutines) or overlap (a call started inside another one)
            try:
                return "%s:%s" % (sig, json.loads(lines[0]).get("kind"))
            except ValueError:
                return sig
        if d.get("ev") in ("Wire", "PlanWire", "ExprWire") and _has_nil(d.get("a")):
            text = ""
            for ln in lines[:rel]:
                if '"ev":"Parse"' in ln:
                    text = json.loads(ln).get("text", "")
            t = re.sub(r"time\(\d+[a-zA-Z]\)|now\(\)-\d+[a-zA-Z]", "", text)
            t = re.sub(r"'[^']*'", "''", t)
            dur = re.search(r"(?<![\w.$@])\d+[smhdwMySHD](?![\w])", t) is not None
            return "%s:nilchild:%s" % (sig, "duration" if dur else "noduration")
        return sig

    vcore.validate_all(ctx, MODULE, CFG, tr, describe=describe, dfs=False, timeout=1800)

    # binding self-tests: each corrupts a different real output (of an accepted trace: the first one of each kind)
    clean = os.path.join(ctx.scratch, "stmtwire-clean.ndjson")
    seen = set()
    with open(clean, "w") as f:
        for t in vcore.split_traces(vcore.read_lines(ctx.accepted_path)):
            kind = json.loads(t[0]).get("kind")
            if kind not in seen:
                seen.add(kind)
                f.write("".join(t))
    tests = [
        (_mutate("ExprWire", _swap_bin, _is_bin), "the received tree has the operands of a binary expression swapped"),
        (_mutate("Wire", lambda d: d["b"]["order"][0].__setitem__("desc", not d["b"]["order"][0]["desc"]),
                 lambda d: d["a"].get("order")), "a received order-by item lost its direction"),
        (_mutate("ExprWire", lambda d: d["w"].__setitem__("funcType", d["w"]["funcType"] + 1),
                 lambda d: d["a"].get("k") == "call"), "the bytes carry another function type"),
        (_mutate("Parse", lambda d: d["a2"]["items"][0].__setitem__("alias", d["a2"]["items"][0]["alias"] + "x"),
                 lambda d: d["a"].get("items")), "the second parse yields another alias"),
        (_mutate("ParseEnd", _bump_limit, lambda d: d["r"].get("k") == "query"), "a call that overlapped others returned another limit"),
        (_mutate("Wire", lambda d: d["b"].__setitem__("having", {"k": "nil"}),
                 lambda d: d["a"].get("having", {"k": "nil"}) != {"k": "nil"}), "the received statement lost its having clause"),
        (_mutate("PlanWire", lambda d: d["b"].__setitem__("ratio", d["b"]["ratio"] + 1)), "the planned statement arrives with another interval ratio"),
        (_mutate("Wire", lambda d: d["b"]["cond"].__setitem__("val", d["b"]["cond"]["val"] + " "),
                 lambda d: d["a"].get("cond", {}).get("k") == "eq"), "a received tag filter value has a trailing blank"),
    ]
    for mut, what in (tests if thorough else tests[:5]):
        vcore.corrupt_selftest(ctx, MODULE, CFG, clean, mut, what)

    # statements the parser accepts although their tree has a missing child (one small trace each)
    nnil = len(vcore.split_traces(vcore.read_lines(trn))) if os.path.getsize(trn) else 0
    if nnil:
        vcore.validate_all(ctx, MODULE, CFG, trn, describe=describe, dfs=False, max_rejections=nnil + 1)

    # every trace action must have been taken (no vacuous binding)
    res = ctx.tlc(MODULE, CFG, workers=1, files={"trace.ndjson": clean}, coverage=True, count=False)
    taken = {}
    for k, v in res.coverage.items():
        name = k.split("@")[0]
        if name in T_ACTIONS:
            taken[name] = max(taken.get(name, 0), v)
    ctx.extra["trace_action_coverage"] = taken
    missing = [a for a in T_ACTIONS if not taken.get(a)]
    if res.kind != "ok" or missing:
        raise vcore.Unresolved("vacuous binding: trace actions never taken: %s (tlc %s)" % (missing, res.kind))
    ctx.assumptions += [
        "trees are compared through the harness projection (kind + fields of every node; nil and empty slices both project to the empty list, a float64 to its shortest round-trip decimal string)",
        "parse determinism is judged modulo the clock: when the text gives no absolute time range at both ends the range is excluded from the comparison",
        "overlapping parse calls: a seeded list of texts parsed by several goroutines at once (one P, two Ps with forced GC cycles, all Ps): which interleavings occur is up to the scheduler; the scripted form (a call started inside another call's window, every ordered pair of the list) needs the hook sql.VerifSetSQLParserFunc and runs only when /repo has it; a parse error is compared as `error`, not by its message",
        "statements come from a seeded generator over the query grammar (select / from / where / group by / fill / having / order by / limit, metadata statements), nesting bound 2 (quick) / 3 (thorough); expression trees are also built directly with every kind below every kind",
        "intervals are whole seconds (the grammar and the planner produce no other; the model shows that a sub-second interval would not survive)",
    ]
