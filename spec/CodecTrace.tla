----------------------------- MODULE CodecTrace -----------------------------
(* Trace validation of the real codecs (harness `vdrive codec`) against the   *)
(* reference of Codec.tla.  The driver runs seeded reuse histories of pooled  *)
(* and hand-reset encoder / decoder objects of pkg/encoding, pkg/compress and *)
(* pkg/stream, logs every input it feeds and every output the real code gives *)
(* back (bit patterns and byte strings interned to small integers), and TLC   *)
(* takes a step only if the logged outputs equal the reference.               *)
EXTENDS Codec, Json

Trace == ndJsonDeserialize("trace.ndjson")
VARIABLE l
tvars == <<vars, l>>
ASSUME TLCSet(1, 0)
Ev(e) == l <= Len(Trace) /\ Trace[l].ev = e /\ l' = l + 1
Line == Trace[l]

TraceInit == l = 1 /\ Init
TReset == Ev("Reset") /\ obj' = <<>> /\ blk' = <<>> /\ strm' = <<>> /\ bat' = <<>>

TEncGet == Ev("EncGet") /\ EncGet(Line.o, Line.start)
TEncReset == Ev("EncReset") /\ EncReset(Line.o, Line.start)
TEncAppend == Ev("EncAppend") /\ EncAppend(Line.o, Line.marks, Line.vals)
TEncEmit == Ev("EncEmit") /\ EncEmit(Line.o, Line.xs)
TEncBytes == Ev("EncBytes") /\ EncBytes(Line.o, Line.hdr, Line.b, Line.isnil)
TEncRelease == Ev("EncRelease") /\ Release(Line.o, "enc")
TDecGet == Ev("DecGet") /\ DecGet(Line.o)
TDecLoad == Ev("DecLoad") /\ DecLoad(Line.o, Line.b, Line.lo, Line.hi, Line.st, Line.en)
TDecSeq == Ev("DecSeq") /\ DecSeq(Line.o, Line.cnt, Line.marks, Line.vals, Line.ended, Line.err, Line.last)
TDecProbe == Ev("DecProbe") /\ DecProbe(Line.o, Line.slots, Line.oks, Line.vals)
TDecRelease == Ev("DecRelease") /\ Release(Line.o, "dec")
TStreamBytes == Ev("StreamBytes") /\ StreamBytes(Line.s, Line.lo, Line.hi, Line.fids, Line.fbs)
TStreamOpen == Ev("StreamOpen") /\ StreamOpen(Line.s, Line.o, Line.st, Line.en)
TStreamNext == Ev("StreamNext") /\ StreamNext(Line.s, Line.o, Line.i, Line.has, Line.fid)
TBatEnc == Ev("BatEnc") /\ BatEnc(Line.codec, Line.in, Line.b)
TBatDec == Ev("BatDec") /\ BatDec(Line.codec, Line.b, Line.out)
\* a decoder was given bytes nobody encoded (a damaged copy of chunk b): whatever it answered, nothing of the
\* model changes -- the decodes that follow on the same decoder are judged as before
TBatBad == Ev("BatBad") /\ <<Line.codec, Line.b>> \in DOMAIN bat /\ UNCHANGED vars
TFoEnc == Ev("FoEnc") /\ FoEnc(Line.in, Line.b, Line.len, Line.msize)
TFoDec == Ev("FoDec") /\ FoDec(Line.b, Line.err, Line.size, Line.width, Line.out, Line.tailin, Line.tailout, Line.oob)
TFoBlocks == Ev("FoBlocks") /\ FoBlocks(Line.b, Line.dlen, Line.idxs, Line.rngs)

TraceNext == TReset \/ TEncGet \/ TEncReset \/ TEncAppend \/ TEncEmit \/ TEncBytes \/ TEncRelease
             \/ TDecGet \/ TDecLoad \/ TDecSeq \/ TDecProbe \/ TDecRelease
             \/ TStreamBytes \/ TStreamOpen \/ TStreamNext
             \/ TBatEnc \/ TBatDec \/ TBatBad \/ TFoEnc \/ TFoDec \/ TFoBlocks
TraceSpec == TraceInit /\ [][TraceNext]_tvars

\* invariants of the reference state reached through the real history
LoadedBlocksKnown == \A o \in DOMAIN obj : (obj[o].k = "dec" /\ obj[o].ld) => obj[o].b \in DOMAIN blk
CursorsInRange == \A o \in DOMAIN obj : (obj[o].k = "dec" /\ obj[o].ld) =>
                     /\ obj[o].cur <= Len(blk[obj[o].b].marks)
                     /\ obj[o].vc = Ones(SubSeq(blk[obj[o].b].marks, 1, obj[o].cur))

HighWater == TLCSet(1, IF l > TLCGet(1) THEN l ELSE TLCGet(1))
TraceAccepted ==
  LET hw == TLCGet(1) IN
  IF hw = Len(Trace) + 1 THEN TRUE
  ELSE /\ PrintT(<<"TRACE-REJECTED-AT-LINE", hw>>)
       /\ FALSE
=============================================================================
