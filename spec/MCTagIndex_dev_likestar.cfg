CONSTANTS
  NK = 2
  Values <- V_a_ab
  ExtraLits <- L_none
  Metrics = {1}
  MaxSeries = 1
  CoreSize = "small"
  Ops = {}
  Canonical = TRUE
  UnanchoredRegex = FALSE
  ContainerSize = 65536
  Deviation_RegexScansLiteralPrefixOnly = FALSE
  Deviation_FamilyReadAllOrNothing = FALSE
  Deviation_LikeLoneStarPanics = TRUE
  Deviation_ForwardLutNotCumulative = FALSE
  Deviation_NotIgnoresKey = FALSE
SPECIFICATION MCSpec
INVARIANTS TypeOK SidOK FilterIsEval GroupByIsRef JudgeIsSharp
CHECK_DEADLOCK FALSE
