CONSTANTS
  MCTrees <- MCTreesQuick
  KeepFirstError = TRUE
  RecoverPerStage = TRUE
SPECIFICATION MCSpec
INVARIANTS AtMostOnce OnlyAfterAll OnlyAfterAllStrong ErrorReported ExactlyOnceAtEnd PendingSane
PROPERTY Terminates
CHECK_DEADLOCK FALSE
