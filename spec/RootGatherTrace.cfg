CONSTANTS
  CountAtSend = FALSE
SPECIFICATION TraceSpec
INVARIANTS CompleteAfterAll NoSilentError ErrorHasCause TimeoutOnlyIfMissing
CONSTRAINT HighWater
POSTCONDITION TraceAccepted
CHECK_DEADLOCK FALSE
