CONSTANTS
  Node = {1, 2}
  Db = {"d1", "d2"}
  Broker = {1}
  MaxShards = 2
  RenotifyOnDb = TRUE
  GrowRouting = FALSE
  DropChannel = TRUE
  MaxPub = 2
  MaxDbEv = 3
  MaxNodeEv = 1
SPECIFICATION MCSpec
INVARIANTS RoutingFollowsCount
CHECK_DEADLOCK FALSE
