\* the behaviour of the tree before the two C19 repairs: must violate the property
CONSTANTS
  MCTrees <- MCTreesQuick
  WithNextPanic = FALSE
  SuccessOnlyAtEnd = TRUE
  RegisterAtomic = TRUE
  KeepFirstError = FALSE
  RecoverPerStage = FALSE
  FirstErrorWins = TRUE
  ErrReadAtCompletion = TRUE
SPECIFICATION MCSpec
INVARIANTS AtMostOnce OnlyAfterAll ErrorReported CompletedOnce
PROPERTY Terminates
CHECK_DEADLOCK FALSE
