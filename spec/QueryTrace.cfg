CONSTANTS
  DevPartial = TRUE
  DevOrder = TRUE
  DevMulti = TRUE
  DevCompute = TRUE
  DevEmptySeries = TRUE
  DevHide = FALSE
  DevWindow = TRUE
  DevLikeStar = FALSE
  DevSwallow = TRUE
SPECIFICATION TraceSpec
CONSTRAINT HighWater
POSTCONDITION TraceAccepted
CHECK_DEADLOCK FALSE
