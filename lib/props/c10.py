"""C10 -- tag filtering through the index equals evaluating the predicate on every series (module TagIndex)."""
import json
import os

try:
    import vcore
except ImportError:  # run as a script (mkscript helper)
    import sys
    sys.path.insert(0, os.path.dirname(os.path.dirname(os.path.abspath(__file__))))
    import vcore

TRACE = "TagIndexTrace"
CFG = "TagIndexTrace.cfg"          # strict: every named deviation switched off = the reference
# recorded findings: universe mode -> (configuration with exactly that named deviation switched on, short name)
DEV = {
    "finding-like-star": ("TagIndexTrace_dev_likestar.cfg", "like-star"),
    "finding-regex-unanchored": ("TagIndexTrace_dev_regex.cfg", "regex-unanchored"),
    "finding-family-read": ("TagIndexTrace_dev_family.cfg", "family-read"),
    "finding-forward-lut": ("TagIndexTrace_dev_lut.cfg", "forward-lut"),
}
T_ACTIONS = ["TFlushIdxFail", "TFlushMetaFail", "TReset", "TWrite", "TPrepMeta", "TFlushMeta", "TCompactMeta", "TPrepIdx", "TFlushIdx", "TCompactIdx",
             "TReopen", "TRefresh", "TQuery", "TDict"]


def mode_of(lines):
    try:
        return json.loads(lines[0]).get("mode", "?")
    except (ValueError, IndexError):
        return "?"


def atom_kinds(c, out=None):
    out = set() if out is None else out
    if not isinstance(c, dict):
        return out
    if c.get("op") == "atom":
        out.add(("not-" if c.get("neg") else "") + c.get("kind", "?"))
    for k in ("l", "r"):
        if k in c:
            atom_kinds(c[k], out)
    return out


def make_describe(ctx):
    """Signature of a rejected sub-trace.  A sub-trace of a findings universe that the strict specification rejects
    is validated once more, whole, with exactly the named deviation of that universe switched on: accepted = the
    rejection is that recorded finding and nothing else."""
    def describe(sig, lines, rel, info):
        try:
            ev = json.loads(lines[min(rel, len(lines)) - 1])
        except ValueError:
            ev = {}
        mode = mode_of(lines)
        if ev.get("ev") == "Query":
            sig += ":%s:%s" % (ev.get("res"), "+".join(sorted(atom_kinds(ev.get("cond")))) or "nocond")
            if ev.get("g"):
                sig += ":groupby"
        if mode in DEV:
            cfg, name = DEV[mode]
            p = os.path.join(ctx.scratch, "dev-%d.ndjson" % len(ctx.legs))
            with open(p, "w") as f:
                f.write("".join(lines))
            ok, _ = ctx.validate_trace(TRACE, cfg, p, label="explained-by-%s" % name, dfs=False, timeout=1500)
            if ok:
                ctx.extra.setdefault("findings_reproduced", {}).setdefault(name, 0)
                ctx.extra["findings_reproduced"][name] += 1
                return "TagIndexTrace:rejected:Query:strict:only-named-deviation:%s" % name
            return sig + ":mode=%s:not-the-named-deviation" % mode
        return sig + ":mode=%s" % mode
    return describe


def mutate_query(fn, pred=None):
    def mutate(lines):
        for i, ln in enumerate(lines):
            if '"ev":"Query"' in ln:
                d = json.loads(ln)
                if pred and not pred(d):
                    continue
                if fn(d) is False:
                    continue
                out = list(lines)
                out[i] = json.dumps(d, separators=(",", ":")) + "\n"
                return out
        return None
    return mutate


def m_drop_group(d):
    d["groups"].pop()


def m_count(d):
    d["groups"][0][1] += 1


def m_value(d):
    # another value under the first grouping key (one nobody in the group has): index + 1000
    d["groups"][0][0][0] += 1000


def m_extra_group(d):
    d["groups"].append([[999] * len(d["g"]), 1])


def m_error(d):
    d["res"] = "error"
    d["groups"] = []


def m_dict_second_id(lines):
    """a listing of the tag value dictionary shows one value under a second id: must be rejected"""
    for i, ln in enumerate(lines):
        if '"ev":"Dict"' in ln:
            d = json.loads(ln)
            if d["entries"]:
                d["entries"].append([d["entries"][0][0], max(e[1] for e in d["entries"]) + 1])
                out = list(lines)
                out[i] = json.dumps(d, separators=(",", ":")) + "\n"
                return out
    return None


def m_dict_lost_value(lines):
    """a listing of the tag value dictionary misses a created value: must be rejected"""
    for i, ln in enumerate(lines):
        if '"ev":"Dict"' in ln:
            d = json.loads(ln)
            if d["entries"]:
                d["entries"].pop()
                out = list(lines)
                out[i] = json.dumps(d, separators=(",", ":")) + "\n"
                return out
    return None


def m_universe_lost_series(lines):
    """the universe loses its last written series although later answers still show it: must be rejected"""
    # (sanity of the Write binding: the judge really uses the logged universe)
    for i, ln in enumerate(lines):
        if '"ev":"Write"' in ln:
            d = json.loads(ln)
            if len(d["series"]) >= 2 and d["series"][-1][0] == 1 and any(d["series"][-1][1]):
                # make the last series of the batch lose all its tags
                d["series"][-1][1] = [0] * len(d["series"][-1][1])
                out = list(lines)
                out[i] = json.dumps(d, separators=(",", ":")) + "\n"
                return out
    return None


def pick_clean(path, per_mode=1, max_events=700, max_bytes=200000):
    """a few accepted sub-traces: one of every mode, plus whatever is needed to see every event kind
    (coverage / self-test input)"""
    seen = {}
    kinds = set()
    out = []
    for t in vcore.split_traces(vcore.read_lines(path)):
        if len(t) > max_events or sum(len(x) for x in t) > max_bytes:
            continue
        m = mode_of(t)
        evs = set()
        for ln in t:
            i = ln.find('"ev":"')
            if i >= 0:
                evs.add(ln[i + 6:ln.find('"', i + 6)])
        if seen.get(m, 0) < per_mode or not evs <= kinds:
            seen[m] = seen.get(m, 0) + 1
            kinds |= evs
            out.append(t)
    return out


def run(ctx, replay):
    if replay:
        ok, info = ctx.validate_trace(TRACE, CFG, replay, dfs=False)
        if not ok:
            ctx.violation("TagIndex:replay", "replayed trace rejected: %s" % info, replay_src=replay)
        return
    thorough = ctx.tier == "thorough"

    # ---- leg M: on the small universe the index-shaped evaluation equals the reference in every placement
    ctx.model_check("MCTagIndex", "MCTagIndex_thorough.cfg" if thorough else "MCTagIndex.cfg", timeout=1800)
    # ... and for every depth-2 condition over the larger value set (no placement action: reads are unions)
    ctx.model_check("MCTagIndex", "MCTagIndex_algebra_thorough.cfg" if thorough else "MCTagIndex_algebra.cfg", timeout=1800)
    if thorough:
        ctx.model_check("MCTagIndex", "MCTagIndex_depth2_thorough.cfg", timeout=1800)
    # sensitivity of the model + the recorded findings in the model: each named deviation breaks its invariant
    for cfg in ("MCTagIndex_dev_not.cfg", "MCTagIndex_dev_regex.cfg", "MCTagIndex_dev_lut.cfg",
                "MCTagIndex_dev_family.cfg", "MCTagIndex_dev_likestar.cfg"):
        ctx.model_check("MCTagIndex", cfg, expect="violation", timeout=600)

    # ---- leg T: the real engine answers through the real query path, TLC judges
    tr = os.path.join(ctx.scratch, "tagidx.ndjson")
    trf = os.path.join(ctx.scratch, "tagidx-findings.ndjson")
    scr = os.path.join(ctx.scratch, "scr-tagidx")
    os.makedirs(scr, exist_ok=True)
    if thorough:
        args = ["--small", 150, "--tour", 30, "--steps", 10, "--q", 4, "--big", 2, "--big-n", 70000, "--big-q", 3,
                "--enum-every", 1, "--enum-depth2", 30, "--enum-triples", 40, "--findings", 2, "--lut", "--window", 24, "--flushfail", 24, "--twins", 6]
    else:
        args = ["--small", 16, "--tour", 4, "--steps", 8, "--q", 4, "--big", 1, "--big-n", 3000, "--big-q", 4,
                "--enum-every", 13, "--enum-depth2", 20, "--findings", 2, "--lut", "--window", 4, "--flushfail", 4, "--twins", 2]
    summ, rc, _ = ctx.run_vdrive(["tagidx", "--seed", ctx.seed, "--out", tr, "--out-findings", trf, "--scratch", scr] + args,
                                 timeout=2400)
    for u in summ["unresolved"]:
        raise vcore.Unresolved("tagidx driver: %s" % u)
    for s in summ["samples"][:3]:
        ctx.sample(s)
    ctx.extra["events"] = summ["events"]
    ctx.extra["event_counts"] = summ["extra"].get("event_counts")
    ctx.extra["query_outcomes"] = summ["extra"].get("query_outcomes")
    ctx.extra["enum_universes"] = summ["extra"].get("enum_universes")
    qo = summ["extra"].get("query_outcomes") or {}
    ctx.extra["compactions_that_merged_files"] = {k.split(":")[1]: v for k, v in qo.items() if k.startswith("compactions-")}
    ctx.extra["query_outcomes"] = {k: v for k, v in qo.items() if not k.startswith("compactions-")}

    describe = make_describe(ctx)
    # (1) the main trace: everything must be the reference answer
    vcore.validate_all(ctx, TRACE, CFG, tr, describe=describe, dfs=False, timeout=2400)
    # (2) the universes that exercise recorded findings: judged strictly; a rejection that the named deviation alone
    #     explains is the recorded finding (known_findings.json), anything else is a violation
    nf = len(vcore.split_traces(vcore.read_lines(trf)))
    accf = vcore.validate_all(ctx, TRACE, CFG, trf, describe=describe, dfs=False, max_rejections=nf + 1, timeout=2400)
    ctx.extra["finding_universes"] = nf
    ctx.extra["finding_universes_answered_as_reference"] = accf

    ctx.assumptions += [
        "observation channel: every series writes the value 1 once per era into one sum field; a query `select f ... group by keys` returns per value tuple the number of selected series (group by a unique key identifies them); the data path is kept trivial (all points of the asked slot are in the memory database: after a reopen every series is re-written into the next slot and queries ask only that slot)",
        "pinned semantics (from the grammar and index/kv_store.go): negated atoms are true only for series that HAVE the key; like shapes are read off the ends of the pattern (lit*, *lit, *lit*, otherwise equality; '**' and a lone '*' = contains the empty string); and / or have one precedence level and associate to the left; group by drops the series that lack one of the grouping keys; an empty selection is an empty answer; unknown metrics / tag keys are errors and are not asked",
        "regular expressions are drawn from the structured class of SortedDict (alternations of literals, prefix / suffix / contains / exact, anchored or not, rendered for Go's regexp); tag values are valid UTF-8 without the single quote (a value containing ' cannot be written in a query: the lexer has no escape)",
        "index placements are forced through the exported FlushLifeCycle of MetaDB() / IndexDB() (PrepareFlush, Flush), Family.Compact and engine close / open, on one thread; 'being flushed' includes the commit of the flush: in the window universes the flushing goroutine itself asks / writes at the table-file seam of the kv layer (file of the flush complete, not yet committed, immutable generation still in memory), then asks for every entry that flush persisted and re-uses it in new series. Free-running queries racing a flush on other threads are C12 / C19, crash recovery of the dictionaries is C07 / C09",
        "flush faults (flushfail universes): the completion of the table file of ONE family of a flush fails (injected at the table-file seam, the environment's fault: disk full / i/o error at close); the stores flushed before it have committed, the failing store and the ones after it keep their immutable generation; questions right after the failure, new series, the retry, compaction, reopen",
        "a listing of the tag value dictionary of a key (Dict event, before every dictionary compaction and at the stops of the window universes) must be a function value -> id over exactly the created values; a history in which the driver itself sees a repeated value is not continued into a dictionary compaction (the merger panics on a background goroutine)",
        "the per-metric id of a series (bitmap position) is taken to be its creation order inside the metric; the specification checks that these ids are dense",
    ]

    # ---- binding self-tests: every trace action taken; corrupted answers are rejected
    if ctx.violations:
        ctx.log("violations reported: binding self-tests skipped (they need an accepted trace)")
        return
    clean = os.path.join(ctx.scratch, "tagidx-clean.ndjson")
    with open(clean, "w") as f:
        for t in pick_clean(tr):
            f.write("".join(t))
    res = ctx.tlc(TRACE, CFG, workers=1, files={"trace.ndjson": clean}, coverage=True, count=False)
    if res.kind != "ok":
        raise vcore.Unresolved("coverage run of the trace spec did not accept an accepted trace (%s)" % res.kind)
    taken = {}
    for k, v in res.coverage.items():
        name = k.split("@")[0]
        if name in T_ACTIONS and "@TagIndexTrace" in k:
            taken[name] = max(taken.get(name, 0), v)
    ctx.extra["trace_action_coverage"] = taken
    missing = [a for a in T_ACTIONS if not taken.get(a)]
    if missing:
        raise vcore.Unresolved("vacuous: trace actions never taken: %s" % missing)
    ctx.legs.append({"leg": "T-coverage", "module": TRACE, "taken": taken})
    nonempty = lambda d: d["res"] == "ok" and len(d["groups"]) >= 1
    grouped = lambda d: d["res"] == "ok" and len(d["groups"]) >= 1 and len(d["g"]) >= 1
    tests = [(mutate_query(m_drop_group, nonempty), "an answer loses one selected group"),
             (mutate_query(m_count, nonempty), "a group counts one series more"),
             (mutate_query(m_value, grouped), "group by returns another tag value"),
             (mutate_query(m_error, nonempty), "a query fails instead of answering"),
             (m_dict_second_id, "the dictionary lists a value under a second id")]
    if thorough:
        tests += [(mutate_query(m_extra_group, grouped), "an answer holds a group nobody belongs to"),
                  (m_dict_lost_value, "the dictionary listing misses a created value"),
                  (m_universe_lost_series, "a written series is logged without its tags")]
    for mut, what in tests:
        vcore.corrupt_selftest(ctx, TRACE, CFG, clean, mut, what)


# ---------------------------------------------------------------------- investigation helper
def mkscript(lines, extra_sql=()):
    """sub-trace (ndjson lines starting with a Reset) -> ops for `vdrive tagidx --script f.json`, which re-executes the
    history on a fresh real engine (tag strings rebuilt from the logged value tables) and prints the real answers"""
    ops, keys, vals = [], [], []
    for ln in lines:
        d = json.loads(ln)
        ev = d["ev"]
        if ev == "Reset":
            keys = [bytes(k).decode() for k in d["keys"]]
            vals = [[] for _ in keys]
        elif ev == "Write":
            for k, b in d["newvals"]:
                vals[k - 1].append(bytes(b).decode())
            other = {i: t for i, t in d.get("other", [])}
            ser, met = [], []
            for i, rec in enumerate(d["series"]):
                m, tags = rec[0], rec[1]
                if m == 1:
                    ser.append({keys[k]: vals[k][v - 1] for k, v in enumerate(tags) if v > 0})
                else:
                    ser.append({keys[k - 1]: bytes(b).decode() for k, b in other.get(i + 1, [])})
                met.append(["cpu", "mem"][m - 1])
            for i in range(d.get("filler", 0)):
                ser.append({"zfill": "f%d" % (d["fillsid"] + i)})
                met.append("cpu")
            ops.append({"op": "Write", "series": ser, "metric": met, "slot": d.get("slot", 1)})
        elif ev == "Query":
            ops.append({"op": "sql", "sql": d["sql"]})
        else:
            ops.append({"op": ev, "slot": d.get("slot", 0)})
    for q in extra_sql:
        ops.append({"op": "sql", "sql": q})
    return ops


if __name__ == "__main__":
    # python3 lib/props/c10.py mkscript <trace.ndjson> <line> <out.json> [extra sql ...]
    import sys
    if len(sys.argv) >= 5 and sys.argv[1] == "mkscript":
        L = open(sys.argv[2]).read().splitlines()
        line = int(sys.argv[3])
        s = line - 1
        while json.loads(L[s])["ev"] != "Reset":
            s -= 1
        with open(sys.argv[4], "w") as f:
            json.dump(mkscript(L[s:line], sys.argv[5:]), f, ensure_ascii=False)
    else:
        print(mkscript.__doc__)
