CONSTANTS
  Node = {1, 2}
  Db = {"d1", "d2"}
  Broker = {1, 2}
  MaxShards = 3
  RenotifyOnDb = FALSE
  GrowRouting = FALSE
  DropChannel = FALSE
  MaxPub = 8
  MaxDbEv = 8
  MaxNodeEv = 4
SPECIFICATION GSpec
CHECK_DEADLOCK FALSE
