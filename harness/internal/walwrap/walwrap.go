// Package walwrap wraps the memory-mapped page factory of lindb's pkg/queue so that every
// store into a page (and every page file creation / removal) is observed: it is emitted as
// a trace event at the moment it happened, appended to a store log from which the exact
// directory image after store k can be materialised (what a SIGKILL at that point leaves),
// and can act as a scheduler gate.
package walwrap

import (
	"bytes"
	"fmt"
	"os"
	"path/filepath"
	"runtime"
	"strconv"
	"strings"
	"sync"

	"github.com/cespare/xxhash/v2"

	"github.com/lindb/lindb/pkg/queue"
	"github.com/lindb/lindb/pkg/queue/page"

	"verif/harness/internal/trace"
)

const indexItemsPerPage = 1024 * 256

// StoreRec is one durable modification, in the order it happened.
type StoreRec struct {
	Rel   string // file path relative to the queue root
	Kind  string // "create", "write", "remove", "mkdir" (Rel = the directory of a consumer group)
	Size  int    // for create
	Off   int
	Bytes []byte
}

type PutInfo struct {
	Len, ID int
	Op      trace.F // a declared call other than Put (its Op event is emitted right before its first store)
	started bool
}

// World is the observation context of one queue directory.
type World struct {
	mu      sync.Mutex
	Root    string
	Rec     *trace.Recorder
	Log     []StoreRec
	Quiet   bool // suppress events (during open / recovery bookkeeping)
	interns map[uint64]int
	threads map[int64]string
	puts    map[int64]*PutInfo
	Gate    func(thread, label string) // optional scheduler gate, called before a data store
	// GateGroups: the gate is also called before every store into a consumer-group meta page
	GateGroups bool
	fresh      map[string]*freshMeta
	// OnStore is called (under the world lock) after every logged store, with its index in Log
	OnStore func(k int)
	// FailAcquire, when set, makes the acquisition of a page that does not exist yet fail (fault injection:
	// open / truncate / mmap of a new page file failed); called with the kind of the factory and the page index
	FailAcquire func(kind string, index int64) error
	Suppress    int // >0: do not emit trace events (still log stores)
}

type freshMeta struct {
	n    int
	vals [2]int64
}

func NewWorld(root string, rec *trace.Recorder) *World {
	return &World{Root: root, Rec: rec, interns: map[uint64]int{}, threads: map[int64]string{},
		puts: map[int64]*PutInfo{}, fresh: map[string]*freshMeta{}}
}

func gid() int64 {
	var buf [64]byte
	n := runtime.Stack(buf[:], false)
	f := strings.Fields(string(buf[:n]))
	id, _ := strconv.ParseInt(f[1], 10, 64)
	return id
}

// BindThread names the calling goroutine in events.
func (w *World) BindThread(name string) {
	w.mu.Lock()
	w.threads[gid()] = name
	w.mu.Unlock()
}

// CurrentPut declares the payload the calling goroutine is about to Put.
func (w *World) CurrentPut(length, id int) {
	w.mu.Lock()
	w.puts[gid()] = &PutInfo{Len: length, ID: id}
	w.mu.Unlock()
}

// CurrentOp declares the call the calling goroutine is about to make (consumer-group calls of concurrent
// histories): the Op event is emitted right before the first store of the call, i.e. inside its critical section.
func (w *World) CurrentOp(op trace.F) {
	w.mu.Lock()
	w.puts[gid()] = &PutInfo{Op: op}
	w.mu.Unlock()
}

// FinishOp ends the declared call; a call that made no store is announced now.
func (w *World) FinishOp() {
	w.mu.Lock()
	w.emitPutStartLocked()
	delete(w.puts, gid())
	w.mu.Unlock()
}

func (w *World) thread() string {
	if t, ok := w.threads[gid()]; ok {
		return t
	}
	return "main"
}

// Intern registers a payload under a small id (0 is the empty payload).
func (w *World) Intern(b []byte, id int) {
	w.mu.Lock()
	w.interns[xxhash.Sum64(b)] = id
	w.mu.Unlock()
}

// IDOf returns the id of a payload read back (-1 = unknown bytes).
func (w *World) IDOf(b []byte) int {
	if len(b) == 0 {
		return 0
	}
	w.mu.Lock()
	defer w.mu.Unlock()
	if id, ok := w.interns[xxhash.Sum64(b)]; ok {
		return id
	}
	return -1
}

// Install routes the queue's page factories through the wrapper; returns restore func.
func (w *World) Install() func() {
	return queue.VerifSetPageFactoryFunc(func(path string, pageSize int) (page.Factory, error) {
		return w.newFactory(path, pageSize)
	})
}

type factory struct {
	w     *World
	inner page.Factory
	path  string
	rel   string
	kind  string // data | index | meta | cg
	group string
	size  int
	mu    sync.Mutex
	known map[int64]bool
	wraps map[int64]*mpage
}

func (w *World) newFactory(path string, pageSize int) (page.Factory, error) {
	rel, err := filepath.Rel(w.Root, path)
	if err != nil {
		return nil, err
	}
	f := &factory{w: w, path: path, rel: rel, size: pageSize, known: map[int64]bool{}, wraps: map[int64]*mpage{}}
	switch {
	case rel == "data":
		f.kind = "data"
	case rel == "index":
		f.kind = "index"
	case rel == "meta":
		f.kind = "meta"
	case strings.HasPrefix(rel, "cg"+string(filepath.Separator)):
		f.kind = "cg"
		f.group = filepath.Base(rel)
	default:
		f.kind = "other"
	}
	// pages present before the factory loads them
	if ents, err := os.ReadDir(path); err == nil {
		for _, e := range ents {
			if i := strings.Index(e.Name(), ".bat"); i > 0 {
				if n, err := strconv.ParseInt(e.Name()[:i], 10, 64); err == nil {
					f.known[n] = true
				}
			}
		}
	}
	// the directory of a consumer group is made by the real factory constructor (MkDirIfNotExist) BEFORE any page of it
	// is acquired: "directory exists, meta page file does not" is a durable state of its own (a failed page
	// acquisition or a kill right here leaves it), so the mkdir is a logged, observable, imageable step
	_, statErr := os.Stat(path)
	dirMissing := f.kind == "cg" && os.IsNotExist(statErr)
	inner, err := page.NewFactory(path, pageSize)
	if err != nil {
		return nil, err
	}
	f.inner = inner
	if dirMissing {
		w.mu.Lock()
		w.Log = append(w.Log, StoreRec{Rel: rel, Kind: "mkdir"})
		if w.Suppress == 0 {
			w.emitPutStartLocked()
			w.Rec.Emit("Store", trace.F{"t": w.thread(), "k": "mkgdir", "g": f.group})
		}
		if w.OnStore != nil {
			w.OnStore(len(w.Log) - 1)
		}
		w.mu.Unlock()
	}
	return f, nil
}

func (f *factory) relFile(index int64) string {
	return filepath.Join(f.rel, fmt.Sprintf("%d.bat", index))
}

func (f *factory) wrap(index int64, p page.MappedPage) page.MappedPage {
	if mp, ok := f.wraps[index]; ok && mp.MappedPage == p {
		return mp
	}
	mp := &mpage{MappedPage: p, f: f, index: index}
	f.wraps[index] = mp
	return mp
}

func (f *factory) AcquirePage(index int64) (page.MappedPage, error) {
	f.mu.Lock()
	defer f.mu.Unlock()
	existed := f.known[index]
	if fa := f.w.FailAcquire; !existed && fa != nil {
		if _, ok := f.inner.GetPage(index); !ok {
			if err := fa(f.kind, index); err != nil {
				return nil, err
			}
		}
	}
	p, err := f.inner.AcquirePage(index)
	if err != nil {
		return nil, err
	}
	if !existed {
		f.known[index] = true
		w := f.w
		w.mu.Lock()
		w.Log = append(w.Log, StoreRec{Rel: f.relFile(index), Kind: "create", Size: f.size})
		switch f.kind {
		case "data":
			if w.Suppress == 0 {
				w.emitPutStartLocked()
				w.Rec.Emit("Store", trace.F{"t": w.thread(), "k": "mkpage", "page": index})
			}
		case "meta", "cg":
			// a new meta page: its file and its two first stores are one step of the model
			w.fresh[f.relFile(index)] = &freshMeta{}
		}
		if w.OnStore != nil {
			w.OnStore(len(w.Log) - 1)
		}
		w.mu.Unlock()
	}
	return f.wrap(index, p), nil
}

func (f *factory) GetPage(index int64) (page.MappedPage, bool) {
	f.mu.Lock()
	defer f.mu.Unlock()
	p, ok := f.inner.GetPage(index)
	if !ok {
		return nil, false
	}
	return f.wrap(index, p), true
}

func (f *factory) TruncatePages(index int64) {
	f.mu.Lock()
	defer f.mu.Unlock()
	f.inner.TruncatePages(index)
	for id := range f.known {
		if id < index {
			if _, err := os.Stat(filepath.Join(f.path, fmt.Sprintf("%d.bat", id))); os.IsNotExist(err) {
				delete(f.known, id)
				delete(f.wraps, id)
				w := f.w
				w.mu.Lock()
				w.Log = append(w.Log, StoreRec{Rel: f.relFile(id), Kind: "remove"})
				if f.kind == "data" && w.Suppress == 0 {
					w.Rec.Emit("Store", trace.F{"t": w.thread(), "k": "rmpage", "page": id})
				}
				if w.OnStore != nil {
					w.OnStore(len(w.Log) - 1)
				}
				w.mu.Unlock()
			}
		}
	}
}

func (f *factory) Size() int64  { return f.inner.Size() }
func (f *factory) Close() error { return f.inner.Close() }

type mpage struct {
	page.MappedPage
	f     *factory
	index int64
}

// emitPutStartLocked emits the Op event of a Put right before its first store.
func (w *World) emitPutStartLocked() {
	g := gid()
	if pi, ok := w.puts[g]; ok && !pi.started {
		pi.started = true
		if pi.Op != nil {
			f := trace.F{"t": w.thread()}
			for k, v := range pi.Op {
				f[k] = v
			}
			w.Rec.Emit("Op", f)
			return
		}
		w.Rec.Emit("Op", trace.F{"t": w.thread(), "op": "Put", "len": pi.Len, "id": pi.ID})
	}
}

func (p *mpage) store(off int, b []byte, ev func() (string, trace.F)) {
	w := p.f.w
	rel := p.f.relFile(p.index)
	w.mu.Lock()
	defer w.mu.Unlock()
	w.Log = append(w.Log, StoreRec{Rel: rel, Kind: "write", Off: off, Bytes: b})
	if fm, ok := w.fresh[rel]; ok {
		// absorb the two initial stores of a fresh meta page
		var v int64
		for i := 7; i >= 0; i-- {
			v = v<<8 | int64(b[i])
		}
		fm.vals[fm.n] = v
		fm.n++
		if fm.n == 2 {
			delete(w.fresh, rel)
			if p.f.kind == "cg" && w.Suppress == 0 {
				w.Rec.Emit("Store", trace.F{"t": w.thread(), "k": "mkgroup", "g": p.f.group, "cons": fm.vals[0], "ack": fm.vals[1]})
			}
		}
	} else if w.Suppress == 0 && ev != nil {
		k, f := ev()
		if k != "" {
			f["t"] = w.thread()
			f["k"] = k
			w.Rec.Emit("Store", f)
		}
	}
	if w.OnStore != nil {
		w.OnStore(len(w.Log) - 1)
	}
}

func (p *mpage) WriteBytes(data []byte, offset int) {
	w := p.f.w
	if p.f.kind == "data" && w.Gate != nil {
		w.mu.Lock()
		t := w.thread()
		w.mu.Unlock()
		w.Gate(t, "data-copy")
	}
	p.MappedPage.WriteBytes(data, offset)
	if p.f.kind != "data" {
		p.store(offset, append([]byte{}, data...), nil)
		return
	}
	id := w.IDOf(data)
	w.mu.Lock()
	if w.Suppress == 0 {
		w.emitPutStartLocked()
	}
	w.mu.Unlock()
	p.store(offset, data, func() (string, trace.F) {
		return "data", trace.F{"page": p.index, "off": offset, "len": len(data), "id": id}
	})
}

func le64(v uint64) []byte {
	b := make([]byte, 8)
	for i := 0; i < 8; i++ {
		b[i] = byte(v >> (8 * i))
	}
	return b
}

func (p *mpage) PutUint64(value uint64, offset int) {
	if w := p.f.w; p.f.kind == "cg" && w.GateGroups && w.Gate != nil {
		w.mu.Lock()
		t := w.thread()
		w.mu.Unlock()
		w.Gate(t, "group-store")
	}
	if w := p.f.w; p.f.kind == "cg" {
		w.mu.Lock()
		if w.Suppress == 0 {
			w.emitPutStartLocked()
		}
		w.mu.Unlock()
	}
	p.MappedPage.PutUint64(value, offset)
	p.store(offset, le64(value), func() (string, trace.F) {
		v := int64(value)
		switch p.f.kind {
		case "index":
			seq := p.index*indexItemsPerPage + int64(offset/16)
			if offset%16 == 0 {
				return "idx", trace.F{"seq": seq, "f": "page", "v": v}
			}
		case "meta":
			if offset == 0 {
				return "meta", trace.F{"f": "app", "v": v}
			}
			return "meta", trace.F{"f": "ack", "v": v}
		case "cg":
			if offset == 0 {
				return "g", trace.F{"g": p.f.group, "f": "cons", "v": v}
			}
			return "g", trace.F{"g": p.f.group, "f": "ack", "v": v}
		}
		return "other", trace.F{"rel": p.f.rel, "off": offset, "v": v}
	})
}

func (p *mpage) PutUint32(value uint32, offset int) {
	p.MappedPage.PutUint32(value, offset)
	p.store(offset, le64(uint64(value))[:4], func() (string, trace.F) {
		if p.f.kind == "index" {
			seq := p.index*indexItemsPerPage + int64(offset/16)
			switch offset % 16 {
			case 8:
				return "idx", trace.F{"seq": seq, "f": "off", "v": value}
			case 12:
				return "idx", trace.F{"seq": seq, "f": "len", "v": value}
			}
		}
		return "other", trace.F{"rel": p.f.rel, "off": offset, "v": value}
	})
}

func (p *mpage) PutUint8(value uint8, offset int) {
	p.MappedPage.PutUint8(value, offset)
	p.store(offset, []byte{value}, func() (string, trace.F) {
		return "other", trace.F{"rel": p.f.rel, "off": offset, "v": value}
	})
}

// Materialise writes the directory image after the first k stores of the log into dir.
func (w *World) Materialise(k int, dir string) error {
	w.mu.Lock()
	log := w.Log[:k]
	w.mu.Unlock()
	files := map[string]*os.File{}
	defer func() {
		for _, f := range files {
			f.Close()
		}
	}()
	for _, s := range log {
		full := filepath.Join(dir, s.Rel)
		switch s.Kind {
		case "mkdir":
			if err := os.MkdirAll(full, 0o755); err != nil {
				return err
			}
		case "create":
			if err := os.MkdirAll(filepath.Dir(full), 0o755); err != nil {
				return err
			}
			f, err := os.OpenFile(full, os.O_CREATE|os.O_RDWR|os.O_TRUNC, 0o644)
			if err != nil {
				return err
			}
			if err := f.Truncate(int64(s.Size)); err != nil {
				return err
			}
			files[s.Rel] = f
		case "write":
			f := files[s.Rel]
			if f == nil {
				return fmt.Errorf("write to unknown file %s", s.Rel)
			}
			if _, err := f.WriteAt(s.Bytes, int64(s.Off)); err != nil {
				return err
			}
		case "remove":
			if f := files[s.Rel]; f != nil {
				f.Close()
				delete(files, s.Rel)
			}
			_ = os.Remove(full)
		}
	}
	// directories that exist even without files
	for _, d := range []string{"data", "index", "meta", "cg"} {
		_ = os.MkdirAll(filepath.Join(dir, d), 0o755)
	}
	return nil
}

// SeedLog makes a new world's store log start from an existing log (for recovery worlds).
func (w *World) SeedLog(log []StoreRec) {
	w.mu.Lock()
	w.Log = append([]StoreRec{}, log...)
	w.mu.Unlock()
}

var _ = bytes.Equal

// FreshPending reports whether a new meta page is between its creation and its first two stores.
// Must be called from OnStore (world lock held).
func (w *World) FreshPending() bool { return len(w.fresh) > 0 }

// WithSuppressed runs fn with trace events switched off (stores are still logged).
func (w *World) WithSuppressed(fn func()) {
	w.mu.Lock()
	w.Suppress++
	w.mu.Unlock()
	defer func() {
		w.mu.Lock()
		w.Suppress--
		w.mu.Unlock()
	}()
	fn()
}

// ClearPut forgets the calling goroutine's declared payload.
func (w *World) ClearPut() {
	w.mu.Lock()
	delete(w.puts, gid())
	w.mu.Unlock()
}

// MarkPutStarted marks the declared Put of the calling goroutine as already announced.
func (w *World) MarkPutStarted() {
	w.mu.Lock()
	if pi, ok := w.puts[gid()]; ok {
		pi.started = true
	}
	w.mu.Unlock()
}

// CopyInterns makes payload ids of another world known here.
func (w *World) CopyInterns(src *World) {
	src.mu.Lock()
	defer src.mu.Unlock()
	w.mu.Lock()
	defer w.mu.Unlock()
	for k, v := range src.interns {
		w.interns[k] = v
	}
}
