-------------------------- MODULE NodeRecoveryTrace --------------------------
(* Trace validation of a real in-process storage node (tsdb engine + real WAL  *)
(* partition with its local replicator), stepped by the harness `vdrive node`, *)
(* with directory images taken after every step and between the data commit    *)
(* and the log acknowledgement; each image is recovered by the real code,       *)
(* replayed, flushed and read back.                                             *)
EXTENDS NodeRecovery, Json

Trace == ndJsonDeserialize("trace.ndjson")
VARIABLE l
tvars == <<vars, l>>
ASSUME TLCSet(1, 0)
Ev(e) == l <= Len(Trace) /\ Trace[l].ev = e /\ l' = l + 1
Line == Trace[l]

TraceInit == l = 1 /\ Init
TReset ==
  /\ Ev("Reset")
  /\ wal' = << >> /\ gAck' = -1 /\ qAck' = -1 /\ dDict' = Empty /\ dCounter' = 0 /\ dFiles' = {} /\ dSeq' = -1
  /\ up' = TRUE /\ gCons' = -1 /\ fSeq' = -1
  /\ mDict' = Empty /\ mCounter' = 0 /\ mem' = {} /\ imm' = {} /\ immSeq' = -1 /\ gen' = 0 /\ ifl' = NoIfl /\ pendAck' = FALSE
  /\ dSer' = {} /\ dIdx' = {} /\ mSer' = {} /\ mIdx' = {} /\ iSer' = {} /\ iIdx' = {} /\ idxPhase' = "idle"

TAppend == Ev("Append") /\ AppendEntry(Line.name)
TReplicaStep == Ev("ReplicaStep") /\ ReplicaStep
TRBegin == Ev("RBegin") /\ RBegin
TRWrite == Ev("RWrite") /\ RWrite
TRCommit == Ev("RCommit") /\ RCommit
TMetaFlush == Ev("MetaFlush") /\ MetaFlush
TFamilyCommit == Ev("FamilyCommit") /\ FamilyFreezeAndCommit
TFamilyAck == Ev("FamilyAck") /\ FamilyAck
TCrash == Ev("Crash") /\ Crash
TRecover == Ev("Recover") /\ Recover
TLogRollback == Ev("LogRollback") /\ LogRollback(Line.gcons, Line.gack)
\* steps without an effect on the modelled state
TSyncGC == Ev("SyncGC") /\ SyncGC
\* Shard.FlushIndex observed through the kv seam: prepare, then one IdxCommit per manifest commit of an index family
\* (three index families = part "index": the first of them makes the model's index part durable, the others
\* stutter), the series family = part "series"; a flush cycle with nothing to flush commits nothing
TIdxPrepare == Ev("IdxPrepare") /\ IdxPrepare
TIdxCommit ==
  /\ Ev("IdxCommit")
  /\ IF Line.part = "index"
       THEN IF idxPhase = "prepared" THEN IdxCommitA ELSE (idxPhase = "half" /\ UNCHANGED vars)
       ELSE \* the series family: only after the index families (an empty index part commits nothing)
            IF idxPhase = "prepared" THEN (iIdx = {} /\ IdxCommitBoth) ELSE IdxCommitB
TIdxDone ==
  /\ Ev("IdxDone")
  /\ IF idxPhase = "prepared" THEN (iIdx = {} /\ iSer = {} /\ IdxCommitBoth)
     ELSE IF idxPhase = "half" THEN (iSer = {} /\ IdxCommitB)
     ELSE UNCHANGED vars
TStutter == Ev("Note") /\ UNCHANGED vars

TProj ==
  /\ Ev("Proj")
  /\ Line.app = Len(wal) - 1
  /\ Line.gack = gAck /\ Line.gcons = gCons /\ Line.qack = qAck
  /\ Line.fseq = fSeq /\ Line.dseq = dSeq
  /\ DOMAIN Line.dict = DOMAIN AllDict
  /\ \A n \in DOMAIN AllDict : Line.dict[n] = AllDict[n]
  /\ UNCHANGED vars

\* read-back of every entry: [seq, resolved (0/1), how often its point is in the data files]
TFinal ==
  /\ Ev("Final")
  /\ Len(Line.entries) = Len(wal)
  /\ \A i \in 1..Len(Line.entries) :
       LET e == Line.entries[i]  s == e[1]  n == wal[s + 1] IN
       /\ e[2] = (IF n \in DOMAIN AllDict THEN 1 ELSE 0)
       \* ... counted only for the series that the shard index finds by metric and by tag
       /\ e[3] = (IF n \in DOMAIN AllDict /\ n \in AllIdx
                    THEN Cardinality({b \in dFiles : b.seq = s /\ b.id = AllDict[n]}) ELSE 0)
  /\ UNCHANGED vars

TraceNext == TReset \/ TAppend \/ TReplicaStep \/ TRBegin \/ TRWrite \/ TRCommit \/ TMetaFlush \/ TFamilyCommit \/ TFamilyAck \/ TCrash \/ TRecover \/ TLogRollback
             \/ TSyncGC \/ TIdxPrepare \/ TIdxCommit \/ TIdxDone \/ TStutter \/ TProj \/ TFinal
TraceSpec == TraceInit /\ [][TraceNext]_tvars
HighWater == TLCSet(1, IF l > TLCGet(1) THEN l ELSE TLCGet(1))
TraceAccepted ==
  LET hw == TLCGet(1) IN
  IF hw = Len(Trace) + 1 THEN TRUE
  ELSE /\ PrintT(<<"TRACE-REJECTED-AT-LINE", hw>>)
       /\ FALSE
=============================================================================
