CONSTANTS
  SeriesFirst = FALSE
  CommitSeqBeforeWrite = FALSE
  FreezeBeforeMetaFlush = TRUE
  ExpireOnConsumed = FALSE
  IgnoreOverGap = FALSE
  Writable = FALSE
  AtomicRound = FALSE
  Name = {"m1", "m2"}
  MaxEntries = 3
  MaxCrash = 2
  MaxFlush = 3
SPECIFICATION MCSpec
INVARIANTS NoReapply
CHECK_DEADLOCK FALSE
