----------------------------- MODULE QueryTrace -----------------------------
(* TLC as judge of recorded queries of the REAL query path (harness `vdrive   *)
(* query`): real tsdb.Engine (memory databases, kv files) <- real leaf task    *)
(* processors <- loopback transport <- [real intermediate processors] <-       *)
(* query.MetricDataSearch.  The driver logs the points handed to               *)
(* DataFamily.WriteRows, what it did to the families (flush / compaction /     *)
(* restart), the statement and the real result set; TQuery requires            *)
(*   planned range / interval = TimeAxis!Plan,                                 *)
(*   result series = the groups of the reference,                              *)
(*   result cells  = the reference's cells, every value admissible.            *)
(* A result the reference rejects is accepted only if a named deviation that   *)
(* the configuration allows explains it (Engine with the deviation on); the    *)
(* judge then prints KNOWN-DEVIATION with the line and the classes, which the  *)
(* check turns into KNOWN-FINDING lines.  With all Dev constants FALSE         *)
(* (QueryTrace_strict.cfg) only the reference is accepted.                     *)
EXTENDS Query, Json

Trace == ndJsonDeserialize("trace.ndjson")
VARIABLE l
tvars == <<vars, l>>
ASSUME TLCSet(1, 0)
Ev(e) == l <= Len(Trace) /\ Trace[l].ev = e /\ l' = l + 1
Line == Trace[l]
Holds(b) == b = TRUE

TraceInit == l = 1 /\ Init

\* Reset: fields {"s":"sum",...}, keys ["host","dc"], series [["a","x"],...]
TReset ==
  /\ Ev("Reset")
  /\ Universe(Line.fields,
              [sid \in 1..Len(Line.series) |->
                 [k \in {Line.keys[j] : j \in 1..Len(Line.keys)} |->
                    Line.series[sid][CHOOSE j \in 1..Len(Line.keys) : Line.keys[j] = k]]],
              Line.chars, Line.siv)

\* files per family as the real kv family reports them: [shard, family s, level-0 files, level-1 files]
FilesOK(list) ==
  \A j \in 1..Len(list) :
    /\ Cardinality(FilesIn(srcs', vis', list[j][1], list[j][2], 0)) = list[j][3]
    /\ Cardinality(FilesIn(srcs', vis', list[j][1], list[j][2], 1)) = list[j][4]

\* Write: pts [[arrival, sid, field, s, ms, value], ...] of one shard and family, in the order written
TWrite ==
  /\ Ev("Write")
  /\ Write(Line.shard, Line.fam,
           [j \in 1..Len(Line.pts) |-> [sid |-> Line.pts[j][2], f |-> Line.pts[j][3],
                                         t |-> <<Line.pts[j][4], Line.pts[j][5]>>, v |-> Line.pts[j][6]]])
TFlush == Ev("Flush") /\ Flush(Line.shard, Line.fam) /\ Holds(FilesOK(Line.files))
TCompact == Ev("Compact") /\ Compact(Line.shard, Line.fam) /\ Holds(FilesOK(Line.files))
TReopen == Ev("Reopen") /\ Reopen /\ Holds(FilesOK(Line.files))

\* ------------------------------------------------------------------ the judge
AggOfItem(q, j) == AggOf(ftype[q.items[j].f], q.items[j].fn)
ClassOf(q, j) ==
  LET T == ftype[q.items[j].f]  A == AggOfItem(q, j) IN
  IF MultiAgg(q, j) /\ DevMulti THEN "multi"     \* (once DevMulti is off, such an item is judged as its own class)
  ELSE IF A # Own(T) THEN "partial"
  ELSE IF T \in {"last", "first"} THEN "order"
  ELSE "clean"
Allowed(c) == CASE c = "multi" -> DevMulti [] c = "partial" -> DevPartial [] c = "order" -> DevOrder [] OTHER -> FALSE
DevsOf(c) == CASE c = "partial" -> [partial |-> TRUE, order |-> TRUE]
               [] c = "order" -> [partial |-> FALSE, order |-> TRUE]
               [] OTHER -> NoDevs

\* views of the sources a query that ran concurrently with the flush of <<shard, family>> may have seen
Views(conc) ==
  IF Len(conc) = 0 \/ <<conc[1], conc[2]>> \notin DOMAIN cur THEN {srcs}
  ELSE {srcs, [srcs EXCEPT ![cur[<<conc[1], conc[2]>>]].kind = "file", ![cur[<<conc[1], conc[2]>>]].ser = IndexSeries(conc[1])]}

\* one attempt to explain the answer: view = what the query saw of the sources, hide = DevHide in force
Attempt(q, res, p, view, hide, wnd) ==
  LET n == Len(q.items)
      hid == (IF hide THEN Hidden(view, q, p) ELSE {}) \cup (IF wnd THEN WindowLost ELSE {})
      S == [j \in 1..n |-> Sel(q, p, q.items[j].f) \ hid]
      key == [j \in 1..n |-> [i \in S[j] |-> KeyOf(q, p, i)]]
      refkeys == [j \in 1..n |-> {key[j][i] : i \in S[j]}]
      groups == UNION {{k[1] : k \in refkeys[j]} : j \in 1..n}
      rs == [j \in 1..n |-> {<<res.series[res.cells[x][1]], res.cells[x][3], res.cells[x][4]>>
                             : x \in {y \in 1..Len(res.cells) : res.cells[y][2] = j}}]
      tsOf(k) == p.from[1] + k[2] * p.iv
      mem(j, g, ts) == {i \in S[j] : key[j][i][1] = g /\ tsOf(key[j][i]) = ts}
      keysOK(j) == /\ {<<r[1], r[2]>> : r \in rs[j]} = {<<k[1], tsOf(k)>> : k \in refkeys[j]}
                   /\ Cardinality(rs[j]) = Cardinality(refkeys[j])
      T(j) == ftype[q.items[j].f]
      clean(j) == keysOK(j) /\ \A r \in rs[j] : r[3] \in NaiveVals(T(j), AggOfItem(q, j), mem(j, r[1], r[2]))
      devOK(j) ==
        /\ keysOK(j)
        /\ ClassOf(q, j) = "multi" \/
           \A r \in rs[j] : r[3] \in EngineVals(DevsOf(ClassOf(q, j)), view, T(j), AggOfItem(q, j), mem(j, r[1], r[2]))
      bad == {j \in 1..n : ~clean(j)}
      listed == {res.series[x] : x \in 1..Len(res.series)}
      extras == listed # groups
  IN [ok |-> /\ Len(res.series) = Cardinality(listed)
             /\ groups \subseteq listed
             \* groups listed without a value: known series that match the condition, nothing else
             /\ extras => /\ DevEmptySeries
                          /\ listed \subseteq {GroupOf(q, sid) : sid \in SelSids(q)}
             /\ \A j \in bad : Allowed(ClassOf(q, j)) /\ devOK(j),
      cls |-> (IF hide THEN {"hide"} ELSE {}) \cup (IF wnd THEN {"window"} ELSE {}) \cup (IF extras THEN {"emptyseries"} ELSE {})
              \cup {ClassOf(q, j) : j \in bad}]

Report(cls) == IF cls = {} THEN TRUE ELSE PrintT(<<"KNOWN-DEVIATION", l, cls>>)

QueryOK(q, lay, conc, res) ==
  LET p == PlanOf(q)
      n == Len(q.items)
      views == Views(conc)
      \* attempts in order of preference: the reference first, the worst deviation last
      plain == {Attempt(q, res, p, v, FALSE, FALSE) : v \in views}
      lossy == (IF DevWindow /\ WindowLost # {} THEN {Attempt(q, res, p, v, FALSE, TRUE) : v \in views} ELSE {})
               \cup (IF DevHide THEN {Attempt(q, res, p, v, TRUE, FALSE) : v \in {w \in views : Hidden(w, q, p) # {}}} ELSE {})
               \cup (IF DevHide /\ DevWindow /\ WindowLost # {}
                     THEN {Attempt(q, res, p, v, TRUE, TRUE) : v \in {w \in views : Hidden(w, q, p) # {}}} ELSE {})
      least(A) == CHOOSE a \in A : a.ok /\ \A b \in A : b.ok => Cardinality(a.cls) <= Cardinality(b.cls)
      refEmpty == \A j \in 1..n : Sel(q, p, q.items[j].f) = {}
      \* DevSwallow: error responses that reached the root before its own pipeline completed were erased -- the
      \* answer is "ok" with nothing in it, not even the planned range
      swallowed == /\ DevSwallow /\ res.ok /\ (lay.before > 0 \/ lay.free)
                   /\ Len(res.cells) = 0 /\ Len(res.series) = 0 /\ res.start = 0 /\ res.end = 0 /\ res.iv = 0
  IN
  IF DevCompute /\ lay.computes >= 2 /\ ~res.ok /\ res.err = "timeout"
  THEN \* the known hang with two or more compute nodes (whatever the statement)
       PrintT(<<"KNOWN-DEVIATION", l, {"compute"}>>)
  ELSE IF \E j \in 1..n : \A i \in PI : pts[i].f # q.items[j].f
  THEN \* pinned: a field the database has never seen is an error, not an empty answer (as an unknown tag key / metric)
       \/ (~res.ok /\ res.err = "notfound")
       \/ (swallowed /\ PrintT(<<"KNOWN-DEVIATION", l, {"swallow"}>>))
  ELSE IF DevLikeStar /\ HasLikeStar(q.cond) /\ ~res.ok /\ res.err = "slicebounds"
  THEN PrintT(<<"KNOWN-DEVIATION", l, {"likestar"}>>)
  ELSE IF DevLikeStar /\ HasLikeStar(q.cond) /\ swallowed
  THEN PrintT(<<"KNOWN-DEVIATION", l, {"likestar", "swallow"}>>)
  ELSE IF ~res.ok
  THEN \* an error: only "nothing found" when the reference is empty
       res.err = "notfound" /\ refEmpty
  ELSE IF refEmpty /\ swallowed
  THEN \* every leaf answered not-found before the root's completion: the error is erased, the answer has no range
       PrintT(<<"KNOWN-DEVIATION", l, {"swallow"}>>)
  ELSE /\ Len(res.bad) = 0
       /\ res.start = p.from[1] /\ res.end = p.to[1] /\ res.iv = p.iv
       /\ \A x \in 1..Len(res.cells) : res.cells[x][1] \in 1..Len(res.series) /\ res.cells[x][2] \in 1..n
       /\ Len(res.cells) = Cardinality({<<res.cells[x][1], res.cells[x][2], res.cells[x][3]>> : x \in 1..Len(res.cells)})
       /\ IF \E a \in plain : a.ok /\ a.cls = {} THEN TRUE
          ELSE IF \E a \in plain : a.ok THEN Report(least(plain).cls)
          ELSE /\ \E a \in lossy : a.ok
               /\ Report(least(lossy).cls)

TQuery ==
  /\ Ev("Query")
  /\ Holds(WellFormedQuery(Line.q))
  /\ Holds(QueryOK(Line.q, Line.lay, Line.conc, Line.res))
  /\ UNCHANGED vars

\* the leaf targets the REAL broker state manager planned (Choose) for the storage state of a layout: leaves = the shards
\* every leaf of the layout leads; targets = <<leaf, shards>> as planned.  Every shard exactly once, at its leader; a
\* leaf without shards is no target.
SetOf(sq) == {sq[k] : k \in 1..Len(sq)}
TPlan ==
  /\ Ev("Plan")
  /\ LET want == {<<i, SetOf(Line.leaves[i])>> : i \in {j \in 1..Len(Line.leaves) : Len(Line.leaves[j]) > 0}}
         got == {<<Line.targets[t][1], SetOf(Line.targets[t][2])>> : t \in 1..Len(Line.targets)}
     IN /\ got = want
        /\ Len(Line.targets) = Cardinality(want)
        /\ \A t \in 1..Len(Line.targets) : Len(Line.targets[t][2]) = Cardinality(SetOf(Line.targets[t][2]))
  /\ UNCHANGED vars

TraceNext == TReset \/ TWrite \/ TFlush \/ TCompact \/ TReopen \/ TQuery \/ TPlan
TraceSpec == TraceInit /\ [][TraceNext]_tvars
HighWater == TLCSet(1, IF l > TLCGet(1) THEN l ELSE TLCGet(1))
TraceAccepted ==
  LET hw == TLCGet(1) IN
  IF hw = Len(Trace) + 1 THEN TRUE
  ELSE /\ PrintT(<<"TRACE-REJECTED-AT-LINE", hw>>)
       /\ FALSE
=============================================================================
