"""C12 -- query results do not depend on sharding, node placement or response order (module Query)."""
import json
import os

import vcore
from props import querycommon as qc


RG, RG_CFG = "RootGatherTrace", "RootGatherTrace.cfg"
RG_ACTIONS = ["TReset", "TPlan", "TSend", "TAnswerBegin", "TInternal", "TAnswerEnd", "TResult"]


def _rg_describe(sig, bad, rel, info):
    """Signature of a rejected root-gather run: which event, and for a Result what was returned while how many of the
    planned targets had answered (what was observed, not why)."""
    try:
        ev = json.loads(bad[min(rel, len(bad)) - 1])
    except ValueError:
        return sig
    if ev.get("ev") != "Result":
        return sig
    planned, begun, ended = 0, 0, 0
    for ln in bad[: rel - 1]:
        d = json.loads(ln)
        if d.get("ev") == "Plan":
            planned = len(d["targets"])
        elif d.get("ev") == "AnswerBegin":
            begun += 1
        elif d.get("ev") == "AnswerEnd":
            ended += 1
    what = "ok" if ev.get("ok") else str(ev.get("err")).split(":")[0]
    state = "answers-outstanding" if begun < planned else "answer-in-progress" if ended < begun else "all-answered"
    return "%s:%s:%s" % (sig, what, state)


def root_gather(ctx, thorough):
    """The root's gathering of the leaf answers (module RootGather): real MetricDataSearch / pipeline / RootMetricContext /
    task manager, one data set split over 1..3 leaf targets in every way, every answer delivered at a scripted point
    (inside its own send, after all sends in a scripted order, concurrently, never; while the handler of another
    answer is inside its payload decode)."""
    # ---- leg M: every target set x answer kinds x interleaving of sends and the two steps of every answer; counting the
    # expected answers at send time instead of plan time must break "a completed query has heard every planned target",
    # counting an answer and merging its data in two critical sections must break "the result holds every counted answer"
    ctx.model_check("MCRootGather", "MCRootGather.cfg", timeout=600, coverage=thorough)
    ctx.model_check("MCRootGather", "MCRootGather_dev_sendcount.cfg", expect="violation", timeout=300)
    ctx.model_check("MCRootGather", "MCRootGather_dev_countmerge.cfg", expect="violation", timeout=300)
    # ---- leg T
    tr = os.path.join(ctx.scratch, "queryroot.ndjson")
    scr = os.path.join(ctx.scratch, "scr-queryroot")
    os.makedirs(scr, exist_ok=True)
    args = ["--points", 4, "--sets", 3, "--sampled", 2, "--all", "--overlaps", 4] if thorough else \
        ["--points", 3, "--sets", 2, "--sampled", 1, "--overlaps", 2]
    summ, rc, out = ctx.run_vdrive(["queryroot", "--seed", ctx.seed, "--out", tr, "--scratch", scr] + args, timeout=3000)
    for u in summ["unresolved"]:
        raise vcore.Unresolved("queryroot driver: %s" % u)
    ex = summ["extra"]
    total = summ["traces"]
    ok = vcore.validate_all(ctx, RG, RG_CFG, tr, describe=_rg_describe, dfs=False, timeout=1800)
    # what was covered
    first_inline = sum(v for k, v in ex["schedules"].items() if k.startswith("inline,") and ("late" in k or "free" in k))
    outcomes = {}
    for ln in vcore.read_lines(tr):
        if '"ev":"Result"' in ln:
            d = json.loads(ln)
            k = "ok" if d["ok"] else d["err"].split(":")[0]
            outcomes[k] = outcomes.get(k, 0) + 1
    ctx.extra["root_gather"] = {
        "runs": total, "accepted": ok, "events_by_kind": ex["events_by_kind"], "placements": ex["placements"],
        "schedule_shapes": len(ex["schedules"]), "first_answer_before_next_send": first_inline,
        "outcomes": outcomes, "answers_after_completion": ex["answers_after_completion"],
        "request_context_ended_while_waiting": ex["request_context_ended"],
        "overlaps": ex.get("overlaps"), "slow_answer_bytes": ex.get("ballast_bytes"), "slow_answer_decode_ms": ex.get("ballast_decode_ms"),
    }
    ctx.log("root gather: %d runs (%d accepted), %d schedule shapes, %d with an answer handled before the next send, outcomes %s" % (
        total, ok, len(ex["schedules"]), first_inline, outcomes))
    if total < 150 or first_inline < 20 or outcomes.get("ok", 0) < 80 or not outcomes.get("timeout") or not outcomes.get("error") \
            or not outcomes.get("notfound"):
        raise vcore.Unresolved("root gather: too few runs / schedules / outcomes (%s)" % ctx.extra["root_gather"])
    # the overlap runs count only if the window was entered: the handler of the slow answer was seen inside the payload
    # decode AND the other answer / the completion of the pipeline came while it had not returned
    ov = ex.get("overlaps") or {}
    ctx.log("root gather overlaps (handler inside the payload decode x another answer / the completion): %s, slow answer %s bytes ~%s ms" % (
        ov, ex.get("ballast_bytes"), ex.get("ballast_decode_ms")))
    for kind in ("answer", "complete"):
        if not ov.get(kind, {}).get("window_hit"):
            raise vcore.Unresolved("root gather: no overlap run of kind '%s' entered the window (%s)" % (kind, ov))
    # binding self-tests on an accepted overlap run (2 leaves holding data, the handler of the second answer entered while
    # the first had not returned)
    acc = getattr(ctx, "accepted_path", None)
    src = None

    def evs_of(lines):
        return [json.loads(x) for x in lines]

    def idx(evs, name, nth=0, last=False):
        hits = [i for i, e in enumerate(evs) if e.get("ev") == name]
        if not hits:
            return None
        return hits[-1] if last else hits[nth]

    if acc:
        fallback = None
        for t in vcore.split_traces(vcore.read_lines(acc)):
            evs = evs_of(t)
            r = idx(evs, "Result")
            if r is None or not evs[r].get("ok") or len(evs[r]["cells"]) < 2 or len(evs[0]["kinds"]) != 2 \
                    or sum(1 for k in evs[0]["kinds"].values() if k == "data") != 2:
                continue
            b1, b2, e1 = idx(evs, "AnswerBegin", 0), idx(evs, "AnswerBegin", 1), idx(evs, "AnswerEnd", 0)
            if None in (b1, b2, e1) or not b1 < r or not b2 < r:
                continue
            if evs[0].get("sched", {}).get("overlap") == "answer" and b1 < b2 < e1 < r:
                fallback = t
                break
            # (when every overlap run was rejected: any run with two answers of two leaves holding data)
            fallback = fallback or t
        if fallback:
            src = os.path.join(ctx.scratch, "rg-selftest.ndjson")
            with open(src, "w") as f:
                f.write("".join(fallback))
    if not src:
        raise vcore.Unresolved("root gather: no accepted run for the binding self-tests")

    def move(lines, i, j):
        """line i goes in front of line j (positions of the original list)"""
        out = [ln for k, ln in enumerate(lines) if k != i]
        out.insert(j if j < i else j - 1, lines[i])
        return out

    def early_result(lines):
        evs = evs_of(lines)
        return move(lines, idx(evs, "Result"), idx(evs, "AnswerBegin", last=True))

    def with_result(lines, fn):
        evs = evs_of(lines)
        r = idx(evs, "Result")
        fn(evs[r])
        return lines[:r] + [json.dumps(evs[r], separators=(",", ":")) + "\n"] + lines[r + 1:]

    def other_value(lines):
        def fn(d):
            d["cells"][0][2] += 1000
        return with_result(lines, fn)

    def lost_answer(lines):
        # what the seeded design produces: the result while the first handler is still decoding, without its cells
        evs = evs_of(lines)
        first = evs[idx(evs, "AnswerBegin", 0)]["t"]
        mine = set((p[0], p[1]) for p in evs[0]["pts"][first])
        theirs = set((p[0], p[1]) for t, ps in evs[0]["pts"].items() if t != first for p in ps)

        if not mine - theirs:
            return None

        def fn(d):
            d["cells"] = [c for c in d["cells"] if (c[0], c[1]) not in mine - theirs]
            d["series"] = len(set(c[0] for c in d["cells"]))
        out = with_result(lines, fn)
        evs = evs_of(out)
        ends = [i for i, e in enumerate(evs) if e.get("ev") == "AnswerEnd" and e["t"] == first]
        return out[:ends[0]] + out[ends[0] + 1:] + [out[ends[0]]]

    def unsent_answer(lines):
        evs = evs_of(lines)
        return move(lines, idx(evs, "Send", 0), idx(evs, "Result"))

    def end_before_begin(lines):
        evs = evs_of(lines)
        b = idx(evs, "AnswerBegin", last=True)
        ends = [i for i, e in enumerate(evs) if e.get("ev") == "AnswerEnd" and e["t"] == evs[b]["t"]]
        return move(lines, ends[0], b)

    for mut, what in ((early_result, "the result is returned before the last answer is handled"),
                      (other_value, "a result value + 1000"),
                      (lost_answer, "the result is built while the first handler has not returned, without that answer's cells"),
                      (unsent_answer, "an answer is handled before its request was sent"),
                      (end_before_begin, "a handler returns before it was entered")):
        vcore.corrupt_selftest(ctx, RG, RG_CFG, src, mut, what)
    # no vacuous binding: every trace action taken
    res = ctx.tlc(RG, RG_CFG, workers=1, files={"trace.ndjson": src}, coverage=True, count=False)
    taken = {}
    for k, v in res.coverage.items():
        name = k.split("@")[0]
        if name in RG_ACTIONS:
            taken[name] = max(taken.get(name, 0), v)
    ctx.extra["root_gather"]["trace_action_coverage"] = taken
    missing = [a for a in RG_ACTIONS if not taken.get(a)]
    if res.kind != "ok" or missing:
        raise vcore.Unresolved("root gather: vacuous binding, trace actions never taken: %s (tlc %s)" % (missing, res.kind))
    ctx.assumptions += [
        "root gather leg: the root side is real (query.MetricDataSearch, execute pipeline with its send stages, RootMetricContext, "
        "query.NewTaskManager with a real worker pool; the pool is the Filtering pool of a tsdb database, the metric registry an empty one "
        "allocated by reflection because both types are internal); the leaves are scripted: their payload is built by the real leaf reduce code "
        "(SeriesAggregator -> LeafReduceContext.Reduce -> BuildResultSet) from the statement the root sent, the tag value of a group is put into "
        "the series by the harness (a leaf resolves it through its meta database); one field of type sum / min / max, <= 2 groups",
        "root gather leg: 'the root waits' is observed as the query goroutine parked in the select of MetricContext.waitResponse (goroutine dump), "
        "late answers are delivered only then; a lost answer ends with the request context being cancelled while the root waits",
        "root gather leg, overlap runs: no hook inside the handler -- an answer is made slow to decode (its payload is followed by megabytes of "
        "protobuf fields no lindb message declares; sized at start so that decoding takes ~400 ms), 'its handler is inside the payload decode' "
        "is a goroutine dump showing TimeSeriesList.Unmarshal below a frame of package query/context; the other answers / the return of the last "
        "SendRequest are released then.  A run counts (window_hit) only if that was seen AND the other party acted before the slow handler "
        "returned (AnswerBegin logged before the slow AnswerEnd; the pipeline's Complete / the parked root / the returned query seen in a dump "
        "before it); without a window hit of both kinds the check is unresolved, not passed",
        "root gather leg: the two steps of a handler (AnswerCount, AnswerMerge) are not observed, only its entry and return; TLC searches the "
        "interleavings of the unobserved steps (TInternal) that explain the logged order",
    ]


def _is_root_gather(path):
    for ln in vcore.read_lines(path)[:3]:
        if '"ev":"Plan"' in ln or ('"ev":"Reset"' in ln and '"leaves"' in ln and '"kinds"' in ln):
            return True
    return False


def run(ctx, replay):
    if replay and _is_root_gather(replay):
        vcore.validate_all(ctx, RG, RG_CFG, replay, describe=_rg_describe, dfs=False)
        return
    if replay:
        # the replayed trace is judged like a fresh one: deviations -> known findings, anything else -> violation
        acc, stats, _ = qc.judge(ctx, replay)
        ctx.extra["judged"] = stats
        return
    thorough = ctx.tier == "thorough"
    # ---- leg M: sources of several shards, the root's response handling under every delivery schedule
    qc.model_legs(ctx, "C12", thorough)

    # ---- leg T: the same kind of data routed by the real jump hash over 1..3 shards; every query under many layouts
    hist, batches, nq, lay = (24, 14, 4, 0) if thorough else (6, 10, 3, 36)
    tr = qc.run_driver(ctx, "c12", "c12", ["--hist", hist, "--steps", batches, "--queries", nq, "--layouts", lay])
    acc, stats, marked = qc.judge(ctx, tr)
    ctx.extra["judged"] = stats
    # what was covered: layout shapes and schedules
    shapes, sched = {}, 0
    for ln in vcore.read_lines(tr):
        if '"ev":"Query"' in ln:
            d = json.loads(ln)
            l = d["lay"]
            k = "shards/leaf=%s computes=%d%s" % (l["leaves"], l["computes"], " free" if l["free"] else "")
            shapes[k] = shapes.get(k, 0) + 1
            sched += 1
    ctx.extra["layout_shapes"] = shapes
    ctx.log("judged %d answers (%d layout shapes) of %d datasets: %d equal to the reference, deviations %s, rejected %d" % (
        stats["queries"], len(shapes), stats["subtraces"], stats["clean"], stats["by_class"], stats["rejected"]))
    qc.samples(ctx, tr)
    if stats["queries"] < 100 or stats["clean"] < 40 or len(shapes) < 8:
        raise vcore.Unresolved("too few judged answers / layout shapes (%s, %d shapes)" % (stats, len(shapes)))

    def fake_timeout(d):
        d["res"] = {"ok": False, "err": "timeout", "lost": 0}

    def fake_notfound(d):
        d["res"] = {"ok": False, "err": "notfound", "lost": 0}

    extra = [
        (qc.mutate_query(fake_timeout, lambda d: qc.has_cells(d) and d["lay"]["computes"] < 2), "a layout without two compute nodes times out", qc.CFG),
        (qc.mutate_query(fake_notfound, lambda d: qc.has_cells(d) and len(d["lay"]["leaves"]) > 1), "a non-empty answer turns into not-found", qc.CFG),
    ]
    def multi_leaf_answer(t):
        for ln in t:
            if '"ev":"Query"' in ln:
                d = json.loads(ln)
                if qc.has_cells(d) and d["lay"]["computes"] < 2 and len(d["lay"]["leaves"]) > 1:
                    return True
        return False
    qc.selftests(ctx, tr, marked, thorough, extra=extra, want_extra=multi_leaf_answer)
    qc.coverage(ctx, [tr], need=["TReset", "TWrite", "TFlush", "TQuery"])
    # ---- the root's gathering protocol on the real root side (module RootGather)
    root_gather(ctx, thorough)
    ctx.assumptions += qc.ASSUMPTIONS + [
        "layouts: rows routed by the real BrokerBatchRows shard/family iterators over 1..3 shards of one engine; leaves = real leaf task processors "
        "with disjoint shard sets (also a leaf without shards); 0..2 compute nodes = real intermediate task processors (group-by queries only, first "
        "target executes, the others receive-only, as coordinator/broker plans them); the loopback transport parks every response and delivers "
        "them in the scheduled order, a prefix of them before the root's own pipeline completes; one run without schedule (concurrent delivery)",
        "a batch holds each series at most once (the broker sorts a batch by shard, which may reorder rows of one series)",
    ]
