--------------------------- MODULE FlushCheckerInd ---------------------------
(***************************************************************************)
(* The repaired order of the flush checker (mark stored with the check,     *)
(* before the request is handed over) never leaves a stale mark, for ANY    *)
(* number of steps and up to 6 requesters: an inductive invariant discharged *)
(* by Apalache.  At most one request of the database is on its way at any   *)
(* time, the mark and the in-flight counter say exactly that.  NotVacuous    *)
(* must be violated; the step must FAIL for the order before the repair.     *)
(***************************************************************************)
EXTENDS FlushChecker, Apalache

Active == Cardinality({r \in Req : pc[r] = "checked"}) + queue + running
IndInv ==
  /\ queue \in 0..1 /\ running \in 0..1 /\ inflight \in 0..1
  /\ \A r \in Req : pc[r] \in {"idle", "checked", "done", "dropped"}
  /\ Active \in 0..1
  /\ mark <=> (Active = 1)
  /\ inflight = Active
IndInit ==
  /\ mark \in BOOLEAN /\ dirty \in BOOLEAN /\ queue \in 0..2 /\ running \in 0..2 /\ inflight \in (-2)..2
  /\ pc \in [Req -> {"idle", "checked", "sent", "done", "dropped"}]
  /\ IndInv
Safety == NoStaleMark /\ InFlightExact
NotVacuous == ~(mark /\ running = 1 /\ \E r \in Req : pc[r] = "dropped")
CInit == Req = {"r1", "r2", "r3", "r4", "r5", "r6"} /\ MarkBeforeSend = TRUE
CInitLate == Req = {"r1", "r2", "r3", "r4", "r5", "r6"} /\ MarkBeforeSend = FALSE
=============================================================================
