------------------------------- MODULE Master -------------------------------
(***************************************************************************)
(* Shard placement and shard leadership in the master                      *)
(* (coordinator/master/shard_assign.go, replica_leader_elector.go,         *)
(* state_manager.go, storage_cluster.go, models/state.go) -- property C18. *)
(*                                                                         *)
(* Part A: assignReplicasToStorageNodes transcribed as an operator.        *)
(* Part B: the event machine.  The repository (etcd) holds the live-node   *)
(* list and the shard assignments; discovery events reach the state        *)
(* manager later and one at a time (`pending`), so the repository view     *)
(* (used when an assignment is created) and the state view (used when a    *)
(* leader is elected) are separate variables.                              *)
(***************************************************************************)
EXTENDS Integers, Sequences, FiniteSets, TLC

CONSTANT ReadFaultGivesUp   \* TRUE (the code): a failed read of the stored assignment ends the handling of the event;
                            \* FALSE (seeded change C18f): the handler goes on as if no assignment existed

VARIABLES
  repoLive,    \* nodes registered in the repository
  repoAssign,  \* [db -> [shard -> Seq(node)]]: assignment stored in the repository
  pending,     \* discovery events not yet processed
  dbs,         \* [db -> [shards, rf]]: databases known to the state manager
  stateLive,   \* live nodes of the storage state
  sAssign,     \* [db -> [shard -> Seq(node)]]: assignments of the storage state
  sStates      \* [db -> [shard -> [state, leader]]]

vars == <<repoLive, repoAssign, pending, dbs, stateLive, sAssign, sStates>>

Empty == [x \in {} |-> 0]
Put1(f, k, v) == [x \in (DOMAIN f) \cup {k} |-> IF x = k THEN v ELSE f[x]]
Del1(f, k) == [x \in (DOMAIN f) \ {k} |-> f[x]]
NoLeader == -1

\* ------------------------------------------------------------------ part A
\* nodes: sequence of node ids; shard ids first..first+count-1; start / shift: the (random) start index
\* and replica shift.  Returns [shard -> Seq(node)].
ReplicaIdx(firstIdx, shift, j, n) == (firstIdx + 1 + ((shift + j) % (n - 1))) % n

\* nextReplicaShift is incremented for every shard id > 0 that is a multiple of n, cumulatively
ShiftAt(shift, first, sid, n) == shift + Cardinality({s \in first..sid : s > 0 /\ s % n = 0})

AssignShards(nodes, first, count, rf, start, shift) ==
  LET n == Len(nodes) IN
  [sid \in first..(first + count - 1) |->
     LET firstIdx == (sid + start) % n
         sh == ShiftAt(shift, first, sid, n)
     IN [j \in 1..rf |-> IF j = 1 THEN nodes[firstIdx + 1]
                         ELSE nodes[ReplicaIdx(firstIdx, sh, j - 2, n) + 1]]]

Range(s) == {s[i] : i \in 1..Len(s)}
\* every shard gets exactly rf distinct nodes out of `nodes`
ExactlyRfDistinct(a, nodes, rf) ==
  \A sid \in DOMAIN a : Len(a[sid]) = rf /\ Cardinality(Range(a[sid])) = rf /\ Range(a[sid]) \subseteq Range(nodes)
\* first replicas are handed out round-robin: per-node counts differ by at most one
FirstCount(a, nd) == Cardinality({sid \in DOMAIN a : a[sid][1] = nd})
RoundRobin(a, nodes) ==
  \A x, y \in Range(nodes) : FirstCount(a, x) - FirstCount(a, y) <= 1

\* ------------------------------------------------------------------ part B
Init ==
  /\ repoLive = {} /\ repoAssign = Empty /\ pending = << >>
  /\ dbs = Empty /\ stateLive = {} /\ sAssign = Empty /\ sStates = Empty

\* sorted sequence of a set of node ids (the repository lists keys in order)
RECURSIVE SortedSeq(_)
SortedSeq(S) == IF S = {} THEN << >>
                ELSE LET m == CHOOSE x \in S : \A y \in S : x <= y IN <<m>> \o SortedSeq(S \ {m})

\* ---- the environment: nodes come and go, administrators create / grow / drop databases
NodeUp(n) ==
  /\ n \notin repoLive
  /\ repoLive' = repoLive \cup {n}
  /\ pending' = Append(pending, [t |-> "NodeStartup", node |-> n])
  /\ UNCHANGED <<repoAssign, dbs, stateLive, sAssign, sStates>>

NodeDown(n) ==
  /\ n \in repoLive
  /\ repoLive' = repoLive \ {n}
  /\ pending' = Append(pending, [t |-> "NodeFailure", node |-> n])
  /\ UNCHANGED <<repoAssign, dbs, stateLive, sAssign, sStates>>

\* create or grow: the database config is (re)written
PutDatabase(db, shards, rf) ==
  /\ pending' = Append(pending, [t |-> "DatabaseConfigChanged", db |-> db, shards |-> shards, rf |-> rf])
  /\ UNCHANGED <<repoLive, repoAssign, dbs, stateLive, sAssign, sStates>>

DropDatabase(db) ==
  /\ pending' = Append(pending, [t |-> "DatabaseConfigDeletion", db |-> db])
  /\ UNCHANGED <<repoLive, repoAssign, dbs, stateLive, sAssign, sStates>>

\* ---- ElectLeader: the first replica that is alive in the state's view
Elect(replicas, live) ==
  LET alive == {i \in 1..Len(replicas) : replicas[i] \in live} IN
  IF alive = {} THEN [state |-> "offline", leader |-> NoLeader]
  ELSE [state |-> "online", leader |-> replicas[CHOOSE i \in alive : \A k \in alive : i <= k]]

\* ---- processEvent: one event
AssignEv(db, a) == [t |-> "ShardAssignmentChanged", db |-> db, assign |-> a]

\* onDatabaseCfgChange -> shardAssignment(cfg); start / shift are the random choices of the code.
\* fault: what the repository does to this event (the environment's fault, transient):
\*   "none"
\*   "read"  the read of the stored assignment fails (not "does not exist"): the event is given up, nothing is written
\*           (a handler that went on would take "no assignment" for granted and assign every shard anew)
\*   "put1"  the first write of the assignment fails: nothing is written, no assignment event
\*   "put2"  the second write (SaveDatabaseAssignment, same key) fails: the assignment is stored, one event
Evs(db, a, fault) == IF fault = "put2" THEN << AssignEv(db, a) >> ELSE << AssignEv(db, a), AssignEv(db, a) >>
ProcDatabaseChanged(e, start, shift, fault) ==
  /\ dbs' = Put1(dbs, e.db, [shards |-> e.shards, rf |-> e.rf])
  /\ LET nodes == SortedSeq(repoLive)
         n == Len(nodes)
     IN
     IF fault = "read" /\ ReadFaultGivesUp
       THEN UNCHANGED repoAssign /\ pending' = Tail(pending)
     ELSE IF e.db \notin DOMAIN repoAssign \/ fault = "read"
       THEN \* createShardAssignment
            IF n = 0 \/ e.rf > n \/ e.rf <= 0 \/ e.shards <= 0 \/ fault = "put1"
              THEN UNCHANGED repoAssign /\ pending' = Tail(pending)
              ELSE LET a == AssignShards(nodes, 0, e.shards, e.rf, start, shift) IN
                   /\ repoAssign' = Put1(repoAssign, e.db, a)
                   \* written under both paths: two assignment events
                   /\ pending' = Tail(pending) \o Evs(e.db, a, fault)
     ELSE LET cur == repoAssign[e.db]
              have == Cardinality(DOMAIN cur)
          IN
          IF have = e.shards
            THEN \* nothing changed: the assignment is rewritten once to trigger the event
                 /\ UNCHANGED repoAssign
                 \* (one write in this branch: only a failure of the FIRST write suppresses the event)
                 /\ pending' = IF fault = "put1" THEN Tail(pending) ELSE Tail(pending) \o << AssignEv(e.db, cur) >>
          ELSE IF have > e.shards \/ n = 0 \/ e.rf > n \/ e.rf <= 0 \/ fault = "put1"
            THEN UNCHANGED repoAssign /\ pending' = Tail(pending)     \* "not implemented" / error
          ELSE LET add == AssignShards(nodes, have, e.shards - have, e.rf, start, shift)
                   a == [sid \in (DOMAIN cur) \cup (DOMAIN add) |-> IF sid \in DOMAIN cur THEN cur[sid] ELSE add[sid]]
               IN /\ repoAssign' = Put1(repoAssign, e.db, a)
                  /\ pending' = Tail(pending) \o Evs(e.db, a, fault)
  /\ UNCHANGED <<repoLive, stateLive, sAssign, sStates>>

\* onShardAssignmentChange -> initializeShardState
ProcAssignChanged(e) ==
  /\ sAssign' = Put1(sAssign, e.db, e.assign)
  /\ sStates' = Put1(sStates, e.db, [sid \in DOMAIN e.assign |-> Elect(e.assign[sid], stateLive)])
  /\ pending' = Tail(pending)
  /\ UNCHANGED <<repoLive, repoAssign, dbs, stateLive>>

\* onStorageNodeStartup -> onNodeStartup: offline shards with a replica on the node come online
ProcNodeStartup(e) ==
  /\ stateLive' = stateLive \cup {e.node}
  /\ sStates' = [db \in DOMAIN sStates |->
                   [sid \in DOMAIN sStates[db] |->
                      IF db \in DOMAIN sAssign /\ sid \in DOMAIN sAssign[db]
                         /\ e.node \in Range(sAssign[db][sid]) /\ sStates[db][sid].state # "online"
                        THEN [state |-> "online", leader |-> e.node]
                        ELSE sStates[db][sid]]]
  /\ pending' = Tail(pending)
  /\ UNCHANGED <<repoLive, repoAssign, dbs, sAssign>>

\* onStorageNodeFailure -> onNodeFailure: a new leader for the shards the node was leading
ProcNodeFailure(e) ==
  /\ stateLive' = stateLive \ {e.node}
  /\ sStates' = [db \in DOMAIN sStates |->
                   [sid \in DOMAIN sStates[db] |->
                      IF sStates[db][sid].leader = e.node
                        THEN Elect(sAssign[db][sid], stateLive \ {e.node})
                        ELSE sStates[db][sid]]]
  /\ pending' = Tail(pending)
  /\ UNCHANGED <<repoLive, repoAssign, dbs, sAssign>>

\* onDatabaseCfgDelete
ProcDatabaseDeleted(e) ==
  /\ IF e.db \in DOMAIN dbs
       THEN /\ dbs' = Del1(dbs, e.db)
            /\ sAssign' = IF e.db \in DOMAIN sAssign THEN Del1(sAssign, e.db) ELSE sAssign
            /\ sStates' = IF e.db \in DOMAIN sStates THEN Del1(sStates, e.db) ELSE sStates
            /\ repoAssign' = IF e.db \in DOMAIN repoAssign THEN Del1(repoAssign, e.db) ELSE repoAssign
       ELSE UNCHANGED <<dbs, sAssign, sStates, repoAssign>>
  /\ pending' = Tail(pending)
  /\ UNCHANGED <<repoLive, stateLive>>

ProcessF(start, shift, fault) ==
  /\ pending # << >>
  /\ (fault # "none" => Head(pending).t = "DatabaseConfigChanged")
  /\ LET e == Head(pending) IN
     CASE e.t = "DatabaseConfigChanged"  -> ProcDatabaseChanged(e, start, shift, fault)
       [] e.t = "ShardAssignmentChanged" -> ProcAssignChanged(e)
       [] e.t = "NodeStartup"            -> ProcNodeStartup(e)
       [] e.t = "NodeFailure"            -> ProcNodeFailure(e)
       [] e.t = "DatabaseConfigDeletion" -> ProcDatabaseDeleted(e)
Process(start, shift) == ProcessF(start, shift, "none")

\* ------------------------------------------------------------------ properties (C18)
\* evaluated when every event has been processed (the two views agree)
Settled == pending = << >>
ViewsAgree == Settled => stateLive = repoLive
OnlineIffSomeReplicaAlive ==
  Settled => \A db \in DOMAIN sStates : \A sid \in DOMAIN sStates[db] :
     (sStates[db][sid].state = "online") <=> (Range(sAssign[db][sid]) \cap stateLive # {})
LeaderIsAliveReplica ==
  Settled => \A db \in DOMAIN sStates : \A sid \in DOMAIN sStates[db] :
     sStates[db][sid].state = "online" =>
        /\ sStates[db][sid].leader \in Range(sAssign[db][sid])
        /\ sStates[db][sid].leader \in stateLive
\* every stored assignment gives each shard exactly rf distinct nodes
AssignmentsWellFormed ==
  \A db \in DOMAIN repoAssign : \A sid \in DOMAIN repoAssign[db] :
     Cardinality(Range(repoAssign[db][sid])) = Len(repoAssign[db][sid])
\* growing the shard count keeps existing shards where they are
GrowKeepsExisting ==
  [][\A db \in (DOMAIN repoAssign) \cap (DOMAIN repoAssign') :
       \A sid \in DOMAIN repoAssign[db] : sid \in DOMAIN repoAssign'[db] /\ repoAssign'[db][sid] = repoAssign[db][sid]]_vars
=============================================================================
