----------------------------- MODULE MCTagIndex -----------------------------
(* Leg M of C10: on a small universe (NK keys, values Values, at most          *)
(* MaxSeries series of the metrics Metrics, any tag map including missing keys *)
(* and no tags at all) TLC explores EVERY write order and every placement of    *)
(* PrepareFlush / Flush / Compact / Reopen of the tag value dictionary and of   *)
(* the index stores, and in every reachable state compares the index-shaped     *)
(* evaluation with the reference for every condition of Conds and every         *)
(* grouping.  The judges used by the trace specification are checked against    *)
(* the reference answer and against its neighbours (they must reject them).     *)
EXTENDS TagIndex
CONSTANTS NK, Values, Metrics, MaxSeries, ExtraLits, UnanchoredRegex,
          CoreSize,       \* "small" | "medium" | "full": which atoms are combined into depth-2 conditions
          Ops,            \* subset of {"meta", "idx", "reopen"}: which placement actions are explored
          Canonical       \* TRUE: series are written in one canonical order (enough when no placement action is explored)

\* value universes (cfg: Values <- V_a_ab_b ...): strings sharing prefixes, bytes 97 = a, 98 = b, 99 = c
V_a_ab_b == {<<97>>, <<97, 98>>, <<98>>}
V_a_ab_b_ba == {<<97>>, <<97, 98>>, <<98>>, <<98, 97>>}
V_a_ab == {<<97>>, <<97, 98>>}
L_none == {}
L_b == {<<98>>}
L_c == {<<99>>}
L_c_abc == {<<99>>, <<97, 98, 99>>}
None == << >>
RECURSIVE SetToSeqV(_)
SetToSeqV(S) == IF S = {} THEN << >> ELSE LET x == CHOOSE y \in S : TRUE IN <<x>> \o SetToSeqV(S \ {x})
TagMaps == [1..NK -> Values \cup {None}]

\* a total order on (metric, tag strings), only used to fix one write order
StrCode(str) == IF str = None THEN 0 ELSE (CHOOSE i \in 1..Cardinality(Values) : SetToSeqV(Values)[i] = str)
RECURSIVE CodeFrom(_, _)
CodeFrom(strs, k) == IF k > NK THEN 0 ELSE StrCode(strs[k]) + (Cardinality(Values) + 1) * CodeFrom(strs, k + 1)
Code(m, strs) == m * 100000 + CodeFrom(strs, 1)
IdxOf(seq, x) == CHOOSE i \in 1..Len(seq) : seq[i] = x
\* one new series of metric m with tag strings strs (None = key missing)
WriteOne(m, strs) ==
  LET RECURSIVE NewVals(_)
      NewVals(k) == IF k > NK THEN << >>
                    ELSE (IF strs[k] # None /\ strs[k] \notin ToSet(vals[k]) THEN <<<<k, strs[k]>>>> ELSE << >>) \o NewVals(k + 1)
      tagOf(k) == IF strs[k] = None THEN 0
                  ELSE IF strs[k] \in ToSet(vals[k]) THEN IdxOf(vals[k], strs[k]) ELSE Len(vals[k]) + 1
      tags == [k \in 1..NK |-> tagOf(k)] IN
  /\ \A s \in SeriesIds : ~(series[s].m = m /\ series[s].tags = tags)       \* a new series
  /\ Canonical => \A s \in SeriesIds : Code(series[s].m, [k \in 1..NK |-> IF series[s].tags[k] = 0 THEN None ELSE vals[k][series[s].tags[k]]]) < Code(m, strs)
  /\ WriteBatch(NewVals(1), <<[m |-> m, tags |-> tags, x |-> 0]>>, <<Cardinality(OfMetricD(m))>>, 1)

MCInit == nk = NK /\ Init
MCNext ==
  \/ Len(series) < MaxSeries /\ \E m \in Metrics : \E strs \in TagMaps : WriteOne(m, strs)
  \/ "meta" \in Ops /\ (PrepMeta \/ FlushMeta \/ CompactMeta)
  \/ "idx" \in Ops /\ (PrepIdx \/ FlushIdx \/ CompactIdx)
  \/ "reopen" \in Ops /\ Reopen
MCSpec == MCInit /\ [][MCNext]_vars

\* ---- conditions
Lits == Values \cup ExtraLits
A(k, kind, neg, shape, lits, pat, lp) ==
  [op |-> "atom", k |-> k, kind |-> kind, neg |-> neg, shape |-> shape, lits |-> lits, pat |-> pat, lp |-> lp]
EqAtoms == {A(k, "eq", n, "", <<l>>, "", None) : k \in 1..NK, n \in {0, 1}, l \in Lits}
InAtoms == {A(k, "in", n, "", <<l1, l2>>, "", None) : k \in 1..NK, n \in {0, 1}, l1 \in Lits, l2 \in Values}
LikeAtoms == {A(k, "like", n, sh, <<l>>, "p", None) :
                k \in 1..NK, n \in {0, 1}, sh \in {"prefix", "suffix", "contains", "exact"}, l \in Lits \cup {None}}
\* anchored regular expressions: the literal prefix of the compiled pattern is empty
RegexAtoms == {A(k, "regex", n, sh, <<l>>, "r", None) :
                 k \in 1..NK, n \in {0, 1}, sh \in {"prefix", "suffix", "contains", "exact"}, l \in Lits}
              \cup {A(k, "regex", 0, "exact", <<l1, l2>>, "r", None) : k \in 1..NK, l1 \in Values, l2 \in Values}
\* unanchored single literal: the compiled pattern's literal prefix is the literal itself
BareRegexAtoms == IF UnanchoredRegex
                  THEN {A(k, "regex", n, sh, <<l>>, "r", l) : k \in 1..NK, n \in {0, 1}, sh \in {"bare", "suffix"}, l \in Lits}
                  ELSE {}
Atoms == EqAtoms \cup InAtoms \cup LikeAtoms \cup RegexAtoms \cup BareRegexAtoms
\* depth 2: every pair of atoms of the core (all of Atoms when FullDepth2)
Medium == {a \in EqAtoms \cup LikeAtoms \cup BareRegexAtoms : a.lits[1] \in Values /\ a.shape \in {"", "prefix", "bare"}}
Core == CASE CoreSize = "full" -> Atoms
          [] CoreSize = "medium" -> Medium
          [] CoreSize = "small" -> {a \in Medium : a.lits[1] = <<97>>}
          [] OTHER -> {a \in Medium : a.lits[1] = <<97>> /\ a.kind = "eq" /\ a.k = a.neg + 1}      \* "tiny"
Bin == {[op |-> o, l |-> a, r |-> b] : o \in {"and", "or"}, a \in Core, b \in Core}
True == [op |-> "true"]
Conds == {True} \cup Atoms \cup Bin \cup {[op |-> "paren", l |-> a] : a \in EqAtoms}
\* depth 3 sample: a left-associative chain and a parenthesised right operand over the equality atoms
Deep == IF CoreSize = "tiny" THEN {} ELSE
        {[op |-> "or", l |-> [op |-> "and", l |-> a, r |-> b], r |-> [op |-> "paren", l |-> c]] :
           a \in {x \in EqAtoms : x.k = 1 /\ x.lits[1] \in Values}, b \in {x \in EqAtoms : x.k = NK /\ x.neg = 1},
           c \in {x \in LikeAtoms : x.shape = "prefix" /\ x.neg = 0}}
Groupings == ({<< >>} \cup {<<k>> : k \in 1..NK} \cup {<<k1, k2>> : k1 \in 1..NK, k2 \in 1..NK}) \ {<<k, k>> : k \in 2..NK}

\* ---- invariants
FilterIsEval == \A m \in Metrics : \A c \in Conds \cup Deep : FilterIsEvalFor(m, c)
GroupByIsRef == \A m \in Metrics : \A c \in {True} \cup EqAtoms : \A g \in Groupings : GroupByIsRefFor(m, c, g)

\* the judge of the trace specification accepts the reference answer and rejects its neighbours
RECURSIVE SetToSeq(_)
SetToSeq(S) == IF S = {} THEN << >> ELSE LET x == CHOOSE y \in S : TRUE IN <<x>> \o SetToSeq(S \ {x})
LoneStar == A(1, "like", 0, "contains", <<None>>, "*", None)        \* like '*'
JudgeIsSharp ==
  \A m \in Metrics : \A c \in {True, LoneStar} \cup {a \in EqAtoms : a.k = 1} : \A g \in Groupings :
    LET S == Selected(m, c)
        gv == SetToSeq(RefGroupSet(S, g))
        cnt == [i \in 1..Len(gv) |-> RefCount(S, g, gv[i])]
        ok(v, n) == AnswerOK(m, c, g, 1, "ok", v, n) IN
    /\ ok(gv, cnt)
    /\ ~AnswerOK(m, c, g, 1, "error", gv, cnt)
    /\ \A i \in 1..Len(gv) :
         /\ ~ok(SubSeq(gv, 1, i - 1) \o SubSeq(gv, i + 1, Len(gv)), SubSeq(cnt, 1, i - 1) \o SubSeq(cnt, i + 1, Len(cnt)))
         /\ ~ok(gv, [cnt EXCEPT ![i] = @ + 1])
    /\ \A p \in [1..Len(g) -> 0..1] : p \notin RefGroupSet(S, g) => ~ok(Append(gv, p), Append(cnt, 1))
=============================================================================
