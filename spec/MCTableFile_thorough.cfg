CONSTANTS
  Keys <- K4
  Vals = {1, 2, 3}
  VLen <- VLen3
  NFiles = 2
  Dev = {}
SPECIFICATION MCSpec
INVARIANTS BuilderAgrees SizeAgrees GetAgrees IterAgrees MergeAgrees FindAgrees RefSelectionComplete
CHECK_DEADLOCK FALSE
