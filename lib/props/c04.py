"""C04 -- rollup writes the right aggregate into the right coarse slot, once (module MetricData)."""
import json
import os

import vcore
from props import c03


def run(ctx, replay):
    if replay:
        ok, info = ctx.validate_trace("MetricDataTrace", "MetricDataTrace.cfg", replay, dfs=False)
        if not ok:
            ctx.violation("MetricData:replay", "replayed trace rejected: %s" % info, replay_src=replay)
        return
    thorough = ctx.tier == "thorough"
    # M: rollup of a compacted source = rollup of the original files; grouping-insensitive reference
    ctx.model_check("MCMetricData", "MCMetricData.cfg", timeout=900)
    ctx.model_check("MCMetricData", "MCMetricData_b.cfg", timeout=900)
    # T: real engine, 10s -> 5min (day -> month) and -> 1h (day -> year); rollup, again, after restart, and
    # restarted from the directory image after every manifest commit of the rollup job
    nr, ni = (300, 80) if thorough else (40, 10)
    tr = c03.run_mdata(ctx, ["--compact", 0, "--rollup", nr, "--images", ni], "rollup")
    if tr is None:
        return
    n_img = sum(1 for ln in vcore.read_lines(tr) if "image-after-commit" in ln)
    ctx.extra["rollup_checks_from_crash_images"] = n_img

    def wrong_slot(lines):
        for i, ln in enumerate(lines):
            if '"ev":"Rollup"' in ln:
                d = json.loads(ln)
                for b in d["targetblocks"]:
                    if b:
                        b[0][2] += 1
                        out = list(lines)
                        out[i] = json.dumps(d, separators=(",", ":")) + "\n"
                        return out
        return None

    def doubled(lines):
        for i, ln in enumerate(lines):
            if '"ev":"Rollup"' in ln and '"label":"again"' in ln:
                d = json.loads(ln)
                t = {str(k): v for k, v in json.loads(lines[[j for j in range(i) if '"ev":"Types"' in lines[j]][-1]])["types"].items()}
                for b in d["targetblocks"]:
                    for c in b:
                        if t.get(str(c[1])) == "sum":
                            c[3] *= 2
                            out = list(lines)
                            out[i] = json.dumps(d, separators=(",", ":")) + "\n"
                            return out
        return None
    vcore.corrupt_selftest(ctx, "MetricDataTrace", "MetricDataTrace.cfg", tr, wrong_slot, "a target cell sits in the neighbouring coarse slot")
    vcore.corrupt_selftest(ctx, "MetricDataTrace", "MetricDataTrace.cfg", tr, doubled, "a sum cell counted twice after the rollup was triggered again")
    ctx.assumptions += [
        "source interval 10s (one family per hour), targets 5min (month calculator: family = day) and 1h (year calculator: family = month); the expected base slot (hour*12, (day-1)*24+hour) and the expected target segment/family are computed by the harness from the civil date, independent of lindb's calculators; TZ=UTC",
        "one source family per history (any hour of five dates incl. a leap day and month/year ends); values integral",
        "kill = directory copied after each manifest append of the rollup job, reopened by a new engine",
    ]
