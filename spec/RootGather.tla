----------------------------- MODULE RootGather -----------------------------
(***************************************************************************)
(* The root of a distributed metric query gathering the answers of its     *)
(* leaf targets (query/search.go exec, query/stage/physical_plan_stage.go, *)
(* task_send_stage.go, query/context/task_context.go, metric_context.go,   *)
(* root_metric_context.go, query/task_manager.go) -- the protocol part of  *)
(* property C12: the answer of a query does not depend on how the data is  *)
(* placed on leaf nodes nor on the order / timing of their answers.        *)
(*                                                                         *)
(* The physical plan names the targets.  The requests are sent one after   *)
(* another on the pipeline's goroutine while answers are handled           *)
(* concurrently by the task manager's workers: an answer may be handled    *)
(* before the request to the next target is sent (a local / idle leaf, a   *)
(* slow stream to the next target).  The query completes -- once -- when   *)
(* every planned target has answered, or with an error (a failing leaf,    *)
(* every leaf "not found"), or when the request context ends (timeout).    *)
(* A completed query without error carries the merge of ALL answers.       *)
(*                                                                         *)
(* Handling one answer has two parts: the bookkeeping (task state, one     *)
(* expected answer less, error check: AnswerCount) and putting the decoded *)
(* series into the grouping aggregator (AnswerMerge).  The code does both  *)
(* in ONE critical section of the context mutex (`lock`), so whoever sees  *)
(* an answer counted also sees its data; handlers of different answers run *)
(* on different workers and overlap everywhere else.                       *)
(***************************************************************************)
EXTENDS Integers, Sequences, FiniteSets, TLC

CONSTANT CountAtSend   \* FALSE (the code): every planned target is expected from plan time on ("add all targets then
                       \* send"); TRUE (deviation): an answer is expected only once its request is sent
CONSTANT CountThenMerge \* FALSE (the code): handleResponse counts an answer and merges its data in ONE critical section;
                        \* TRUE (deviation): two critical sections, the payload is decoded between them without the lock

Kinds == {"data", "empty", "notfound", "error"}

VARIABLES
  phase,     \* "idle" | "setup" (the leaves know what they will answer) | "run" (planned)
  kinds,     \* [leaf -> Kinds]: what each leaf answers (its data, nothing in range, metric unknown, a failure)
  targets,   \* targets of the physical plan
  sent,      \* targets whose request was sent
  counted,   \* targets whose answer was counted (bookkeeping part of handleResponse done)
  handled,   \* targets whose answer was handled by the root completely (counted, data merged, tryClose)
  lock,      \* the context mutex as far as answers hold it across two steps: NoLock or the target whose handler holds it
  expect,    \* expectResults
  tolerant,  \* tolerantNotFounds
  errs,      \* errors recorded in the context
  merged,    \* leaves whose data went into the grouping aggregator
  closed,    \* doneCh closed (latched: tryClose after an answer / after the pipeline completed)
  res        \* what the caller got: [kind |-> "none"] | [kind |-> "ok", merged, handled, counted] | [kind |-> "err", errs, handled] | [kind |-> "timeout", handled]

vars == <<phase, kinds, targets, sent, counted, handled, lock, expect, tolerant, errs, merged, closed, res>>

NoRes == [kind |-> "none"]
NoLock == "-"

\* the state in which the leaves K (a function leaf -> kind) are about to be queried, whatever was before
SetupState(K) ==
  /\ phase' = "setup" /\ kinds' = K /\ targets' = {} /\ sent' = {} /\ counted' = {} /\ handled' = {} /\ lock' = NoLock
  /\ expect' = 0 /\ tolerant' = 0 /\ errs' = {} /\ merged' = {} /\ closed' = FALSE /\ res' = NoRes

Init ==
  /\ phase = "idle" /\ kinds = << >> /\ targets = {} /\ sent = {} /\ counted = {} /\ handled = {} /\ lock = NoLock
  /\ expect = 0 /\ tolerant = 0 /\ errs = {} /\ merged = {} /\ closed = FALSE /\ res = NoRes

Setup(K) == phase = "idle" /\ DOMAIN K # {} /\ SetupState(K)

\* RootMetricContext.MakePlan -> addRequests: every target of the plan is registered before the first request leaves
Plan(T) ==
  /\ phase = "setup" /\ T # {} /\ T = DOMAIN kinds
  /\ phase' = "run" /\ targets' = T
  /\ expect' = IF CountAtSend THEN 0 ELSE Cardinality(T)
  /\ tolerant' = Cardinality(T)
  /\ UNCHANGED <<kinds, sent, counted, handled, lock, errs, merged, closed, res>>

\* one task send stage (they run one after another; the pipeline completes after the last one)
Send(t) ==
  /\ phase = "run" /\ t \in targets \ sent /\ res.kind = "none"
  /\ sent' = sent \cup {t}
  /\ expect' = IF CountAtSend THEN expect + 1 ELSE expect
  /\ UNCHANGED <<phase, kinds, targets, counted, handled, lock, tolerant, errs, merged, closed, res>>

\* MetricContext.HandleResponse of the answer of t (any time after its request was sent, also between two sends, also
\* after the query completed), first part -- handleTaskState, expectResults--, handleStats, checkError under the mutex.
\* The code keeps the mutex for the second part; the deviation releases it here (the payload is decoded unlocked).
AnswerCount(t) ==
  /\ phase = "run" /\ t \in sent \ counted /\ lock = NoLock
  /\ counted' = counted \cup {t}
  /\ LET k == kinds[t]
         tol == IF k = "notfound" THEN tolerant - 1 ELSE tolerant
     IN /\ expect' = expect - 1
        /\ tolerant' = tol
        /\ errs' = IF k = "error" THEN errs \cup {"error"}
                   ELSE IF k = "notfound" /\ tol <= 0 THEN errs \cup {"notfound"}
                   ELSE errs
  /\ lock' = IF CountThenMerge THEN NoLock ELSE t
  /\ UNCHANGED <<phase, kinds, targets, sent, handled, merged, closed, res>>

\* second part -- the series of the answer go into the grouping aggregator (under the mutex: the one still held, or
\* in the deviation taken again), the mutex is released, then tryClose
AnswerMerge(t) ==
  /\ phase = "run" /\ t \in counted \ handled
  /\ lock = IF CountThenMerge THEN NoLock ELSE t
  /\ handled' = handled \cup {t}
  /\ merged' = IF kinds[t] = "data" THEN merged \cup {t} ELSE merged
  /\ lock' = NoLock
  /\ closed' = (closed \/ expect <= 0 \/ errs # {})
  /\ UNCHANGED <<phase, kinds, targets, sent, counted, expect, tolerant, errs, res>>

\* the pipeline completed (Complete(nil) -> tryClose, which needs the mutex) and WaitResponse found doneCh closed
ClosedNow == closed \/ (lock = NoLock /\ (expect <= 0 \/ errs # {}))
Result ==
  /\ phase = "run" /\ res.kind = "none" /\ sent = targets /\ ClosedNow
  /\ closed' = TRUE
  /\ res' = IF errs # {} THEN [kind |-> "err", errs |-> errs, handled |-> handled]
            ELSE [kind |-> "ok", merged |-> merged, handled |-> handled, counted |-> counted]
  /\ UNCHANGED <<phase, kinds, targets, sent, counted, handled, lock, expect, tolerant, errs, merged>>

\* the request context ended while the root waited for answers
Timeout ==
  /\ phase = "run" /\ res.kind = "none" /\ sent = targets /\ ~ClosedNow
  /\ res' = [kind |-> "timeout", handled |-> handled]
  /\ UNCHANGED <<phase, kinds, targets, sent, counted, handled, lock, expect, tolerant, errs, merged, closed>>

\* ------------------------------------------------------------------ properties (C12, protocol level)
DataLeaves == {t \in targets : kinds[t] = "data"}
\* a query that completes without error has heard every planned target and carries the data of all of them,
\* whatever the placement of the data and whenever the answers came
CompleteAfterAll ==
  res.kind = "ok" => /\ res.handled = targets
                     /\ res.merged = DataLeaves
\* the result is the merge of ALL answers the root counted: an answer that made the query complete (it is counted) is
\* in the result with its data -- nothing is between "heard" and "merged" for the one who builds the result
ResultComplete ==
  res.kind = "ok" => /\ res.counted \subseteq res.handled
                     /\ \A t \in res.counted : kinds[t] = "data" => t \in res.merged
\* a failure is never turned into a successful (partial or empty) answer
NoSilentError ==
  res.kind = "ok" => /\ \A t \in targets : kinds[t] # "error"
                     /\ \E t \in targets : kinds[t] # "notfound"
\* a leaf that holds nothing never turns an answer into an error: an error has a cause
ErrorHasCause ==
  res.kind = "err" => /\ res.errs \subseteq {"error", "notfound"}
                      /\ "error" \in res.errs => \E t \in res.handled : kinds[t] = "error"
                      /\ "notfound" \in res.errs => \A t \in targets : kinds[t] = "notfound"
\* a timeout is reported only while an answer is outstanding
TimeoutOnlyIfMissing == res.kind = "timeout" => res.handled # targets
=============================================================================
