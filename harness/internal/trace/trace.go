// Package trace records ndjson events for TLC trace validation.
//
// One Recorder per output file. Emit takes the recorder lock, assigns the next
// sequence number and writes one JSON object per line; callers emit at the
// linearisation point of the step they describe (inside the seam / under the lock
// that makes the step atomic), so the file order is a legal interleaving.
package trace

import (
	"bufio"
	"encoding/json"
	"os"
	"sync"
)

// F is the field map of one event.
type F map[string]any

type Recorder struct {
	mu     sync.Mutex
	f      *os.File
	w      *bufio.Writer
	seq    int
	traces int
	events int
	// Tap, when set, receives a copy of every line written (without newline)
	Tap func(line []byte)
}

func New(path string) (*Recorder, error) {
	f, err := os.Create(path)
	if err != nil {
		return nil, err
	}
	return &Recorder{f: f, w: bufio.NewWriterSize(f, 1<<20)}, nil
}

// Emit writes one event; "ev" names the specification action.
func (r *Recorder) Emit(ev string, fields F) {
	r.mu.Lock()
	defer r.mu.Unlock()
	r.emitLocked(ev, fields)
}

func (r *Recorder) emitLocked(ev string, fields F) {
	m := make(map[string]any, len(fields)+2)
	for k, v := range fields {
		m[k] = v
	}
	m["ev"] = ev
	r.seq++
	m["n"] = r.seq
	b, err := json.Marshal(m)
	if err != nil {
		panic(err)
	}
	r.w.Write(b)
	r.w.WriteByte('\n')
	r.events++
	if r.Tap != nil {
		r.Tap(b)
	}
}

// Reset starts a new trace inside the same file (TraceReset action of the trace specs).
func (r *Recorder) Reset(fields F) {
	r.mu.Lock()
	defer r.mu.Unlock()
	r.traces++
	r.emitLocked("Reset", fields)
}

// Locked runs fn while holding the recorder lock (for compound atomic emissions).
func (r *Recorder) Locked(fn func(emit func(ev string, fields F))) {
	r.mu.Lock()
	defer r.mu.Unlock()
	fn(r.emitLocked)
}

// Raw writes pre-rendered lines (used to repeat a prefix of an earlier trace).
func (r *Recorder) Raw(lines [][]byte) {
	r.mu.Lock()
	defer r.mu.Unlock()
	for _, b := range lines {
		r.w.Write(b)
		r.w.WriteByte('\n')
		r.events++
	}
}

func (r *Recorder) Counts() (traces, events int) {
	r.mu.Lock()
	defer r.mu.Unlock()
	return r.traces, r.events
}

// Flush writes buffered lines to the file (so that a crash of the driver keeps the trace so far).
func (r *Recorder) Flush() error {
	r.mu.Lock()
	defer r.mu.Unlock()
	return r.w.Flush()
}

func (r *Recorder) Close() error {
	r.mu.Lock()
	defer r.mu.Unlock()
	if err := r.w.Flush(); err != nil {
		return err
	}
	return r.f.Close()
}

// Summary is what every vdrive subcommand prints as its last stdout line (JSON).
type Summary struct {
	Module     string         `json:"module"`
	Traces     int            `json:"traces"`
	Events     int            `json:"events"`
	Distinct   int            `json:"distinct"`
	Violations []Violation    `json:"violations"`
	Unresolved []string       `json:"unresolved"`
	Samples    []any          `json:"samples"`
	Extra      map[string]any `json:"extra,omitempty"`
}

// Violation is a direct (harness-side) observation that a property invariant is
// false in the projected real state; trace rejections are found by TLC afterwards.
type Violation struct {
	Signature string `json:"signature"`
	Detail    string `json:"detail"`
	Trace     int    `json:"trace"`
}

func (s *Summary) Print() {
	if s.Violations == nil {
		s.Violations = []Violation{}
	}
	if s.Unresolved == nil {
		s.Unresolved = []string{}
	}
	if s.Samples == nil {
		s.Samples = []any{}
	}
	b, _ := json.Marshal(s)
	os.Stdout.Write(append([]byte("SUMMARY "), append(b, '\n')...))
}
