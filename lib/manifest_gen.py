#!/usr/bin/env python3
"""Generates /verif/MANIFEST.json from the table below (single source of truth)."""
import json
import os
import subprocess

VERIF = os.path.dirname(os.path.dirname(os.path.abspath(__file__)))

BASELINE_OFF = ("cd /repo && GOFLAGS=-mod=mod go test -json -vet=off -count=1 -timeout 25m ./...")

CHECKS = {
    "C19": dict(
        module="Pipeline",
        technique="TLA+ model checking (TLC, all tree shapes x outcomes x interleavings) + trace validation of the real pipeline/state machine/baseStage/pool under a seeded gate scheduler",
        text=("TLC exhausts every interleaving of the pipeline state machine for all stage trees of <=4 stages with every "
              "sync/async and ok/err/panic assignment (safety invariants + termination under fairness); the real "
              "query.NewExecutePipeline with the real baseStage and worker pool is then driven through hundreds of "
              "seeded gate schedules and free-running schedules and every recorded execution must be a behaviour of that "
              "specification with all invariants true in every state. Model checking is the right level: the property "
              "quantifies over completion orders, which only exhaustive interleaving exploration covers."),
        note=("Trusted: TLC, the Json community module, the scripted stage bodies and gate scheduler of the harness, "
              "the verif-tagged scripted stage (uses the real baseStage.Execute). Exhaustive only within <=4 stages; "
              "real-code schedules are sampled at gate granularity."),
        ref="DESIGN.md section 7 C19",
    ),
}

CHECKS["C05"] = dict(
    module="WALQueue",
    technique="TLA+ model checking of the store-level queue model (TLC, kill between any two stores) + trace validation of the real pkg/queue: every mapped-page store observed, crash image after every store recovered by the real code, gated concurrent appenders + replay of TLC-generated behaviours (tlc -simulate on WALQueueGen) into the real queue",
    text=("The WALQueue module has one action per store into a memory-mapped page; TLC explores every interleaving of "
          "calls and a process kill between any two stores (4M states) and checks that every successfully appended, "
          "unacknowledged message reads back byte for byte from memory and from the durable image, with dense sequence "
          "numbers. The real queue runs behind a wrapping page factory: each store is recorded where it happens and "
          "must be exactly the store the specification expects next; the directory image after every single store is "
          "materialised, reopened by the real code, appended to and compared with the model; concurrent appenders are "
          "interleaved by a seeded gate inside the append. Crash points and interleavings are what the property "
          "quantifies over, so exhaustive exploration of the model plus store-exact conformance is the right level."
          " Leg R: API-call histories chosen by TLC from the store-level model (WALQueueGen; `small`: one byte per length unit with crash images of the prefix before the first close, `roll`: 32 MiB per unit so that the real 128 MiB pages roll over where the model's 4-unit pages do) are executed call by call against the real queue and validated like every other trace; drained-queue, boundary and failing-roll-over histories are scripted."),
    note=("Trusted: TLC, Json module, the page-factory wrapper and image materialiser (a kill keeps exactly the completed "
          "MAP_SHARED stores; no power loss / torn stores), xxhash payload comparison. Bounds: 2 threads, 2 groups, 3 "
          "appends, 1 kill in the model; real pages are 128MB so roll-over is exercised with 50-80MB messages."),
    ref="DESIGN.md section 7 C05",
)
CHECKS["C06"] = dict(
    module="WALQueue",
    technique="TLA+ model checking (TLC) of consumer-group positions, Sync and GC + trace validation of long random API histories of the real FanOutQueue with full state projection after every call + replay of TLC-generated behaviours (WALQueueGen) into the real FanOutQueue",
    text=("Same module as C05: consume / ack / set-consumed / sync / gc / create / stop / reopen are actions with their "
          "stores; TLC checks acknowledged <= consumed <= appended, the queue-wide position moving only forward and never "
          "beyond the smallest group position at that moment, and readability of everything above it, over all histories "
          "within bounds. The real FanOutQueue is driven through seeded histories (3 groups, page roll-over, stop/reopen); "
          "after every call the full projection (positions of queue and groups, Get of every live sequence) must equal "
          "the model state and every store must be the expected one."
          " Leg R: histories of group operations chosen by TLC (create / failed creation / stop / consume / acknowledge / set-consumed / Sync / GC / close / reopen) are executed against the real fan-out queue; histories with acknowledged and appended positions in different index pages (262144 entries) and data pages are scripted."),
    note=("Trusted as C05. Explicit index resets: only the forward reset is modelled (the property excludes resets); "
          "operations of one history are sequential (the code serialises consume/ack on a group by its lock)."),
    ref="DESIGN.md section 7 C06",
)

CHECKS["C01"] = dict(
    module="KVStore",
    technique="TLA+ model checking of the kv store's file-system protocol (TLC, kill between any two operations incl. recovery) + trace validation of the real kv store: every seam operation observed, crash image after every operation reopened by the real recovery code",
    text=("KVStore has one action per file-system operation of the kv store (OPTIONS replace, MANIFEST create / "
          "append+sync, CURRENT.tmp write, rename, manifest and table removal, table create / close) and models the "
          "code's quirk that a logged next-file-number moves the manifest number. TLC explores all histories of "
          "create-family / flush / move+merge compaction / rollup marks with up to two kills anywhere (2.2M states) and "
          "checks: recovered versions = committed versions, no partial table visible, content = what committed flushes "
          "wrote, the store always reopens, no file number reused. The real store runs with all its I/O seams wrapped: "
          "each operation must be the next one the specification allows with exactly the logged record, the directory "
          "is copied after every operation and reopened by the real recovery (also a kill during recovery), whose "
          "projection must equal the model. Crash points x histories is what the property quantifies over."),
    note=("Trusted: TLC, Json module, the seam wrappers and directory copier (kill = completed file-system operations "
          "survive, user-space buffers are lost; no power loss / torn single write), the edit-log decoder export. "
          "One writer at a time in these histories (concurrency is C02)."),
    ref="DESIGN.md section 7 C01",
)
CHECKS["C02"] = dict(
    module="KVStore",
    technique="TLA+ model checking of readers/flusher/compaction/cleanup interleavings (TLC) + trace validation of the real family under a seeded gate scheduler whose gates are the file-system seams",
    text=("MCKVReaders instantiates KVStore with two readers, a flusher, a level-0 compaction holding its own snapshot "
          "and two obsolete-file cleanups split exactly like family.deleteObsoleteFiles (list, collect pending, collect "
          "active versions, collect rollup files, remove); TLC explores all interleavings (2.6M states): files of open "
          "snapshots, of the current version and live rollup files always exist, and every removal the code would "
          "perform is one the specification's guard allows. The real family is driven by readers, a flusher, "
          "Family.Compact and extra cleanups under a seeded scheduler that parks threads at the seams; snapshot reads "
          "must equal the content at acquisition, a fresh snapshot must show every completed commit, and no removal "
          "may hit a file that the model still holds live."),
    note=("Trusted as C01 plus the gate scheduler. Interleavings of the real code are sampled at seam granularity "
          "(table create, manifest append, directory listing, table removal, reader steps); the collect order inside "
          "deleteObsoleteFiles is covered by the model only."),
    ref="DESIGN.md section 7 C02",
)

CHECKS["C08"] = dict(
    module="Replication",
    technique="TLA+ model checking of the transcribed replication handshake/round protocol under all fault placements (TLC, safety + resync liveness) + trace validation of the real remoteReplicator, partitions and queues driven step by step with injected faults + replay of TLC-generated behaviours (tlc -simulate on ReplicationGen: the model chooses the fault placements) into the real replicator",
    text=("Replication.tla transcribes IsReady branch by branch, the follower's append-only-at-next-index rule and the "
          "leader's ack rule; TLC explores every placement of send/receive/RPC failures, follower restart, follower "
          "log loss, leader restart and GC (safety invariants PositionalEquality, NoHoles, AckImpliesAppended, "
          "NoSilentSkip, action property AckOnlyAppended, liveness Resync under weak fairness). The real "
          "remoteReplicator talks to a real follower Partition through an in-process client with fault injection, one "
          "replica-loop iteration at a time; after every step both logs and all indexes must equal the model and the "
          "invariants are evaluated on every state of every recorded history. Histories with a leader that lost its log "
          "tail violate the property in the real code: recorded as known findings, re-confirmed on every run both in the "
          "model (tail-loss configuration must produce a counterexample) and on the code."
          "  Leg R: 400 (quick) / 2300 (thorough) behaviours chosen by TLC from the protocol model are executed step by step against the real code; the real state must be the model's state after every step. Every fourth random history starts on a long-lived leader log (positions inside a later index page), and replica rounds also run while an append of the leader is parked before the copy of its payload."),
    note=("Trusted: TLC, Json module, the in-process transport (RPC bodies copied from app/storage/rpc/replica.go), "
          "fake shard/family/state-manager objects that only supply names. IsReady+Connect is one step; "
          "offline/online notifications not driven; one follower."),
    ref="DESIGN.md section 7 C08",
)

CHECKS["C18"] = dict(
    module="Master",
    technique="TLA+ model checking (TLC): exhaustive evaluation of the transcribed assignment function + all event sequences of the master state machine within bounds; trace validation of the real StateManager fed one discovery event at a time + replay of TLC-generated behaviours (MasterGen, 5 nodes / 2 databases / 6 shards / rf 3) into the real StateManager; transient repository faults (read, first write, second write of an assignment) in model, generator and driver",
    text=("Part A transcribes assignReplicasToStorageNodes as a TLA+ operator; TLC evaluates it for every cluster size "
          "<=5, shard count <=8, replica factor, start index, replica shift and growth step (7200 cases, each growth "
          "under all 25 fresh random choices): exactly rf distinct live nodes, round-robin first replicas, existing "
          "shards untouched. Part B models the repository view and the state view separately with a queue of pending "
          "discovery events and the five handlers of processEvent; TLC explores every sequence of node up/down, "
          "create/grow/drop and event processing (245k states quick) and checks, whenever all events are processed, "
          "online <=> some replica alive and leader = an alive replica. The real StateManager runs over an in-memory "
          "repository with the harness as discovery watcher; after every step the storage state, the stored "
          "assignments and the live sets must equal the model (the code's random start/shift bound existentially)."
          "  Leg R: behaviours of 140 / 200 steps chosen by TLC are executed against the real StateManager. Repository faults while one database-config event is handled are steps of the model (ProcessF) and injected by the in-memory repository; a handler that goes on after a failed read of the stored assignment (MCMaster_dev_readfault) must violate GrowKeepsExisting."),
    note=("Trusted: TLC, Json module, the in-memory repository and event feeder of the harness, the verif hook that calls "
          "processEvent synchronously. Event order = order of repository writes (what an etcd watch delivers)."),
    ref="DESIGN.md section 7 C18",
)

CHECKS["C09"] = dict(
    module="IDDict",
    technique="TLA+ model checking (TLC) that the lock-section model of get-or-create refines a linearizable dictionary + trace validation of call/return histories of the real metadata database (free-running goroutines, gated windows, flush/reopen, crash images) against that dictionary",
    text=("IDDict.tla has two layers: the specification (a name->id dictionary: every call returns the name's id or a "
          "fresh one; after reopen / recovery a recovered name keeps its id and a new name never gets an id a recovered "
          "name holds) and an implementation model of index/kv_store.go at lock-section granularity (memory lookup, "
          "bucket cache / snapshot load, cache add, create under the write lock, prepare-flush, flush). TLC shows every "
          "interleaving of 2 threads x 2 names x flushes of the implementation model is Stable and Injective, and that "
          "each of the three repaired mechanisms is necessary (switching one off yields a counterexample). The real "
          "MetricMetaDatabase is driven by 2-7 free-running goroutines, by scenarios that park a goroutine at the two "
          "in-function gates while the windows of those counterexamples are played, by sequential histories with "
          "flush and reopen, and by recovery of the directory image after every file-system operation of a metadata "
          "flush; every return must be explained by the dictionary specification."),
    note=("Trusted: TLC, Json module, the harness' call/return recorder (events are ordered by the recorder lock: a "
          "return is logged after the call returned, a call before it started), the two gate hooks. Free-running "
          "interleavings are sampled; the gated scenarios are deterministic."),
    ref="DESIGN.md section 7 C09",
)

CHECKS["C03"] = dict(
    module="MetricData",
    technique="TLA+ reference semantics of metric blocks (TLC: algebra of the merge on all small cases) + TLC as judge of recorded compactions of the real kv family / metric-data merger",
    text=("MetricData.tla defines a block as a set of (series, field, slot, value) cells and the reference merge per "
          "field type; TLC checks on every triple of small blocks (36k cases per type set) that compacting in steps, "
          "with overlapping level-1 files or all at once gives the same reader-visible cells. The harness writes random "
          "blocks (series ids across 65536 boundaries, field subsets, disjoint/overlapping/nested slot ranges, tiny max "
          "file size so outputs split) with the real metricsdata.Flusher through a real kv flusher, runs Family.Compact() "
          "with the registered MetricDataMerger up to three rounds (level 0 + level 1), reads every metric before and "
          "after through Snapshot.Load + metricsdata.NewReader + the query data loader, and TLC requires after = "
          "reference merge(before): exact for sum/min/max, a contributed value for first/last, identical cell domain."),
    note=("Trusted: TLC, Json module, the harness' block generator and cell reader (the read path is lindb's own). "
          "Values are integral so float aggregation is exact. Input shapes are sampled, not enumerated."),
    ref="DESIGN.md section 7 C03",
)
CHECKS["C04"] = dict(
    module="MetricData",
    technique="TLA+ reference semantics of rollup (target slot = base + slot div ratio, each source file once) checked by TLC on all small cases + TLC as judge of rollups run by a real engine, re-triggered, after restart and from crash images at every manifest commit of the rollup job",
    text=("The reference RollupOK states which target cell every source cell feeds and that every source block counts "
          "exactly once; TLC verifies on the small universe that rolling up a compacted source equals rolling up the "
          "original files. A real tsdb engine (10s source; 5min and 1h targets, i.e. the day->month and day->year "
          "calculators) writes and flushes points of one source family at hours 0/1/11/12/22/23 of five dates "
          "(leap day, month and year ends), optionally compacts the source first, then ForceRollup is run, run again, "
          "run after an engine restart, and run after restarting from the directory image taken after each manifest "
          "commit of the rollup job; each time the target stores' blocks must equal the reference and live in the "
          "segment/family the civil date dictates."),
    note=("Trusted: TLC, Json module, the engine setup of the harness, the seam wrapper used to take the images. Base "
          "slot and expected target family are computed from the civil date by the harness, not by lindb's calculators "
          "(those are C13). TZ=UTC."),
    ref="DESIGN.md section 7 C04",
)

CHECKS["C07"] = dict(
    module="NodeRecovery",
    technique="TLA+ model checking of the node's log / replication / flush-job / crash / recovery state machine (TLC) + trace validation of a real in-process node (tsdb engine + WAL partition + local replicator) with directory images after every step and between data commit and log acknowledgement, each recovered, replayed and read back by the real code",
    text=("NodeRecovery.tla composes the abstractions justified by C01/C05/C06/C09 into one node: append, local "
          "replication round (validate sequence, write rows, create ids, commit sequence), metadata flush, family "
          "freeze, data commit (file + sequence in one record), ack callback, crash, recovery. TLC checks over all "
          "interleavings and crash points (bounded): the acknowledged log position never exceeds the sequence stored "
          "with the data, no entry is lost, none is applied twice; and shows that FlushedResolves additionally needs "
          "the memory database to be frozen before the metadata prepare-flush (the code's order violates it: known "
          "finding). A real node is stepped through seeded histories in which the engine's flush job (metadata, "
          "index, data) races with replication; the directory is imaged after every step and at the manifest commit "
          "of the data file; every image is reopened by the real code, replayed, flushed and every entry is read "
          "back by name. Each observation must equal the model state, all invariants are evaluated on every state. "
          "The same histories also run on a FOLLOWER-side node whose partition is created and recovered by the real "
          "WriteAheadLogManager (directory layout database / shard / family / leader, Recovery()), entries arriving "
          "through Partition.ReplicaLog; and the life cycle of the data family between log and kv store "
          "(FamilyLifecycle: flush stages, Close, Evict, a writer parked between obtaining the memory database and "
          "writing while a flush runs) is validated as a leg of this property."),
    note=("Trusted: TLC, Json module, the kv seam wrapper and directory copier (memdb temp buffers are not part of an "
          "image; WAL pages are copied sparsely), the engine setup of the harness. One shard, one family, metric names "
          "only (tags/series covered by C09/C10)."),
    ref="DESIGN.md section 7 C07",
)

CHECKS['C13'] = dict(
    module='TimeAxis',
    technique='TLA+ reference semantics of the calendar / segment / family / slot / planner arithmetic, model-checked exhaustively (TLC) on a six-year window, + TLC trace validation judging the real calculators, ingestion grouping, query planner and real shard family lookup',
    text="TimeAxis.tla defines the reference: the Gregorian calendar from its definition, and per interval type the segment, family and slot that contain an instant, the families a range overlaps, and the planner's interval and range selection. TLC checks the reference itself exhaustively: the calendar closed forms against the day-successor rule for every day 1970-2038, and containment, gap-free tiling, idempotence, (segment,index) naming and slot bounds at every hour edge (-1 ms, 0, +1 ms, mid) of 2019-2025 for every interval value, plus the planner properties (stored interval chosen, query interval a whole multiple, range aligned and covering) around every threshold. The real code is then judged by TLC, not by the harness: the driver logs inputs and real outputs of every IntervalCalculator method, CalcSlotRange, the broker's family grouping of rows, RootMetricContext.MakePlan and Shard.GetOrCrateDataFamily / GetDataFamilies on a real engine, and each event must equal the reference operator applied to its input (10^4-10^5 millisecond instants per run, biased to month, leap-day, year and hour edges). The property is universally quantified over instants and interval settings, which a reference specification plus exhaustive bounded checking plus large judged samples reaches and single-date unit tests do not.",
    note="Trusted: TLC, the Json community module, the driver's [seconds, ms] encoding of int64 timestamps. Assumes TZ=UTC (calculators use time.Local), whole-second intervals (all the option / grammar admit), instants in 2019-2025 (32-bit TLC integers end in 2038). Known finding C13-K1 (family lookup across a segment edge of the month / year calculator) is re-confirmed on every run in the model and on the real shard. CalcTimeWindows (unused by lindb) and the intermediate-node planner entry are not covered.",
    ref='DESIGN.md section 7 C13',
)

CHECKS['C14'] = dict(
    module='Codec',
    technique='TLC model checking of a bit-level reuse-history model against a reference + TLC trace validation of the real codecs',
    text='spec/Codec.tla is the reference: for every block of bytes it remembers what was put in and for every encoder/decoder object where its cursor must be, and every action is enabled only if the outputs equal that reference (sequential reads, slot-addressed reads, header slot range, end of block, offsets with width/size/GetBlock ranges, delta-packed integers, bitmaps, snappy chunks, stream puts). Leg M (MCCodec) runs a bit-level transcription of TSDEncoder/TSDDecoder + XOR codec + bit writer/reader at word width 2 in lockstep with the reference and lets TLC enumerate every reuse history of one encoder and one decoder object over two blocks of up to three slots, all partial decodes and slot probes (0.66 M states quick, 6.8 M thorough); switching off any single clean-up step of the Reset paths makes TLC produce a diverging history, so the property provably rests on them. Leg T drives the real pkg/encoding, pkg/bit, pkg/stream and pkg/compress code through seeded histories of pooled and hand-reset objects (all IEEE-754 classes incl. NaN payloads, -0, subnormals; dense/sparse/gapped slot masks up to 700 slots; offsets up to 2^32-1 around every width boundary; int32 deltas of every bit width incl. wrap-around) and TLC judges every recorded answer (about 50 000 events per quick run, 350 000 thorough); equal bytes standing for different content is rejected too. A panic of the code under test, a wrong value, a missed or phantom slot, a wrong width or range is a rejected trace = VIOLATION. Known finding C14-K1 (block ending at slot 65535 never ends sequentially) is reproduced on every run.',
    note="Trusted base: the Go recorder's interning of bit patterns/byte strings and its run-length form of bitmaps; the transcription of the codecs in MCCodec.tla at reduced widths; TLC. Input breadth is sampled (seeded), history breadth is exhaustive in the model and sampled on the real code. Not covered: TSDDecoder.Seek (unused in lindb; fails over empty slots), calling Bytes() twice on one encoder (second answer has an extra byte), holding a decoder's/uncompressor's answer across its next reset.",
    ref='DESIGN.md section 7 C14',
)

CHECKS['C15'] = dict(
    module='TableFile',
    technique='TLC model checking of the table mechanisms against a map reference + TLC trace validation of the real table / version code',
    text="spec/TableFile.tla is the reference: a table is the map made of the strictly ascending subsequence of the offered keys (a key not above the last accepted one is ignored and changes nothing: min/max/count/size after every offer are part of the reference), a reader answers that map and iterates it in key order, a merged iterator answers the key-ordered multiset union of its inputs, a version answers the files whose key range holds a key and one value per file that has it. Leg M (MCTableFile) transcribes the mechanisms -- data area + offset list + rank(key)-1 lookup with 'next offset or end of data', the stream writer with its badKey flag and remembered offset, container/heap Init/Pop/Push+Fix of the merged iterator, min<=key<=max file selection -- and TLC enumerates every sequence of Add/stream operations over 4 keys around the 65536 boundary for 2 files and over 3 keys for 3 files, checking lookups of every key, iteration, the merge in every input order and the file selection against the reference (118 k + 264 k states quick, 1.7 M + 9.4 M thorough); switching off the heap fix, the inclusive max test, the order check of the stream writer or the commit protocol each yields a counterexample. Leg T drives the real kv/table builder (Add and stream, keys dense / sparse / run-shaped / crossing 65536 boundaries / 0 and 2^32-1, out-of-order and repeated keys, values from 0 bytes to megabytes), reads every table back through the reader cache (present keys, neighbours, absent keys, full iteration), merges arbitrary selections of tables (also none, also one twice), flushes overlapping files into a real kv store family and asks FindFiles / FindReaders / Load (also after reopening the store), and builds tables of 10^5 keys judged on sampled lookups and iteration rows; TLC judges every answer (about 35 000 events per quick run). A panic of the code under test is a rejected trace. Known finding C15-K1 (a flush whose values are all empty is dropped without an error by kv/flusher.go) is reproduced on the real code on every run.",
    note="Trusted base: the Go recorder's interning of values and the (hi,lo) split of keys; the transcription of the mechanisms in MCTableFile.tla; TLC. Key/value breadth is seeded sampling, operation-sequence breadth is exhaustive in the model. Not covered: builder Abandon, reader cache eviction/TTL (C02), compaction and rollup (C03/C04), a stream written but never committed (caller's duty; shown as model deviation).",
    ref='DESIGN.md section 7 C15',
)

CHECKS['C16'] = dict(
    module='Ingest',
    technique='TLA+ reference semantics of ingestion (canonical form, validity, write window, shard x family partition, calendar) model-checked on every small batch (TLC) + TLC as judge of recorded conversions and routings of the real protobuf / flat / line-protocol ingestion paths',
    text="Ingest.tla specifies what an accepted metric must look like after conversion (name and namespace with '|' sanitised, the timestamp sent or the current time when unset, tags sorted by key with one value per key taken from the values sent -- the last one for the line protocol --, fields per format including the line protocol's _sum/_last derivation and field-name sanitising, histogram unchanged), which metrics must be rejected as a whole (empty name, no field, empty tag key or value, NaN/Inf, unspecified type, malformed histogram, every limit), and how a batch is routed: rows outside the write window and nothing else are dropped, every other row reaches exactly one (shard, family) group, the shard is below the shard count, the family time is the start of the hour / day / month (by interval type, proleptic calendar in integer arithmetic) that contains the row's timestamp. Hashes are uninterpreted: the tags hash must be an injective function of the canonical tag list, the name hash a function of namespace++name, the shard a function of (tags hash, shard count) -- learned across formats, tag permutations and batch compositions, which is exactly order-independence, independence of the other rows and agreement between formats. TLC checks the reference on every batch of a tiny universe (all tag lists with repeats, all choices among repeated keys, timestamps at window and family edges incl. a leap day, three calculators, a pooled batch object reused across batches). The real ingestion/proto, ingestion/flat and ingestion/influx Parse entry points, BrokerBatchRows eviction, shard and family iterators, BrokerRow.WriteTo and StorageBatchRows are then driven with seeded requests and TLC accepts a trace only if every row and every group is what the specification demands. Three genuine defects found on the unchanged tree are recorded as known findings and re-confirmed on every run.",
    note="Trusted: TLC and the Json module, the driver's renderers (protobuf marshal, hand-built flat buffers with unsorted / repeated tags and garbage hashes, escaped line protocol) and its logging, the transcription of databaseChannel.Write's routing loop in the driver (the channel objects need a running broker). Value classes (NaN/Inf, malformed histogram) are part of the input description. TZ=UTC. The code reads its own clock: instants within 20 s of a window bound are not generated and the specification tolerates either outcome inside the measured clock interval. The flat path's handling of the request namespace is judged under the named deviation Deviation_FlatIgnoresRequestNamespace in the main trace and strictly in a dedicated trace (finding C16-K3).",
    ref='DESIGN.md section 7 C16',
)

CHECKS['C17'] = dict(
    module='StmtWire',
    technique='TLA+ statement model with the wire specified as identity and as a tagged envelope (Enc/Dec), envelope model-checked lossless by TLC over a bounded tree universe, + TLC trace validation judging the real sql.Parse, stmt.Marshal/Unmarshal, Query/MetricMetadata (Un)MarshalJSON and the payload MakePlan really sends',
    text='StmtWire.tla models statement trees (field, number, call, paren, binary, tag filters, not, select item, order-by item, any kind below any kind) and statements as records of clauses; the wire must be the identity on them. The same module specifies how the wire is built - one tagged JSON envelope per kind, omit-empty statement fields, intervals as text - and TLC checks Dec(Enc(x)) = x for every tree up to nesting depth 3 over a small alphabet (6*10^5 trees) and for products of statement clauses, and shows the one design limit (sub-second intervals do not survive). The real code is then judged by TLC: a seeded generator derives thousands of statements from the query grammar (nested calls inside arithmetic, tag conditions, time range, group by time, having, order by, limit, metadata statements), each is parsed twice by the real parser (equal trees, modulo the clock), sent through the real MarshalJSON/UnmarshalJSON and through the payload RootMetricContext.MakePlan builds for the leaf, and the tree received must equal the tree sent; for every expression the real bytes must be exactly the specified envelope and both the real and the specified decoder must return the tree. Expression trees the parser never yields are built directly with hostile strings and float edge values. The property quantifies over all derivations, which a generator over the grammar plus an exhaustive bounded model covers and one-construct-at-a-time unit tests do not.',
    note="Trusted: TLC, the Json community module, the harness projection of stmt trees (type switch over all node kinds; nil = empty slice; float64 as shortest decimal string) and its lexical rendering of the real bytes (null as empty list, the number under key `val` as string). Statement-level bytes are not compared with the model's EncStmt (only the received statement with the sent one). Known finding C17-K1 (duration literal accepted as field expression -> nil child -> empty payload) is re-confirmed on every run.",
    ref='DESIGN.md section 7 C17',
)

CHECKS['C20'] = dict(
    module='SortedDict',
    technique='TLA+ reference semantics (sorted map) model-checked on every small key set x probe (TLC) + TLC as judge of recorded answers of the real trie / trie bucket / index kv flusher, reader and merger',
    text='SortedDict.tla defines the dictionary as a set of (byte string, id) pairs and every query (exact lookup, prefix enumeration, forward and backward iteration, seek, suggestion, like and structured regular-expression filters, id listing and reverse lookup, marshal/unmarshal = identity, merge = union) by comprehension over that set. TLC checks the algebra of this reference exhaustively for every key set of up to 3-4 keys of up to 3 symbols and every probe of up to 4 symbols (iteration is a sorted permutation, keys with a prefix are one contiguous run starting at the least key >= the prefix, seek-then-scan enumerates exactly that run even under the recorded Seek deviation, merge of two parts is their union, a literal-prefix scan is complete only for anchored patterns). The real pkg/trie builder, trie and iterators, index/model trie buckets with small block sizes, bucket rewrites and the index/v1 flusher, reader and merger over a real kv store (flushes, compaction, reopen) are then driven with every small key set over several concrete byte alphabets (0x00/0xFF included), random sets with shared prefixes/suffixes and keys that are prefixes of others, and sets of thousands of keys; every answer is logged and TLC accepts a trace only if each answer equals the reference answer, before and after serialisation and after merging. The property quantifies over key sets and probes, so exhaustive small cases plus judged large random cases is the appropriate level; five genuine defects found on the unchanged tree are recorded as known findings and re-confirmed on every run.',
    note='Trusted: TLC and the Json community module, the driver\'s logging of inputs/outputs (keys as byte arrays, ids as ints < 2^31), Go\'s regexp for rendering the structured pattern class. Keys of the parts of one bucket are pairwise distinct (ids are created once, C09). Raw Iterator.Seek is judged under the named deviation Deviation_SeekExactOnlyWhenProbeIsPrefix in the main trace and strictly in a dedicated trace (finding C20-K4); Get("") is not probed where a single-key trie {0xFF} can exist (finding C20-K5, probed in its own sub-trace).',
    ref='DESIGN.md section 7 C20',
)

CHECKS['C10'] = dict(
    module='TagIndex',
    technique="TLA+ reference semantics (Eval of a condition on one series) + exhaustive TLC comparison with a dictionary/posting-list shaped model over all index placements of a small universe + TLC as judge of the real query path's answers (trace validation), named deviations for every recorded defect",
    text='TagIndex.tla defines what a tag condition means on one series (equals, in, like shapes, structured regular expressions, negated atoms = has the key and the atom is false, and / or / parentheses) and what group by returns (the selected series that have every grouping key, counted per value tuple); next to it the same questions are answered the way the code does: atoms resolve to value ids in a tag value dictionary spread over mutable map, immutable map and files, value ids to posting lists of an inverted index, not = key holders from the forward index minus matches, and / or = set operations, group by = forward index scanners plus reverse dictionary lookup. TLC explores every write order and every placement of PrepareFlush / Flush / Compact / Reopen for all series sets of a small universe (2 keys, values a, ab, b, keys missing, untagged series) and checks in every reachable state that both evaluations agree for every atom and every depth-2 condition, and that the judge used on traces accepts the reference answer and rejects its neighbours. The real code is bound by trace validation: a real tsdb.Engine is filled with seeded series universes (shared and missing keys, common prefixes, multi-byte UTF-8, thousands of series, ids across bitmap container boundaries), its dictionaries and index stores are moved through memory / being flushed / flushed / compacted / reopened, and conditions generated from the grammar are asked as SQL text through sql.Parse, query.MetricDataSearch and the real leaf task processor; TLC evaluates the reference on the logged universe and requires the returned groups and per-group series counts to be exactly the reference answer. An input/history quantifier needs an oracle for answers nobody wrote down and coverage of every index state; the specification supplies the first and the model checker plus the placement tours the second.',
    note="Trusted: TLC and the Json / SortedDict modules (string matching shared with C20), the driver's interning of strings to indexes and its bookkeeping of per-metric series ids, the in-process loopback transport (root and one leaf in one process). The observation channel is the query result: every series writes the value 1 once per era into a sum field and queries only ask the current slot, so the data path is kept trivial; two defects of it that hide selected series are recorded as named deviations. Regular expressions and like patterns come from a structured class; tag values cannot contain a single quote (no escape in the lexer). Exhaustive only inside the small universe; real universes are seeded samples plus the complete enumeration of the one/two-series universes in the thorough tier. Concurrent flush/query schedules and crash recovery of the dictionaries belong to C12/C19 and C07/C09.",
    ref='DESIGN.md section 7 C10',
)

CHECKS['C11'] = dict(
    module='Query',
    technique='TLA+ reference semantics (Naive) + TLC model checking of the placement-independence algebra + TLC as judge of recorded real query answers (trace validation), named deviations for known defects',
    text="spec/Query.tla defines the reference: every accepted point is kept, its storage slot comes from the TimeAxis module, the points of one (series, field, storage slot) are combined by the field type in arrival order, TimeAxis!Plan gives the query range and interval, and the storage cells of the selected series inside one query slot are folded by the aggregate the (field type, function) pair stands for, one series per group. Next to it the module has the implementation shape: the same points spread over sources (write window and compressed buffer of a memory database, level-0/1 files, per shard and family) whose partial cells are merged; TLC checks exhaustively on a small universe (duplicate slots, slots beyond the 15-slot write window, two families, two series, flush / compaction / restart anywhere) that the intended design returns the reference for every supported (type, function) x group-by x interval, and that each named deviation of the code, switched on alone, breaks it. The real code is then driven end to end in one process (query.MetricDataSearch -> loopback transport -> leaf task processor -> tsdb.Engine with real memory databases and kv files): seeded histories of rows (five simple field types, histograms, field subsets, out-of-order and duplicate slots, day/month/year edges), flushes, compactions, restarts and queries, also queries running concurrently with a flush; the driver logs inputs and the raw result set, and TLC judges EVERY answer: planned range/interval, the set of series, the set of cells and each value must be the reference's. An answer the reference rejects is accepted only if a named, configuration-allowed deviation model reproduces it for the recorded placement (then it is printed as a known finding); anything else is a violation. A reference on inputs is the right level because the property quantifies over write sequences x placements x queries for which nobody wrote expected values.",
    note="Trusted: TLC, the Json community module, TimeAxis (C13), the harness loopback (TaskManager / TransportManager / NodeChoose / server streams) and its bookkeeping of what was written; integral values (exact float aggregation); TZ=UTC, one 10 s stored interval. Claimed query shape only: bare fields and sum/min/max/last/first as allowed by IsFuncSupported, absolute ranges, group by tags and time(n s), =, !=, in, not in, like, and/or; rate, quantile, stddev, arithmetic, order by / having are not claimed. last/first over a group of several series admits any member series' value. Known deviations (order, partial, multi, window, emptyseries) are judged against their own models, not ignored; hide and likestar were repaired in /repo (4621912, f16367e) and are no longer allowed by spec/QueryTrace.cfg, so reverting those repairs fails the check; with the strict configuration no deviation is allowed.",
    ref='DESIGN.md section 7 C11',
)

CHECKS['C12'] = dict(
    module='Query',
    technique="TLA+ reference semantics + TLC model checking of multi-shard placement and of the root's response handling under every delivery schedule + TLC as judge of real answers recorded under enumerated layouts and gated delivery orders",
    text="The reference of C11 does not mention shards, nodes or delivery, so judging every layout's answer against it is the layout-independence relation. Model side: TLC checks placement independence with the series routed to two shards (sources of several shards merged by the function's aggregate) and explores the root's response handling (expected results, tolerated not-founds, error slot overwritten by the root's own pipeline completion) as a state machine over every assignment of answer kinds (data / empty / not-found) to three leaves, every delivery order and every position of the root's completion: a leaf without matching data never turns a non-empty answer into an error or an empty answer and every data answer is merged; with a single tolerated not-found instead of one per target the invariant fails. Code side: one real engine with 1..3 shards, rows routed by the real BrokerBatchRows shard/family iterators (jump hash) and written in wire form; per query every partition of the shards over up to three real leaf task processors (also a leaf without shards), 0..2 real intermediate task processors planned as the broker plans them, every delivery order of the responses to the root and every split of them before/after the root's own completion (a gate in the loopback transport delivers responses one at a time), plus an unscheduled concurrent run; TLC judges each of the several hundred answers against the reference. The known hang with >= 2 compute nodes is accepted only for exactly those layouts and only as a timeout.",
    note="Trusted: as C11, plus the harness' emulation of the topology (root broker, compute brokers, storage leaves over one shared engine) and its delivery gate; the position of the root's completion is controlled by delivering inside / after its last SendRequest (the root pipeline is synchronous). A batch holds each series at most once (the broker's sort by shard is not stable). Sampled, not exhaustive, when a query has more layouts than the quick-tier budget (every leaf/compute shape is kept).",
    ref='DESIGN.md section 7 C12',
)

NOT_YET = {
}


def main():
    props = [json.loads(l)["id"] for l in open(os.path.join(VERIF, "properties.jsonl"))]
    try:
        commits = subprocess.run(["git", "-C", "/repo", "log", "--format=%h %s", "--grep=^verif hook"],
                                 stdout=subprocess.PIPE, text=True).stdout.strip().splitlines()
    except OSError:
        commits = []
    man = {
        "version": 1,
        "setup_cmd": "./bin/setup",
        "hooks": {
            "guard": "verif",
            "enable": "go build -tags verif (harness module /verif/harness with `replace github.com/lindb/lindb => /repo`)",
            "baseline_off_cmd": BASELINE_OFF,
            "source_commits": [c.split()[0] for c in commits],
            "add_only": True,
        },
        "engines": [
            {"name": "tlc", "path": "/verif/spec", "serves_properties": sorted(CHECKS),
             "kind_free_text": "explicit TLA+ specifications checked by TLC (exhaustive model checking, simulation, trace validation)"},
            {"name": "vdrive", "path": "/verif/harness", "serves_properties": sorted(CHECKS),
             "kind_free_text": "Go conformance harness: drives real lindb/lindb code, records ndjson traces / replays TLC behaviours"},
        ],
        "checks": [],
        "not_applicable": [],
        "notes": "All checks: cwd=/verif, honour VERIF_SEED / VERIF_TIER, rebuild the harness from /repo's working tree with -tags verif on every run. See DESIGN.md.",
    }
    for pid in props:
        if pid in CHECKS:
            c = CHECKS[pid]
            man["checks"].append({
                "property_id": pid,
                "quick_cmd": "./bin/check %s --tier quick" % pid,
                "thorough_cmd": "./bin/check %s --tier thorough" % pid,
                "evidence_file": "/verif/evidence/%s.json" % pid,
                "replay_cmd_template": "./bin/check %s --replay {path}" % pid,
                "engine": "tlc+vdrive",
                "level_claimed": {"category": c.get("level", "model_checking"), "text": c["text"], "design_ref": c["ref"]},
                "level_note": c["note"],
                "technique": c["technique"],
            })
        else:
            man["not_applicable"].append({"property_id": pid,
                                          "reason": NOT_YET.get(pid, "check not built yet (work in progress; planned per DESIGN.md section 7)")})
    with open(os.path.join(VERIF, "MANIFEST.json"), "w") as f:
        json.dump(man, f, indent=1)
    print("MANIFEST.json: %d checks, %d not_applicable" % (len(man["checks"]), len(man["not_applicable"])))


if __name__ == "__main__":
    main()
