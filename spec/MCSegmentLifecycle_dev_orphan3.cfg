\* the code BEFORE the repair -- must violate NoFailedFlush
CONSTANTS
  Writer = {w1, w2}
  MaxObj = 3
  MaxFam = 3
  MaxRow = 3
  ClosedSegmentRejects = FALSE
  ClosedFamilyRejects = TRUE
SPECIFICATION Spec
INVARIANTS NoFailedFlush
CHECK_DEADLOCK FALSE
