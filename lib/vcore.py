"""Core of the /verif checks: scratch handling, harness build, TLC runner with exit-status
mapping, trace validation, known findings, verdicts and evidence.

Exit codes of a check: 0 = property held on everything explored (KNOWN-FINDING lines may be
printed), 1 = VIOLATION (real code contradicted the specification / a property invariant),
2 = unresolved (tool failure, timeout, vacuous run, failed binding self-test) -- never a verdict.
"""
import json
import os
import threading
import concurrent.futures
import re
import shutil
import subprocess
import sys
import tempfile
import time

VERIF = os.path.dirname(os.path.dirname(os.path.abspath(__file__)))
REPO = os.environ.get("VERIF_REPO", "/repo")
SPEC = os.path.join(VERIF, "spec")
HARNESS = os.path.join(VERIF, "harness")

GOENV = {
    "GOFLAGS": "-mod=mod",
    "GOPROXY": "off",
    "GOSUMDB": "off",
    "GOTOOLCHAIN": "local",
    "TZ": "UTC",
}


class Unresolved(Exception):
    pass


class TLCResult:
    def __init__(self):
        self.exit = None
        self.generated = 0
        self.distinct = 0
        self.depth = 0
        self.kind = "ok"  # ok | invariant | liveness | rejected | error | timeout
        self.violated = None
        self.highwater = None
        self.out = ""
        self.wall = 0.0
        self.coverage = {}
        self.errtrace = []
        self.cmd = ""

    def brief(self):
        return {
            "kind": self.kind,
            "generated": self.generated,
            "distinct": self.distinct,
            "depth": self.depth,
            "violated": self.violated,
            "wall_s": round(self.wall, 1),
            "cmd": self.cmd,
        }


def parse_tlc(out, res):
    m = None
    for m in re.finditer(r"(\d[\d,]*) states generated, (\d[\d,]*) distinct states found", out):
        pass
    if m:
        res.generated = int(m.group(1).replace(",", ""))
        res.distinct = int(m.group(2).replace(",", ""))
    m = re.search(r"depth of the complete state graph search is (\d+)", out)
    if m:
        res.depth = int(m.group(1))
    m = re.search(r"Invariant (\S+) is violated", out)
    if m:
        res.violated = m.group(1)
    m = re.search(r"Action property (\S+) is violated", out) or re.search(
        r"action property (\S+)", out
    )
    if m and not res.violated:
        res.violated = m.group(1)
    m = re.search(r'"TRACE-REJECTED-AT-LINE", (\d+)', out)
    if m:
        res.highwater = int(m.group(1))
    # simulation mode statistics
    m = re.search(r"(\d+) states checked", out)
    if m and not res.generated:
        res.generated = int(m.group(1))
    # coverage lines:  <Action line ..>: distinct:generated
    for m in re.finditer(r"^<(\w+) line (\d+), col \d+ to line \d+, col \d+ of module (\w+)>: (\d+):(\d+)", out, re.M):
        res.coverage["%s@%s:%s" % (m.group(1), m.group(3), m.group(2))] = int(m.group(5))
    # counterexample states: collect values of variable `l` if present (trace specs)
    res.errtrace = re.findall(r"^/\\ l = (\d+)", out, re.M)


_mdir_lock = threading.Lock()


class Ctx:
    def __init__(self, prop, tier, seed, level="model_checking"):
        self.prop = prop
        self.tier = tier
        self.seed = seed
        self.level = level
        self.t0 = time.time()
        self.scratch = tempfile.mkdtemp(prefix="verif-%s-" % prop)
        self.keep_scratch = bool(os.environ.get("VERIF_KEEP"))
        self.states = 0
        self.transitions = 0
        self.traces = 0
        self.samples = []
        self.legs = []
        self.violations = []  # (signature, detail, replay)
        self.known_hits = []
        self.assumptions = []
        self.extra = {}
        self.vdrive = None
        self.tlc_cmds = []
        self.known = load_known()
        self._mdir = 0

    # ------------------------------------------------------------------ logging
    def log(self, *a):
        print("[%s %6.1fs]" % (self.prop, time.time() - self.t0), *a, flush=True)

    # ------------------------------------------------------------------ harness
    def build_harness(self):
        if self.vdrive:
            return self.vdrive
        env = dict(os.environ)
        env.update(GOENV)
        out = os.path.join(self.scratch, "vdrive")
        gosum = os.path.join(HARNESS, "go.sum")
        try:
            shutil.copyfile(os.path.join(REPO, "go.sum"), gosum)
        except OSError:
            pass
        t = time.time()
        modflags = []
        if REPO != "/repo":
            # developer option (VERIF_REPO=<scratch worktree>): judge a candidate change without touching
            # /repo -- same harness sources, the replace directive points at the worktree
            mod = open(os.path.join(HARNESS, "go.mod")).read().replace("=> /repo", "=> " + REPO)
            modfile = os.path.join(self.scratch, "alt.mod")
            open(modfile, "w").write(mod)
            shutil.copyfile(os.path.join(REPO, "go.sum"), os.path.join(self.scratch, "alt.sum"))
            modflags = ["-modfile=" + modfile]
        p = subprocess.run(
            ["go", "build"] + modflags + ["-tags", "verif", "-o", out, "./cmd/vdrive"],
            cwd=HARNESS, env=env, stdout=subprocess.PIPE, stderr=subprocess.STDOUT, text=True,
        )
        if p.returncode != 0:
            # development convenience: a driver file that is not committed yet (someone is still writing it) must not
            # block the other checks -- rebuild from a copy of the harness without the untracked files that fail
            bad = set(re.findall(r"(cmd/vdrive/[A-Za-z0-9_]+\.go):\d+", p.stdout))
            untracked = set()
            try:
                g = subprocess.run(["git", "-C", VERIF, "ls-files", "--others", "--exclude-standard", "harness/cmd/vdrive"],
                                   stdout=subprocess.PIPE, text=True)
                untracked = set(x[len("harness/"):] for x in g.stdout.split())
            except OSError:
                pass
            if bad and bad <= untracked:
                alt = os.path.join(self.scratch, "harness-copy")
                shutil.copytree(HARNESS, alt)
                for f in bad:
                    os.remove(os.path.join(alt, f))
                self.log("harness build: skipping uncommitted in-progress files %s" % sorted(bad))
                mf = modflags
                p = subprocess.run(["go", "build"] + mf + ["-tags", "verif", "-o", out, "./cmd/vdrive"],
                                   cwd=alt, env=env, stdout=subprocess.PIPE, stderr=subprocess.STDOUT, text=True)
        if p.returncode != 0:
            print(p.stdout[-4000:])
            raise Unresolved("harness build failed (lindb/lindb or harness does not compile with -tags verif)")
        self.log("built harness against %s in %.1fs" % (REPO, time.time() - t))
        self.vdrive = out
        return out

    def run_vdrive(self, args, timeout=600, env_extra=None, allow_fail=False):
        """Runs the driver; returns (summary dict or None, returncode, output)."""
        self.build_harness()
        env = dict(os.environ)
        env.update(GOENV)
        if env_extra:
            env.update(env_extra)
        t = time.time()
        try:
            p = subprocess.run([self.vdrive] + [str(a) for a in args], cwd=self.scratch, env=env,
                               stdout=subprocess.PIPE, stderr=subprocess.STDOUT, text=True,
                               timeout=timeout, errors="replace")
        except subprocess.TimeoutExpired:
            raise Unresolved("driver timeout: vdrive %s" % " ".join(map(str, args)))
        summ = None
        for line in p.stdout.splitlines():
            if line.startswith("SUMMARY "):
                try:
                    summ = json.loads(line[8:])
                except ValueError:
                    pass
        self.log("vdrive %s -> rc=%d in %.1fs" % (" ".join(map(str, args[:6])), p.returncode, time.time() - t))
        if summ is None and not allow_fail:
            crash = _lindb_crash(p.stdout)
            if crash:
                # the process died in a goroutine that runs lindb code only (no harness frame, not started by the
                # harness): a background job of the code under test panicked on a history the harness is entitled to
                # drive -- that is behaviour of the real code, not a harness failure
                print(p.stdout[:200] + "\n...\n" + crash["block"][:2500])
                out = None
                for i, a0 in enumerate(args):
                    if str(a0) == "--out" and i + 1 < len(args) and os.path.exists(str(args[i + 1])):
                        out = str(args[i + 1])
                self.violation("ProcessCrash:%s:%s" % (args[0], crash["top"]),
                               "the process running the real code died: %s in %s (goroutine without harness frames)" % (crash["msg"], crash["top"]),
                               replay_src=out)
                raise Unresolved("driver process crashed inside lindb code: vdrive %s" % " ".join(map(str, args[:3])))
            print(p.stdout[-3000:])
            raise Unresolved("driver died without a summary: vdrive %s" % " ".join(map(str, args)))
        return summ, p.returncode, p.stdout

    # ------------------------------------------------------------------ TLC
    def tlc(self, module, cfg, workers=16, files=None, timeout=900, simulate=None, depth=None,
            coverage=False, dfs=False, extra=None, count=True):
        """Runs TLC on spec/<module>.tla with spec/<cfg> inside a private copy of spec/."""
        with _mdir_lock:
            self._mdir += 1
            wd = os.path.join(self.scratch, "tlc%d" % self._mdir)
        os.makedirs(wd)
        for f in os.listdir(SPEC):
            if f.endswith(".tla") or f.endswith(".cfg"):
                os.symlink(os.path.join(SPEC, f), os.path.join(wd, f))
        for name, src in (files or {}).items():
            dst = os.path.join(wd, name)
            if os.path.abspath(src) != os.path.abspath(dst):
                try:
                    os.link(src, dst)
                except OSError:
                    shutil.copyfile(src, dst)
        cmd = ["tlc", "-workers", str(workers), "-noGenerateSpecTE", "-metadir", os.path.join(wd, "meta"),
               "-config", cfg]
        if simulate:
            cmd += ["-simulate", simulate]
        if depth:
            cmd += ["-depth", str(depth)]
        if coverage:
            cmd += ["-coverage", "1"]
        if extra:
            cmd += list(extra)
        cmd += [module + ".tla"]
        env = dict(os.environ)
        # deep set comprehensions of the judge specs need a bigger Java stack (a StackOverflowError is not a verdict)
        if "-Xss" not in env.get("JAVA_TOOL_OPTIONS", ""):
            env["JAVA_TOOL_OPTIONS"] = (env.get("JAVA_TOOL_OPTIONS", "") + " -Xss512m").strip()
        if dfs:
            env["JAVA_TOOL_OPTIONS"] = (env.get("JAVA_TOOL_OPTIONS", "") +
                                        " -Dtlc2.tool.queue.IStateQueue=StateDeque").strip()
        res = TLCResult()
        res.cmd = " ".join(cmd[:1] + cmd[1:3] + cmd[6:])
        t = time.time()
        try:
            p = subprocess.run(cmd, cwd=wd, env=env, stdout=subprocess.PIPE, stderr=subprocess.STDOUT,
                               text=True, timeout=timeout, errors="replace")
            res.exit = p.returncode
            res.out = p.stdout
        except subprocess.TimeoutExpired as e:
            res.kind = "timeout"
            res.out = (e.stdout or b"").decode("utf-8", "replace") if isinstance(e.stdout, bytes) else (e.stdout or "")
            subprocess.run(["pkill", "-f", wd], stdout=subprocess.DEVNULL, stderr=subprocess.DEVNULL)
        res.wall = time.time() - t
        parse_tlc(res.out, res)
        if res.kind != "timeout":
            if res.exit == 0:
                res.kind = "ok"
            elif res.exit == 10:
                res.kind = "rejected"
            elif res.exit == 12:
                res.kind = "invariant"
            elif res.exit == 13:
                res.kind = "liveness"
            else:
                res.kind = "error"
        if count:
            with _mdir_lock:
                self.states += res.distinct
                self.transitions += res.generated
        self.tlc_cmds.append(res.cmd)
        self.log("tlc %s/%s -> %s (exit %s) generated=%d distinct=%d depth=%d in %.1fs" % (
            module, cfg, res.kind, res.exit, res.generated, res.distinct, res.depth, res.wall))
        shutil.rmtree(os.path.join(wd, "meta"), ignore_errors=True)
        res.wd = wd
        return res

    def model_check(self, module, cfg, expect="ok", **kw):
        """Leg M. expect='ok': the bounded model must satisfy its properties (else unresolved:
        the model itself is wrong or a deviation switch is set wrongly -- never a verdict about
        the code).  expect='violation': a deviation configuration must produce a counterexample
        (sensitivity of the model to the mechanism)."""
        res = self.tlc(module, cfg, **kw)
        leg = {"leg": "M", "module": module, "cfg": cfg, "expect": expect}
        leg.update(res.brief())
        self.legs.append(leg)
        if res.kind in ("error", "timeout"):
            print(res.out[-3000:])
            raise Unresolved("TLC %s on %s/%s" % (res.kind, module, cfg))
        if expect == "ok" and res.kind != "ok":
            print(res.out[-6000:])
            raise Unresolved("model %s/%s violates %s: the specification does not satisfy the property "
                             "(model-only counterexample, not a verdict)" % (module, cfg, res.violated or res.kind))
        if expect == "violation" and res.kind == "ok":
            raise Unresolved("deviation config %s/%s found no counterexample: model insensitive" % (module, cfg))
        return res

    def generate_behaviours(self, module, cfg, num, depth, var="script", timeout=600, seed_shift=0):
        """Leg R, first half: TLC (-simulate) chooses `num` behaviours of spec/<module>.tla (a *Gen module whose
        actions append one word per step to the variable `var`) of at most `depth` steps; returns the list of scripts
        (lists of words, in step order) read from the last state of every generated behaviour.  The seed of the
        simulation is derived from VERIF_SEED, so a run is reproducible."""
        with _mdir_lock:
            self._mdir += 1
            outdir = os.path.join(self.scratch, "gen%d" % self._mdir)
        os.makedirs(outdir)
        res = self.tlc(module, cfg, workers=1, timeout=timeout, depth=depth,
                       simulate="file=%s/b,num=%d" % (outdir, num),
                       extra=["-seed", str(1000 * int(self.seed) + 17 + seed_shift)])
        if res.kind != "ok":
            print(res.out[-3000:])
            raise Unresolved("TLC %s generating behaviours from %s/%s" % (res.kind, module, cfg))
        scripts = []
        pat = re.compile(r"/\\ %s = (<<.*?>>|<< >>)\s*(?=/\\|\Z|\n\n)" % re.escape(var), re.S)
        for f in sorted(os.listdir(outdir)):
            txt = open(os.path.join(outdir, f)).read()
            last = None
            for last in pat.finditer(txt):
                pass
            if last is None:
                continue
            words = re.findall(r'"([^"]*)"', last.group(1))
            if words:
                scripts.append(words)
        shutil.rmtree(outdir, ignore_errors=True)
        if not scripts:
            raise Unresolved("no behaviour generated from %s/%s" % (module, cfg))
        distinct = len(set(tuple(x) for x in scripts))
        self.legs.append({"leg": "R-generate", "module": module, "cfg": cfg, "behaviours": len(scripts),
                          "distinct_behaviours": distinct, "steps": sum(len(x) for x in scripts),
                          "distinct_step_words": len(set(w for x in scripts for w in x))})
        self.log("generated %d behaviours (%d distinct, %d steps) from %s/%s" % (
            len(scripts), distinct, sum(len(x) for x in scripts), module, cfg))
        return scripts

    def apalache(self, module, init, inv, length, cinit="CInit", next_="Next", expect="ok", timeout=900):
        """Leg M, unbounded part: one obligation of an inductive-invariant argument discharged by Apalache (symbolic,
        SMT) on spec/apalache/<module>.tla (which EXTENDS a module of spec/).  expect='ok': no error up to `length`;
        expect='violation': the obligation MUST fail (non-vacuity / sensitivity).  Anything else is unresolved."""
        with _mdir_lock:
            self._mdir += 1
            wd = os.path.join(self.scratch, "apa%d" % self._mdir)
        os.makedirs(wd)
        for d in (SPEC, os.path.join(SPEC, "apalache")):
            for f in os.listdir(d):
                if f.endswith(".tla"):
                    shutil.copyfile(os.path.join(d, f), os.path.join(wd, f))
        cmd = ["apalache-mc", "check", "--cinit=" + cinit, "--init=" + init, "--inv=" + inv, "--next=" + next_,
               "--length=%d" % length, "--out-dir=" + os.path.join(wd, "out"), module + ".tla"]
        t = time.time()
        try:
            p = subprocess.run(cmd, cwd=wd, stdout=subprocess.PIPE, stderr=subprocess.STDOUT, text=True, timeout=timeout,
                               errors="replace")
            out = p.stdout
        except subprocess.TimeoutExpired:
            raise Unresolved("apalache timeout: %s init=%s inv=%s" % (module, init, inv))
        m = re.search(r"The outcome is: (\w+)", out)
        outcome = m.group(1) if m else "none"
        kind = {"NoError": "ok", "Error": "violation"}.get(outcome, "error")
        self.legs.append({"leg": "M-inductive", "tool": "apalache", "module": module, "init": init, "inv": inv,
                          "length": length, "cinit": cinit, "expect": expect, "kind": kind,
                          "wall_s": round(time.time() - t, 1)})
        self.log("apalache %s init=%s inv=%s length=%d cinit=%s -> %s in %.1fs" % (module, init, inv, length, cinit, kind, time.time() - t))
        shutil.rmtree(os.path.join(wd, "out"), ignore_errors=True)
        if kind == "error":
            print(out[-3000:])
            raise Unresolved("apalache failed on %s (init=%s inv=%s)" % (module, init, inv))
        if kind != expect:
            if expect == "ok":
                print(out[-3000:])
                raise Unresolved("inductive obligation not discharged: %s init=%s inv=%s (a statement about the model, "
                                 "not a verdict about the code)" % (module, init, inv))
            raise Unresolved("obligation that must fail was discharged: %s init=%s inv=%s cinit=%s" % (module, init, inv, cinit))
        return kind

    def validate_trace(self, module, cfg, trace_path, label="", timeout=900, dfs=True, count_traces=None):
        """Leg T. Returns (accepted, info). info has line (first line that cannot be consumed) or
        violated invariant + line."""
        res = self.tlc(module, cfg, workers=1, files={"trace.ndjson": trace_path}, timeout=timeout, dfs=dfs)
        leg = {"leg": "T", "module": module, "cfg": cfg, "label": label}
        leg.update(res.brief())
        self.legs.append(leg)
        if res.kind in ("error", "timeout"):
            print(res.out[-3000:])
            raise Unresolved("TLC %s validating %s with %s" % (res.kind, trace_path, module))
        if res.kind == "ok":
            if count_traces:
                self.traces += count_traces
            return True, {}
        info = {"kind": res.kind, "violated": res.violated}
        if res.kind == "rejected":
            info["line"] = res.highwater
        else:
            # invariant violated in a state of the trace: l of the last state is the next line
            info["line"] = int(res.errtrace[-1]) - 1 if res.errtrace else None
        return False, info

    # ------------------------------------------------------------------ verdicts
    def violation(self, signature, detail, replay_src=None, replay_lines=None):
        """Reports a violation observed on the real code, unless a known finding lists it."""
        for k in self.known:
            if k.get("property") == self.prop and k.get("kind") == "known" and re.search(k["signature"], signature):
                if k["id"] not in [h["id"] for h in self.known_hits]:
                    self.known_hits.append({"id": k["id"], "signature": signature, "detail": detail})
                    print("KNOWN-FINDING: property=%s %s [%s]" % (self.prop, k["description"], k["id"]), flush=True)
                return False
        os.makedirs(os.path.join(VERIF, "replays"), exist_ok=True)
        safe = re.sub(r"[^A-Za-z0-9_.-]+", "_", signature)[:60]
        dst = os.path.join(VERIF, "replays", "%s-%s-seed%d.ndjson" % (self.prop, safe, self.seed))
        try:
            if replay_lines is not None:
                with open(dst, "w") as f:
                    f.write("".join(replay_lines))
            elif replay_src:
                shutil.copyfile(replay_src, dst)
            else:
                with open(dst, "w") as f:
                    f.write(json.dumps({"signature": signature, "detail": detail}) + "\n")
        except OSError as e:
            self.log("cannot write replay:", e)
        self.violations.append({"signature": signature, "detail": detail, "replay": dst})
        print("VIOLATION property=%s replay=%s" % (self.prop, dst), flush=True)
        print("  signature: %s\n  detail: %s" % (signature, detail), flush=True)
        return True

    def sample(self, s):
        if len(self.samples) < 6:
            self.samples.append(s)

    # ------------------------------------------------------------------ evidence
    def write_evidence(self, status):
        cov = {
            "states": self.states,
            "transitions": self.transitions,
            "traces_validated_against_impl": self.traces,
            "samples": self.samples if self.samples else [{"note": "no sample recorded", "status": status}],
            "legs": self.legs,
            "checker_cmd": "; ".join(self.tlc_cmds[:6]),
            "known_findings_reconfirmed": self.known_hits,
            "status": status,
        }
        cov.update(self.extra)
        ev = {
            "property_id": self.prop,
            "tier": self.tier,
            "seed": int(self.seed),
            "level": self.level,
            "coverage": cov,
            "assumptions": self.assumptions,
            "wall_s": round(time.time() - self.t0, 2),
            "violations": len(self.violations),
        }
        evdir = os.path.join(VERIF, "evidence") if REPO == "/repo" else "/tmp/verif-alt-evidence"
        if self.prop.startswith("X") and REPO == "/repo":
            # extension modules (beyond the listed properties): not part of MANIFEST.json
            evdir = os.path.join(VERIF, "evidence_ext")
        os.makedirs(evdir, exist_ok=True)
        path = os.path.join(evdir, "%s.json" % self.prop)
        with open(path + ".tmp", "w") as f:
            json.dump(ev, f, indent=1, sort_keys=True)
        os.replace(path + ".tmp", path)

    def cleanup(self):
        if not self.keep_scratch:
            shutil.rmtree(self.scratch, ignore_errors=True)
        else:
            self.log("scratch kept:", self.scratch)


def load_known():
    p = os.path.join(VERIF, "known_findings.json")
    if not os.path.exists(p):
        return []
    with open(p) as f:
        return json.load(f).get("findings", [])


# ---------------------------------------------------------------------- trace helpers
def read_lines(path):
    with open(path) as f:
        return f.readlines()


def trace_slice(lines, line_no, reset_ev="Reset", after=3):
    """The sub-trace (from the preceding Reset) that contains 1-based line_no."""
    if not line_no or line_no < 1:
        return lines[: min(len(lines), 50)]
    i = min(line_no, len(lines)) - 1
    start = i
    while start > 0 and ('"ev":"%s"' % reset_ev) not in lines[start]:
        start -= 1
    end = i + 1
    while end < len(lines) and end < i + 1 + after and ('"ev":"%s"' % reset_ev) not in lines[end]:
        end += 1
    return lines[start:end]


def split_traces(lines, reset_ev="Reset"):
    out, cur = [], []
    for ln in lines:
        if ('"ev":"%s"' % reset_ev) in ln and cur:
            out.append(cur)
            cur = []
        cur.append(ln)
    if cur:
        out.append(cur)
    return out


def _lindb_crash(output):
    """If the driver output is a Go crash whose crashing goroutine has only lindb / library / runtime frames (no frame of
    the harness and not created by the harness), returns {msg, top, block}; else None."""
    lines = output.splitlines()
    start = None
    for i, ln in enumerate(lines):
        if ln.startswith("panic: ") or ln.startswith("fatal error: "):
            start = i
            break
    if start is None:
        return None
    msg = lines[start][:200]
    g = None
    for i in range(start, min(start + 40, len(lines))):
        if lines[i].startswith("goroutine ") and ("[running]" in lines[i] or "[syscall" in lines[i]):
            g = i
            break
    if g is None:
        return None
    block = []
    for ln in lines[g:]:
        if not ln.strip():
            break
        block.append(ln)
    text = "\n".join(block)
    if "verif/harness" in text or "\nmain." in text or "created by main." in text:
        return None
    top = None
    for ln in block[1:]:
        if ln.startswith("github.com/lindb/lindb/"):
            top = ln.rsplit("(", 1)[0].replace("github.com/lindb/lindb/", "")
            break
    if top is None:
        return None
    return {"msg": msg, "top": top, "block": text}


def run_check(prop, fn, level="model_checking"):
    """Entry used by bin/check."""
    import argparse
    ap = argparse.ArgumentParser()
    ap.add_argument("--tier", default=os.environ.get("VERIF_TIER", "quick"))
    ap.add_argument("--replay", default=None)
    args, _ = ap.parse_known_args(sys.argv[2:])
    seed = int(os.environ.get("VERIF_SEED", "1") or "1")
    tier = args.tier if args.tier in ("quick", "thorough") else "quick"
    ctx = Ctx(prop, tier, seed, level)
    status = "ok"
    rc = 0
    try:
        fn(ctx, args.replay)
        if ctx.violations:
            rc, status = 1, "violation"
    except Unresolved as e:
        ctx.log("UNRESOLVED:", e)
        rc, status = 2, "unresolved: %s" % e
        if ctx.violations:
            rc, status = 1, "violation (and unresolved: %s)" % e
    except Exception as e:  # noqa
        import traceback
        traceback.print_exc()
        rc, status = 2, "unresolved: internal error %r" % (e,)
        if ctx.violations:
            rc = 1
    try:
        ctx.write_evidence(status)
    finally:
        ctx.cleanup()
    ctx.log("done: exit %d (%s) states=%d transitions=%d traces=%d" % (rc, status, ctx.states, ctx.transitions, ctx.traces))
    sys.exit(rc)


_val_lock = threading.Lock()
_val_seq = [0]


def _validate_list(ctx, module, cfg, traces, describe, dfs, timeout, budget, first_only=False):
    """Sequential core of validate_all on a list of sub-traces. Returns (good, rejected, rest): rest is the
    unexamined tail when first_only stopped after the first rejection (or the budget ran out)."""
    good = []
    rejected = 0
    while traces:
        with _val_lock:
            _val_seq[0] += 1
            k = _val_seq[0]
        cur = os.path.join(ctx.scratch, "val-%s-%d.ndjson" % (module, k))
        with open(cur, "w") as f:
            for t in traces:
                f.write("".join(t))
        ok, info = ctx.validate_trace(module, cfg, cur, dfs=dfs, timeout=timeout)
        if ok:
            good.extend(traces)
            return good, rejected, []
        line = info.get("line")
        if not line:
            raise Unresolved("trace rejected but no line reported (%s)" % info)
        n = 0
        idx = None
        for i, t in enumerate(traces):
            if n < line <= n + len(t):
                idx = i
                break
            n += len(t)
        if idx is None:
            # the rejected line is one past the end: the last trace could not be completed
            idx = len(traces) - 1
            n = sum(len(t) for t in traces[:-1])
        # sub-traces are independent (every one starts with a Reset): the ones before the rejected
        # sub-trace are accepted, only the ones after it are validated again
        good.extend(traces[:idx])
        bad = traces[idx]
        traces = traces[idx + 1:]
        rel = line - n  # 1-based line inside the sub-trace
        try:
            evline = json.loads(bad[min(rel, len(bad)) - 1])
        except ValueError:
            evline = {}
        if info.get("kind") == "invariant":
            sig = "%s:invariant:%s" % (module, info.get("violated"))
        else:
            sig = "%s:rejected:%s" % (module, evline.get("ev"))
        if describe:
            sig = describe(sig, bad, rel, info)
        detail = "trace spec %s %s at line %d of the sub-trace (event %s)" % (
            module, "violates invariant %s" % info.get("violated") if info.get("kind") == "invariant" else "cannot take the step",
            rel, json.dumps(evline)[:300])
        with _val_lock:
            ctx.violation(sig, detail, replay_lines=bad if info.get("kind") == "invariant" else bad[: rel + 2])
        rejected += 1
        if rejected >= budget or first_only:
            return good, rejected, traces
    return good, rejected, []


def validate_all(ctx, module, cfg, trace_path, describe=None, max_rejections=8, dfs=True, timeout=900, parallel=8):
    """Validates a file of concatenated traces; every rejected sub-trace is reported (as a
    violation or a known finding) and removed, and the rest is validated again, so one
    rejection does not hide the remaining traces.  After the first rejection the remainder is
    split into chunks that are validated concurrently (sub-traces are independent).
    Returns number of accepted sub-traces."""
    traces = split_traces(read_lines(trace_path))
    total = len(traces)
    good, rejected, rest = _validate_list(ctx, module, cfg, traces, describe, dfs, timeout, max_rejections, first_only=True)
    exhausted = False
    if rest and rejected < max_rejections:
        n = max(1, min(parallel, len(rest) // 4 or 1))
        size = (len(rest) + n - 1) // n
        chunks = [rest[i:i + size] for i in range(0, len(rest), size)]
        budget = max(1, (max_rejections - rejected + len(chunks) - 1) // len(chunks))
        with concurrent.futures.ThreadPoolExecutor(max_workers=len(chunks)) as ex:
            results = list(ex.map(lambda c: _validate_list(ctx, module, cfg, c, describe, dfs, timeout, budget), chunks))
        for g, r, left in results:
            good.extend(g)
            rejected += r
            if left:
                exhausted = True
    elif rest:
        exhausted = True
    if exhausted:
        ctx.log("too many rejected traces; validation stopped early")
    ctx.traces += len(good)
    # the accepted sub-traces, for binding self-tests and coverage runs
    ctx.accepted_path = os.path.join(ctx.scratch, "acc-%s-%d.ndjson" % (module, len(ctx.legs)))
    with open(ctx.accepted_path, "w") as f:
        for t in good:
            f.write("".join(t))
    return total - rejected


def corrupt_selftest(ctx, module, cfg, trace_path, mutate, what):
    """Binding self-test: a corrupted copy of an accepted trace must be rejected."""
    lines = read_lines(trace_path)
    mutated = mutate(lines)
    if mutated is None:
        ctx.log("binding self-test (%s): nothing to corrupt" % what)
        return
    p = os.path.join(ctx.scratch, "corrupt-%s.ndjson" % module)
    with open(p, "w") as f:
        f.write("".join(mutated))
    res = ctx.tlc(module, cfg, workers=1, files={"trace.ndjson": p}, dfs=True, count=False)
    ctx.legs.append({"leg": "T-selftest", "module": module, "what": what, "kind": res.kind})
    if res.kind not in ("rejected", "invariant"):
        raise Unresolved("binding self-test failed: corrupted trace (%s) was accepted by %s" % (what, module))
    ctx.log("binding self-test ok: corrupted trace (%s) rejected" % what)
