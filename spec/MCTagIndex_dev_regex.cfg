CONSTANTS
  NK = 2
  Values <- V_a_ab
  ExtraLits <- L_b
  Metrics = {1}
  MaxSeries = 2
  CoreSize = "small"
  Ops = {"meta"}
  Canonical = FALSE
  UnanchoredRegex = TRUE
  ContainerSize = 65536
  Deviation_RegexScansLiteralPrefixOnly = TRUE
  Deviation_FamilyReadAllOrNothing = FALSE
  Deviation_LikeLoneStarPanics = FALSE
  Deviation_ForwardLutNotCumulative = FALSE
  Deviation_NotIgnoresKey = FALSE
SPECIFICATION MCSpec
INVARIANTS TypeOK SidOK FilterIsEval GroupByIsRef JudgeIsSharp
CHECK_DEADLOCK FALSE
