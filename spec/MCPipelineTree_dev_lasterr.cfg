\* the child loop of baseStage.execute keeps the result of the LAST child ("last error wins"): must violate
CONSTANTS
  MCPlansFan <- MCPlansFanQuick
  SuccessOnlyAtEnd = TRUE
  RegisterAtomic = TRUE
  KeepFirstError = TRUE
  RecoverPerStage = TRUE
  FirstErrorWins = FALSE
  ErrReadAtCompletion = TRUE
SPECIFICATION MCSpec
INVARIANTS AtMostOnce OnlyAfterAll ErrorReported ExactlyOnceAtEnd PendingSane
PROPERTY Terminates
CHECK_DEADLOCK FALSE
