CONSTANTS
  FixLostTail = FALSE
  MismatchResync = FALSE
  MaxMsgs = 4
  MaxFaults = 3
  TailLoss = FALSE
  AppendOnlyWhenAligned = TRUE
SPECIFICATION MCSpec
INVARIANTS PositionalEquality NoHoles AckImpliesAppended NoSilentSkip
PROPERTIES Resync AckOnlyAppended
CHECK_DEADLOCK FALSE
