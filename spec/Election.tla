------------------------------ MODULE Election ------------------------------
(***************************************************************************)
(* Master election (coordinator/elect/election.go, pkg/state repository    *)
(* Elect / Watch / Delete) -- NOT one of the listed properties: part of the *)
(* specification's growth beyond them (DESIGN.md section 0.8).             *)
(*                                                                         *)
(* The repository holds one key (the master path) owned through a lease.   *)
(* Every node runs (a) an elect loop: `repo.Elect` (put-if-absent with a   *)
(* lease), then wait for a retry signal; (b) a watch handler, one event at *)
(* a time: a delete event makes the node resign (if it believes it is the  *)
(* master it DELETES the key, unconditionally) and signal its elect loop;  *)
(* a modify event naming the node itself makes it the master (listener     *)
(* OnFailOver, which may fail: then the node re-elects).  Events reach     *)
(* every node later and independently (`evq`).                             *)
(***************************************************************************)
EXTENDS Integers, Sequences, FiniteSets, TLC

CONSTANTS Node, None,
          FailOverMayFail     \* OnFailOver of the listener can return an error

VARIABLES
  key,       \* None or the node that owns the master key
  evq,       \* [Node -> Seq(event)]: watch events not handled yet
  isMaster,  \* [Node -> BOOLEAN]
  cached,    \* [Node -> Node \cup {None}]: GetMaster() of the node
  loop,      \* [Node -> {"trying", "waiting"}]: elect loop about to call Elect / waiting for the retry signal
  handler,   \* [Node -> {"idle", "signal"}]: the handler is blocked in reElect until the loop takes the signal
  role       \* [Node -> {"none", "active"}]: what the listener was told last (OnFailOver ok / OnResignation)

vars == <<key, evq, isMaster, cached, loop, handler, role>>

Del == [t |-> "del", m |-> None]
Mod(m) == [t |-> "mod", m |-> m]
Broadcast(e) == [n \in Node |-> Append(evq[n], e)]

Init ==
  /\ key = None /\ evq = [n \in Node |-> << >>]
  /\ isMaster = [n \in Node |-> FALSE] /\ cached = [n \in Node |-> None]
  /\ loop = [n \in Node |-> "trying"] /\ handler = [n \in Node |-> "idle"]
  /\ role = [n \in Node |-> "none"]

\* repo.Elect returns; a handler blocked on the retry signal hands it over at once
Elect(n) ==
  /\ loop[n] = "trying"
  /\ IF key = None
       THEN key' = n /\ evq' = Broadcast(Mod(n))
       ELSE UNCHANGED <<key, evq>>
  /\ IF handler[n] = "signal"
       THEN handler' = [handler EXCEPT ![n] = "idle"] /\ UNCHANGED loop
       ELSE loop' = [loop EXCEPT ![n] = "waiting"] /\ UNCHANGED handler
  /\ UNCHANGED <<isMaster, cached, role>>

\* the owner's lease is lost (pause, partition): the key disappears while the owner keeps running
LeaseExpire ==
  /\ key # None
  /\ key' = None /\ evq' = Broadcast(Del)
  /\ UNCHANGED <<isMaster, cached, loop, handler, role>>

\* resign(): only a node that believes it is the master deletes the key -- whoever owns it now
ResignEffect(n, q) ==
  IF isMaster[n]
    THEN /\ key' = None
         /\ evq' = IF key # None THEN [m \in Node |-> Append(q[m], Del)] ELSE q
         /\ isMaster' = [isMaster EXCEPT ![n] = FALSE]
         /\ cached' = [cached EXCEPT ![n] = None]
    ELSE /\ evq' = q /\ UNCHANGED <<key, isMaster, cached>>

\* reElect(): resign, then signal the elect loop (blocks until the loop waits)
ReElect(n, q) ==
  /\ ResignEffect(n, q)
  /\ IF loop[n] = "waiting"
       THEN loop' = [loop EXCEPT ![n] = "trying"] /\ UNCHANGED handler
       ELSE handler' = [handler EXCEPT ![n] = "signal"] /\ UNCHANGED loop

HandleDelete(n) ==
  /\ handler[n] = "idle" /\ evq[n] # << >> /\ Head(evq[n]).t = "del"
  /\ role' = [role EXCEPT ![n] = IF isMaster[n] THEN "none" ELSE @]      \* OnResignation
  /\ ReElect(n, [evq EXCEPT ![n] = Tail(@)])

HandleModify(n, failover) ==
  /\ handler[n] = "idle" /\ evq[n] # << >> /\ Head(evq[n]).t = "mod"
  /\ LET m == Head(evq[n]).m  q == [evq EXCEPT ![n] = Tail(@)] IN
     IF m = n
       THEN IF failover = "fail"
              THEN /\ FailOverMayFail
                   /\ ReElect(n, q) /\ UNCHANGED role
              ELSE /\ isMaster' = [isMaster EXCEPT ![n] = TRUE]
                   /\ cached' = [cached EXCEPT ![n] = m]
                   /\ role' = [role EXCEPT ![n] = "active"]
                   /\ evq' = q /\ UNCHANGED <<key, loop, handler>>
       ELSE /\ failover = "ok"
            /\ cached' = [cached EXCEPT ![n] = m]
            /\ evq' = q /\ UNCHANGED <<key, isMaster, loop, handler, role>>

Next ==
  \/ \E n \in Node : Elect(n)
  \/ LeaseExpire
  \/ \E n \in Node : HandleDelete(n)
  \/ \E n \in Node, f \in {"ok", "fail"} : HandleModify(n, f)

Spec == Init /\ [][Next]_vars

\* ------------------------------------------------------------------ properties
Settled == /\ \A n \in Node : evq[n] = << >> /\ handler[n] = "idle" /\ loop[n] = "waiting"
\* when every event has been handled there is a master, it owns the key, everybody knows it
SettledHasMaster == Settled => key # None
SettledOwnerIsMaster == Settled => (key # None => isMaster[key])
SettledAgreement == Settled => \A n \in Node : (isMaster[n] <=> n = key) /\ cached[n] = key
\* a node is told to be active exactly while it believes to be the master
RoleFollowsBelief == \A n \in Node : (role[n] = "active") <=> isMaster[n]
\* NOT an invariant of a lease-based election without fencing (the old master learns late); checked to
\* document the window: two nodes believe to be the master only while the older one has a delete pending
DualMasterOnlyWhileDeletePending ==
  \A a, b \in Node : (a # b /\ isMaster[a] /\ isMaster[b]) =>
      (\E i \in 1..Len(evq[a]) : evq[a][i].t = "del") \/ (\E i \in 1..Len(evq[b]) : evq[b][i].t = "del")
\* a resignation never removes a key the resigning node does not own (violated: resign deletes unconditionally)
ResignDeletesOnlyOwnKey ==
  [][\A n \in Node : (isMaster[n] /\ ~isMaster'[n] /\ key # None /\ key' = None) => key = n]_vars
=============================================================================
