------------------------------ MODULE StmtWire ------------------------------
(***************************************************************************)
(* The statement a root node plans is the statement a leaf node executes   *)
(* (sql/stmt/expr.go Marshal / Unmarshal, sql/stmt/query.go and            *)
(* metric_metadata.go MarshalJSON / UnmarshalJSON, sql.Parse) -- C17.      *)
(*                                                                         *)
(* The statement model: a tree node is a record with a kind `k`            *)
(*   field [name]  num [v]  eq [key,val]  like [key,val]  regex [key,re]   *)
(*   in [key,vals]  not [e]  paren [e]  call [f,ps]  bin [op,l,r]          *)
(*   item [e,alias]  order [e,desc]                                        *)
(* any kind may sit below any other (the planner may build trees the       *)
(* parser never yields).  A statement is a record of clauses.              *)
(*                                                                         *)
(* The wire is specified twice: as what it must be -- the identity on      *)
(* trees -- and as how it is built: one tagged JSON envelope per kind      *)
(* (Enc) and the decoder that dispatches on the tag (Dec); JSON objects    *)
(* are records, arrays sequences, null the empty sequence.  RoundTrip      *)
(* (Dec(Enc(x)) = x for every tree of the model) is what TLC checks on     *)
(* the design; the trace specification binds the real bytes to Enc and     *)
(* the real decoder's output to the tree before the wire.                  *)
(*                                                                         *)
(* SubSecond = TRUE admits intervals that are not whole seconds into the   *)
(* statement universe: the wire renders an interval as text "<n><unit>"    *)
(* with seconds as the finest unit, so such a statement does NOT survive   *)
(* (neither the grammar nor the planner produce one).                      *)
(*                                                                         *)
(* Parse determinism also holds for calls that overlap (a broker parses    *)
(* every incoming query on its own goroutine): what a call returns is a    *)
(* function of ITS text, whatever other calls are in flight between its    *)
(* begin and its end (Begin / End / ResultOf, used by the trace            *)
(* specification).  mode "calls" models how sql.Parse is built: a lexer    *)
(* object taken from a pool, a token stream that pulls from that lexer     *)
(* lazily while the parser runs, the lexer put back when the call ends.    *)
(* EarlyRelease = TRUE puts the lexer back as soon as the token stream     *)
(* exists: a second call may then take the same object and the first one   *)
(* reads the other text (ParseFunction is violated).                       *)
(***************************************************************************)
EXTENDS Integers, Sequences, FiniteSets, TLC

CONSTANTS
  Leaves,       \* model checking: the leaf nodes of the universe
  Funcs, Ops,   \* function types / binary operators used to grow trees
  Aliases,
  MaxDepth,     \* nesting bound
  SiblingsAt(_),\* depth -> the nodes that may sit next to the growing child
  Stmts,        \* model checking: the statements of the universe
  SubSecond,
  Modes,        \* model checking: which universes to explore ("tree", "stmt", "calls")
  Texts, Calls, Lexers,   \* mode "calls": texts (token sequences), call ids, lexer objects (1..n)
  EarlyRelease  \* deviation: the pooled lexer is put back before its token stream has been read

VARIABLES mode, x, d,
          open,       \* the parse calls in flight: call id -> [text, ...]
          pool, lex   \* mode "calls": the lexer objects in the pool; lexer object -> [input, pos]
cvars == <<open, pool, lex>>
vars == <<mode, x, d, open, pool, lex>>

Nil == [k |-> "nil"]
LeafKinds == {"field", "num", "eq", "like", "regex", "in"}

RECURSIVE WellFormed(_)
WellFormed(n) ==
  CASE n.k \in LeafKinds -> TRUE
    [] n.k \in {"not", "paren", "item", "order"} -> WellFormed(n.e)
    [] n.k = "call" -> \A i \in DOMAIN n.ps : WellFormed(n.ps[i])
    [] n.k = "bin" -> WellFormed(n.l) /\ WellFormed(n.r)
    [] OTHER -> FALSE                      \* a missing child ("nil") or a node of no known kind
RECURSIVE Depth(_)
Max2(a, b) == IF a > b THEN a ELSE b
RECURSIVE MaxDepthOf(_, _)
MaxDepthOf(s, i) == IF i > Len(s) THEN 0 ELSE Max2(Depth(s[i]), MaxDepthOf(s, i + 1))
Depth(n) ==
  CASE n.k \in LeafKinds -> 0
    [] n.k \in {"not", "paren", "item", "order"} -> 1 + Depth(n.e)
    [] n.k = "call" -> IF n.ps = <<>> THEN 0 ELSE 1 + MaxDepthOf(n.ps, 1)
    [] n.k = "bin" -> 1 + Max2(Depth(n.l), Depth(n.r))
    [] OTHER -> 0

\* ---------------------------------------------------------------- the tagged envelope (expr.go)
RECURSIVE Enc(_)
Enc(n) ==
  CASE n.k = "field" -> [type |-> "field", expr |-> [name |-> n.name]]
    [] n.k = "num" -> [type |-> "number", expr |-> [val |-> n.v]]
    [] n.k = "eq" -> [type |-> "equals", expr |-> [key |-> n.key, value |-> n.val]]
    [] n.k = "like" -> [type |-> "like", expr |-> [key |-> n.key, value |-> n.val]]
    [] n.k = "regex" -> [type |-> "regex", expr |-> [key |-> n.key, regexp |-> n.re]]
    [] n.k = "in" -> [type |-> "in", expr |-> [key |-> n.key, values |-> n.vals]]
    [] n.k = "not" -> [type |-> "not", expr |-> Enc(n.e)]
    [] n.k = "paren" -> [type |-> "paren", expr |-> Enc(n.e)]
    [] n.k = "item" -> [type |-> "selectItem", expr |-> Enc(n.e), alias |-> n.alias]
    [] n.k = "order" -> [type |-> "orderBy", expr |-> Enc(n.e), desc |-> n.desc]
    [] n.k = "call" -> [type |-> "call", funcType |-> n.f, params |-> [i \in DOMAIN n.ps |-> Enc(n.ps[i])]]
    [] n.k = "bin" -> [type |-> "binary", left |-> Enc(n.l), right |-> Enc(n.r), operator |-> n.op]
RECURSIVE Dec(_)
Dec(j) ==
  CASE j.type = "field" -> [k |-> "field", name |-> j.expr.name]
    [] j.type = "number" -> [k |-> "num", v |-> j.expr.val]
    [] j.type = "equals" -> [k |-> "eq", key |-> j.expr.key, val |-> j.expr.value]
    [] j.type = "like" -> [k |-> "like", key |-> j.expr.key, val |-> j.expr.value]
    [] j.type = "regex" -> [k |-> "regex", key |-> j.expr.key, re |-> j.expr.regexp]
    [] j.type = "in" -> [k |-> "in", key |-> j.expr.key, vals |-> j.expr.values]
    [] j.type = "not" -> [k |-> "not", e |-> Dec(j.expr)]
    [] j.type = "paren" -> [k |-> "paren", e |-> Dec(j.expr)]
    [] j.type = "selectItem" -> [k |-> "item", e |-> Dec(j.expr), alias |-> j.alias]
    [] j.type = "orderBy" -> [k |-> "order", e |-> Dec(j.expr), desc |-> j.desc]
    [] j.type = "call" -> [k |-> "call", f |-> j.funcType, ps |-> [i \in DOMAIN j.params |-> Dec(j.params[i])]]
    [] j.type = "binary" -> [k |-> "bin", op |-> j.operator, l |-> Dec(j.left), r |-> Dec(j.right)]

\* ---------------------------------------------------------------- statements (query.go)
\* [explain, ns, metric, items, all, cond, from, to, iv, siv, ratio, auto, group, having, order, limit]
\* instants / intervals are <<seconds, milliseconds>>; cond / having may be Nil (no such clause)
OptWellFormed(n) == n = Nil \/ WellFormed(n)
WellFormedStmt(s) ==
  IF s.k = "query"
  THEN /\ \A i \in DOMAIN s.items : WellFormed(s.items[i])
       /\ \A i \in DOMAIN s.order : WellFormed(s.order[i])
       /\ OptWellFormed(s.cond) /\ OptWellFormed(s.having)
  ELSE s.k = "meta" /\ OptWellFormed(s.cond)
\* omitempty: a field with its zero value is not sent, the receiver starts from zero values
Opt(name, v, zero) == IF v = zero THEN <<>> ELSE [f \in {name} |-> v]
Get(j, name, zero) == IF name \in DOMAIN j THEN j[name] ELSE zero
\* an interval travels as text: the largest unit that divides it, seconds at the finest
Units == <<<<"y", 365 * 86400>>, <<"M", 30 * 86400>>, <<"d", 86400>>, <<"h", 3600>>, <<"m", 60>>>>
EncInterval(iv) ==
  LET s == iv[1]
      fit == {i \in DOMAIN Units : iv[2] = 0 /\ s % Units[i][2] = 0 /\ s \div Units[i][2] > 0}
  IN IF fit # {} THEN LET i == CHOOSE i \in fit : \A o \in fit : i <= o IN <<s \div Units[i][2], Units[i][1]>>
     ELSE <<s, "s">>
UnitSec(u) == IF u = "s" THEN 1 ELSE LET i == CHOOSE i \in DOMAIN Units : Units[i][1] = u IN Units[i][2]
DecInterval(t) == <<t[1] * UnitSec(t[2]), 0>>
EncSeq(s) == [i \in DOMAIN s |-> Enc(s[i])]
DecSeq(s) == [i \in DOMAIN s |-> Dec(s[i])]
EncStmt(s) ==
  Opt("explain", s.explain, FALSE) @@ Opt("namespace", s.ns, "") @@ Opt("metricName", s.metric, "")
  @@ Opt("selectItems", EncSeq(s.items), <<>>) @@ Opt("allFields", s.all, FALSE)
  @@ (IF s.cond = Nil THEN <<>> ELSE [condition |-> Enc(s.cond)])
  @@ [timeRange |-> [start |-> s.from, end |-> s.to]]
  @@ (IF s.iv = <<0, 0>> THEN <<>> ELSE [interval |-> EncInterval(s.iv)])
  @@ (IF s.siv = <<0, 0>> THEN <<>> ELSE [storageInterval |-> EncInterval(s.siv)])
  @@ Opt("intervalRatio", s.ratio, 0) @@ Opt("autoGroupByTime", s.auto, FALSE)
  @@ Opt("groupBy", s.group, <<>>)
  @@ (IF s.having = Nil THEN <<>> ELSE [having |-> Enc(s.having)])
  @@ Opt("orderByItems", EncSeq(s.order), <<>>) @@ Opt("limit", s.limit, 0)
DecStmt(j) ==
  [k |-> "query", explain |-> Get(j, "explain", FALSE), ns |-> Get(j, "namespace", ""), metric |-> Get(j, "metricName", ""),
   items |-> DecSeq(Get(j, "selectItems", <<>>)), all |-> Get(j, "allFields", FALSE),
   cond |-> IF "condition" \in DOMAIN j THEN Dec(j.condition) ELSE Nil,
   from |-> j.timeRange.start, to |-> j.timeRange.end,
   iv |-> IF "interval" \in DOMAIN j THEN DecInterval(j.interval) ELSE <<0, 0>>,
   siv |-> IF "storageInterval" \in DOMAIN j THEN DecInterval(j.storageInterval) ELSE <<0, 0>>,
   ratio |-> Get(j, "intervalRatio", 0), auto |-> Get(j, "autoGroupByTime", FALSE),
   group |-> Get(j, "groupBy", <<>>),
   having |-> IF "having" \in DOMAIN j THEN Dec(j.having) ELSE Nil,
   order |-> DecSeq(Get(j, "orderByItems", <<>>)), limit |-> Get(j, "limit", 0)]

\* ---------------------------------------------------------------- the property
\* what the wire must be: the identity.  Survives(a, b): b is the statement / tree received for a.
Survives(a, b) == b = a
\* parsing is a function of the text; the clock is an input where the text gives no absolute time range
SameModuloClock(a, b, abs) ==
  IF abs \/ a.k # "query" \/ b.k # "query" THEN b = a
  ELSE [b EXCEPT !.from = <<0, 0>>, !.to = <<0, 0>>] = [a EXCEPT !.from = <<0, 0>>, !.to = <<0, 0>>]

\* ---------------------------------------------------------------- overlapping parse calls
\* the specification of a call: it begins with a text, it ends with a result; P is the function text -> result
\* (in a trace: what the sequential parses have shown), the result of a call is P of its own text
Begin(c, t) == c \notin DOMAIN open /\ open' = open @@ (c :> [text |-> t])
End(c) == c \in DOMAIN open /\ open' = [k \in DOMAIN open \ {c} |-> open[k]]
ResultOf(P, t, r, abs) == t \in DOMAIN P /\ SameModuloClock(P[t], r, abs)

\* how sql.Parse is built (parser.go Parse, getSQLLexer / putSQLLexer; antlr.CommonTokenStream is lazy).  In the
\* model a text is its token sequence and the statement parsed from it is the sequence of tokens the parser was given.
\* x: finished call -> [text, res]
NewLexer == IF Lexers \subseteq DOMAIN lex THEN {} ELSE {CHOOSE n \in Lexers \ DOMAIN lex : \A o \in Lexers \ DOMAIN lex : n <= o}
\* getSQLLexer: a pooled object (sync.Pool may also hand out none: a new one is made) gets the text as its input;
\* the token stream is created on top of it
PBegin(c, t) ==
  /\ mode = "calls" /\ c \notin DOMAIN open \cup DOMAIN x
  /\ \E lx \in pool \cup NewLexer :
       /\ lex' = (lx :> [input |-> t, pos |-> 0]) @@ lex
       /\ pool' = IF EarlyRelease THEN pool \cup {lx} ELSE pool \ {lx}
       /\ open' = open @@ (c :> [text |-> t, lx |-> lx, got |-> <<>>, eof |-> FALSE])
  /\ UNCHANGED <<mode, x, d>>
\* parser.Statement(): the token stream pulls the next token from ITS lexer object
PRead(c) ==
  /\ mode = "calls" /\ c \in DOMAIN open /\ ~open[c].eof
  /\ LET lx == open[c].lx
         L == lex[lx]
     IN IF L.pos < Len(L.input)
        THEN /\ lex' = [lex EXCEPT ![lx].pos = @ + 1]
             /\ open' = [open EXCEPT ![c].got = Append(@, L.input[L.pos + 1])]
        ELSE /\ open' = [open EXCEPT ![c].eof = TRUE]
             /\ UNCHANGED lex
  /\ UNCHANGED <<mode, x, d, pool>>
\* the statement is built from what was read; the deferred putSQLLexer
PEnd(c) ==
  /\ mode = "calls" /\ c \in DOMAIN open /\ open[c].eof
  /\ x' = x @@ (c :> [text |-> open[c].text, res |-> open[c].got])
  /\ pool' = pool \cup {open[c].lx}
  /\ End(c)
  /\ UNCHANGED <<mode, d, lex>>

\* ---------------------------------------------------------------- state machine (model checking)
\* a tree grows: any constructor is put on top of the current tree, the other children come from SiblingsAt
Grown(n, S) ==
  {[k |-> "paren", e |-> n], [k |-> "not", e |-> n]}
  \cup {[k |-> "item", e |-> n, alias |-> a] : a \in Aliases}
  \cup {[k |-> "order", e |-> n, desc |-> b] : b \in BOOLEAN}
  \cup {[k |-> "bin", op |-> o, l |-> n, r |-> y] : o \in Ops, y \in S}
  \cup {[k |-> "bin", op |-> o, l |-> y, r |-> n] : o \in Ops, y \in S}
  \cup {[k |-> "call", f |-> f, ps |-> <<n>>] : f \in Funcs}
  \cup {[k |-> "call", f |-> f, ps |-> <<n, y>>] : f \in Funcs, y \in S}
  \cup {[k |-> "call", f |-> f, ps |-> <<y, n>>] : f \in Funcs, y \in S}
Init ==
  /\ mode \in Modes /\ open = <<>> /\ pool = {} /\ lex = <<>>
  /\ \/ mode = "tree" /\ x \in Leaves \cup {[k |-> "call", f |-> f, ps |-> <<>>] : f \in Funcs} /\ d = 0
     \/ mode = "stmt" /\ x = Nil /\ d = 0
     \/ mode = "calls" /\ x = <<>> /\ d = 0
Grow == /\ mode = "tree" /\ d < MaxDepth
        /\ x' \in Grown(x, SiblingsAt(d + 1)) /\ d' = d + 1 /\ UNCHANGED <<mode, cvars>>
PickStmt == /\ mode = "stmt" /\ d = 0 /\ x' \in Stmts /\ d' = 1 /\ UNCHANGED <<mode, cvars>>
CallStep == \E c \in Calls : (\E t \in Texts : PBegin(c, t)) \/ PRead(c) \/ PEnd(c)
Next == Grow \/ PickStmt \/ CallStep
Spec == Init /\ [][Next]_vars

\* ---------------------------------------------------------------- invariants
RoundTrip == mode = "tree" => /\ WellFormed(x)
                              /\ Survives(x, Dec(Enc(x)))
                              /\ Depth(x) <= MaxDepth
StmtRoundTrip == (mode = "stmt" /\ d = 1) => /\ WellFormedStmt(x)
                                             /\ (SubSecond \/ (x.iv[2] = 0 /\ x.siv[2] = 0))
                                             /\ Survives(x, DecStmt(EncStmt(x)))
\* every finished call returned the statement of its own text, whatever ran between its begin and its end
ParseFunction == mode = "calls" => \A c \in DOMAIN x : x[c].res = x[c].text
\* ... because a lexer object serves one call at a time
LexerExclusive == mode = "calls" => /\ \A c1, c2 \in DOMAIN open : c1 # c2 => open[c1].lx # open[c2].lx
                                    /\ \A c \in DOMAIN open : open[c].lx \notin pool
=============================================================================
