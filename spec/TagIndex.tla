------------------------------- MODULE TagIndex -------------------------------
(* C10: tag filtering through the index = evaluating the predicate on every      *)
(* series.                                                                      *)
(*                                                                              *)
(* REFERENCE.  A series is a metric and a tag map; Eval(c, tags) evaluates a     *)
(* condition of LinDB's grammar on ONE series (semantics pinned from            *)
(* sql/grammar/SQL.g4, sql/base_stmt_parser.go, index/kv_store.go):             *)
(*   key = 'v'            the series has the key and its value is v              *)
(*   key in ('v',..)      ... and its value is one of the list                   *)
(*   key like 'p'         p = lit* prefix, *lit suffix, *lit* contains (a lone   *)
(*                        '*' and '**' are "contains the empty string"), no star *)
(*                        at either end: equality with p                         *)
(*   key =~ 're'          structured class of SortedDict (alternation of         *)
(*                        literals, prefix / suffix / contains / exact)          *)
(*   != <> not in not like !~    the series HAS THE KEY and the atom is false    *)
(*   and / or / ( )       one precedence level, left associative (the AST is     *)
(*                        given, Eval does not parse)                            *)
(* RefGroups: group by g keeps the selected series that have every key of g and  *)
(* returns, per distinct value tuple, the number of such series.                 *)
(*                                                                              *)
(* IMPLEMENTATION SHAPE.  The same questions answered the way the code does:     *)
(* atom -> value ids from the tag value dictionary (metric meta database, a      *)
(* mutable map, an immutable map being flushed, files) -> posting lists of the   *)
(* inverted index (shard index database: mutable / immutable / files) ->         *)
(* and = intersection, or = union, not = (series having the key, from the        *)
(* forward index) minus matches; group by = forward index scanners per key and   *)
(* place + reverse dictionary lookup.  Every read is the union over all places   *)
(* an entry can be in; the places change with PrepareFlush / Flush / Compact /   *)
(* Reopen.  FilterIsEval / GroupByIsRef state that the two agree in every        *)
(* reachable placement (checked exhaustively by MCTagIndex on a small universe,  *)
(* judged on the real engine's answers by TagIndexTrace).                        *)
EXTENDS Integers, Sequences, FiniteSets, TLC

CONSTANTS
  \* Named deviations: each one describes ONE recorded defect of the real code exactly; all FALSE = the reference.  A
  \* trace the strict specification rejects is a recorded finding only if it is accepted with exactly that deviation
  \* switched on (lib/props/c10.py); MCTagIndex_dev_*.cfg show that each deviation breaks its invariant in the model.
  \* (Repaired in lindb by 2d1a3a7, kept to recognise a regression; C20-K2 reaching queries): a regular expression is
  \* matched against PERSISTED dictionary entries only when the entry starts with the pattern's literal prefix
  \* (model.TrieBucket.FindValuesByRegexp), entries still in memory are matched anywhere.
  Deviation_RegexScansLiteralPrefixOnly,
  \* Named deviation (recorded finding): DataFamily.Filter reads the memory database and the files of the family; a
  \* side that holds the metric but none of the selected series answers "not found", and that error discards the
  \* answer of the other side too: series selected by the index are lost whenever they all live on one side.
  Deviation_FamilyReadAllOrNothing,
  \* Named deviation (recorded finding): like '*' panics in FindValuesByLike (slice bounds [1:0]); the query fails.
  Deviation_LikeLoneStarPanics,
  \* Named deviation (recorded finding): the reader of a persisted forward index entry (index/v1/forward_reader.go,
  \* NewTagForwardReader) computes the offset of the value ids of a bitmap container as the cardinality of the
  \* PREVIOUS container instead of the sum of all previous ones: from the third container of one entry on, group by
  \* reads the tag values of other series.  ContainerSize is 65536 in the real system (series ids of one metric).
  Deviation_ForwardLutNotCumulative,
  ContainerSize,
  \* Sensitivity switch of the model only: `not` computed against all series of the metric instead of the series
  \* that have the key.
  Deviation_NotIgnoresKey

\* string semantics shared with C20 (byte strings = sequences of 0..255)
SD == INSTANCE SortedDict WITH dicts <- << >>, Deviation_SeekExactOnlyWhenProbeIsPrefix <- FALSE

VARIABLES
  nk,       \* number of tag keys of the metric space under test
  vals,     \* vals[k]: byte strings of key k in dictionary creation order; the value id is the pair (k, index)
  vloc,     \* vloc[k][v]: place of the dictionary entry (tag value store of the metric meta database)
  series,   \* series[s] = [m |-> metric, tags |-> <<value index per key, 0 = the series has no such key>>,
            \*              x |-> 1 when the series carries tags under keys outside the judged key set (then it has
            \*                    inverted / forward entries although every judged key is missing), else 0]
  holders,  \* holders[k]: the series that carry key k (derived from `series`; kept so that the readers of one key's
            \*   entries do not scan the whole universe)
  msid,     \* msid[s]: the id of series s inside its metric (0, 1, 2.. in creation order; what the bitmaps hold)
  sloc,     \* sloc[store][s]: place of the entries of series s in an index store ("metric", "inverted", "forward"):
            \*   Mut, Imm or the number (> 0) of the file that holds them
  dslot,    \* dslot[s]: the time slot of the latest data point of series s (the observation channel: a query over a
            \*   slot shows the selected series that have a point in it)
  dplace    \* dplace[s]: where that point is: Mut = memory database of the family, File = flushed
vars == <<nk, vals, vloc, series, holders, msid, sloc, dslot, dplace>>

\* places
Mut == 0          \* mutable map
Imm == -1         \* immutable map (PrepareFlush done, Flush not yet)
File == 1         \* level-0 file
Compacted == 2    \* file written by a compaction
Places == {Mut, Imm, File, Compacted}        \* of a dictionary entry
Persisted(p) == p > 0
Stores == {"metric", "inverted", "forward"}

Keys == 1..nk
SeriesIds == 1..Len(series)
ToSet(s) == {s[i] : i \in 1..Len(s)}
NoDup(s) == Cardinality(ToSet(s)) = Len(s)

-------------------------------------------------------------------------------
(* reference *)

\* does the positive form of atom a hold for the byte string str
ValueMatches(a, str) ==
  CASE a.kind = "eq" -> str = a.lits[1]
    [] a.kind = "in" -> \E i \in 1..Len(a.lits) : str = a.lits[i]
    [] a.kind = "like" -> SD!LikeMatch(a.shape, a.lits[1], str)
    [] a.kind = "regex" -> SD!RegexMatch(a.shape, a.lits, str)

\* ... for dictionary entry (k, v) as the DICTIONARY LOOKUP decides it (used by the implementation shape only).  With
\* the named deviation a persisted entry is only seen by a regular expression when it starts with the pattern's
\* literal prefix a.lp.
EntryMatches(a, v) ==
  LET str == vals[a.k][v] IN
  IF Deviation_RegexScansLiteralPrefixOnly /\ a.kind = "regex" /\ Persisted(vloc[a.k][v])
  THEN SD!IsPrefix(a.lp, str) /\ ValueMatches(a, str)
  ELSE ValueMatches(a, str)

RECURSIVE Eval(_, _)
RECURSIVE Filter(_, _)
Eval(c, tags) ==
  CASE c.op = "true" -> TRUE
    [] c.op = "atom" -> /\ tags[c.k] # 0
                        /\ IF c.neg = 1 THEN ~ValueMatches(c, vals[c.k][tags[c.k]])
                                         ELSE ValueMatches(c, vals[c.k][tags[c.k]])
    [] c.op = "paren" -> Eval(c.l, tags)
    [] c.op = "and" -> Eval(c.l, tags) /\ Eval(c.r, tags)
    [] c.op = "or" -> Eval(c.l, tags) \/ Eval(c.r, tags)

OfMetricD(m) == {s \in SeriesIds : series[s].m = m}
Selected(m, c) == {s \in SeriesIds : series[s].m = m /\ Eval(c, series[s].tags)}

\* group by: g is a sequence of keys
Kept(S, g) == {s \in S : \A i \in 1..Len(g) : series[s].tags[g[i]] # 0}
Proj(s, g) == [i \in 1..Len(g) |-> series[s].tags[g[i]]]
RefGroupSet(S, g) == {Proj(s, g) : s \in Kept(S, g)}
RefCount(S, g, p) == Cardinality({s \in Kept(S, g) : Proj(s, g) = p})

\* what the forward index answers for (series, key): the series' own value -- or, with the named deviation, the value
\* at the mis-computed offset of a persisted entry (entry = the series of the metric that have the key, in one file)
FwdEntry(m, k, f) == {t \in holders[k] : series[t].m = m /\ sloc["forward"][t] = f}
FwdRead(s, k) ==
  LET f == sloc["forward"][s] IN
  IF ~Deviation_ForwardLutNotCumulative \/ f <= 0 THEN series[s].tags[k]
  ELSE LET F == FwdEntry(series[s].m, k, f)
           hi(t) == msid[t] \div ContainerSize
           before == {c \in {hi(t) : t \in F} : c < hi(s)}
           rank == Cardinality({t \in F : hi(t) = hi(s) /\ msid[t] < msid[s]})
           lut == IF before = {} THEN 0
                  ELSE LET pc == CHOOSE c \in before : \A d \in before : d <= c IN Cardinality({t \in F : hi(t) = pc})
           tgt == CHOOSE t \in F : Cardinality({x \in F : msid[x] < msid[t]}) = lut + rank
       IN series[tgt].tags[k]
ProjSeen(s, g) == [i \in 1..Len(g) |-> FwdRead(s, g[i])]

\* judge of a logged answer: gv = value tuples, cnt = series per tuple.  When the projection is injective on the
\* kept series every count is 1 (this branch keeps the judge linear for group by a unique key).
GroupsOK(S, g, gv, cnt) ==
  \E K \in {Kept(S, g)} :
  \E P \in {{ProjSeen(s, g) : s \in K}} :
  /\ Len(gv) = Len(cnt) /\ NoDup(gv) /\ ToSet(gv) = P
  /\ IF Cardinality(P) = Cardinality(K)
     THEN \A i \in 1..Len(cnt) : cnt[i] = 1
     ELSE \A i \in 1..Len(cnt) : cnt[i] = Cardinality({s \in K : ProjSeen(s, g) = gv[i]})

\* what a query over time slot `slot` can show: the selected series that have a point in that slot
HasLoneStar(c) ==
  LET RECURSIVE H(_)
      H(x) == CASE x.op = "atom" -> x.kind = "like" /\ x.pat = "*"
                [] x.op \in {"and", "or"} -> H(x.l) \/ H(x.r)
                [] x.op = "paren" -> H(x.l)
                [] OTHER -> FALSE
  IN H(c)
\* the series the index selects: the reference -- or, when the regular expression deviation is switched on, what the
\* dictionary-shaped evaluation (Filter, below) yields in the current placement
Answered(m, c) == IF Deviation_RegexScansLiteralPrefixOnly THEN Filter(m, c) ELSE Selected(m, c)
Visible(m, c, slot) ==
  LET S == {s \in Answered(m, c) : dslot[s] = slot} IN
  IF ~Deviation_FamilyReadAllOrNothing THEN S
  ELSE LET mem == {s \in OfMetricD(m) : dslot[s] = slot /\ dplace[s] = Mut}
           fil == {s \in OfMetricD(m) : dslot[s] = slot /\ dplace[s] # Mut} IN
       IF (mem # {} /\ S \cap mem = {}) \/ (fil # {} /\ S \cap fil = {}) THEN {} ELSE S
\* judge of a whole answer: res is "ok" | "error"
AnswerOK(m, c, g, slot, res, gv, cnt) ==
  IF Deviation_LikeLoneStarPanics /\ HasLoneStar(c)
  THEN res = "error"
  ELSE /\ res = "ok"       \* a condition of the grammar over existing keys of an existing metric is never an error
       /\ GroupsOK(Visible(m, c, slot), g, gv, cnt)

\* the tag value dictionary of key k as the metadata database lists it (FindTagValueIDsForTag + CollectTagValues):
\* entries = <<value index (position in vals[k]; <= 0: an id without a string / a string nobody wrote), id>> pairs.
\* vals[k] IS the dictionary (the value id is the pair (k, index): dictionary entries are created once, in every
\* placement of the entry, also when the lookup runs while a flush commits): every created value is listed, exactly
\* once, under one id.  A value with a second id has its posting lists split over two ids.
DictOK(k, entries) ==
  LET n == Len(entries) IN
  /\ k \in Keys
  /\ n = Len(vals[k])
  /\ {entries[i][1] : i \in 1..n} = 1..Len(vals[k])
  /\ Cardinality({entries[i][2] : i \in 1..n}) = n

-------------------------------------------------------------------------------
(* implementation shape: dictionary -> postings -> bitmap algebra *)

\* tag value dictionary of key k, one place
DictAt(k, p) == {v \in 1..Len(vals[k]) : vloc[k][v] = p}
\* FindValuesByExpr: memory and files are searched separately and appended
ValueIds(a) == UNION {{v \in DictAt(a.k, p) : EntryMatches(a, v)} : p \in Places}
\* series of one metric (series ids are per metric; tag keys and value ids belong to one metric)
OfMetric(m) == OfMetricD(m)
\* the places an index store reads: both memory maps and every file
IndexPlaces(st) == {Mut, Imm} \cup {sloc[st][s] : s \in SeriesIds}
\* inverted index: value id -> series, one place
PostingAt(m, k, v, p) == {s \in OfMetric(m) : series[s].tags[k] = v /\ sloc["inverted"][s] = p}
SeriesByValueIds(m, k, V) == UNION {PostingAt(m, k, v, p) : v \in V, p \in IndexPlaces("inverted")}
\* forward index: key -> (series -> value id), one place
ForwardAt(m, k, p) == {s \in OfMetric(m) : series[s].tags[k] # 0 /\ sloc["forward"][s] = p}
SeriesForTag(m, k) == UNION {ForwardAt(m, k, p) : p \in IndexPlaces("forward")}
\* metric -> series
SeriesForMetric(m) == UNION {{s \in OfMetric(m) : sloc["metric"][s] = p} : p \in IndexPlaces("metric")}

Filter(m, c) ==
  CASE c.op = "true" -> SeriesForMetric(m)
    [] c.op = "atom" ->
         LET match == SeriesByValueIds(m, c.k, ValueIds(c)) IN
         IF c.neg = 1
         THEN (IF Deviation_NotIgnoresKey THEN SeriesForMetric(m) ELSE SeriesForTag(m, c.k)) \ match
         ELSE match
    [] c.op = "paren" -> Filter(m, c.l)
    [] c.op = "and" -> Filter(m, c.l) \cap Filter(m, c.r)
    [] c.op = "or" -> Filter(m, c.l) \cup Filter(m, c.r)

\* GetGroupingContext: per key the scanners of every place; a series survives when every key has a scanner that
\* holds it; its value id comes from that scanner and the string from CollectTagValues (all places of the dictionary)
IndexKept(m, S, g) == {s \in S : \A i \in 1..Len(g) : s \in SeriesForTag(m, g[i])}
CollectValue(k, v) == IF \E p \in Places : v \in DictAt(k, p) THEN v ELSE 0
IndexProj(s, g) == [i \in 1..Len(g) |-> CollectValue(g[i], FwdRead(s, g[i]))]
IndexGroupSet(m, S, g) == {IndexProj(s, g) : s \in IndexKept(m, S, g)}
IndexCount(m, S, g, p) == Cardinality({s \in IndexKept(m, S, g) : IndexProj(s, g) = p})

\* the property, for one metric / condition / grouping
FilterIsEvalFor(m, c) == Filter(m, c) = Selected(m, c)
GroupByIsRefFor(m, c, g) ==
  LET S == Filter(m, c) IN
  /\ IndexGroupSet(m, S, g) = RefGroupSet(Selected(m, c), g)
  /\ \A p \in IndexGroupSet(m, S, g) : IndexCount(m, S, g, p) = RefCount(Selected(m, c), g, p)

-------------------------------------------------------------------------------
(* state machine *)
Init ==
  /\ nk \in Nat /\ vals = [k \in 1..nk |-> << >>] /\ vloc = [k \in 1..nk |-> << >>]
  /\ series = << >> /\ holders = [k \in 1..nk |-> {}] /\ msid = << >> /\ sloc = [st \in Stores |-> << >>]
  /\ dslot = << >> /\ dplace = << >>

\* DataFamily.WriteRows of a batch of NEW series: `newvals` = <<key, string>> pairs the batch uses for the first
\* time (dictionary entries are created once, C09), `batch` = the series.  Entries go to the mutable maps.
\* (\E x \in {e} binds x to the VALUE of e: TLC would otherwise evaluate a LET / argument expression at every use)
WriteBatch(newvals, batchArg, sids, slot) ==
  \E batch \in {batchArg} :
  \E addedOf \in {[k \in Keys |-> SelectSeq(newvals, LAMBDA nv : nv[1] = k)]} :
  \E added \in {[k \in Keys |-> [i \in 1..Len(addedOf[k]) |-> addedOf[k][i][2]]]} :    \* new strings of key k, in order
  \E nvals \in {[k \in Keys |-> vals[k] \o added[k]]} :
  /\ \A i \in 1..Len(newvals) : newvals[i][1] \in Keys /\ newvals[i][2] # << >>
  /\ \A k \in Keys : NoDup(added[k]) /\ ToSet(added[k]) \cap ToSet(vals[k]) = {}
  /\ \A i \in 1..Len(batch) :
       /\ Len(batch[i].tags) = nk
       /\ \A k \in Keys : batch[i].tags[k] \in 0..Len(nvals[k])
  /\ vals' = nvals
  /\ vloc' = [k \in Keys |-> vloc[k] \o [i \in 1..Len(added[k]) |-> Mut]]
  /\ series' = series \o batch /\ Len(sids) = Len(batch) /\ msid' = msid \o sids
  /\ holders' = [k \in Keys |-> holders[k] \cup {Len(series) + i : i \in {j \in 1..Len(batch) : batch[j].tags[k] # 0}}]
  /\ sloc' = [st \in Stores |-> sloc[st] \o [i \in 1..Len(batch) |-> Mut]]
  /\ dslot' = dslot \o [i \in 1..Len(batch) |-> slot] /\ dplace' = dplace \o [i \in 1..Len(batch) |-> Mut]
  /\ UNCHANGED nk
\* every existing series gets a point in `slot` (no new dictionary / index entries: the series exist)
Refresh(slot) == /\ dslot' = [s \in SeriesIds |-> slot] /\ dplace' = [s \in SeriesIds |-> Mut]
                 /\ UNCHANGED <<nk, vals, vloc, series, holders, msid, sloc>>

HasTags(s) == series[s].x = 1 \/ \E k \in Keys : series[s].tags[k] # 0
\* PrepareFlush of one store: the mutable map becomes the immutable one, unless a NON-EMPTY immutable map is still
\* waiting for its flush (an empty one is replaced)
Swap(loc) == [i \in 1..Len(loc) |-> IF loc[i] = Mut THEN Imm ELSE loc[i]]
\* dictionary: places are categories
Flushed(loc) == [i \in 1..Len(loc) |-> IF loc[i] = Imm THEN File ELSE loc[i]]
CompactedLoc(loc) == [i \in 1..Len(loc) |-> IF loc[i] = File THEN Compacted ELSE loc[i]]
AllFiles(loc) == [i \in 1..Len(loc) |-> IF loc[i] \in {Mut, Imm} THEN File ELSE loc[i]]
\* index stores: a flush writes ONE new file, a compaction merges all files of the store into one new file
MaxFile(loc) == LET F == {loc[i] : i \in 1..Len(loc)} \cup {0} IN CHOOSE x \in F : \A y \in F : y <= x
FlushedTo(loc, n) == [i \in 1..Len(loc) |-> IF loc[i] = Imm THEN n ELSE loc[i]]
\* files of a store that really hold entries (series without tags have no inverted / forward entries)
RealFiles(st) == {sloc[st][s] : s \in {t \in SeriesIds : sloc[st][t] > 0 /\ (st = "metric" \/ HasTags(t))}}
MergedTo(loc, n) == [i \in 1..Len(loc) |-> IF loc[i] > 0 THEN n ELSE loc[i]]
MetaImmBusy == \E k \in Keys : \E v \in 1..Len(vals[k]) : vloc[k][v] = Imm
IndexImmBusy(st) == \E s \in SeriesIds : sloc[st][s] = Imm /\ (st = "metric" \/ HasTags(s))

PrepMeta == /\ vloc' = IF MetaImmBusy THEN vloc ELSE [k \in Keys |-> Swap(vloc[k])]
            /\ UNCHANGED <<nk, vals, series, holders, msid, sloc, dslot, dplace>>
FlushMeta == vloc' = [k \in Keys |-> Flushed(vloc[k])] /\ UNCHANGED <<nk, vals, series, holders, msid, sloc, dslot, dplace>>
CompactMeta == vloc' = [k \in Keys |-> CompactedLoc(vloc[k])] /\ UNCHANGED <<nk, vals, series, holders, msid, sloc, dslot, dplace>>
PrepIdx == /\ sloc' = [st \in Stores |-> IF IndexImmBusy(st) THEN sloc[st] ELSE Swap(sloc[st])]
           /\ UNCHANGED <<nk, vals, vloc, series, holders, msid, dslot, dplace>>
\* (\E binds the new file numbers once, see WriteBatch)
FlushIdx == /\ \E nf \in {[st \in Stores |-> MaxFile(sloc[st]) + 1]} : sloc' = [st \in Stores |-> FlushedTo(sloc[st], nf[st])]
            /\ UNCHANGED <<nk, vals, vloc, series, holders, msid, dslot, dplace>>
\* a flush of the shard index that fails at one store (the table file of that store cannot be completed): the stores
\* flushed before it (`done`) have committed, the failing one and the ones after it keep their immutable generation --
\* nothing is lost, the next flush persists it
FlushIdxPartial(done) ==
  /\ \E nf \in {[st \in Stores |-> MaxFile(sloc[st]) + 1]} :
       sloc' = [st \in Stores |-> IF st \in done THEN FlushedTo(sloc[st], nf[st]) ELSE sloc[st]]
  /\ UNCHANGED <<nk, vals, vloc, series, holders, msid, dslot, dplace>>
\* ... of the tag value dictionary: the generation stays immutable
FlushMetaFailed == UNCHANGED <<nk, vals, vloc, series, holders, msid, sloc, dslot, dplace>>
CompactIdx == /\ \E nf \in {[st \in Stores |-> MaxFile(sloc[st]) + 1]} :
                 \E many \in {[st \in Stores |-> Cardinality(RealFiles(st)) >= 2]} :     \* Family.Compact: more than one file
                   sloc' = [st \in Stores |-> IF many[st] THEN MergedTo(sloc[st], nf[st]) ELSE sloc[st]]
              /\ UNCHANGED <<nk, vals, vloc, series, holders, msid, dslot, dplace>>
\* close (flushes what is pending, then one more flush cycle) and open again: everything is in files
Reopen == /\ vloc' = [k \in Keys |-> AllFiles(vloc[k])]
          /\ \E nf \in {[st \in Stores |-> MaxFile(sloc[st]) + 1]} :    \* flush of the pending generation, then a full cycle
               sloc' = [st \in Stores |-> FlushedTo(Swap(FlushedTo(sloc[st], nf[st])), nf[st] + 1)]
          /\ dplace' = [s \in SeriesIds |-> File]     \* Close flushes the memory database of the family
          /\ UNCHANGED <<nk, vals, series, holders, msid, dslot>>

TypeOK ==
  /\ \A k \in Keys : Len(vloc[k]) = Len(vals[k]) /\ NoDup(vals[k]) /\ \A v \in 1..Len(vals[k]) : vloc[k][v] \in Places
  /\ Len(dslot) = Len(series) /\ Len(dplace) = Len(series)
  /\ Len(msid) = Len(series)
  /\ \A k \in Keys : holders[k] \subseteq SeriesIds /\ \A s \in holders[k] : series[s].tags[k] # 0
  /\ \A st \in Stores : Len(sloc[st]) = Len(series) /\ \A s \in SeriesIds : sloc[st][s] \in Int /\ sloc[st][s] >= Imm
\* the ids inside a metric are 0, 1, 2.. (dense)
SidOK == \A m \in {series[s].m : s \in SeriesIds} :
           {msid[s] : s \in OfMetricD(m)} = 0..(Cardinality(OfMetricD(m)) - 1)
=============================================================================
