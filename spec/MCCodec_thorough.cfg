CONSTANTS
  W = 2
  B = 4
  Vals = {0, 1, 2, 3}
  Starts = {0, 5}
  MCMaxSlot = 7
  MaxSlots = 3
  MaxBlocks = 2
  MaxLoads = 2
  MaxProbes = 2
  Dev = {}
  K = 3
  DbpLen = 3
  MaxSlot <- MCMaxSlot
SPECIFICATION MCSpec
VIEW View
INVARIANTS NoDivergence SlotReadsAgree CursorInRange
CHECK_DEADLOCK FALSE
