CONSTANTS
  Node = {1, 2}
  Db = {"d1", "d2"}
  Broker = {1}
  MaxShards = 2
  RenotifyOnDb = FALSE
  GrowRouting = TRUE
  DropChannel = TRUE
  MaxPub = 2
  MaxDbEv = 3
  MaxNodeEv = 1
SPECIFICATION MCSpec
INVARIANTS Writable
CHECK_DEADLOCK FALSE
