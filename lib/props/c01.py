"""C01 -- KV store: a committed flush is atomic and durable across a crash (module KVStore)."""
import json
import os

import vcore


def describe(sig, lines, rel, info):
    try:
        mode = json.loads(lines[0]).get("mode", "?")
    except ValueError:
        mode = "?"
    return "%s:%s" % (sig, mode)


def run_kv(ctx, args, label):
    tr = os.path.join(ctx.scratch, "kv-%s.ndjson" % label)
    scr = os.path.join(ctx.scratch, "scr-%s" % label)
    os.makedirs(scr, exist_ok=True)
    summ, rc, _ = ctx.run_vdrive(["kv", "--seed", ctx.seed, "--out", tr, "--scratch", scr] + args, timeout=1500)
    for s in summ["samples"][:2]:
        ctx.sample({"history_prefix": s})
    for u in summ["unresolved"]:
        raise vcore.Unresolved("kv driver: %s" % u)
    ctx.extra["crash_images"] = ctx.extra.get("crash_images", 0) + summ["extra"].get("images", 0)
    ctx.extra["fs_operations"] = ctx.extra.get("fs_operations", 0) + summ["extra"].get("fsops", 0)
    ctx.extra["events"] = ctx.extra.get("events", 0) + summ["events"]
    vcore.validate_all(ctx, "KVStoreTrace", "KVStoreTrace.cfg", tr, describe=describe, dfs=False)
    return tr


def run(ctx, replay):
    if replay:
        ok, info = ctx.validate_trace("KVStoreTrace", "KVStoreTrace.cfg", replay, dfs=False)
        if not ok:
            ctx.violation("KVStore:replay", "replayed trace rejected: %s" % info, replay_src=replay)
        return
    thorough = ctx.tier == "thorough"
    ctx.model_check("MCKVStore", "MCKVStore_thorough.cfg" if thorough else "MCKVStore.cfg", timeout=3000)
    # sensitivity of the model to the mechanisms the property relies on
    for sw in ("SwitchCurrentEarly", "NoNextFileNumberLog", "StoreSnapshotLogsManifest"):
        ctx.model_check("MCKVStore", "MCKVStore_dev_%s.cfg" % sw, expect="violation", timeout=900)
    if thorough:
        tr = run_kv(ctx, ["--histories", 120, "--ops", 30, "--images", 60, "--double", 80], "a")
    else:
        tr = run_kv(ctx, ["--histories", 16, "--ops", 24, "--images", 6, "--double", 6], "a")

    # a committed flush must also survive the background jobs that run beside it (compaction, obsolete-file cleanup):
    # the gated concurrent histories of the C02 driver, judged by the same specification
    trc = os.path.join(ctx.scratch, "kvc.ndjson")
    scrc = os.path.join(ctx.scratch, "scr-kvc")
    os.makedirs(scrc, exist_ok=True)
    summ, rc, _ = ctx.run_vdrive(["kvc", "--seed", ctx.seed, "--histories", 200 if thorough else 25, "--out", trc, "--scratch", scrc], timeout=3000)
    for u in summ["unresolved"]:
        raise vcore.Unresolved("kvc driver: %s" % u)
    ctx.extra["concurrent_schedules"] = summ["extra"]["schedules"]
    vcore.validate_all(ctx, "KVStoreTrace", "KVStoreTrace.cfg", trc, describe=describe, dfs=False)

    def drop_close(lines):
        # a table referenced by a commit that was never closed
        for i, ln in enumerate(lines):
            if '"ev":"TableClose"' in ln:
                return lines[:i] + lines[i + 1:]
        return None

    def wrong_recovered(lines):
        seen_crash = False
        for i, ln in enumerate(lines):
            if '"ev":"Crash"' in ln:
                seen_crash = True
            if seen_crash and '"ev":"OpenEnd"' in ln and '"files":[[' in ln:
                d = json.loads(ln)
                for e in d["proj"]["fams"]:
                    if e["files"]:
                        e["files"] = e["files"][1:]
                        out = list(lines)
                        out[i] = json.dumps(d, separators=(",", ":")) + "\n"
                        return out
        return None
    vcore.corrupt_selftest(ctx, "KVStoreTrace", "KVStoreTrace.cfg", tr, drop_close, "a TableClose event dropped")
    vcore.corrupt_selftest(ctx, "KVStoreTrace", "KVStoreTrace.cfg", tr, wrong_recovered, "a recovered version lacks a committed file")
    ctx.assumptions += [
        "process death = every completed file-system operation survives, user-space buffers are lost (no power loss, no torn write inside one write())",
        "crash images are taken in the sequential histories (one writer at a time); the concurrent histories (flush beside compaction and cleanup, gated) are judged without crash points; snapshot stability under concurrency is C02",
        "manifest records are smaller than the 256KB write buffer, so a record is appended entirely or not at all by Write+Sync",
    ]
