--------------------------- MODULE ReplicationInd ---------------------------
(***************************************************************************)
(* Safety of the replication protocol WITHOUT leader tail loss (the faults *)
(* C08 quantifies over minus the two known findings) for ANY number of     *)
(* steps and faults and any payload ids, on logs of up to MaxPos + 1       *)
(* positions: an inductive invariant IndInv, discharged by Apalache        *)
(*   Init => IndInv                        (--init=Init    --inv=IndInv --length=0) *)
(*   IndInv /\ Next => IndInv'             (--init=IndInit --inv=IndInv --length=1) *)
(*   IndInv => the four safety properties  (--init=IndInit --inv=Safety --length=0) *)
(* where TLC explores 4 messages and 3 faults.  Replication.tla is the     *)
(* module the real replicator is validated against (ReplicationTrace).     *)
(* (Apalache only: Gen produces an arbitrary value of bounded size.)       *)
(***************************************************************************)
EXTENDS Replication, Apalache

MaxPos == 7
Pos == 0..MaxPos

\* every step of the protocol and every fault except LeaderLoseTail
Next ==
  \/ lA < MaxPos /\ \E id \in Int : LeaderAppend(id)
  \/ \E f \in {"none", "ack", "reset", "connect"} : HandshakeStep(f)
  \/ \E f \in {"none", "send", "recv", "fput"} : Step(f)
  \/ FollowerRestart \/ FollowerLoseLog \/ LeaderRestart
  \/ \E k \in 1..3 : LeaderLoseGroup(k)
  \/ LeaderGC

N1 == lA < MaxPos /\ \E id \in Int : LeaderAppend(id)
N2 == \E f \in {"none", "ack", "reset", "connect"} : HandshakeStep(f)
N3 == \E f \in {"none", "send", "recv", "fput"} : Step(f)
N4 == FollowerRestart \/ FollowerLoseLog \/ LeaderRestart
N5 == \E k \in 1..3 : LeaderLoseGroup(k)
N6 == LeaderGC

IndInv ==
  /\ st \in {"init", "ready", "fail"}
  /\ stream \in {"none", "open", "broken"}
  /\ aligned
  /\ -1 <= lQ /\ lQ <= gack /\ gack <= cons /\ cons <= lA /\ lA <= MaxPos
  /\ DOMAIN lLog = {i \in Pos : i <= lA}
  /\ DOMAIN fLog \subseteq Pos
  /\ -1 <= fQ /\ fQ <= fA /\ fA <= lA
  \* the follower's readable range has no holes and carries the leader's bytes
  /\ \A i \in Pos : (fQ < i /\ i <= fA) => (i \in DOMAIN fLog /\ fLog[i] = lLog[i])
  \* a healthy channel has sent exactly what the follower holds
  /\ (st = "ready" /\ stream = "open") => fA = cons
  /\ (stream = "open") => st = "ready"

\* an arbitrary state that satisfies IndInv
IndInit ==
  /\ lLog = Gen(8) /\ fLog = Gen(8)
  /\ lA = Gen(1) /\ lQ = Gen(1) /\ cons = Gen(1) /\ gack = Gen(1) /\ fA = Gen(1) /\ fQ = Gen(1)
  /\ st \in {"init", "ready", "fail"} /\ stream \in {"none", "open", "broken"} /\ aligned \in BOOLEAN
  /\ IndInv

\* the four state invariants of Replication.tla, with constant quantifier ranges
PositionalEqualityB ==
  \A i \in Pos : (i \in DOMAIN lLog /\ i \in DOMAIN fLog /\ i > lQ /\ i <= lA /\ i > fQ /\ i <= fA) => lLog[i] = fLog[i]
NoHolesB == \A i \in Pos : (fQ < i /\ i <= fA) => i \in DOMAIN fLog
NoSilentSkipB == (st = "ready" /\ stream = "open") => \A i \in Pos : (lQ < i /\ i <= lA /\ i > fA /\ i > fQ) => i > cons
Safety == PositionalEqualityB /\ NoHolesB /\ AckImpliesAppended /\ NoSilentSkipB

\* non-vacuity of the three obligations: IndInit has models in which the channel is healthy and the logs are non-empty
\* (this "invariant" MUST be reported violated)
NotVacuous == ~(st = "ready" /\ stream = "open" /\ fA >= 2 /\ lA > fA /\ gack < cons)
\* constant initialisation for Apalache
CInit == FixLostTail = FALSE /\ MismatchResync = TRUE
\* the code before the repair 00fe1c5: the inductive step MUST fail
CInitNoResync == FixLostTail = FALSE /\ MismatchResync = FALSE
=============================================================================
