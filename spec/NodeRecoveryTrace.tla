-------------------------- MODULE NodeRecoveryTrace --------------------------
(* Trace validation of a real in-process storage node (tsdb engine + real WAL  *)
(* partition with its local replicator), stepped by the harness `vdrive node`, *)
(* with directory images taken after every step and between the data commit    *)
(* and the log acknowledgement; each image is recovered by the real code,       *)
(* replayed, flushed and read back.                                             *)
EXTENDS NodeRecovery, Json

Trace == ndJsonDeserialize("trace.ndjson")
VARIABLE l
tvars == <<vars, l>>
ASSUME TLCSet(1, 0)
Ev(e) == l <= Len(Trace) /\ Trace[l].ev = e /\ l' = l + 1
Line == Trace[l]

TraceInit == l = 1 /\ Init
TReset ==
  /\ Ev("Reset")
  /\ wal' = << >> /\ gAck' = -1 /\ qAck' = -1 /\ dDict' = Empty /\ dCounter' = 0 /\ dFiles' = {} /\ dSeq' = -1
  /\ up' = TRUE /\ gCons' = -1 /\ fSeq' = -1
  /\ mDict' = Empty /\ mCounter' = 0 /\ mem' = {} /\ imm' = {} /\ immSeq' = -1 /\ gen' = 0 /\ ifl' = NoIfl /\ pendAck' = FALSE

TAppend == Ev("Append") /\ AppendEntry(Line.name)
TReplicaStep == Ev("ReplicaStep") /\ ReplicaStep
TRBegin == Ev("RBegin") /\ RBegin
TRWrite == Ev("RWrite") /\ RWrite
TRCommit == Ev("RCommit") /\ RCommit
TMetaFlush == Ev("MetaFlush") /\ MetaFlush
TFamilyCommit == Ev("FamilyCommit") /\ FamilyFreezeAndCommit
TFamilyAck == Ev("FamilyAck") /\ FamilyAck
TCrash == Ev("Crash") /\ Crash
TRecover == Ev("Recover") /\ Recover
TLogRollback == Ev("LogRollback") /\ LogRollback(Line.gcons, Line.gack)
\* steps without an effect on the modelled state
TSyncGC == Ev("SyncGC") /\ SyncGC
TStutter == (Ev("IndexFlush") \/ Ev("Note")) /\ UNCHANGED vars

TProj ==
  /\ Ev("Proj")
  /\ Line.app = Len(wal) - 1
  /\ Line.gack = gAck /\ Line.gcons = gCons /\ Line.qack = qAck
  /\ Line.fseq = fSeq /\ Line.dseq = dSeq
  /\ DOMAIN Line.dict = DOMAIN AllDict
  /\ \A n \in DOMAIN AllDict : Line.dict[n] = AllDict[n]
  /\ UNCHANGED vars

\* read-back of every entry: [seq, resolved (0/1), how often its point is in the data files]
TFinal ==
  /\ Ev("Final")
  /\ Len(Line.entries) = Len(wal)
  /\ \A i \in 1..Len(Line.entries) :
       LET e == Line.entries[i]  s == e[1]  n == wal[s + 1] IN
       /\ e[2] = (IF n \in DOMAIN AllDict THEN 1 ELSE 0)
       /\ e[3] = (IF n \in DOMAIN AllDict
                    THEN Cardinality({b \in dFiles : b.seq = s /\ b.id = AllDict[n]}) ELSE 0)
  /\ UNCHANGED vars

TraceNext == TReset \/ TAppend \/ TReplicaStep \/ TRBegin \/ TRWrite \/ TRCommit \/ TMetaFlush \/ TFamilyCommit \/ TFamilyAck \/ TCrash \/ TRecover \/ TLogRollback
             \/ TSyncGC \/ TStutter \/ TProj \/ TFinal
TraceSpec == TraceInit /\ [][TraceNext]_tvars
HighWater == TLCSet(1, IF l > TLCGet(1) THEN l ELSE TLCGet(1))
TraceAccepted ==
  LET hw == TLCGet(1) IN
  IF hw = Len(Trace) + 1 THEN TRUE
  ELSE /\ PrintT(<<"TRACE-REJECTED-AT-LINE", hw>>)
       /\ FALSE
=============================================================================
