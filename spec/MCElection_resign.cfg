CONSTANTS
  Node = {n1, n2}
  None = None
  FailOverMayFail = FALSE
  MaxExpire = 1
  MaxFail = 0
SPECIFICATION MCSpec
CONSTRAINT Bounded
PROPERTIES ResignDeletesOnlyOwnKey
CHECK_DEADLOCK FALSE
