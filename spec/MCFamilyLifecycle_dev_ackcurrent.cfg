\* deviation: callbacks get the current sequence instead of the frozen one -- must violate AckedRowsDurable
CONSTANTS
  Leader = {1}
  MaxRow = 2
  MaxObj = 2
  MaxDb = 3
  MaxFail = 1
  MaxRef = 1
  DoubleWindow = FALSE
  CloseLocksFirst = FALSE
  RetryFailed = TRUE
  ClosedRejects = TRUE
  AtomicWrite = TRUE
  RegisterAtGet = TRUE
  AtomicEvict = TRUE
  UniqueStamp = TRUE
  EvictChecksRef = TRUE
  EvictChecksMem = TRUE
  CloseFlushes = TRUE
  AckFrozen = FALSE
SPECIFICATION MCSpec
INVARIANTS AckedRowsDurable
CHECK_DEADLOCK FALSE
