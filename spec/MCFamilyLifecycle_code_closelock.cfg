\* the code BEFORE the repair of dataFamily.Close (fixed: XFAMILY-F2): Close waits for the running flush while holding the family mutex -- must violate NoStuck
CONSTANTS
  Leader = {1}
  MaxRow = 2
  MaxObj = 2
  MaxDb = 3
  MaxFail = 1
  MaxRef = 1
  DoubleWindow = FALSE
  CloseLocksFirst = TRUE
  RetryFailed = TRUE
  ClosedRejects = TRUE
  AtomicWrite = TRUE
  RegisterAtGet = TRUE
  AtomicEvict = TRUE
  UniqueStamp = TRUE
  EvictChecksRef = TRUE
  EvictChecksMem = TRUE
  CloseFlushes = TRUE
  AckFrozen = TRUE
SPECIFICATION MCSpec
INVARIANTS NoStuck
CHECK_DEADLOCK FALSE
