"""C20 -- the on-disk string dictionary behaves like a sorted map (module SortedDict)."""
import json
import os

import vcore

TRACE = "SortedDictTrace"
CFG = "SortedDictTrace.cfg"
STRICT = "SortedDictTrace_strict.cfg"


def mode_of(lines):
    try:
        return json.loads(lines[0]).get("mode", "?")
    except (ValueError, IndexError):
        return "?"


def make_describe(strict=False):
    def describe(sig, lines, rel, info):
        try:
            ev = json.loads(lines[min(rel, len(lines)) - 1])
        except ValueError:
            ev = {}
        extra = ""
        if ev.get("ev") == "Regex":
            extra = ":anchored" if ev.get("anch") else ":unanchored"
        elif ev.get("ev") == "Panic":
            keys = ev.get("keys")
            shape = "onlyemptykey" if keys == [[]] else "nokeys" if keys == [] else "other"
            extra = ":%s:%s" % (ev.get("op"), shape)
        elif ev.get("ev") == "Seek" and strict:
            # the same sub-trace was accepted with Deviation_SeekExactOnlyWhenProbeIsPrefix = TRUE just before,
            # so the strict rejection can only be that named deviation
            extra = ":strict:only-named-deviation"
        return "%s%s:mode=%s" % (sig, extra, mode_of(lines))
    return describe


def pick_subtraces(path, per_mode):
    """First `per_mode` sub-traces of every mode, plus the first with a Suggest event (coverage / self-test runs)."""
    seen = {}
    out = []
    for t in vcore.split_traces(vcore.read_lines(path)):
        m = mode_of(t)
        if seen.get(m, 0) < per_mode:
            seen[m] = seen.get(m, 0) + 1
            out.append(t)
        elif seen.get("+suggest", 0) < 1 and any('"ev":"Suggest"' in ln for ln in t):
            seen["+suggest"] = 1
            out.append(t)
    return out


def mutate_event(evname, fn):
    def mutate(lines):
        for i, ln in enumerate(lines):
            if ('"ev":"%s"' % evname) in ln:
                d = json.loads(ln)
                if fn(d):
                    out = list(lines)
                    out[i] = json.dumps(d, separators=(",", ":")) + "\n"
                    return out
        return None
    return mutate


def m_get_value(d):
    for i, f in enumerate(d["found"]):
        if f == 1:
            d["vals"][i] += 1
            return True
    return False


def m_get_absent(d):
    for i, f in enumerate(d["found"]):
        if f == 0:
            d["found"][i] = 1
            return True
    return False


def m_prefix_drop(d):
    for i, ks in enumerate(d["keys"]):
        if len(ks) >= 2:
            ks.pop()
            d["vals"][i].pop()
            return True
    return False


def m_iter_swap(d):
    if len(d["keys"]) >= 2:
        d["keys"][0], d["keys"][1] = d["keys"][1], d["keys"][0]
        d["vals"][0], d["vals"][1] = d["vals"][1], d["vals"][0]
        return True
    return False


def m_like_extra(d):
    d["ids"].append(2000000000)
    return True


def m_regex_drop(d):
    if d["ids"]:
        d["ids"].pop()
        return True
    return False


def m_merge_drop(d):
    if len(d["from"]) >= 2:
        d["from"].pop()
        return True
    return False


def m_seek_shift(d):
    # a probe that is a present key must land on itself: report another landing
    for i, p in enumerate(d["ps"]):
        if d["valid"][i] == 1 and d["keys"][i] == p:
            d["keys"][i] = p + [1]
            return True
    return False


def run(ctx, replay):
    if replay:
        ok, info = ctx.validate_trace(TRACE, CFG, replay, dfs=False)
        if not ok:
            ctx.violation("SortedDict:replay", "replayed trace rejected: %s" % info, replay_src=replay)
        return
    thorough = ctx.tier == "thorough"
    # ---- leg M: the algebra of the reference on every small key set x every probe
    ctx.model_check("MCSortedDict", "MCSortedDict_thorough.cfg" if thorough else "MCSortedDict.cfg", timeout=1500)
    ctx.model_check("MCSortedDict", "MCSortedDict_ideal.cfg", timeout=600)
    # sensitivity of the model + re-confirmation of the recorded findings in the model:
    # with the named deviation the stated seek property is false; a literal-prefix scan of an unanchored pattern loses matches
    ctx.model_check("MCSortedDict", "MCSortedDict_dev_seek.cfg", expect="violation", timeout=600)
    ctx.model_check("MCSortedDict", "MCSortedDict_dev_regex.cfg", expect="violation", timeout=600)

    # ---- leg T: the real trie / bucket / flusher / reader / merger answer, TLC judges
    tr = os.path.join(ctx.scratch, "dict.ndjson")
    trs = os.path.join(ctx.scratch, "dict-seek.ndjson")
    trf = os.path.join(ctx.scratch, "dict-findings.ndjson")
    scr = os.path.join(ctx.scratch, "scr-dict")
    os.makedirs(scr, exist_ok=True)
    if thorough:
        args = ["--small-len", 3, "--small-keys", 3, "--small-triples", 3, "--rand", 800, "--rand-n", 80,
                "--big", 4, "--big-n", 4000, "--wide", 6, "--kv", 60, "--seek", 10, "--findings", 4]
    else:
        args = ["--small-len", 3, "--small-keys", 2, "--small-triples", 2, "--rand", 120, "--rand-n", 60,
                "--big", 1, "--big-n", 1500, "--wide", 1, "--kv", 10, "--seek", 3, "--findings", 3]
    summ, rc, _ = ctx.run_vdrive(["dict", "--seed", ctx.seed, "--out", tr, "--out-seek", trs, "--out-findings", trf,
                                  "--scratch", scr] + args, timeout=1200)
    for u in summ["unresolved"]:
        raise vcore.Unresolved("dict driver: %s" % u)
    ctx.extra["events"] = summ["events"]
    ctx.extra["event_counts"] = summ["extra"].get("event_counts")
    ctx.extra["trace_files"] = summ["extra"].get("files")
    ctx.extra["small_sets"] = {k: v for k, v in summ["extra"].items() if k.startswith("small_sets")}
    for t in pick_subtraces(tr, 1)[:4]:
        ctx.sample({"mode": mode_of(t), "events": len(t), "first": [json.loads(x) for x in t[1:3]][0:1]})

    # (1) everything in the main trace must be accepted (Seek under the named deviation)
    vcore.validate_all(ctx, TRACE, CFG, tr, describe=make_describe(), dfs=False, timeout=1500)
    # (2) raw Seek: accepted with the named deviation ...
    n_seek = len(vcore.split_traces(vcore.read_lines(trs)))
    ok_seek = vcore.validate_all(ctx, TRACE, CFG, trs, describe=make_describe(), dfs=False)
    # ... and judged strictly (seek = least key >= probe): every rejection is the recorded finding
    if ok_seek == n_seek:
        before = ctx.traces
        vcore.validate_all(ctx, TRACE, STRICT, trs, describe=make_describe(strict=True), dfs=False, max_rejections=n_seek + 1)
        ctx.traces = before  # the same sub-traces, not counted twice
    # (3) the sub-traces that exercise the recorded findings (Suggest, unanchored regexp, unbuildable sets)
    n_find = len(vcore.split_traces(vcore.read_lines(trf)))
    vcore.validate_all(ctx, TRACE, CFG, trf, describe=make_describe(), dfs=False, max_rejections=n_find + 1)

    # ---- binding self-tests: every trace action taken; corrupted answers are rejected
    clean = os.path.join(ctx.scratch, "dict-clean.ndjson")
    with open(clean, "w") as f:
        for t in pick_subtraces(tr, 2) + pick_subtraces(trs, 1):
            f.write("".join(t))
    res = ctx.tlc(TRACE, CFG, workers=1, files={"trace.ndjson": clean}, coverage=True, count=False)
    if res.kind != "ok":
        raise vcore.Unresolved("coverage run of the trace spec did not accept an accepted trace (%s)" % res.kind)
    taken = {k.split("@")[0]: v for k, v in res.coverage.items() if k.startswith("T") and "@SortedDictTrace" in k}
    ctx.extra["trace_action_coverage"] = taken
    missing = [a for a in ("TReset", "TBuild", "TLoad", "TMerge", "TSize", "TGet", "TPrefix", "TIter", "TIterBack", "TSeek",
                           "TValues", "TCollect", "TLike", "TRegex", "TSuggest") if not taken.get(a)]
    if missing:
        raise vcore.Unresolved("vacuous: trace actions never taken: %s" % missing)
    ctx.legs.append({"leg": "T-coverage", "module": TRACE, "taken": taken})
    tests = [("Get", m_get_value, "a present key answers with another id"),
             ("Get", m_get_absent, "an absent key reported present"),
             ("Prefix", m_prefix_drop, "a prefix enumeration loses its last key"),
             ("Iter", m_iter_swap, "ordered iteration swaps two keys"),
             ("Like", m_like_extra, "a like result holds an id nobody has"),
             ("Merge", m_merge_drop, "a merged bucket is judged against one part less")]
    if thorough:
        tests += [("Regex", m_regex_drop, "a regexp result loses an id"),
                  ("Seek", m_seek_shift, "seek of a present key lands elsewhere")]
    for ev, fn, what in tests:
        vcore.corrupt_selftest(ctx, TRACE, CFG, clean, mutate_event(ev, fn), what)
    ctx.assumptions += [
        "keys are byte strings of <= 40 bytes over six alphabets (0x00/0xFF, ASCII, multi-byte UTF-8); ids are distinct and < 2^31 (TLC integers); keys of the parts of one bucket are pairwise distinct (a name is created once, C09)",
        "regular expressions are drawn from a structured class (alternations of literals with prefix / suffix / contains / exact anchoring, rendered for Go's regexp); like patterns are the three shapes index/kv_store.go derives (lit*, *lit, *lit*)",
        "raw Iterator.Seek is judged under the named deviation Deviation_SeekExactOnlyWhenProbeIsPrefix in the main trace and strictly in the seek trace (recorded finding)",
        "small-case enumeration (every key set of <= 2 (quick) / <= 3 (thorough) keys of <= 3 symbols, every probe) is generated by the driver, not parsed from TLC output; TLC enumerates the same universe in leg M and judges the driver's cases in leg T",
    ]
