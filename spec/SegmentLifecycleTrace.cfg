\* the code as it is (since the repair: a closed segment object refuses; a closed family object still accepts rows): the properties that hold for the code
CONSTANTS
  Writer = {w1, w2}
  MaxObj = 30
  MaxFam = 40
  MaxRow = 80
  ClosedSegmentRejects = TRUE
  ClosedFamilyRejects = FALSE
SPECIFICATION TraceSpec
INVARIANTS TypeOK OneOpenStore MapIsOpen NoOrphanFamily
CONSTRAINT HighWater
POSTCONDITION TraceAccepted
CHECK_DEADLOCK FALSE
