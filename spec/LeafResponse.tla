---------------------------- MODULE LeafResponse ----------------------------
(***************************************************************************)
(* The answer of a leaf to one request (query/context/leaf_execute_context *)
(* .go SendResponse, query/leaf_processor.go) -- the last sentence of      *)
(* property C19: "each request produces one response, never none and never *)
(* two, and a failure is not silently turned into a successful answer".    *)
(* The pipeline (module Pipeline) signals completion with or without an    *)
(* error; the leaf then (a) answers with the error, or (b) waits for the   *)
(* collection of the grouping tag values -- which fails when the request   *)
(* context ends first -- and answers with that error, or (c) builds the    *)
(* result set and answers with it.  Every receiver gets the same kind of   *)
(* answer.  SendResponse may be called more than once (completion callback,*)
(* timeout path): only the first call answers.                             *)
(***************************************************************************)
EXTENDS Integers, Sequences, FiniteSets, TLC

CONSTANTS Receiver,
          FallThrough     \* after answering with the wait error the leaf goes on and sends the result set too (seeded change C19c)

VARIABLES
  pipeErr,    \* "none": the pipeline has not completed; "ok" / "err": how it completed
  grouping,   \* the statement has grouping tag value ids to collect
  cancelled,  \* the request context ended before the collection completed
  answered,   \* the completed flag of the context
  sent        \* [Receiver -> Seq({"result", "error"})]: what each receiver got, in order

vars == <<pipeErr, grouping, cancelled, answered, sent>>

Init ==
  /\ pipeErr = "none" /\ grouping \in BOOLEAN /\ cancelled \in BOOLEAN
  /\ answered = FALSE /\ sent = [r \in Receiver |-> << >>]

Complete(e) == pipeErr = "none" /\ pipeErr' = e /\ UNCHANGED <<grouping, cancelled, answered, sent>>

SendAll(kinds) == sent' = [r \in Receiver |-> sent[r] \o kinds]

\* SendResponse(err): the call made by the completion callback (err = the pipeline's error) or by anybody else later
SendResponse(e) ==
  /\ pipeErr # "none" /\ e \in {"ok", "err"}
  /\ IF answered THEN UNCHANGED <<sent, answered>>
     ELSE /\ answered' = TRUE
          /\ IF e = "err" THEN SendAll(<<"error">>)
             ELSE IF grouping /\ cancelled
                    THEN IF FallThrough THEN SendAll(<<"error", "result">>) ELSE SendAll(<<"error">>)
                    ELSE SendAll(<<"result">>)
  /\ UNCHANGED <<pipeErr, grouping, cancelled>>

Next == (\E e \in {"ok", "err"} : Complete(e)) \/ (\E e \in {"ok", "err"} : SendResponse(e))
Spec == Init /\ [][Next]_vars

\* ------------------------------------------------------------------ properties (C19, response level)
AtMostOne == \A r \in Receiver : Len(sent[r]) <= 1
ExactlyOneAfterAnswer == answered => \A r \in Receiver : Len(sent[r]) = 1
\* a failed pipeline, or a failed wait, is never answered with a result
FailureIsReported ==
  answered => \A r \in Receiver : \A i \in 1..Len(sent[r]) :
      (sent[r][i] = "result") => (grouping /\ cancelled) = FALSE
=============================================================================
