\* code: a failed flush is never retried -- must violate NoIgnoredFlush
CONSTANTS
  Leader = {1}
  MaxRow = 2
  MaxObj = 2
  MaxDb = 3
  MaxFail = 1
  MaxRef = 1
  DoubleWindow = FALSE
  CloseLocksFirst = FALSE
  RetryFailed = FALSE
  ClosedRejects = TRUE
  AtomicWrite = TRUE
  RegisterAtGet = TRUE
  AtomicEvict = TRUE
  UniqueStamp = TRUE
  EvictChecksRef = TRUE
  EvictChecksMem = TRUE
  CloseFlushes = TRUE
  AckFrozen = TRUE
SPECIFICATION MCSpec
INVARIANTS NoIgnoredFlush
CHECK_DEADLOCK FALSE
