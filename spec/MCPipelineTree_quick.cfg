CONSTANTS
  MCPlansFan <- MCPlansFanQuick
  SuccessOnlyAtEnd = TRUE
  RegisterAtomic = TRUE
  KeepFirstError = TRUE
  RecoverPerStage = TRUE
  FirstErrorWins = TRUE
  ErrReadAtCompletion = TRUE
SPECIFICATION MCSpec
INVARIANTS AtMostOnce OnlyAfterAll OnlyAfterAllStrong ErrorReported ExactlyOnceAtEnd PendingSane PreOrderOK NoOpAfterFailure FailureIsOutcome WalkComplete
PROPERTY Terminates
CHECK_DEADLOCK FALSE
