CONSTANTS
  DevLookup = FALSE
  FirstDay = 0
  FirstCivil <- Epoch
  LastDay = 0
  Groups <- MCGroups
  InstantsOf <- MCInstantsOf
  Intervals <- MCIntervals
  PlanInputsOf <- MCPlanInputsOf
  ShardInterval <- MCShardInterval
  ShardInstants <- MCShardInstants
  MCHours = {0,1,2,3,4,5,6,7,8,9,10,11,12,13,14,15,16,17,18,19,20,21,22,23}
  MCPool = {1, 7, 10, 30, 299, 300, 420, 1800, 3600, 18000, 43200, 86400, 2592000}
SPECIFICATION Spec
INVARIANTS CalendarClosedForms Bucketing Planner PlannerSlots LookupMatchesOverlap
CHECK_DEADLOCK FALSE
