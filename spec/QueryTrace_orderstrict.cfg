CONSTANTS
  DevPartial = TRUE
  DevOrder = FALSE
  DevMulti = TRUE
  DevCompute = TRUE
  DevEmptySeries = TRUE
  DevHide = FALSE
  DevWindow = FALSE
  DevLikeStar = FALSE
  DevSwallow = FALSE
SPECIFICATION TraceSpec
CONSTRAINT HighWater
POSTCONDITION TraceAccepted
CHECK_DEADLOCK FALSE
