-------------------------------- MODULE Ingest --------------------------------
(* Reference semantics of ingestion (C16): what an accepted metric looks like    *)
(* after conversion (canonical form), which metrics are rejected, and how a      *)
(* batch is routed to (shard, family) groups under a write window.               *)
(*                                                                                *)
(* Strings are sequences of byte values.  An instant is a pair <<day, ms>>: days  *)
(* since 1970-01-01 (UTC) and milliseconds of that day (TLC integers are 32 bit). *)
(* A duration is a pair <<days, ms>> as well.  Hashes are uninterpreted: the      *)
(* specification only requires that the tags hash is an injective FUNCTION of the *)
(* canonical tag list, the name hash a function of namespace ++ name, and the     *)
(* shard a function of (tags hash, number of shards) below the number of shards.  *)
(* The functions are learned from the observed rows (sets of pairs in the state). *)
EXTENDS Integers, Sequences, FiniteSets, TLC

CONSTANT
  \* BrokerBatchRows is pooled and IsOutOfTimeRange is never cleared when a slot is reused (row_broker.go):
  \* TRUE = model that (leg M shows that the property then fails); the trace specification always uses FALSE.
  Deviation_StaleEvictFlag,
  \* The flat decoder asks the row for its namespace through readOnlyRow.NameSpace(), which answers "default-ns" for an
  \* empty namespace, so `if len(ns) == 0 { ns = request namespace }` never fires (row_flat_decoder.go rebuild):
  \* a flat row without namespace is stored under "default-ns" whatever namespace the request names.  TRUE = accept that.
  Deviation_FlatIgnoresRequestNamespace

-------------------------------------------------------------------------------
(* byte strings *)
MinI(a, b) == IF a < b THEN a ELSE b
ToSet(s) == {s[i] : i \in 1..Len(s)}
NoDup(s) == Cardinality(ToSet(s)) = Len(s)
IsPrefix(p, k) == Len(p) <= Len(k) /\ \A i \in 1..Len(p) : k[i] = p[i]
IsSuffix(s, k) == Len(s) <= Len(k) /\ \A i \in 1..Len(s) : k[Len(k) - Len(s) + i] = s[i]
Lt(a, b) ==
  LET n == MinI(Len(a), Len(b)) IN
  \E i \in 1..(n + 1) :
     /\ \A j \in 1..(i - 1) : a[j] = b[j]
     /\ IF i = n + 1 THEN Len(a) < Len(b) ELSE a[i] < b[i]
\* '|' (124) is replaced by '_' (95) in metric names and namespaces
Sanitize(s) == [i \in 1..Len(s) |-> IF s[i] = 124 THEN 95 ELSE s[i]]
\* field names: "Histogram..." gets a leading '_', "__bucket_..." loses its first '_'
StrHistogram == <<72, 105, 115, 116, 111, 103, 114, 97, 109>>
StrBucket == <<95, 95, 98, 117, 99, 107, 101, 116, 95>>
SanitizeField(s) == IF IsPrefix(StrHistogram, s) THEN <<95>> \o s
                    ELSE IF IsPrefix(StrBucket, s) THEN SubSeq(s, 2, Len(s)) ELSE s
StrSum == <<115, 117, 109>>
StrLast == <<108, 97, 115, 116>>
StrFirst == <<102, 105, 114, 115, 116>>

-------------------------------------------------------------------------------
(* time axis *)
DayMs == 86400000
HourMs == 3600000
TLt(a, b) == a[1] < b[1] \/ (a[1] = b[1] /\ a[2] < b[2])
TLe(a, b) == a = b \/ TLt(a, b)
Norm(d, ms) == <<d + (ms \div DayMs), ms % DayMs>>          \* \div and % are floor division / non-negative remainder
TAdd(t, dur) == Norm(t[1] + dur[1], t[2] + dur[2])
TSub(t, dur) == Norm(t[1] - dur[1], t[2] - dur[2])
\* proleptic Gregorian calendar from the day number and back
Civil(day) ==
  LET z == day + 719468
      era == z \div 146097
      doe == z - era * 146097
      yoe == (doe - (doe \div 1460) + (doe \div 36524) - (doe \div 146096)) \div 365
      doy == doe - (365 * yoe + (yoe \div 4) - (yoe \div 100))
      mp == (5 * doy + 2) \div 153
      d == doy - ((153 * mp + 2) \div 5) + 1
      m == IF mp < 10 THEN mp + 3 ELSE mp - 9
      y == yoe + era * 400 + (IF m <= 2 THEN 1 ELSE 0)
  IN [y |-> y, m |-> m, d |-> d]
DayOf(y, m, d) ==
  LET yy == IF m <= 2 THEN y - 1 ELSE y
      era == yy \div 400
      yoe == yy - era * 400
      doy == ((153 * (IF m > 2 THEN m - 3 ELSE m + 9) + 2) \div 5) + d - 1
      doe == yoe * 365 + (yoe \div 4) - (yoe \div 100) + doy
  IN era * 146097 + doe - 719468
\* families: an hour of the day / a day of the month / a month of the year, by the type of the smallest interval
FamilyStart(itype, t) ==
  CASE itype = "day" -> <<t[1], (t[2] \div HourMs) * HourMs>>
    [] itype = "month" -> <<t[1], 0>>
    [] itype = "year" -> LET c == Civil(t[1]) IN <<DayOf(c.y, c.m, 1), 0>>
FamilyEnd(itype, fs) ==         \* last millisecond of the family that starts at fs
  CASE itype = "day" -> <<fs[1], fs[2] + HourMs - 1>>
    [] itype = "month" -> <<fs[1], DayMs - 1>>
    [] itype = "year" -> LET c == Civil(fs[1])
                             nxt == IF c.m = 12 THEN DayOf(c.y + 1, 1, 1) ELSE DayOf(c.y, c.m + 1, 1)
                         IN <<nxt - 1, DayMs - 1>>
InFamily(itype, fs, t) == TLe(fs, t) /\ TLe(t, FamilyEnd(itype, fs))

-------------------------------------------------------------------------------
(* canonical form *)
KeysAsc(tags) == \A i \in 1..(Len(tags) - 1) : Lt(tags[i][1], tags[i + 1][1])
\* sorted by key, one entry per key, its value one of the values given for that key
CanonOK(in, out) ==
  /\ KeysAsc(out)
  /\ {out[i][1] : i \in 1..Len(out)} = {in[i][1] : i \in 1..Len(in)}
  /\ \A i \in 1..Len(out) : out[i] \in ToSet(in)
\* the line protocol keeps the LAST value of a repeated key
LastIdx(in, k) == CHOOSE i \in 1..Len(in) : in[i][1] = k /\ \A j \in (i + 1)..Len(in) : in[j][1] # k
LastWins(in, out) == \A i \in 1..Len(out) : (\E j \in 1..Len(in) : in[j][1] = out[i][1]) => out[i][2] = in[LastIdx(in, out[i][1])][2]

(* validity: an invalid metric is rejected as a whole.  L = limits (0 = unlimited), E = enriched tags of the request *)
LenOK(x, max) == max = 0 \/ Len(x) <= max
CntOK(n, max) == max = 0 \/ n <= max
\* line protocol: one numeric value becomes <key>_sum and <key>_last unless the key ends with last / first / sum
InfluxFieldsOf(f) ==      \* f = <<key, kind, vclass, vtok>>, kind: "num" | "bool" | "str" (strings are dropped)
  IF f[2] = "str" THEN << >>
  ELSE IF f[2] = "bool" THEN << <<f[1], "last", f[4]>> >>
  ELSE IF IsSuffix(StrLast, f[1]) THEN << <<f[1], "last", f[4]>> >>
  ELSE IF IsSuffix(StrFirst, f[1]) THEN << <<f[1], "first", f[4]>> >>
  ELSE IF IsSuffix(StrSum, f[1]) THEN << <<f[1], "sum", f[4]>> >>
  ELSE << <<f[1] \o <<95>> \o StrSum, "sum", f[4]>>, <<f[1] \o <<95>> \o StrLast, "last", f[4]>> >>
RECURSIVE InfluxFields(_)
InfluxFields(fs) == IF fs = << >> THEN << >> ELSE InfluxFieldsOf(Head(fs)) \o InfluxFields(Tail(fs))
ExpectedFields(m) ==
  IF m.fmt = "influx" THEN [i \in 1..Len(InfluxFields(m.fields)) |->
                              <<SanitizeField(InfluxFields(m.fields)[i][1]), InfluxFields(m.fields)[i][2], InfluxFields(m.fields)[i][3]>>]
  ELSE [i \in 1..Len(m.fields) |-> <<SanitizeField(m.fields[i][1]), m.fields[i][2], m.fields[i][4]>>]
ExpectedNs(m, reqNs) ==
  Sanitize(CASE m.fmt = "proto" -> (IF reqNs # << >> THEN reqNs ELSE m.ns)     \* the request's namespace wins
             [] m.fmt = "flat" -> (IF m.ns # << >> THEN m.ns ELSE reqNs)         \* the row's namespace wins
             [] m.fmt = "influx" -> reqNs)
StrDefaultNs == <<100, 101, 102, 97, 117, 108, 116, 45, 110, 115>>        \* "default-ns"
NsOK(m, reqNs, rns) ==
  \/ rns = ExpectedNs(m, reqNs)
  \/ Deviation_FlatIgnoresRequestNamespace /\ m.fmt = "flat" /\ m.ns = << >> /\ rns = StrDefaultNs
AllTags(m, E) == m.tags \o E
Valid(m, L, E, reqNs) ==
  /\ m.name # << >> /\ LenOK(m.name, L.name)
  /\ m.tsbad = 0
  /\ m.hist # "bad"
  /\ \A i \in 1..Len(m.tags) : /\ m.tags[i][1] # << >> /\ m.tags[i][2] # << >>
                               /\ LenOK(m.tags[i][1], L.tagkey) /\ LenOK(m.tags[i][2], L.tagval)
  /\ m.fmt # "influx" => CntOK(Len(m.tags) + Len(E), L.tags)
  /\ m.fmt = "flat" => LenOK(ExpectedNs(m, reqNs), L.ns)
  /\ IF m.fmt = "influx"
     THEN /\ \A i \in 1..Len(m.fields) : m.fields[i][2] = "num" => m.fields[i][3] = "num"      \* NaN / Inf reject the line
          /\ Len(InfluxFields(m.fields)) > 0
          /\ CntOK(Len(InfluxFields(m.fields)), L.fields)
          /\ \A i \in 1..Len(InfluxFields(m.fields)) : LenOK(InfluxFields(m.fields)[i][1], L.fieldname)
     ELSE /\ (Len(m.fields) > 0 \/ m.hist = "ok")
          /\ CntOK(Len(m.fields), L.fields)
          /\ \A i \in 1..Len(m.fields) : /\ m.fields[i][1] # << >> /\ LenOK(m.fields[i][1], L.fieldname)
                                         /\ m.fields[i][2] # "unspec" /\ m.fields[i][3] = "num"

-------------------------------------------------------------------------------
(* learned uninterpreted functions, kept as sets of pairs *)
FunOK(F, x, y) == \A p \in F : p[1] = x => p[2] = y             \* F \cup {<<x, y>>} is still a function
InjOK(F, x, y) == \A p \in F : p[2] = y => p[1] = x             \* ... and still injective

\* a converted row is the canonical form of its input
RowOK(m, r, L, E, reqNs, nowLo, nowHi) ==
  /\ r.rid = m.rid
  /\ r.name = Sanitize(m.name)
  /\ NsOK(m, reqNs, r.ns)
  /\ IF m.tsz = 1 THEN TLe(nowLo, r.ts) /\ TLe(r.ts, nowHi) ELSE r.ts = m.ts
  /\ CanonOK(AllTags(m, E), r.tags)
  /\ m.fmt = "influx" => LastWins(m.tags, [i \in 1..Len(r.tags) |-> r.tags[i]])
  /\ r.fields = ExpectedFields(m)
  /\ r.hist = m.hist /\ r.htok = m.htok

(* write window: evicted iff outside [now - behind, now + ahead]; a zero duration switches the bound off.           *)
(* `now` is read by the code at some point between nowLo and nowHi, so instants that close to a bound may go either way *)
IsZero(dur) == dur = <<0, 0>>
MustEvict(t, nowLo, nowHi, behind, ahead) ==
  \/ (~IsZero(behind) /\ TLt(t, TSub(nowLo, behind)))
  \/ (~IsZero(ahead) /\ TLt(TAdd(nowHi, ahead), t))
MustKeep(t, nowLo, nowHi, behind, ahead) ==
  /\ (IsZero(behind) \/ TLe(TSub(nowHi, behind), t))
  /\ (IsZero(ahead) \/ TLe(t, TAdd(nowLo, ahead)))

\* routing of a batch: rows = sequence of accepted rows ([rid, ts, kh, ...]); groups = what reached the family channels,
\* each [shard, family, rids]; S = learned shard function (set of <<<<kh, n>>, shard>>)
Stored(groups) == UNION {ToSet(groups[g].rids) : g \in 1..Len(groups)}
RECURSIVE CountRids(_)
CountRids(groups) == IF groups = << >> THEN 0 ELSE Len(Head(groups).rids) + CountRids(Tail(groups))
RowOf(rows, rid) == rows[CHOOSE i \in 1..Len(rows) : rows[i].rid = rid]
RouteOK(rows, groups, n, itype, nowLo, nowHi, behind, ahead) ==
  LET rids == {rows[i].rid : i \in 1..Len(rows)} IN
  /\ Stored(groups) \subseteq rids
  /\ CountRids(groups) = Cardinality(Stored(groups))                       \* every row in exactly one group (no duplicates)
  /\ \A i \in 1..Len(rows) :                                                \* rows outside the window are dropped, nothing else is
        /\ MustKeep(rows[i].ts, nowLo, nowHi, behind, ahead) => rows[i].rid \in Stored(groups)
        /\ MustEvict(rows[i].ts, nowLo, nowHi, behind, ahead) => rows[i].rid \notin Stored(groups)
  /\ \A g \in 1..Len(groups) :
        /\ groups[g].shard >= 0 /\ groups[g].shard < n
        /\ groups[g].family = FamilyStart(itype, groups[g].family)         \* a family time is the start of a family
        /\ \A rid \in ToSet(groups[g].rids) : InFamily(itype, groups[g].family, RowOf(rows, rid).ts)
  /\ \A g, h \in 1..Len(groups) :                                           \* one group per (shard, family)
        (g # h /\ groups[g].rids # << >> /\ groups[h].rids # << >>) =>
           (groups[g].shard # groups[h].shard \/ groups[g].family # groups[h].family)
\* the shard of every stored row, as pairs <<<<kh, n>>, shard>>
ShardPairs(rows, groups, n) ==
  UNION {{<<<<RowOf(rows, rid).kh, n>>, groups[g].shard>> : rid \in ToSet(groups[g].rids)} : g \in 1..Len(groups)}
IsFunction(F) == \A p, q \in F : p[1] = q[1] => p[2] = q[2]
=============================================================================
