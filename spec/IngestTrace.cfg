CONSTANTS
  Deviation_FlatIgnoresRequestNamespace = TRUE
  Deviation_StaleEvictFlag = FALSE
SPECIFICATION TraceSpec
CONSTRAINT HighWater
POSTCONDITION TraceAccepted
CHECK_DEADLOCK FALSE
