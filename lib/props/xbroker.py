"""XBROKER -- what a broker knows (module BrokerView): an extension beyond the listed properties.

The broker's state manager (database configs, broker nodes, the storage state the master publishes, the answer of
GetQueryableReplicas) and the channel manager that builds the write channels from its shard-state notifications."""
import json
import os

import vcore


def run(ctx, replay):
    if replay:
        ok, info = ctx.validate_trace("BrokerViewTrace", "BrokerViewTrace_conf.cfg", replay, dfs=True)
        if not ok:
            ctx.violation("BrokerView:replay", "replayed trace rejected: %s" % info, replay_src=replay)
        return
    thorough = ctx.tier == "thorough"
    # M: the repaired design (a config event re-runs the notification and a missing config is skipped, the routing count
    # follows a growth, a drop removes the channel) satisfies every invariant for every order of the watchers' events ...
    ctx.model_check("MCBrokerView", "MCBrokerView.cfg", timeout=1800)
    # ... the broker as the code is still answers queries right (every online shard once, through its live leader) ...
    ctx.model_check("MCBrokerView", "MCBrokerView_code.cfg", timeout=1800)
    # ... and each switch at its code value breaks the invariant it is named for (observations, conformance-checked below)
    for cfg in ("order",   # a storage-state event that overtakes the config event of a new database: no write channel
                "grow",    # after a growth of the shard count rows are still hashed over the old count
                "drop"):   # the write channel of a dropped database stays
        ctx.model_check("MCBrokerView", "MCBrokerView_code_%s.cfg" % cfg, expect="violation", timeout=900)
    tr = os.path.join(ctx.scratch, "brokerview.ndjson")
    nh, steps = (300, 60) if thorough else (40, 40)
    summ, rc, _ = ctx.run_vdrive(["brokerview", "--seed", ctx.seed, "--histories", nh, "--steps", steps, "--out", tr], timeout=2400)
    for u in summ["unresolved"]:
        raise vcore.Unresolved("brokerview driver: %s" % u)
    ctx.extra["events"] = summ["events"]
    # T: the real broker takes exactly the steps of the model at the code's values
    vcore.validate_all(ctx, "BrokerViewTrace", "BrokerViewTrace_conf.cfg", tr, dfs=True)
    # leg R: orders of the three watchers' events chosen by TLC (BrokerViewGen), executed against the real code
    gen = ctx.generate_behaviours("BrokerViewGen", "BrokerViewGen.cfg", 400 if thorough else 60, 100)
    gpath = os.path.join(ctx.scratch, "bv-gen.json")
    with open(gpath, "w") as f:
        json.dump(gen, f)
    trg = os.path.join(ctx.scratch, "brokerview-gen.ndjson")
    gsumm, rc, _ = ctx.run_vdrive(["brokerview", "--histories", 0, "--probes=false", "--scripts", gpath, "--out", trg], timeout=2400)
    for u in gsumm["unresolved"]:
        raise vcore.Unresolved("brokerview driver (generated behaviours): %s" % u)
    ctx.extra["generated_behaviours_replayed"] = len(gen)
    vcore.validate_all(ctx, "BrokerViewTrace", "BrokerViewTrace_conf.cfg", trg, dfs=True)
    # ... and does NOT behave like the repaired design (the probe histories must be rejected there: the observations
    # are observations about the real code, not artefacts of the model)
    lines = vcore.read_lines(tr)
    probes = [t for t in vcore.split_traces(lines) if '"scripted":true' in t[0]]
    rejected = 0
    for i, t in enumerate(probes):
        p = os.path.join(ctx.scratch, "probe-%d.ndjson" % i)
        with open(p, "w") as f:
            f.write("".join(t))
        res = ctx.tlc("BrokerViewTrace", "BrokerViewTrace_repaired.cfg", workers=1, files={"trace.ndjson": p}, dfs=True, count=False)
        if res.kind in ("rejected", "invariant"):
            rejected += 1
    ctx.extra["probe_histories"] = len(probes)
    ctx.extra["probe_histories_rejected_by_the_repaired_design"] = rejected
    if probes and rejected < 3:
        raise vcore.Unresolved("the probe histories conform to the repaired design (%d of %d rejected): the observations "
                               "are not confirmed on this tree" % (rejected, len(probes)))

    def wrong_leader(ls):
        for i, ln in enumerate(ls):
            if '"ev":"Proj"' in ln and '"query":{"d1":{"' in ln:
                d = json.loads(ln)
                q = d["query"]["d1"]
                k = sorted(q)[0]
                q[str(int(k) % 3 + 1)] = q.pop(k)
                out = list(ls)
                out[i] = json.dumps(d, separators=(",", ":")) + "\n"
                return out
        return None

    def lost_shard(ls):
        for i, ln in enumerate(ls):
            if '"ev":"Proj"' in ln and '"query":{"d1":{"' in ln:
                d = json.loads(ln)
                q = d["query"]["d1"]
                k = sorted(q)[0]
                if len(q[k]) >= 2:
                    q[k] = q[k][:-1]
                    out = list(ls)
                    out[i] = json.dumps(d, separators=(",", ":")) + "\n"
                    return out
        return None

    def phantom_channel(ls):
        for i, ln in enumerate(ls):
            if '"ev":"Proj"' in ln and '"writable":{"d1":false' in ln:
                d = json.loads(ln)
                d["writable"]["d1"] = True
                out = list(ls)
                out[i] = json.dumps(d, separators=(",", ":")) + "\n"
                return out
        return None
    acc = os.path.join(ctx.scratch, "bv-acc.ndjson")
    with open(acc, "w") as f:
        f.write("".join(lines))
    vcore.corrupt_selftest(ctx, "BrokerViewTrace", "BrokerViewTrace_conf.cfg", acc, wrong_leader, "a shard is planned through another node")
    vcore.corrupt_selftest(ctx, "BrokerViewTrace", "BrokerViewTrace_conf.cfg", acc, lost_shard, "an online shard is missing from the plan")
    vcore.corrupt_selftest(ctx, "BrokerViewTrace", "BrokerViewTrace_conf.cfg", acc, phantom_channel, "a database without channel is reported writable")
    ctx.assumptions += [
        "the driver plays the three discovery watchers (an event is pending until the driver emits it); the state manager handles events on its own goroutine, the driver waits for a sentinel broker-node event to be handled before it observes",
        "write channels are observed through a one-row Write per database (a broker without channel answers `database not found`); the routing count through the shards that received chunks of a 64-series batch (capturing write client)",
        "published storage states are well-formed as C18 makes them (an online shard has a live leader)",
    ]
