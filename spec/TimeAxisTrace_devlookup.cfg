CONSTANTS
  AnyIntervalSlots = TRUE
  DevLookup = TRUE
  FirstDay = 0
  FirstCivil = 0
  LastDay = 0
  Groups = {}
  InstantsOf <- NoneOf
  Intervals = {}
  PlanInputsOf <- NoneOf
  ShardInterval = 0
  ShardInstants = {}
SPECIFICATION TraceSpec
INVARIANTS LookupMatchesDeviation
CONSTRAINT HighWater
POSTCONDITION TraceAccepted
CHECK_DEADLOCK FALSE
