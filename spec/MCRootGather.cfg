CONSTANTS
  Leaves = {"l1", "l2", "l3"}
  CountAtSend = FALSE
SPECIFICATION MCSpec
INVARIANTS CompleteAfterAll NoSilentError ErrorHasCause TimeoutOnlyIfMissing
PROPERTIES ResultIsFinal
CHECK_DEADLOCK FALSE
