package main

// "index-loop" scenario family of the C09 driver (iddict).
//
// The shard's series ids are created by ONE goroutine: the event loop of memdb.NewIndexDatabase, which takes rows
// and flush requests from one channel.  A flush request makes the loop swap mutable / immutable of the index
// (MetricIndexDatabase.PrepareFlush) and then hands the writing (Flush) to a background goroutine.  This family
// drives the REAL index.NewMetricMetaDatabase / index.NewMetricIndexDatabase / memdb.NewMetadataDatabase /
// memdb.NewIndexDatabase with rows and flush requests and steers the interleaving from outside:
//
//   gates (driver-side wrappers around the two interface values the loop works on, nothing inside /repo):
//     PFb  before MetricIndexDatabase.PrepareFlush      (end of the block: PFa, PrepareFlush returned)
//     FLb  before MetricIndexDatabase.Flush             (end: FLa)
//     Gb   before MetricIndexDatabase.GenSeriesID       (end of the first half: Gm, or Ga when the series exists)
//     Gm   MetricMetaDatabase.Name() called from inside GenSeriesID: the only call GenSeriesID makes between
//          "series dictionary entry created" and "series id put into the metric => series ids postings"
//
//   a schedule = an enqueue order of the items {flush request F, rows R..} and a target order of the blocks
//   {PF, FL, G1(r), G2(r)}.  The executor realises the target order as far as the code allows: a block whose start
//   gate cannot be reached is BLOCKED (a legal outcome, recorded as a Note) and the next startable block of the
//   target order runs instead.  "Blocked" is decided without a clock: the loop goroutine L (the goroutine that runs
//   GenSeriesID) consumes the channel in order, so while L is parked at a gate of item i no item enqueued after i
//   can start.  (A long safety timeout only guards the harness against a wedged run; it makes the run unresolved.)
//
// What is recorded is what IDDictTrace already understands: Call / Ret of every get-or-create (series ids keyed by
// metric id, metric / tag key / tag value ids as created by both event loops), Reopen (crash = close without
// flush, or flush + close), Note, and Postings = MetricIndexDatabase.GetSeriesIDsForMetric at quiescent points
// (the ids the next new series id is derived from after a restart).

import (
	"fmt"
	"math/rand"
	"path/filepath"
	"sort"
	"sync"
	"sync/atomic"
	"time"

	"github.com/cespare/xxhash/v2"
	flatbuffers "github.com/google/flatbuffers/go"
	"github.com/lindb/common/proto/gen/v1/flatMetricsV1"

	"github.com/lindb/lindb/index"
	"github.com/lindb/lindb/models"
	"github.com/lindb/lindb/series/metric"
	"github.com/lindb/lindb/series/tag"
	"github.com/lindb/lindb/tsdb/memdb"

	"verif/harness/internal/trace"
)

const ilStuckAfter = 30 * time.Second

type ilRow struct {
	metric string
	host   string
	row    *metric.StorageRow
	pos    int // position in the enqueue order of the running episode
}

func (r *ilRow) tags() string { return "host=" + r.host }

func ilBuildRow(metricName, host string) *ilRow {
	b := flatbuffers.NewBuilder(256)
	k := b.CreateString("host")
	v := b.CreateString(host)
	flatMetricsV1.KeyValueStart(b)
	flatMetricsV1.KeyValueAddKey(b, k)
	flatMetricsV1.KeyValueAddValue(b, v)
	kvAt := flatMetricsV1.KeyValueEnd(b)
	flatMetricsV1.MetricStartKeyValuesVector(b, 1)
	b.PrependUOffsetT(kvAt)
	kvsAt := b.EndVector(1)
	name := b.CreateString(metricName)
	ns := b.CreateString(idNS)
	flatMetricsV1.MetricStart(b)
	flatMetricsV1.MetricAddNamespace(b, ns)
	flatMetricsV1.MetricAddName(b, name)
	flatMetricsV1.MetricAddTimestamp(b, 1700000000000)
	flatMetricsV1.MetricAddKeyValues(b, kvsAt)
	flatMetricsV1.MetricAddKvsHash(b, xxhash.Sum64String("host="+host))
	flatMetricsV1.MetricAddNameHash(b, xxhash.Sum64String(idNS+"/"+metricName))
	end := flatMetricsV1.MetricEnd(b)
	b.Finish(end)
	row := &metric.StorageRow{}
	row.Unmarshal(b.FinishedBytes()) // ref count 2: metadata loop + index loop
	return &ilRow{metric: metricName, host: host, row: row}
}

// ---------------------------------------------------------------------------------------------- gates

type ilArrive struct {
	gate string // PFb PFa FLb FLa Gb Gm Ga Rdone Fdone
	g    int64
	row  *ilRow
	rel  chan struct{} // non-nil: the goroutine is parked until this is closed
	err  error
}

type ilCtl struct {
	rec   *trace.Recorder
	armed atomic.Bool
	ev    chan ilArrive

	mu   sync.Mutex
	cur  map[int64]*ilRow // goroutine -> row whose GenSeriesID it is executing
	mid  map[int64]bool   // ... and whether its mid point has been passed
	rows map[*metric.StorageRow]*ilRow
	thr  map[int64]string
}

func newILCtl(rec *trace.Recorder) *ilCtl {
	return &ilCtl{rec: rec, ev: make(chan ilArrive, 1024), cur: map[int64]*ilRow{}, mid: map[int64]bool{},
		rows: map[*metric.StorageRow]*ilRow{}, thr: map[int64]string{}}
}

// thread name of a goroutine: w1, w2, .. in order of first appearance (goroutine ids differ from run to run)
func (c *ilCtl) thread(g int64) string {
	c.mu.Lock()
	defer c.mu.Unlock()
	n, ok := c.thr[g]
	if !ok {
		n = fmt.Sprintf("w%d", len(c.thr)+1)
		c.thr[g] = n
	}
	return n
}

func (c *ilCtl) at(gate string, row *ilRow, park bool, err error) {
	if !c.armed.Load() {
		return
	}
	a := ilArrive{gate: gate, g: goid(), row: row, err: err}
	if park {
		a.rel = make(chan struct{})
	}
	c.ev <- a
	if park {
		<-a.rel
	}
}

// ilMeta: the real metadata database; Name() is the mid point of GenSeriesID, the id creating calls are recorded
type ilMeta struct {
	index.MetricMetaDatabase
	c *ilCtl
}

func (m *ilMeta) Name() string {
	g := goid()
	m.c.mu.Lock()
	row := m.c.cur[g]
	first := row != nil && !m.c.mid[g]
	if first {
		m.c.mid[g] = true
	}
	m.c.mu.Unlock()
	if first {
		m.c.at("Gm", row, true, nil)
	}
	return m.MetricMetaDatabase.Name()
}

func (m *ilMeta) observe(op string, k idKey, fn func() (int, error)) (id int, err error) {
	t := m.c.thread(goid()) + ".m"
	m.c.rec.Emit("Call", trace.F{"t": t, "kind": k.kind, "scope": k.scope, "name": k.name, "create": true})
	defer func() {
		if p := recover(); p != nil {
			err = fmt.Errorf("panic: %v", p)
		}
		if err != nil {
			m.c.rec.Emit("Error", trace.F{"op": op, "err": err.Error()})
			return
		}
		m.c.rec.Emit("Ret", trace.F{"t": t, "found": true, "id": id})
	}()
	return fn()
}

func (m *ilMeta) GenMetricID(ns, name []byte) (metric.ID, error) {
	id, err := m.observe("GenMetricID", idKey{"metric", 0, string(name)}, func() (int, error) {
		id, err := m.MetricMetaDatabase.GenMetricID(ns, name)
		return int(id), err
	})
	return metric.ID(id), err
}

func (m *ilMeta) GenTagKeyID(mid metric.ID, key []byte) (tag.KeyID, error) {
	id, err := m.observe("GenTagKeyID", idKey{"tagkey", int(mid), string(key)}, func() (int, error) {
		id, err := m.MetricMetaDatabase.GenTagKeyID(mid, key)
		return int(id), err
	})
	return tag.KeyID(id), err
}

func (m *ilMeta) GenTagValueID(kid tag.KeyID, val []byte) (uint32, error) {
	id, err := m.observe("GenTagValueID", idKey{"tagvalue", int(kid), string(val)}, func() (int, error) {
		id, err := m.MetricMetaDatabase.GenTagValueID(kid, val)
		return int(id), err
	})
	return uint32(id), err
}

// ilIndex: the real shard index database behind the gates
type ilIndex struct {
	index.MetricIndexDatabase
	c *ilCtl
}

func (i *ilIndex) PrepareFlush() {
	i.c.at("PFb", nil, true, nil)
	func() {
		defer func() {
			if p := recover(); p != nil {
				i.c.rec.Emit("Error", trace.F{"op": "IndexPrepareFlush", "err": fmt.Sprint("panic: ", p)})
			}
		}()
		i.MetricIndexDatabase.PrepareFlush()
	}()
	i.c.rec.Emit("Note", trace.F{"what": "IndexPrepareFlush", "t": i.c.thread(goid())})
	i.c.at("PFa", nil, false, nil)
}

func (i *ilIndex) Flush() (err error) {
	i.c.at("FLb", nil, true, nil)
	func() {
		defer func() {
			if p := recover(); p != nil {
				err = fmt.Errorf("panic: %v", p)
			}
		}()
		err = i.MetricIndexDatabase.Flush()
	}()
	if err != nil {
		i.c.rec.Emit("Error", trace.F{"op": "IndexFlush", "err": err.Error()})
	} else {
		i.c.rec.Emit("Note", trace.F{"what": "IndexFlush", "t": i.c.thread(goid())})
	}
	i.c.at("FLa", nil, false, err)
	return err
}

func (i *ilIndex) GenSeriesID(mid metric.ID, row *metric.StorageRow) (sid uint32, err error) {
	g := goid()
	i.c.mu.Lock()
	r := i.c.rows[row]
	i.c.mu.Unlock()
	if r == nil {
		return i.MetricIndexDatabase.GenSeriesID(mid, row)
	}
	i.c.at("Gb", r, true, nil)
	t := i.c.thread(g)
	i.c.mu.Lock()
	i.c.cur[g] = r
	i.c.mid[g] = false
	i.c.mu.Unlock()
	i.c.rec.Emit("Call", trace.F{"t": t, "kind": "series", "scope": int(mid), "name": r.tags(), "create": true})
	func() {
		defer func() {
			if p := recover(); p != nil {
				err = fmt.Errorf("panic: %v", p)
			}
		}()
		sid, err = i.MetricIndexDatabase.GenSeriesID(mid, row)
	}()
	i.c.mu.Lock()
	delete(i.c.cur, g)
	delete(i.c.mid, g)
	i.c.mu.Unlock()
	if err != nil {
		i.c.rec.Emit("Error", trace.F{"op": "GenSeriesID", "err": err.Error()})
	} else {
		i.c.rec.Emit("Ret", trace.F{"t": t, "found": true, "id": int(sid)})
	}
	i.c.at("Ga", r, false, err)
	return sid, err
}

// ---------------------------------------------------------------------------------------------- node

type ilNode struct {
	c       *ilCtl
	meta    *ilMeta
	idx     *ilIndex
	memMeta memdb.MetadataDatabase
	memIdx  memdb.IndexDatabase
}

func ilOpen(c *ilCtl, dir string) (*ilNode, error) {
	realMeta, err := index.NewMetricMetaDatabase("db", filepath.Join(dir, "meta"))
	if err != nil {
		return nil, err
	}
	meta := &ilMeta{MetricMetaDatabase: realMeta, c: c}
	realIdx, err := index.NewMetricIndexDatabase(filepath.Join(dir, "shard-1", "index"), meta)
	if err != nil {
		_ = realMeta.Close()
		return nil, err
	}
	idx := &ilIndex{MetricIndexDatabase: realIdx, c: c}
	memMeta := memdb.NewMetadataDatabase(&models.DatabaseConfig{Name: "db"}, meta)
	memIdx := memdb.NewIndexDatabase(memMeta, idx)
	return &ilNode{c: c, meta: meta, idx: idx, memMeta: memMeta, memIdx: memIdx}, nil
}

// stop closes the two event loops and the stores WITHOUT flushing: what is only in memory is lost
func (n *ilNode) stop() {
	n.memIdx.Close()
	n.memMeta.Close()
	if err := n.idx.Close(); err != nil {
		n.c.rec.Emit("Error", trace.F{"op": "closeIndex", "err": err.Error()})
	}
	if err := n.meta.Close(); err != nil {
		n.c.rec.Emit("Error", trace.F{"op": "closeMeta", "err": err.Error()})
	}
}

// ---------------------------------------------------------------------------------------------- schedules

type ilBlock struct {
	kind string // PF FL G1 G2
	row  *ilRow
}

func (b ilBlock) String() string {
	if b.row != nil {
		return b.kind + ":" + b.row.metric + "/" + b.row.host
	}
	return b.kind
}

type ilItem struct {
	flush bool
	row   *ilRow
}

type ilExec struct {
	c        *ilCtl
	n        *ilNode
	loopG    int64
	parked   map[int64]ilArrive
	occupied map[ilBlock]ilArrive
	ended    map[ilBlock]bool
	remain   []ilBlock
	flushPos int
	rowsLeft map[*ilRow]bool
	flLeft   bool
	stuck    bool
	blocked  int
}

func (x *ilExec) inRemain(b ilBlock) bool {
	for _, r := range x.remain {
		if r == b {
			return true
		}
	}
	return false
}

func (x *ilExec) drop(b ilBlock) {
	out := x.remain[:0]
	for _, r := range x.remain {
		if r != b {
			out = append(out, r)
		}
	}
	x.remain = out
}

func (x *ilExec) release(a ilArrive) {
	if a.rel != nil {
		delete(x.parked, a.g)
		close(a.rel)
	}
}

func (x *ilExec) handle(a ilArrive) {
	if a.rel != nil {
		x.parked[a.g] = a
	}
	var start ilBlock
	switch a.gate {
	case "PFb":
		start = ilBlock{"PF", nil}
	case "FLb":
		start = ilBlock{"FL", nil}
	case "Gb":
		x.loopG = a.g
		start = ilBlock{"G1", a.row}
	case "Gm":
		x.ended[ilBlock{"G1", a.row}] = true
		start = ilBlock{"G2", a.row}
	case "PFa":
		x.ended[ilBlock{"PF", nil}] = true
	case "FLa":
		x.ended[ilBlock{"FL", nil}] = true
	case "Ga":
		// the series existed (or the call failed): there is no second half
		if !x.ended[ilBlock{"G1", a.row}] {
			x.ended[ilBlock{"G1", a.row}] = true
			x.drop(ilBlock{"G2", a.row})
		}
		x.ended[ilBlock{"G2", a.row}] = true
	case "Rdone":
		delete(x.rowsLeft, a.row)
		// a row that never reached GenSeriesID (metric id could not be created)
		x.ended[ilBlock{"G1", a.row}] = true
		x.ended[ilBlock{"G2", a.row}] = true
	case "Fdone":
		x.flLeft = false
		if a.err != nil {
			x.ended[ilBlock{"PF", nil}] = true
			x.ended[ilBlock{"FL", nil}] = true
		}
	}
	if start.kind != "" {
		if x.inRemain(start) {
			x.occupied[start] = a
		} else {
			x.release(a) // nothing in the schedule is ordered against it
		}
	}
}

func (x *ilExec) next() bool {
	select {
	case a := <-x.c.ev:
		x.handle(a)
		return true
	case <-time.After(ilStuckAfter):
		x.giveUp("no progress")
		return false
	}
}

func (x *ilExec) giveUp(why string) {
	x.stuck = true
	x.c.armed.Store(false)
	for _, a := range x.parked {
		close(a.rel)
	}
	x.parked = map[int64]ilArrive{}
	x.c.rec.Emit("Note", trace.F{"what": "stuck", "why": why})
}

func (x *ilExec) posOf(b ilBlock) int {
	if b.row != nil {
		return b.row.pos
	}
	return x.flushPos
}

func (x *ilExec) posOfArrival(a ilArrive) int {
	if a.row != nil {
		return a.row.pos
	}
	return x.flushPos
}

// awaitStart waits until the start gate of b is occupied.  Returns "ok", "gone" (the block cannot happen any more),
// "blocked" (the loop goroutine is parked at a gate of an earlier item of the channel) or "stuck".
func (x *ilExec) awaitStart(b ilBlock) (string, string) {
	for {
		if _, ok := x.occupied[b]; ok {
			return "ok", ""
		}
		if x.ended[b] || !x.inRemain(b) {
			return "gone", ""
		}
		if a, ok := x.parked[x.loopG]; ok && x.loopG != 0 && x.posOfArrival(a) < x.posOf(b) {
			return "blocked", a.gate
		}
		if !x.next() {
			return "stuck", ""
		}
	}
}

// run executes one episode: items are enqueued in the given order, blocks run in target order as far as possible
func (x *ilExec) run(items []ilItem, target []ilBlock) {
	c := x.c
	x.parked = map[int64]ilArrive{}
	x.occupied = map[ilBlock]ilArrive{}
	x.ended = map[ilBlock]bool{}
	x.remain = append([]ilBlock{}, target...)
	x.rowsLeft = map[*ilRow]bool{}
	x.flLeft = false
	x.flushPos = -1
	var order []string
	for i, it := range items {
		if it.flush {
			x.flushPos = i
			order = append(order, "F")
		} else {
			it.row.pos = i
			order = append(order, "R:"+it.row.metric+"/"+it.row.host)
		}
	}
	var tnames []string
	for _, b := range target {
		tnames = append(tnames, b.String())
	}
	c.rec.Emit("Note", trace.F{"what": "episode", "enqueue": order, "target": tnames})
	for _, it := range items {
		if it.flush {
			x.flLeft = true
			x.n.memIdx.Notify(&memdb.FlushEvent{Callback: func(err error) { c.ev <- ilArrive{gate: "Fdone", err: err} }})
			continue
		}
		r := it.row
		c.mu.Lock()
		c.rows[r.row] = r
		c.mu.Unlock()
		x.rowsLeft[r] = true
		// what the memory database does for a series it has not seen: both event loops get the row
		x.n.memIdx.GetOrCreateTimeSeriesIndex(r.row)
		x.n.memMeta.GetOrCreateMetricMeta(r.row)
		r.row.MemSeriesID = x.n.memIdx.GenMemSeriesID()
		x.n.memIdx.Notify(r.row)
		x.n.memMeta.Notify(r.row)
		go func() {
			r.row.Wait()
			c.ev <- ilArrive{gate: "Rdone", row: r}
		}()
	}
	for len(x.remain) > 0 && !x.stuck {
		ran := false
		for _, b := range append([]ilBlock{}, x.remain...) {
			st, by := x.awaitStart(b)
			if st == "stuck" {
				return
			}
			if st == "gone" {
				x.drop(b)
				ran = true
				break
			}
			if st == "blocked" {
				x.blocked++
				c.rec.Emit("Note", trace.F{"what": "blocked", "step": b.String(), "by": by})
				continue // the next block of the target order that can start
			}
			a := x.occupied[b]
			delete(x.occupied, b)
			x.drop(b)
			c.rec.Emit("Note", trace.F{"what": "step", "step": b.String(), "t": c.thread(a.g)})
			x.release(a)
			for !x.ended[b] {
				if !x.next() {
					return
				}
			}
			ran = true
			break
		}
		if !ran {
			// every remaining block is blocked behind a gate that is itself not the start of a remaining block
			x.giveUp("all remaining blocks are blocked")
			return
		}
	}
	for (len(x.rowsLeft) > 0 || x.flLeft) && !x.stuck {
		if !x.next() {
			return
		}
	}
}

// ---------------------------------------------------------------------------------------------- histories

type ilSeries struct{ metric, host string }

type ilHist struct {
	rec     *trace.Recorder
	c       *ilCtl
	n       *ilNode
	x       *ilExec
	dir     string
	known   []ilSeries
	isKnown map[ilSeries]bool
	fresh   int
	stuck   bool
	blocked int
}

func (h *ilHist) newSeries(metricName string) *ilRow {
	h.fresh++
	s := ilSeries{metricName, fmt.Sprintf("h%d", h.fresh)}
	h.known = append(h.known, s)
	h.isKnown[s] = true
	return ilBuildRow(s.metric, s.host)
}

func (h *ilHist) open() bool {
	n, err := ilOpen(h.c, h.dir)
	if err != nil {
		h.rec.Emit("Error", trace.F{"op": "open", "err": err.Error()})
		return false
	}
	h.n = n
	h.x = &ilExec{c: h.c, n: n}
	h.c.armed.Store(true)
	return true
}

func (h *ilHist) episode(items []ilItem, target []ilBlock) bool {
	h.x.run(items, target)
	h.blocked += h.x.blocked
	h.x.blocked = 0
	if h.x.stuck {
		h.stuck = true
	}
	return !h.stuck
}

// natural: rows one after the other, flush request where it stands, no forced order
func ilNatural(items []ilItem) []ilBlock {
	var t []ilBlock
	for _, it := range items {
		if it.flush {
			t = append(t, ilBlock{"PF", nil}, ilBlock{"FL", nil})
		} else {
			t = append(t, ilBlock{"G1", it.row}, ilBlock{"G2", it.row})
		}
	}
	return t
}

func (h *ilHist) flushMeta() {
	ch := make(chan error, 1)
	h.n.memMeta.Notify(&memdb.FlushEvent{Callback: func(err error) { ch <- err }})
	select {
	case err := <-ch:
		if err != nil {
			h.rec.Emit("Error", trace.F{"op": "MetaFlush", "err": err.Error()})
			return
		}
		h.rec.Emit("Note", trace.F{"what": "MetaFlush"})
	case <-time.After(ilStuckAfter):
		h.stuck = true
		h.rec.Emit("Note", trace.F{"what": "stuck", "why": "metadata flush"})
	}
}

// postings: the series ids the index knows for every metric that has series (quiescent points only)
func (h *ilHist) postings() {
	seen := map[string]bool{}
	for _, s := range h.known {
		if seen[s.metric] {
			continue
		}
		seen[s.metric] = true
		mid, err := h.n.meta.MetricMetaDatabase.GetMetricID(idNS, s.metric)
		if err != nil {
			continue // the metric name itself was lost
		}
		bm, err := h.n.idx.GetSeriesIDsForMetric(mid)
		if err != nil {
			h.rec.Emit("Error", trace.F{"op": "GetSeriesIDsForMetric", "err": err.Error()})
			continue
		}
		ids := []int{}
		for _, v := range bm.ToArray() {
			ids = append(ids, int(v))
		}
		h.rec.Emit("Postings", trace.F{"scope": int(mid), "ids": ids})
	}
}

func (h *ilHist) restart(kill bool) bool {
	if !kill {
		h.flushMeta()
		if !h.episode([]ilItem{{flush: true}}, ilNatural([]ilItem{{flush: true}})) {
			return false
		}
	}
	h.c.armed.Store(false)
	h.n.stop()
	how := "close"
	if kill {
		how = "kill"
	}
	h.rec.Emit("Reopen", trace.F{"how": how})
	return h.open()
}

// verify: after a restart a new series per metric and every series created so far go through the loop again
func (h *ilHist) verify(rng *rand.Rand) bool {
	var old []ilItem
	metrics := map[string]bool{}
	for _, s := range h.known {
		old = append(old, ilItem{row: ilBuildRow(s.metric, s.host)})
		metrics[s.metric] = true
	}
	var ms []string
	for m := range metrics {
		ms = append(ms, m)
	}
	sort.Strings(ms)
	var fresh []ilItem
	for _, m := range ms {
		fresh = append(fresh, ilItem{row: h.newSeries(m)})
	}
	var items []ilItem
	switch rng.Intn(3) {
	case 0: // new names first
		items = append(fresh, old...)
	case 1: // what was recovered first, and what the index knows about it before anything new is created
		if !h.episode(old, ilNatural(old)) {
			return false
		}
		h.postings()
		items = fresh
	default:
		items = append(append(items, old...), fresh...)
		rng.Shuffle(len(items), func(i, j int) { items[i], items[j] = items[j], items[i] })
	}
	if !h.episode(items, ilNatural(items)) {
		return false
	}
	h.postings()
	return true
}

// scripted schedules: the windows the deviation configurations of IDDictSeries go through, and their neighbours
var ilScripts = []string{"prepare-inside-gen", "flush-inside-gen", "row-then-flush", "two-rows"}

func ilRun(rec *trace.Recorder, dir string, rng *rand.Rand, hn int, stuck, blocked *int) {
	c := newILCtl(rec)
	h := &ilHist{rec: rec, c: c, dir: dir, isKnown: map[ilSeries]bool{}}
	scenario := "random"
	if hn < len(ilScripts) {
		scenario = ilScripts[hn]
	}
	rec.Reset(trace.F{"mode": "loop", "scenario": scenario, "h": hn})
	if !h.open() {
		return
	}
	defer func() {
		c.armed.Store(false)
		if h.n != nil {
			h.n.stop()
		}
		*blocked += h.blocked
		if h.stuck {
			*stuck++
		}
	}()
	pool := []string{"cpu", "mem"}
	F := ilItem{flush: true}
	PF, FL := ilBlock{"PF", nil}, ilBlock{"FL", nil}
	g1 := func(r *ilRow) ilBlock { return ilBlock{"G1", r} }
	g2 := func(r *ilRow) ilBlock { return ilBlock{"G2", r} }
	full := func() bool {
		h.flushMeta()
		return !h.stuck && h.episode([]ilItem{F}, []ilBlock{PF, FL})
	}
	// the first row of a node: the loop goroutine shows itself
	warm := func() bool {
		it := []ilItem{{row: h.newSeries("cpu")}}
		return h.episode(it, ilNatural(it))
	}
	if !warm() {
		return
	}
	if scenario != "random" {
		b := h.newSeries("cpu")
		switch scenario {
		case "prepare-inside-gen":
			// base persisted; [F, row]; prepare-flush between the two halves of GenSeriesID; flush; crash
			if !full() || !h.episode([]ilItem{F, {row: b}}, []ilBlock{g1(b), PF, g2(b), FL}) {
				return
			}
			h.flushMeta()
		case "flush-inside-gen":
			// nothing persisted before; prepare-flush AND flush inside GenSeriesID; crash without metadata flush
			if !h.episode([]ilItem{F, {row: b}}, []ilBlock{g1(b), PF, FL, g2(b)}) {
				return
			}
		case "row-then-flush":
			// the row is in the channel first: the flush request cannot overtake it
			if !full() || !h.episode([]ilItem{{row: b}, F}, []ilBlock{g1(b), PF, g2(b), FL}) {
				return
			}
			h.flushMeta()
		case "two-rows":
			// [row, F, row]: flush runs in the background while the second row is handled
			d := h.newSeries("cpu")
			if !h.episode([]ilItem{{row: b}, F, {row: d}}, []ilBlock{g1(b), g2(b), PF, g1(d), FL, g2(d)}) {
				return
			}
			h.flushMeta()
		}
		if h.stuck {
			return
		}
		h.postings()
		if !h.restart(true) || !h.verify(rng) {
			return
		}
		// and once more after a clean restart
		if !h.restart(false) || !h.verify(rng) {
			return
		}
		return
	}
	lives := 2 + rng.Intn(2)
	for life := 0; life < lives && !h.stuck; life++ {
		if life > 0 {
			if !h.verify(rng) {
				return
			}
		}
		if life == lives-1 {
			break
		}
		if rng.Intn(2) == 0 {
			if !full() {
				return
			}
		}
		for e := 0; e < 1+rng.Intn(2); e++ {
			var items []ilItem
			var blocks []ilBlock
			nrows := 1 + rng.Intn(2)
			for i := 0; i < nrows; i++ {
				m := pool[0]
				if rng.Intn(4) == 0 {
					m = pool[1]
				}
				var r *ilRow
				if rng.Intn(10) < 7 || len(h.known) == 0 {
					r = h.newSeries(m)
				} else {
					s := h.known[rng.Intn(len(h.known))]
					r = ilBuildRow(s.metric, s.host)
				}
				items = append(items, ilItem{row: r})
				blocks = append(blocks, g1(r), g2(r))
			}
			if rng.Intn(8) != 0 {
				items = append(items, F)
				blocks = append(blocks, PF, FL)
			}
			rng.Shuffle(len(items), func(i, j int) { items[i], items[j] = items[j], items[i] })
			rng.Shuffle(len(blocks), func(i, j int) { blocks[i], blocks[j] = blocks[j], blocks[i] })
			// a linear extension of first-half < second-half, prepare < flush
			at := map[ilBlock]int{}
			for i, b := range blocks {
				at[b] = i
			}
			fix := func(a, b ilBlock) {
				i, ok1 := at[a]
				j, ok2 := at[b]
				if ok1 && ok2 && i > j {
					blocks[i], blocks[j] = blocks[j], blocks[i]
					at[a], at[b] = j, i
				}
			}
			fix(PF, FL)
			for _, it := range items {
				if !it.flush {
					fix(g1(it.row), g2(it.row))
				}
			}
			if !h.episode(items, blocks) {
				return
			}
			if rng.Intn(3) != 0 {
				h.flushMeta()
			}
			h.postings()
		}
		if h.stuck || !h.restart(rng.Intn(4) != 0) {
			return
		}
	}
}
