CONSTANTS
  CommitSeqBeforeWrite = FALSE
  FreezeBeforeMetaFlush = FALSE
SPECIFICATION TraceSpec
INVARIANTS AckNotAhead NoLoss NoReapply FlushedResolves NoIdReuse
CONSTRAINT HighWater
POSTCONDITION TraceAccepted
CHECK_DEADLOCK FALSE
