\* deviation: Evict ignores the reference count -- must violate EvictOnlyIdle
CONSTANTS
  Leader = {1}
  MaxRow = 2
  MaxObj = 2
  MaxDb = 3
  MaxFail = 1
  MaxRef = 1
  DoubleWindow = FALSE
  CloseLocksFirst = FALSE
  RetryFailed = TRUE
  ClosedRejects = TRUE
  AtomicWrite = TRUE
  RegisterAtGet = TRUE
  AtomicEvict = TRUE
  UniqueStamp = TRUE
  EvictChecksRef = FALSE
  EvictChecksMem = TRUE
  CloseFlushes = TRUE
  AckFrozen = TRUE
SPECIFICATION MCSpec
INVARIANTS EvictOnlyIdle
CHECK_DEADLOCK FALSE
