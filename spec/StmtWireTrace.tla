--------------------------- MODULE StmtWireTrace ---------------------------
(* Trace validation of the real parser and the real statement wire (harness `vdrive stmtwire`)       *)
(* against StmtWire.  The driver logs projections of the REAL trees: before the wire (a), after it   *)
(* (b), of a second parse (a2), and the real bytes of stmt.Marshal as a JSON value (w).  All events   *)
(* are pure; the judgement is the enabling condition of the event's action.                          *)
EXTENDS StmtWire, Json

Trace == ndJsonDeserialize("trace.ndjson")
VARIABLE l
tvars == <<vars, l>>
ASSUME TLCSet(1, 0)
Ev(e) == l <= Len(Trace) /\ Trace[l].ev = e /\ l' = l + 1
Line == Trace[l]
NoneAt(lvl) == {}

TraceInit == l = 1 /\ mode = "trace" /\ x = Nil /\ d = 0
TReset == Ev("Reset") /\ UNCHANGED vars

\* sql.Parse twice on the same text: equal statements (the clock is an input when no absolute range is given)
TParse == Ev("Parse") /\ SameModuloClock(Line.a, Line.a2, Line.abs) /\ UNCHANGED vars
\* ... and a text the parser rejects is rejected both times
TParseError == Ev("ParseError") /\ Line.e1 = Line.e2 /\ UNCHANGED vars

\* stmt.Query / stmt.MetricMetadata: MarshalJSON -> UnmarshalJSON (what query/leaf_processor.go does)
StmtSurvives(e) == e.err = "" /\ WellFormedStmt(e.a) /\ Survives(e.a, e.b)
TWire == Ev("Wire") /\ StmtSurvives(Line) /\ UNCHANGED vars
\* the payload RootMetricContext.MakePlan put into the task request, unmarshalled as the leaf does
TPlanWire == Ev("PlanWire") /\ StmtSurvives(Line) /\ UNCHANGED vars

\* stmt.Marshal / stmt.Unmarshal on one expression tree: the real bytes are the specified envelope,
\* the real decoder returns the tree, and so does the specified decoder on the real bytes
TExprWire ==
  /\ Ev("ExprWire")
  /\ Line.err = ""
  /\ WellFormed(Line.a)
  /\ Line.w = Enc(Line.a)
  /\ Survives(Line.a, Line.b)
  /\ Dec(Line.w) = Line.a
  /\ UNCHANGED vars

TraceNext == TReset \/ TParse \/ TParseError \/ TWire \/ TPlanWire \/ TExprWire
TraceSpec == TraceInit /\ [][TraceNext]_tvars

HighWater == TLCSet(1, IF l > TLCGet(1) THEN l ELSE TLCGet(1))
TraceAccepted ==
  LET hw == TLCGet(1) IN
  IF hw = Len(Trace) + 1 THEN TRUE
  ELSE /\ PrintT(<<"TRACE-REJECTED-AT-LINE", hw>>)
       /\ FALSE
=============================================================================
