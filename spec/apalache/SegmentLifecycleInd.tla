------------------------- MODULE SegmentLifecycleInd -------------------------
(***************************************************************************)
(* The repaired design of SegmentLifecycle (a closed segment object refuses *)
(* families, a closed family object refuses rows) satisfies its properties  *)
(* for ANY number of steps, with up to MaxObj segment objects, MaxFam       *)
(* family objects and MaxRow rows: an inductive invariant discharged by     *)
(* Apalache (Init => IndInv; IndInv /\ Next => IndInv'; IndInv => Safety),  *)
(* where TLC explores 3-4 objects / families / rows.  Two more obligations   *)
(* keep the argument honest: NotVacuous must be violated, and the inductive *)
(* step must FAIL for the code before the repair 129c8b7.                   *)
(***************************************************************************)
EXTENDS SegmentLifecycle, Apalache

IndInv ==
  /\ nobj \in 0..MaxObj /\ nfam \in 0..MaxFam /\ segMap \in 0..nobj /\ next \in 1..(MaxRow + 1)
  /\ \A o \in Obj : (st[o] = "none") <=> (o > nobj)
  /\ \A f \in Fam : ((fst[f] = "none") <=> (f > nfam)) /\ (f <= nfam => fseg[f] \in 1..nobj) /\ (f > nfam => fmem[f] = {})
  /\ \A o \in Obj : cached[o] \in 0..nfam
  /\ \A w \in Writer : /\ wpc[w] \in {"idle", "gotseg", "gotfam"}
                       /\ wseg[w] \in 0..nobj /\ wfam[w] \in 0..nfam
                       /\ (wpc[w] # "idle" => wseg[w] >= 1) /\ (wpc[w] = "gotfam" => wfam[w] >= 1)
  /\ imutex \in {"free", "evict"} /\ ev \in {"idle", "check", "closing"}
  /\ (ev = "idle") <=> (imutex = "free")
  /\ ev # "idle" => segMap >= 1
  \* only the object of the map is open
  /\ \A o \in Obj : st[o] = "open" <=> (o = segMap /\ segMap # 0)
  \* the family of a map is a live family of that (open) object; a live family is the family of its object's map
  /\ \A o \in Obj : cached[o] # 0 => (fst[cached[o]] = "live" /\ fseg[cached[o]] = o /\ st[o] = "open")
  /\ \A f \in Fam : fst[f] = "live" => cached[fseg[f]] = f
  \* rows sit only in live families; nothing failed, nothing is late
  /\ \A f \in Fam : fmem[f] # {} => fst[f] = "live"
  /\ \A f \in Fam : ~stuck[f]
  /\ late = {} /\ ~failed
  /\ \A f \in Fam : fmem[f] \subseteq 1..(next - 1)
  /\ flushed \subseteq 1..(next - 1)
  /\ \A r \in Row : r < next => (r \in flushed \/ \E f \in Fam : r \in fmem[f])

IndInit ==
  /\ segMap \in 0..MaxObj /\ nobj \in 0..MaxObj /\ nfam \in 0..MaxFam /\ next \in 1..(MaxRow + 1)
  /\ st \in [Obj -> {"none", "open", "closed"}] /\ cached \in [Obj -> 0..MaxFam]
  /\ fseg \in [Fam -> 0..MaxObj] /\ fst \in [Fam -> {"none", "live", "closed"}]
  /\ fmem \in [Fam -> SUBSET Row] /\ stuck \in [Fam -> BOOLEAN]
  /\ flushed \in SUBSET Row /\ late \in SUBSET Row
  /\ wpc \in [Writer -> {"idle", "gotseg", "gotfam"}] /\ wseg \in [Writer -> 0..MaxObj] /\ wfam \in [Writer -> 0..MaxFam]
  /\ imutex \in {"free", "evict"} /\ ev \in {"idle", "check", "closing"} /\ failed \in BOOLEAN
  /\ IndInv

Safety == TypeOK /\ OneOpenStore /\ MapIsOpen /\ NoOrphanFamily /\ NoLateWrite /\ AcceptedCanBeDurable /\ NoFailedFlush

\* IndInit has models with an evicted object, a second object with a live family holding rows, and a writer on the old handle
NotVacuous == ~(nobj >= 2 /\ segMap = 2 /\ st[1] = "closed" /\ cached[2] # 0 /\ fmem[cached[2]] # {} /\ flushed # {}
                /\ \E w \in Writer : wpc[w] = "gotseg" /\ wseg[w] = 1)

CInit == /\ Writer = {"w1", "w2"} /\ MaxObj = 7 /\ MaxFam = 7 /\ MaxRow = 6
         /\ ClosedSegmentRejects = TRUE /\ ClosedFamilyRejects = TRUE
\* the code before the repair 129c8b7: the inductive step MUST fail
CInitOrphan == /\ Writer = {"w1", "w2"} /\ MaxObj = 7 /\ MaxFam = 7 /\ MaxRow = 6
               /\ ClosedSegmentRejects = FALSE /\ ClosedFamilyRejects = TRUE
=============================================================================
