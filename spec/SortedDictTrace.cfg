CONSTANTS
  Deviation_SeekExactOnlyWhenProbeIsPrefix = TRUE
  Deviation_RegexScansLiteralPrefixOnly = FALSE
SPECIFICATION TraceSpec
CONSTRAINT HighWater
POSTCONDITION TraceAccepted
CHECK_DEADLOCK FALSE
