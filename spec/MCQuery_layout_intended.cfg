CONSTANTS
  DevPartial = FALSE
  DevOrder = FALSE
  DevMulti = FALSE
  DevCompute = FALSE
  DevEmptySeries = FALSE
  DevHide = FALSE
  DevWindow = FALSE
  DevLikeStar = FALSE
  DevSwallow = FALSE
  MCSids = {1}
  MCOffs = {0}
  MCVals = {1}
  MaxRows = 0
  MCIntervals = {0, 600, 7200}
  MCCompleteErases = FALSE
  MCTolerantPerTarget = TRUE
  MCShards = 1
SPECIFICATION LSpec
INVARIANTS NotFoundIsTolerated ErrorIsReported
CHECK_DEADLOCK FALSE
