CONSTANTS
  Name = {"a", "b"}
  Thread = {t1, t2}
  MaxObj = 4
  MaxFlush = 3
  UseStoreSchema = TRUE
  MarkWritten = TRUE
  EpochGuard = TRUE
  MergeAll = TRUE
SPECIFICATION Spec
INVARIANTS Stable Injective Function
CHECK_DEADLOCK FALSE
