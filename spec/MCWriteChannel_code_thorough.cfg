CONSTANTS
  Node = {n1, n2}
  None = None
  K = 2
  ChCap = 2
  MaxRetry = 1
  RetryDup = TRUE
  StopDropsRetry = TRUE
  StickyNotify = TRUE
  StopChunkFirst = TRUE
  RetryOnTick = FALSE
  TimerPushUnguarded = TRUE
  CloseOnDrop = FALSE
  MaxRow = 6
  MaxFaults = 2
  MaxLeader = 2
  AllowStop = TRUE
  AllowCancel = TRUE
  AllowAbort = TRUE
  AllowTimer = TRUE
  FaultsOnlyBeforeStop = FALSE
SPECIFICATION MCSpec
SYMMETRY Sym
INVARIANTS TypeOK Conservation ChunksAreRuns FaultFreeOnce
CHECK_DEADLOCK FALSE
