------------------------ MODULE WriteChannelTrace ------------------------
(* Trace validation of a REAL replica family channel (`vdrive wchan`): the channel manager is real, the stream   *)
(* factory / write client / stream are the harness's and park the writeTask goroutine at every call (create the  *)
(* client, Send, CloseSend) until the driver releases it with the result it chose.  One event per action of      *)
(* WriteChannel.  What the harness cannot see is left to TLC: the leader-changed signal consumed while there is  *)
(* no stream (`THidden`), and whether a chunk taken after Stop was taken by the select loop or by sendBeforeStop *)
(* (`TBegin` / `TClose` are disjunctions); every branch is bound again by the next Send (rows, node) and Proj.   *)
EXTENDS WriteChannel, Json

Trace == ndJsonDeserialize("trace.ndjson")
VARIABLE l
tvars == <<vars, l>>
ASSUME TLCSet(1, 0)
Ev(e) == l <= Len(Trace) /\ Trace[l].ev = e /\ l' = l + 1
Line == Trace[l]

TraceInit == l = 1 /\ Init
TReset ==
  /\ Ev("Reset")
  /\ leader' = Line.leader /\ notify' = FALSE /\ sig' = FALSE
  /\ next' = 1 /\ chunk' = << >> /\ ch' = << >> /\ closed' = FALSE /\ wb' = None
  /\ pc' = "idle" /\ cur' = << >> /\ src' = "ch" /\ todo' = << >> /\ tgt' = None /\ stream' = None /\ open' = 0
  /\ retry' = << >> /\ phase' = "run" /\ cancelled' = FALSE
  /\ acked' = {} /\ deliv' = << >> /\ lost' = NoLoss /\ faults' = 0

TWriteRow == Ev("WriteRow") /\ Line.r = next /\ WriteRow(Line.out)
TWritePush == Ev("WritePush") /\ WritePush
TWriteAbort == Ev("WriteAbort") /\ WriteAbort(Line.why)
TLeaderChange == Ev("LeaderChange") /\ LeaderChange(Line.node)
TStop == Ev("Stop") /\ Stop
TCancel == Ev("Cancel") /\ Cancel
TTimerFlush == Ev("TimerFlush") /\ TimerFlush /\ (Line.blocked <=> pc' = "tblocked") /\ phase' = "run"
TTimerUnblock == Ev("TimerUnblock") /\ TimerUnblock /\ phase' = "run"
\* a send(cur) invocation of the task begins: a chunk from ch, the nil of the closed ch (retry loop), the next
\* chunk of a running retry loop (already begun in the model), or a chunk of sendBeforeStop
TBegin ==
  /\ Ev("Begin")
  /\ IF pc = "send" THEN src = "loop" /\ UNCHANGED vars
     ELSE Take \/ NilTake \/ StopChunk \/ StopTake \/ StopRetry
TDial == Ev("Dial") /\ Dial /\ tgt' = Line.node
TCreated == Ev("Created") /\ Created(Line.ok)
TSend ==
  /\ Ev("Send")
  /\ (Line.known => Line.rows = cur) /\ Line.node = stream
  /\ Send(Line.res)
TSigClose == Ev("SigClose") /\ SigClose
\* a CloseSend after Stop: the signal handler or the deferred Close of the returning task
TClose == Ev("Close") /\ (SigClose \/ (stream # None /\ StopDone))
TStopped == Ev("Stopped") /\ IF phase = "done" THEN UNCHANGED vars ELSE stream = None /\ StopDone
\* not observable: the signal consumed while there is no stream
THidden == l <= Len(Trace) /\ SigNil /\ UNCHANGED l

TProj ==
  /\ Ev("Proj")
  /\ Line.chlen = Len(ch)
  /\ Line.csize = Len(chunk)
  /\ Line.notify = notify
  /\ Line.open = open
  /\ Line.ndeliv = Len(deliv)
  /\ UNCHANGED vars

TraceNext ==
  \/ TReset \/ TWriteRow \/ TWritePush \/ TWriteAbort \/ TLeaderChange \/ TStop \/ TCancel \/ TTimerFlush
  \/ TTimerUnblock \/ TBegin \/ TDial \/ TCreated \/ TSend \/ TSigClose \/ TClose \/ TStopped \/ TProj \/ THidden
TraceSpec == TraceInit /\ [][TraceNext]_tvars
HighWater == TLCSet(1, IF l > TLCGet(1) THEN l ELSE TLCGet(1))
TraceAccepted ==
  LET hw == TLCGet(1) IN
  IF hw = Len(Trace) + 1 THEN TRUE
  ELSE /\ PrintT(<<"TRACE-REJECTED-AT-LINE", hw>>)
       /\ FALSE
=============================================================================
