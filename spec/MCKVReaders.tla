---------------------------- MODULE MCKVReaders ----------------------------
(* Concurrency instance of KVStore for C02: on one open family, readers       *)
(* (snapshot / close), a flusher, a level-0 compaction (holds its own         *)
(* snapshot, installs its result, un-pends its output, then cleans up) and an *)
(* independent obsolete-file cleanup (the rollup goroutine's) interleave at   *)
(* the granularity of the code's critical sections.  The cleanup is split the *)
(* way family.deleteObsoleteFiles is: list the directory, collect pending     *)
(* outputs, collect files of active versions, collect live rollup files,      *)
(* remove.  Mutation switches show what the ordering protects.                *)
(* Several flushers (constant Flusher) commit to the same family; with the    *)
(* switch BaseBeforeLock a committer reads the version it will extend BEFORE  *)
(* it enters the version-set lock (instead of inside, after the manifest      *)
(* append): two overlapping commits then start from the same version and the  *)
(* later install drops the earlier commit.                                    *)
EXTENDS KVStore

CONSTANTS Reader, Flusher, MaxFlush, MaxCompact, MaxCleanup,
          CollectActiveFirst,   \* cleanup collects active versions BEFORE pending outputs
          UnpendEarly,          \* compaction un-pends its output when the table is closed (seeded change C02a)
          BaseBeforeLock        \* a commit reads its base version before it takes the version-set lock (seeded change C02f)

VARIABLES fl, cp, cl, nflush, ncompact, ncleanup
mcvars == <<vars, fl, cp, cl, nflush, ncompact, ncleanup>>

F == 1     \* the family under test
IdleFl == [pc |-> "idle", num |-> 0, base |-> EmptyV]
IdleCl == [pc |-> "idle", listing |-> {}, live |-> {}]
NoCp == [pc |-> "idle", num |-> 0, ins |-> {}]

MCInit ==
  /\ optfams = {F} /\ manifests = (1 :> << >>) /\ current = 1 /\ currentTmp = 0 /\ tables = {}
  /\ phase = "ready" /\ fams = {F} /\ nfn = 2 /\ mfn = 1 /\ openMan = 1
  /\ ver = (F :> EmptyV) /\ pending = {} /\ snapTodo = {} /\ snaps = Empty
  /\ committed = (F :> EmptyV) /\ ccontent = (F :> {})
  /\ fl = [w \in Flusher |-> IdleFl] /\ cp = NoCp
  /\ cl = [c \in {"own", "other"} |-> IdleCl]
  /\ nflush = 0 /\ ncompact = 0 /\ ncleanup = 0

Cnt == UNCHANGED <<nflush, ncompact, ncleanup>>
NFN == IF NoNextFileNumberLog THEN 0 ELSE nfn

\* ---- readers
RAcquire(r) == SnapAcquire(r, F) /\ UNCHANGED <<fl, cp, cl>> /\ Cnt
RClose(r) == SnapClose(r) /\ UNCHANGED <<fl, cp, cl>> /\ Cnt

\* ---- flushers (storeFlusher.Add / Commit; CommitFamilyEditLog is one critical section: FlCommit)
FlAlloc(w) == /\ fl[w].pc = "idle" /\ nflush < MaxFlush /\ TableAlloc(F, nfn)
              /\ fl' = [fl EXCEPT ![w] = [IdleFl EXCEPT !.pc = "create", !.num = nfn]]
              /\ nflush' = nflush + 1 /\ UNCHANGED <<cp, cl, ncompact, ncleanup>>
FlCreate(w) == /\ fl[w].pc = "create" /\ TableCreate(F, fl[w].num)
               /\ fl' = [fl EXCEPT ![w].pc = "close"] /\ UNCHANGED <<cp, cl>> /\ Cnt
FlClose(w) == /\ fl[w].pc = "close" /\ TableClose(F, fl[w].num, {<<1, fl[w].num>>})
              /\ fl' = [fl EXCEPT ![w].pc = IF BaseBeforeLock THEN "base" ELSE "commit"] /\ UNCHANGED <<cp, cl>> /\ Cnt
\* only with BaseBeforeLock: the base version is read outside the lock, other commits may follow before FlCommit
FlBase(w) == /\ fl[w].pc = "base"
             /\ fl' = [fl EXCEPT ![w].pc = "commit", ![w].base = ver[F]] /\ UNCHANGED <<vars, cp, cl>> /\ Cnt
FlCommit(w) == /\ fl[w].pc = "commit"
               /\ CommitOn(IF BaseBeforeLock THEN fl[w].base ELSE ver[F],
                           Rec(F, {<<0, fl[w].num>>}, {}, -1, NFN, {}, {}), {<<1, fl[w].num>>})
               /\ fl' = [fl EXCEPT ![w].pc = "unpend", ![w].base = EmptyV] /\ UNCHANGED <<cp, cl>> /\ Cnt
FlUnpend(w) == /\ fl[w].pc = "unpend" /\ Unpend(F, fl[w].num)
               /\ fl' = [fl EXCEPT ![w] = IdleFl] /\ UNCHANGED <<cp, cl>> /\ Cnt

\* ---- compaction (backgroundCompactionJob): snapshot, output, install, un-pend, close snapshot, cleanup
L0 == {x \in ver[F].files : x[1] = 0}
CpStart == /\ cp.pc = "idle" /\ ncompact < MaxCompact /\ Cardinality(L0) >= 2
           /\ SnapAcquire("cp", F)
           /\ cp' = [pc |-> "create", num |-> 0, ins |-> L0]
           /\ ncompact' = ncompact + 1 /\ UNCHANGED <<fl, cl, nflush, ncleanup>>
CpAlloc == /\ cp.pc = "create" /\ TableAlloc(F, nfn)
           /\ cp' = [cp EXCEPT !.pc = "create2", !.num = nfn] /\ UNCHANGED <<fl, cl>> /\ Cnt
CpCreate == /\ cp.pc = "create2" /\ TableCreate(F, cp.num)
            /\ cp' = [cp EXCEPT !.pc = "close"] /\ UNCHANGED <<fl, cl>> /\ Cnt
CpClose == /\ cp.pc = "close"
           /\ TableClose(F, cp.num, UNION {TableOf(F, x[2]).content : x \in cp.ins})
           /\ cp' = [cp EXCEPT !.pc = IF UnpendEarly THEN "early" ELSE "install"] /\ UNCHANGED <<fl, cl>> /\ Cnt
CpEarly == /\ cp.pc = "early" /\ Unpend(F, cp.num)
           /\ cp' = [cp EXCEPT !.pc = "install"] /\ UNCHANGED <<fl, cl>> /\ Cnt
\* the output must still be on disk when it is installed (else the committed version is broken)
CpInstall == /\ cp.pc = "install"
             /\ IF UnpendEarly
                  THEN \* commitEditLog does not look at the file: it installs whatever it was told
                       /\ manifests' = [manifests EXCEPT ![openMan] = Append(@, Rec(F, {<<1, cp.num>>}, cp.ins, -1, NFN, {}, {}))]
                       /\ ver' = [ver EXCEPT ![F] = ApplyV(@, Rec(F, {<<1, cp.num>>}, cp.ins, -1, NFN, {}, {}))]
                       /\ committed' = [committed EXCEPT ![F] = ApplyV(@, Rec(F, {<<1, cp.num>>}, cp.ins, -1, NFN, {}, {}))]
                       /\ IF NFN > 0 THEN mfn' = NFN /\ nfn' = NFN + 1 ELSE UNCHANGED <<mfn, nfn>>
                       /\ UNCHANGED <<optfams, current, currentTmp, tables, phase, fams, openMan, pending, snapTodo, snaps, ccontent>>
                  ELSE Commit(Rec(F, {<<1, cp.num>>}, cp.ins, -1, NFN, {}, {}), {})
             /\ cp' = [cp EXCEPT !.pc = IF UnpendEarly THEN "snapclose" ELSE "unpend"] /\ UNCHANGED <<fl, cl>> /\ Cnt
CpUnpend == /\ cp.pc = "unpend" /\ Unpend(F, cp.num)
            /\ cp' = [cp EXCEPT !.pc = "snapclose"] /\ UNCHANGED <<fl, cl>> /\ Cnt
CpSnapClose == /\ cp.pc = "snapclose" /\ SnapClose("cp")
               /\ cp' = [cp EXCEPT !.pc = "cleanup"] /\ UNCHANGED <<fl, cl>> /\ Cnt
CpCleanupStart == /\ cp.pc = "cleanup" /\ cl["own"].pc = "idle"
                  /\ cl' = [cl EXCEPT !["own"] = [IdleCl EXCEPT !.pc = "list"]]
                  /\ cp' = NoCp /\ UNCHANGED <<vars, fl>> /\ Cnt

\* ---- family.deleteObsoleteFiles, split as in the code
OnDisk == {t.num : t \in {x \in tables : x.fam = F}}
PendingNums == {p[2] : p \in {q \in pending : q[1] = F}}
ActiveNums == FileNums(F) \cup SnapNums(F)
OtherStart == /\ cl["other"].pc = "idle" /\ ncleanup < MaxCleanup
              /\ cl' = [cl EXCEPT !["other"] = [IdleCl EXCEPT !.pc = "list"]]
              /\ ncleanup' = ncleanup + 1 /\ UNCHANGED <<vars, fl, cp, nflush, ncompact>>
ClList(c) == /\ cl[c].pc = "list"
             /\ cl' = [cl EXCEPT ![c] = [pc |-> "c1", listing |-> OnDisk, live |-> {}]]
             /\ UNCHANGED <<vars, fl, cp>> /\ Cnt
ClCollect1(c) == /\ cl[c].pc = "c1"
                 /\ cl' = [cl EXCEPT ![c].pc = "c2", ![c].live = IF CollectActiveFirst THEN ActiveNums ELSE PendingNums]
                 /\ UNCHANGED <<vars, fl, cp>> /\ Cnt
ClCollect2(c) == /\ cl[c].pc = "c2"
                 /\ cl' = [cl EXCEPT ![c].pc = "c3", ![c].live = @ \cup (IF CollectActiveFirst THEN PendingNums ELSE ActiveNums)]
                 /\ UNCHANGED <<vars, fl, cp>> /\ Cnt
ClCollect3(c) == /\ cl[c].pc = "c3"
                 /\ cl' = [cl EXCEPT ![c].pc = "rm", ![c].live = @ \cup RollupNums(F)]
                 /\ UNCHANGED <<vars, fl, cp>> /\ Cnt
\* the removal the CODE performs: decided by the collected (possibly stale) live set
ClRemove(c) == /\ cl[c].pc = "rm"
               /\ \E n \in (cl[c].listing \ cl[c].live) \cap OnDisk :
                    /\ tables' = {t \in tables : ~(t.fam = F /\ t.num = n)}
                    /\ UNCHANGED <<optfams, manifests, current, currentTmp, phase, fams, nfn, mfn, openMan, ver,
                                   pending, snapTodo, snaps, committed, ccontent>>
               /\ UNCHANGED <<fl, cp, cl>> /\ Cnt
ClDone(c) == /\ cl[c].pc = "rm" /\ (cl[c].listing \ cl[c].live) \cap OnDisk = {}
             /\ cl' = [cl EXCEPT ![c] = IdleCl] /\ UNCHANGED <<vars, fl, cp>> /\ Cnt

MCNext == (\E r \in Reader : RAcquire(r) \/ RClose(r))
          \/ (\E w \in Flusher : FlAlloc(w) \/ FlCreate(w) \/ FlClose(w) \/ FlBase(w) \/ FlCommit(w) \/ FlUnpend(w))
          \/ CpStart \/ CpAlloc \/ CpCreate \/ CpClose \/ CpEarly \/ CpInstall \/ CpUnpend \/ CpSnapClose \/ CpCleanupStart
          \/ OtherStart \/ (\E c \in {"own", "other"} : ClList(c) \/ ClCollect1(c) \/ ClCollect2(c) \/ ClCollect3(c) \/ ClRemove(c) \/ ClDone(c))
MCSpec == MCInit /\ [][MCNext]_mcvars

\* every removal the code performs is a removal the specification's RemoveTable allows:
\* the file is in no active version, not pending, not a live rollup file at that moment
CleanupRemovesOnlyDead ==
  [][\A t \in {x \in tables : ~\E y \in tables' : y.fam = x.fam /\ y.num = x.num} : t.num \notin (FileNums(t.fam) \cup SnapNums(t.fam) \cup RollupNums(t.fam)
                                               \cup {p[2] : p \in {q \in pending : q[1] = t.fam}})]_mcvars
=============================================================================
