CONSTANTS
  Alphabet = {0, 1, 2}
  MaxLen = 2
  MaxKeys = 3
  Deviation_SeekExactOnlyWhenProbeIsPrefix = FALSE
  Deviation_RegexScansLiteralPrefixOnly = TRUE
SPECIFICATION MCSpec
INVARIANTS PatternScanIsComplete
CHECK_DEADLOCK FALSE
