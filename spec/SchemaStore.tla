---------------------------- MODULE SchemaStore ----------------------------
(***************************************************************************)
(* The metric schema store (index/metric_schema_store.go): field ids of    *)
(* one metric, at the level of its lock sections -- part of property C09.  *)
(* A schema is a heap OBJECT shared between the mutable store, the         *)
(* immutable store (being flushed) and the cache; get-or-create reads the  *)
(* schema without the lock (memory, cache, kv snapshot) and then adds the  *)
(* field under the lock; the flush writes the unpersisted entries of the   *)
(* immutable objects, marks entries persisted, drops the immutable store   *)
(* and purges the cache.                                                   *)
(*                                                                         *)
(* Three protective steps of the code are switches; each was missing in    *)
(* the pinned tree and was found by the C09 check (fix commits 27d500b,    *)
(* 0af2576, 272a4b9):                                                      *)
(*   UseStoreSchema  the lock section works on the schema that is in the   *)
(*                   mutable store, not on the one it looked up            *)
(*   MarkWritten     the flush marks persisted exactly what it wrote       *)
(*   EpochGuard      a schema loaded before a completed flush is neither   *)
(*                   cached nor used by get-or-create                      *)
(*                                                                         *)
(* Storage level: every flush leaves one FILE with the entries it wrote    *)
(* (a delta: only what was not marked persisted); a lookup that misses     *)
(* memory and cache reads the union of all files.  The level-0 compaction  *)
(* of the family (kv job scheduler / Family.Compact, background job, any   *)
(* time) picks the files that exist, merges them with the family's merger  *)
(* (index/v1/metric_schema_merger.go) and installs the output in place of  *)
(* its inputs.  Switch                                                     *)
(*   MergeAll        the merged file holds every entry of its inputs (the  *)
(*                   merger loads the input blocks as NOT persisted, so    *)
(*                   the delta-only writer writes them all again); FALSE = *)
(*                   the inputs are loaded "already persisted", the writer *)
(*                   skips them and the output is empty                    *)
(***************************************************************************)
EXTENDS Integers, Sequences, FiniteSets, TLC

CONSTANTS Name, Thread, MaxObj, MaxFlush,
          UseStoreSchema, MarkWritten, EpochGuard, MergeAll

VARIABLES
  files,    \* Seq(set of [name, id]): the files of the family, oldest first (a flush appends one)
  cj,       \* compaction job: number of files it picked (the oldest cj files), 0 = no job
  heap,     \* Seq(set of [name, id, p]): schema objects; p = marked persisted
  mut, imm, cache,   \* object index or 0
  flushes,  \* completed flushes
  fl,       \* flusher: [pc, snap]  snap = [obj -> entries copied / written]
  th,       \* [Thread -> [pc, name, ref, e]]
  ret       \* ghost: set of [name, id] returned to callers

vars == <<files, cj, heap, mut, imm, cache, flushes, fl, th, ret>>

\* what a reader of the current version sees: the persisted entries of all files together
kv == UNION {files[i] : i \in 1..Len(files)}

Idle == [pc |-> "idle", name |-> "", ref |-> 0, e |-> 0]
Init ==
  /\ files = << >> /\ cj = 0 /\ heap = << >> /\ mut = 0 /\ imm = 0 /\ cache = 0 /\ flushes = 0
  /\ fl = [pc |-> "idle", snap |-> {}, n |-> 0]
  /\ th = [t \in Thread |-> Idle] /\ ret = {}

Ents(o) == IF o = 0 THEN {} ELSE heap[o]
Strip(E) == {[name |-> x.name, id |-> x.id] : x \in E}
IdOf(E, nm) == (CHOOSE x \in E : x.name = nm).id
Has(E, nm) == \E x \in E : x.name = nm

\* ---- get-or-create, step 1: GetSchema without the lock (memory, cache, else start a kv load)
Begin(t, nm) ==
  /\ th[t].pc = "idle"
  /\ IF mut # 0 THEN th' = [th EXCEPT ![t] = [pc |-> "locked?", name |-> nm, ref |-> mut, e |-> flushes]]
     ELSE IF imm # 0 THEN th' = [th EXCEPT ![t] = [pc |-> "locked?", name |-> nm, ref |-> imm, e |-> flushes]]
     ELSE IF cache # 0 THEN th' = [th EXCEPT ![t] = [pc |-> "locked?", name |-> nm, ref |-> cache, e |-> flushes]]
     ELSE th' = [th EXCEPT ![t] = [pc |-> "load", name |-> nm, ref |-> 0, e |-> flushes]]
  /\ UNCHANGED <<files, cj, heap, mut, imm, cache, flushes, fl, ret>>

\* ... the kv snapshot is read: a fresh object with everything persisted so far (nil if nothing is)
Load(t) ==
  /\ th[t].pc = "load" /\ Len(heap) < MaxObj
  /\ IF kv = {} THEN /\ th' = [th EXCEPT ![t].pc = "locked?"] /\ UNCHANGED heap
     ELSE /\ heap' = Append(heap, {[name |-> x.name, id |-> x.id, p |-> TRUE] : x \in kv})
          /\ th' = [th EXCEPT ![t].pc = "cacheadd", ![t].ref = Len(heap) + 1]
  /\ UNCHANGED <<files, cj, mut, imm, cache, flushes, fl, ret>>

\* ... and cached
CacheAdd(t) ==
  /\ th[t].pc = "cacheadd"
  /\ cache' = IF EpochGuard /\ flushes # th[t].e THEN cache ELSE th[t].ref
  /\ th' = [th EXCEPT ![t].pc = "locked?"]
  /\ UNCHANGED <<files, cj, heap, mut, imm, flushes, fl, ret>>

\* ---- step 2: the lock section
Finish(t, o, h) ==       \* find or append in object o of heap h
  LET nm == th[t].name IN
  IF Has(h[o], nm)
    THEN /\ heap' = h /\ ret' = ret \cup {[name |-> nm, id |-> IdOf(h[o], nm)]}
    ELSE /\ heap' = [h EXCEPT ![o] = @ \cup {[name |-> nm, id |-> Cardinality(@), p |-> FALSE]}]
         /\ ret' = ret \cup {[name |-> nm, id |-> Cardinality(h[o])]}

LockSection(t) ==
  /\ th[t].pc = "locked?"
  /\ IF EpochGuard
       THEN \* lockSchema: memory stores under the lock, a loaded schema only if no flush completed since
            IF mut # 0 THEN /\ Finish(t, mut, heap) /\ UNCHANGED mut /\ th' = [th EXCEPT ![t] = Idle]
            ELSE IF imm # 0 THEN /\ Finish(t, imm, heap) /\ mut' = imm /\ th' = [th EXCEPT ![t] = Idle]
            ELSE IF flushes = th[t].e
              THEN IF th[t].ref # 0
                     THEN /\ Finish(t, th[t].ref, heap) /\ mut' = th[t].ref /\ th' = [th EXCEPT ![t] = Idle]
                     ELSE /\ Len(heap) < MaxObj
                          /\ Finish(t, Len(heap) + 1, Append(heap, {})) /\ mut' = Len(heap) + 1
                          /\ th' = [th EXCEPT ![t] = Idle]
              ELSE \* load again
                   /\ th' = [th EXCEPT ![t] = [pc |-> "idle", name |-> "", ref |-> 0, e |-> 0]]
                   /\ UNCHANGED <<heap, mut, ret>>
       ELSE \* the code before the repairs: PutIfNotExist(looked-up schema), work on it (or on the stored one)
            LET fresh == th[t].ref = 0
                h0 == IF fresh THEN Append(heap, {}) ELSE heap
                r == IF fresh THEN Len(heap) + 1 ELSE th[t].ref
                m == IF mut = 0 THEN r ELSE mut
                o == IF UseStoreSchema THEN m ELSE r
            IN /\ (fresh => Len(heap) < MaxObj)
               /\ Finish(t, o, h0) /\ mut' = m /\ th' = [th EXCEPT ![t] = Idle]
  /\ UNCHANGED <<files, cj, imm, cache, flushes, fl>>

\* ---- the flusher
PrepareFlush ==
  /\ fl.pc = "idle" /\ fl.n < MaxFlush
  /\ IF imm = 0 THEN imm' = mut /\ mut' = 0 ELSE UNCHANGED <<imm, mut>>
  /\ fl' = [fl EXCEPT !.pc = "prepared", !.n = @ + 1]
  /\ UNCHANGED <<files, cj, heap, cache, flushes, th, ret>>

\* the entries that will be written (a copy under the lock -- or, before the repair, simply what is there now)
FlushWrite ==
  /\ fl.pc = "prepared"
  /\ IF imm = 0 THEN fl' = [fl EXCEPT !.pc = "idle"] /\ UNCHANGED files
     ELSE /\ LET delta == Strip({x \in heap[imm] : ~x.p}) IN
             files' = IF delta = {} THEN files ELSE Append(files, delta)   \* NeedWrite: nothing new, no block
          /\ fl' = [fl EXCEPT !.pc = "written", !.snap = Strip(heap[imm])]
  /\ UNCHANGED <<cj, heap, mut, imm, cache, flushes, th, ret>>

FlushMark ==
  /\ fl.pc = "written"
  /\ heap' = [heap EXCEPT ![imm] = {[name |-> x.name, id |-> x.id,
                                     p |-> IF MarkWritten THEN (x.p \/ [name |-> x.name, id |-> x.id] \in fl.snap) ELSE TRUE] : x \in @}]
  /\ imm' = 0 /\ cache' = 0 /\ flushes' = flushes + 1
  /\ fl' = [fl EXCEPT !.pc = "idle", !.snap = {}]
  /\ UNCHANGED <<files, cj, mut, th, ret>>

\* ---- level-0 compaction of the family (background job; Family.Compact: more than one file)
CompactPick ==
  /\ cj = 0 /\ Len(files) > 1
  /\ cj' = Len(files)
  /\ UNCHANGED <<files, heap, mut, imm, cache, flushes, fl, th, ret>>

\* the merger's output replaces the picked files in one version edit; files flushed meanwhile stay.
\* The store neither purges its cache nor counts this as a flush: the content did not change.
CompactInstall ==
  /\ cj > 0
  /\ LET inputs == UNION {files[i] : i \in 1..cj}
         merged == IF MergeAll THEN inputs ELSE {}
     IN files' = <<merged>> \o SubSeq(files, cj + 1, Len(files))
  /\ cj' = 0
  /\ UNCHANGED <<heap, mut, imm, cache, flushes, fl, th, ret>>

Next ==
  \/ \E t \in Thread, nm \in Name : Begin(t, nm)
  \/ \E t \in Thread : Load(t) \/ CacheAdd(t) \/ LockSection(t)
  \/ PrepareFlush \/ FlushWrite \/ FlushMark
  \/ CompactPick \/ CompactInstall

Spec == Init /\ [][Next]_vars

\* ------------------------------------------------------------------ properties (C09 for field ids)
Quiet == fl.pc = "idle" /\ cj = 0 /\ \A t \in Thread : th[t].pc = "idle"
\* what a lookup answers: memory first, then the cache, then the kv snapshot
Visible == IF mut # 0 THEN Strip(heap[mut]) ELSE IF imm # 0 THEN Strip(heap[imm])
           ELSE IF cache # 0 THEN Strip(heap[cache]) ELSE kv
\* a name that was given an id keeps it ...
Stable == Quiet => \A r \in ret : r \in Visible
\* ... and no two names share one
Injective == \A a, b \in ret : (a.id = b.id) => a.name = b.name
Function == \A a, b \in ret : (a.name = b.name) => a.id = b.id
=============================================================================
