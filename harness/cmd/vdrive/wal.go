package main

import (
	"encoding/binary"
	"encoding/json"
	"errors"
	"flag"
	"fmt"
	"math/rand"
	"os"
	"path/filepath"
	"runtime/debug"
	"sort"
	"strconv"
	"strings"
	"sync"
	"time"

	"github.com/lindb/lindb/pkg/queue"

	"verif/harness/internal/sched"
	"verif/harness/internal/trace"
	"verif/harness/internal/walwrap"
)

func init() { register("wal", walMain) }

// payload with a recognisable header; id 0 is reserved for the empty payload
func mkPayload(id, n int) []byte {
	b := make([]byte, n)
	var h [8]byte
	binary.LittleEndian.PutUint64(h[:], uint64(id)*0x9E3779B97F4A7C15+uint64(n))
	for i := range b {
		b[i] = h[i%8] ^ byte(i>>3)
	}
	return b
}

type walRun struct {
	w       *walwrap.World
	rec     *trace.Recorder
	fq      queue.FanOutQueue
	groups  map[string]queue.ConsumerGroup
	nextID  int
	rng     *rand.Rand
	lines   [][]byte // events of this history (for crash-image prefixes)
	points  []walPoint
	image   bool
	opsDone int
	noImage bool // inside an explicit index reset: its crash points are outside C05/C06
}

type walPoint struct {
	storeK int // number of stores in the image
	lineN  int // number of event lines of the history before the crash
}

func getRes(q queue.Queue, w *walwrap.World, s int64) (res int) {
	// a panic of the code under test is an answer (one the specification does not allow), not a harness failure
	defer func() {
		if r := recover(); r != nil {
			res = -99
		}
	}()
	b, err := q.Get(s)
	if err != nil {
		if errors.Is(err, queue.ErrOutOfSequenceRange) {
			return -2
		}
		if errors.Is(err, queue.ErrMsgNotFound) {
			return -3
		}
		return -9
	}
	return w.IDOf(b)
}

func walProj(fq queue.FanOutQueue, w *walwrap.World, groups map[string]queue.ConsumerGroup) trace.F {
	q := fq.Queue()
	app, ack := q.AppendedSeq(), q.AcknowledgedSeq()
	live := []int{}
	for s := ack + 1; s <= app; s++ {
		live = append(live, getRes(q, w, s))
	}
	gs := map[string]any{}
	names := fq.ConsumerGroupNames()
	sort.Strings(names)
	for _, n := range names {
		g := groups[n]
		if g == nil {
			g, _ = fq.GetOrCreateConsumerGroup(n) // already in the map: no store
			groups[n] = g
		}
		gs[n] = map[string]int64{"cons": g.ConsumedSeq(), "ack": g.AcknowledgedSeq()}
	}
	return trace.F{"app": app, "ack": ack, "live": live, "groups": gs}
}

func (r *walRun) proj(extra trace.F) {
	f := trace.F{"proj": walProj(r.fq, r.w, r.groups)}
	for k, v := range extra {
		f[k] = v
	}
	r.rec.Emit("Proj", f)
}

func (r *walRun) open() error {
	var err error
	r.w.WithSuppressed(func() {
		r.fq, err = queue.NewFanOutQueue(r.w.Root, 0)
	})
	r.groups = map[string]queue.ConsumerGroup{}
	return err
}

func (r *walRun) put(n int) {
	r.nextID++
	id := r.nextID
	if n == 0 {
		id = 0
	}
	p := mkPayload(id, n)
	r.w.Intern(p, id)
	r.w.CurrentPut(n, id)
	if n == 0 {
		// no store carries the payload: announce the call explicitly
		r.rec.Emit("Op", trace.F{"t": "main", "op": "Put", "len": 0, "id": 0})
		r.w.CurrentPut(0, 0)
		r.w.MarkPutStarted()
	}
	err := func() (err error) {
		// a store into an unmapped page is a memory fault: an observation (Error event), then the history ends
		old := debug.SetPanicOnFault(true)
		defer debug.SetPanicOnFault(old)
		defer func() {
			if p := recover(); p != nil {
				r.rec.Emit("Error", trace.F{"op": "Put", "err": fmt.Sprintf("fault inside Put: %v", p)})
				panic(walAbort{})
			}
		}()
		return r.fq.Queue().Put(p)
	}()
	r.w.ClearPut()
	if err != nil && errors.Is(err, errInjectedAcquire) {
		// the roll-over could not get its new page: the call failed, it consumed no sequence
		r.rec.Emit("PutFail", trace.F{"t": "main", "len": n})
		r.proj(nil)
		return
	}
	if err != nil {
		r.rec.Emit("Error", trace.F{"op": "Put", "err": err.Error()})
	}
	r.proj(trace.F{"t": "main", "res": r.fq.Queue().AppendedSeq()})
}

var walGroupNames = []string{"g1", "g2", "g3"}

func (r *walRun) randomOp(big bool) {
	q := r.fq.Queue()
	rng := r.rng
	gname := walGroupNames[rng.Intn(len(walGroupNames))]
	g := r.groups[gname]
	app := q.AppendedSeq()
	switch c := rng.Intn(100); {
	case c < 30:
		n := rng.Intn(40)
		if rng.Intn(10) == 0 {
			n = 0
		}
		if big && rng.Intn(3) == 0 {
			n = 50*1024*1024 + rng.Intn(30*1024*1024)
		}
		r.put(n)
	case c < 38:
		s := int64(rng.Intn(int(app)+4)) - 2
		r.rec.Emit("Get", trace.F{"s": s, "res": getRes(q, r.w, s)})
	case c < 46:
		if g == nil {
			r.rec.Emit("Op", trace.F{"t": "main", "op": "CreateGroup", "g": gname})
			ng, err := r.fq.GetOrCreateConsumerGroup(gname)
			if err != nil {
				r.rec.Emit("Error", trace.F{"op": "CreateGroup", "err": err.Error()})
				return
			}
			r.groups[gname] = ng
			r.proj(nil)
		}
	case c < 50:
		if g != nil {
			r.rec.Emit("Op", trace.F{"t": "main", "op": "StopGroup", "g": gname})
			r.fq.StopConsumerGroup(gname)
			delete(r.groups, gname)
			r.proj(nil)
		}
	case c < 66:
		if g != nil && g.Pending() > 0 {
			r.rec.Emit("Op", trace.F{"t": "main", "op": "Consume", "g": gname})
			s := g.Consume()
			r.proj(trace.F{"t": "main", "res": s})
		}
	case c < 78:
		if g != nil {
			span := int(g.ConsumedSeq() - g.AcknowledgedSeq())
			if span < 0 {
				span = 0
			}
			s := g.AcknowledgedSeq() - 1 + int64(rng.Intn(span+3))
			if rng.Intn(3) == 0 {
				s = g.ConsumedSeq()
			}
			r.rec.Emit("Op", trace.F{"t": "main", "op": "Ack", "g": gname, "s": s})
			g.Ack(s)
			r.proj(nil)
		}
	case c < 82:
		if g != nil && app >= g.AcknowledgedSeq() {
			s := g.AcknowledgedSeq() + int64(rng.Intn(int(app-g.AcknowledgedSeq())+1))
			r.rec.Emit("Op", trace.F{"t": "main", "op": "SetConsumed", "g": gname, "s": s})
			g.SetConsumedSeq(s)
			r.proj(nil)
		}
	case c < 88:
		r.rec.Emit("Op", trace.F{"t": "main", "op": "Sync"})
		r.fq.Sync()
		r.proj(nil)
	case c < 93:
		r.rec.Emit("Op", trace.F{"t": "main", "op": "GC"})
		q.GC()
		r.proj(nil)
	case c < 95:
		// direct SetAcknowledgedSeq: out-of-range values (must be ignored) or values up to the
		// smallest group ack (what Sync would do)
		s := app + 1 + int64(rng.Intn(3))
		if rng.Intn(2) == 0 {
			s = q.AcknowledgedSeq() - int64(rng.Intn(3))
		}
		r.rec.Emit("Op", trace.F{"t": "main", "op": "SetAck", "s": s})
		q.SetAcknowledgedSeq(s)
		r.proj(nil)
	case c < 96:
		s := app + int64(rng.Intn(3))
		r.rec.Emit("Op", trace.F{"t": "main", "op": "SetAppended", "s": s})
		r.noImage = true
		r.fq.SetAppendedSeq(s)
		r.noImage = false
		r.proj(nil)
	default:
		r.rec.Emit("Down", trace.F{"how": "close"})
		r.fq.Close()
		if err := r.open(); err != nil {
			r.rec.Emit("Error", trace.F{"op": "Reopen", "err": err.Error()})
			return
		}
		r.rec.Emit("Reopen", trace.F{})
		r.proj(nil)
	}
}

// scriptHistory (leg R): the calls of a behaviour TLC generated from WALQueueGen, executed in order; `unit` is the
// number of bytes of one length unit of the model (real page size / model page size, or 1)
func (r *walRun) scriptHistory(words []string, unit int) {
	closed := false
	handle := func(name string) queue.ConsumerGroup {
		if g := r.groups[name]; g != nil {
			return g
		}
		for _, n := range r.fq.ConsumerGroupNames() {
			if n == name {
				g, _ := r.fq.GetOrCreateConsumerGroup(name) // in the map (loaded by the reopen): no store
				r.groups[name] = g
				return g
			}
		}
		return nil
	}
	num := func(s string) int64 { n, _ := strconv.ParseInt(s, 10, 64); return n }
	for i, word := range words {
		f := strings.Split(word, ":")
		if closed && f[0] != "reopen" {
			panic(fmt.Sprintf("generated behaviour: step %d %q on a closed queue", i, word))
		}
		switch f[0] {
		case "put":
			r.put(int(num(f[1])) * unit)
		case "putfail":
			r.w.FailAcquire = func(kind string, _ int64) error {
				if kind == "data" {
					return errInjectedAcquire
				}
				return nil
			}
			r.put(int(num(f[1])) * unit)
			r.w.FailAcquire = nil
		case "consume":
			g := handle(f[1])
			if g == nil {
				panic("generated behaviour: consume on a group that is not in the map: " + word)
			}
			if g.Pending() <= 0 {
				panic("generated behaviour: consume on a group without pending messages (the call would block): " + word)
			}
			r.rec.Emit("Op", trace.F{"t": "main", "op": "Consume", "g": f[1]})
			s := g.Consume()
			r.proj(trace.F{"t": "main", "res": s})
		case "ack":
			if handle(f[1]) == nil {
				panic("generated behaviour: ack on a group that is not in the map: " + word)
			}
			r.ack(f[1], num(f[2]))
		case "setcons":
			g := handle(f[1])
			if g == nil {
				panic("generated behaviour: setcons on a group that is not in the map: " + word)
			}
			r.rec.Emit("Op", trace.F{"t": "main", "op": "SetConsumed", "g": f[1], "s": num(f[2])})
			g.SetConsumedSeq(num(f[2]))
			r.proj(nil)
		case "sync":
			r.rec.Emit("Op", trace.F{"t": "main", "op": "Sync"})
			r.fq.Sync()
			r.proj(nil)
		case "gc":
			r.rec.Emit("Op", trace.F{"t": "main", "op": "GC"})
			r.fq.Queue().GC()
			r.proj(nil)
			q := r.fq.Queue()
			for s := int64(-1); s <= q.AppendedSeq()+1; s++ {
				r.rec.Emit("Get", trace.F{"s": s, "res": getRes(q, r.w, s)})
			}
		case "creategroup":
			if !r.createGroup(f[1], false) {
				panic(walAbort{})
			}
		case "creategroupfail":
			r.w.FailAcquire = func(kind string, _ int64) error {
				if kind == "cg" {
					return errInjectedGroup
				}
				return nil
			}
			r.createGroup(f[1], true)
			r.w.FailAcquire = nil
		case "stopgroup":
			r.rec.Emit("Op", trace.F{"t": "main", "op": "StopGroup", "g": f[1]})
			r.fq.StopConsumerGroup(f[1])
			delete(r.groups, f[1])
			r.proj(nil)
		case "down":
			r.rec.Emit("Down", trace.F{"how": "close"})
			r.fq.Close()
			closed = true
			// crash images are taken of the part of the behaviour before its first close: page files (re)created by the
			// reopen are outside the store log the images are materialised from
			r.noImage = true
		case "reopen":
			if err := r.open(); err != nil {
				r.rec.Emit("Error", trace.F{"op": "Reopen", "err": err.Error()})
				panic(walAbort{})
			}
			closed = false
			r.rec.Emit("Reopen", trace.F{})
			r.proj(nil)
			q := r.fq.Queue()
			for s := q.AcknowledgedSeq(); s <= q.AppendedSeq()+1; s++ {
				r.rec.Emit("Get", trace.F{"s": s, "res": getRes(q, r.w, s)})
			}
		default:
			panic("generated behaviour: unknown step " + word)
		}
	}
	if closed {
		// the behaviour ends on a closed queue: reopen it so that the common epilogue (Close) has something to close
		if err := r.open(); err != nil {
			panic(walAbort{})
		}
		r.rec.Emit("Reopen", trace.F{})
		r.proj(nil)
	}
}

// bigHistory appends messages of 50-80MB so that data pages (128MB) roll over, with a consumer
// group acknowledging behind, Sync and GC removing whole pages, and a reopen in the middle.
func (r *walRun) bigHistory() {
	rng := r.rng
	r.rec.Emit("Op", trace.F{"t": "main", "op": "CreateGroup", "g": "g1"})
	g, err := r.fq.GetOrCreateConsumerGroup("g1")
	if err != nil {
		r.rec.Emit("Error", trace.F{"op": "CreateGroup", "err": err.Error()})
		return
	}
	r.groups["g1"] = g
	r.proj(nil)
	rounds := 4 + rng.Intn(2)
	for i := 0; i < rounds; i++ {
		r.put(50*1024*1024 + rng.Intn(30*1024*1024))
		if rng.Intn(2) == 0 {
			r.put(1 + rng.Intn(100))
		}
		g = r.groups["g1"]
		for g.Pending() > 0 && rng.Intn(4) != 0 {
			r.rec.Emit("Op", trace.F{"t": "main", "op": "Consume", "g": "g1"})
			s := g.Consume()
			r.proj(trace.F{"t": "main", "res": s})
		}
		if rng.Intn(3) != 0 {
			s := g.ConsumedSeq() - int64(rng.Intn(2))
			r.rec.Emit("Op", trace.F{"t": "main", "op": "Ack", "g": "g1", "s": s})
			g.Ack(s)
			r.proj(nil)
		}
		r.rec.Emit("Op", trace.F{"t": "main", "op": "Sync"})
		r.fq.Sync()
		r.proj(nil)
		r.rec.Emit("Op", trace.F{"t": "main", "op": "GC"})
		r.fq.Queue().GC()
		r.proj(nil)
		if i == rounds/2 {
			r.rec.Emit("Down", trace.F{"how": "close"})
			r.fq.Close()
			if err := r.open(); err != nil {
				r.rec.Emit("Error", trace.F{"op": "Reopen", "err": err.Error()})
				return
			}
			r.rec.Emit("Reopen", trace.F{})
			r.proj(nil)
		}
	}
	// the end is scripted: everything is consumed, all but the last message acknowledged (the acknowledged position
	// lies on a LATER data page by now), Sync + GC remove whole data pages; the message above the acknowledged
	// position and new appends must still be readable (their index entries live on index page 0)
	g, err = r.fq.GetOrCreateConsumerGroup("g1")
	if err != nil {
		return
	}
	r.groups["g1"] = g
	for g.Pending() > 0 {
		r.rec.Emit("Op", trace.F{"t": "main", "op": "Consume", "g": "g1"})
		s := g.Consume()
		r.proj(trace.F{"t": "main", "res": s})
	}
	if s := g.ConsumedSeq() - 1; s >= 0 {
		r.rec.Emit("Op", trace.F{"t": "main", "op": "Ack", "g": "g1", "s": s})
		g.Ack(s)
		r.proj(nil)
	}
	r.rec.Emit("Op", trace.F{"t": "main", "op": "Sync"})
	r.fq.Sync()
	r.proj(nil)
	r.rec.Emit("Op", trace.F{"t": "main", "op": "GC"})
	r.fq.Queue().GC()
	r.proj(nil)
	r.put(1 + rng.Intn(100))
	r.put(1 + rng.Intn(100))
}

// walAbort ends a history after the code under test faulted inside a call
type walAbort struct{}

var errInjectedAcquire = errors.New("injected: cannot acquire the next data page")

// rollFailHistory: the data page is nearly full, the append that has to roll over cannot get its new page
// (open / truncate / mmap failure) and fails; later appends, a later successful roll-over, reads and a reopen follow:
// the failed call consumed no sequence and no earlier message changed
func (r *walRun) rollFailHistory() {
	rng := r.rng
	const mib = 1024 * 1024
	r.put(70*mib + rng.Intn(10*mib))
	if rng.Intn(2) == 0 {
		r.put(1 + rng.Intn(100))
	}
	fails := 1 + rng.Intn(2)
	r.w.FailAcquire = func(kind string, _ int64) error {
		if kind == "data" {
			return errInjectedAcquire
		}
		return nil
	}
	for i := 0; i < fails; i++ {
		r.put(60*mib + rng.Intn(10*mib)) // does not fit: roll-over, fails
	}
	r.w.FailAcquire = nil
	for i := 0; i < 1+rng.Intn(3); i++ {
		r.put(1 + rng.Intn(100)) // still fits into the current page
	}
	r.put(60*mib + rng.Intn(10*mib)) // the roll-over succeeds now
	r.put(1 + rng.Intn(100))
	r.rec.Emit("Down", trace.F{"how": "close"})
	r.fq.Close()
	if err := r.open(); err != nil {
		r.rec.Emit("Error", trace.F{"op": "Reopen", "err": err.Error()})
		return
	}
	r.rec.Emit("Reopen", trace.F{})
	r.proj(nil)
	r.put(1 + rng.Intn(100))
}

var errInjectedGroup = errors.New("injected: cannot acquire the meta page of the consumer group")

// createGroup: GetOrCreateConsumerGroup of a group that is not in the fan-out map; fail = the acquisition of its meta
// page is made to fail (the environment's fault, announced as CreateGroupFail): the call must return that error
func (r *walRun) createGroup(name string, fail bool) bool {
	op := "CreateGroup"
	if fail {
		op = "CreateGroupFail"
	}
	r.rec.Emit("Op", trace.F{"t": "main", "op": op, "g": name})
	g, err := r.fq.GetOrCreateConsumerGroup(name)
	switch {
	case fail && errors.Is(err, errInjectedGroup):
		r.proj(nil)
		return false
	case err != nil:
		r.rec.Emit("Error", trace.F{"op": op, "err": err.Error()})
		return false
	case fail:
		r.rec.Emit("Error", trace.F{"op": op, "err": "the call succeeded although the meta page could not be acquired"})
		return false
	}
	r.groups[name] = g
	r.proj(nil)
	return true
}

// ensureGroup: the group handle; created (an Op of the history) unless the fan-out map has it already (loaded by a reopen)
func (r *walRun) ensureGroup(name string) queue.ConsumerGroup {
	for _, n := range r.fq.ConsumerGroupNames() {
		if n == name {
			g, _ := r.fq.GetOrCreateConsumerGroup(name) // in the map: no store
			r.groups[name] = g
			return g
		}
	}
	if !r.createGroup(name, false) {
		panic(walAbort{})
	}
	return r.groups[name]
}

func (r *walRun) consume(name string) {
	if g := r.groups[name]; g != nil && g.Pending() > 0 {
		r.rec.Emit("Op", trace.F{"t": "main", "op": "Consume", "g": name})
		s := g.Consume()
		r.proj(trace.F{"t": "main", "res": s})
	}
}

func (r *walRun) ack(name string, s int64) {
	if g := r.groups[name]; g != nil {
		r.rec.Emit("Op", trace.F{"t": "main", "op": "Ack", "g": name, "s": s})
		g.Ack(s)
		r.proj(nil)
	}
}

func (r *walRun) syncGC() {
	r.rec.Emit("Op", trace.F{"t": "main", "op": "Sync"})
	r.fq.Sync()
	r.proj(nil)
	r.rec.Emit("Op", trace.F{"t": "main", "op": "GC"})
	r.fq.Queue().GC()
	r.proj(nil)
}

func (r *walRun) reopen() {
	r.rec.Emit("Down", trace.F{"how": "close"})
	r.fq.Close()
	if err := r.open(); err != nil {
		r.rec.Emit("Error", trace.F{"op": "Reopen", "err": err.Error()})
		panic(walAbort{})
	}
	r.rec.Emit("Reopen", trace.F{})
	r.proj(nil)
}

// groupFailHistory: the creation of a consumer group is disturbed between its two durable steps (directory made by
// the page factory, then meta page file + first positions): the acquisition of the meta page fails once or twice
// (open / truncate / mmap failure, e.g. disk full) and the caller retries in the same process - or the queue is
// reopened on the directory that was left behind.  A second group is created undisturbed.  The history is imaged after
// every store, so the kill between mkdir and page creation of both groups is recovered by the real code as well.
// Then the usual life: appends, consume, acknowledge, Sync, GC, reads from the very first sequence, reopen, random ops.
// (On a fresh queue the queue-wide acknowledged position is still -1: nothing hides a group that starts anywhere else
// than before the first message.)
func (r *walRun) groupFailHistory() {
	rng := r.rng
	q := r.fq.Queue()
	for i := rng.Intn(3); i > 0; i-- {
		r.put(1 + rng.Intn(40))
	}
	r.w.FailAcquire = func(kind string, _ int64) error {
		if kind == "cg" {
			return errInjectedGroup
		}
		return nil
	}
	for i := 1 + rng.Intn(2); i > 0; i-- {
		r.createGroup("g1", true)
	}
	r.w.FailAcquire = nil
	if rng.Intn(3) == 0 {
		r.reopen() // the directory without page file is listed by initConsumerGroups
		q = r.fq.Queue()
	}
	r.ensureGroup("g1") // the retry
	r.ensureGroup("g2")
	for i := 2 + rng.Intn(3); i > 0; i-- {
		r.put(1 + rng.Intn(40))
	}
	for i := 1 + rng.Intn(3); i > 0; i-- {
		r.consume("g1")
	}
	r.consume("g2")
	r.ack("g1", r.groups["g1"].ConsumedSeq()-int64(rng.Intn(2)))
	r.ack("g2", r.groups["g2"].ConsumedSeq())
	r.syncGC()
	for s := int64(0); s <= q.AppendedSeq(); s++ {
		r.rec.Emit("Get", trace.F{"s": s, "res": getRes(q, r.w, s)})
	}
	r.reopen()
	q = r.fq.Queue()
	r.ensureGroup("g1")
	r.ensureGroup("g2")
	r.put(1 + rng.Intn(40))
	r.consume("g1")
	r.consume("g2")
	// a third group: its first creation fails after appends and a moved queue-wide position, then it is retried
	r.w.FailAcquire = func(kind string, _ int64) error {
		if kind == "cg" {
			return errInjectedGroup
		}
		return nil
	}
	r.createGroup("g3", true)
	r.w.FailAcquire = nil
	r.ensureGroup("g3")
	r.consume("g3")
	for i := 0; i < 12; i++ {
		r.randomOp(false)
	}
}

// boundaryHistory: the append position is moved forward (the explicit reset a follower uses) to just
// below a multiple of the index page capacity (262144 entries), appends land on the LAST slot of an index
// page, the queue is reopened exactly there, and more appends / reads follow: recovery of the write cursor
// must read the entry of the last appended sequence from the page that holds it
func (r *walRun) boundaryHistory() {
	rng := r.rng
	const perPage = 1024 * 256
	j := 1 + rng.Intn(3)
	s := int64(perPage*(1+rng.Intn(2)) - 1 - j)
	r.rec.Emit("Op", trace.F{"t": "main", "op": "SetAppended", "s": s})
	r.noImage = true
	r.fq.SetAppendedSeq(s)
	r.noImage = false
	r.proj(nil)
	for i := 0; i < j; i++ {
		r.put(1 + rng.Intn(60))
	}
	r.rec.Emit("Down", trace.F{"how": "close"})
	r.fq.Close()
	if err := r.open(); err != nil {
		r.rec.Emit("Error", trace.F{"op": "Reopen", "err": err.Error()})
		return
	}
	r.rec.Emit("Reopen", trace.F{})
	r.proj(nil)
	for i := 0; i < 3; i++ {
		r.put(1 + rng.Intn(60))
	}
	for i := 0; i < 10; i++ {
		r.randomOp(false)
	}
}

// drainedHistory: the queue is DRAINED (every message consumed and acknowledged, Sync: the queue-wide acknowledged
// position equals the appended one) when it is closed; it is reopened, more messages are appended -- they continue
// behind the last message, in the page the log had reached -- then GC, reads, a second drain and reopen.  With `big`
// the log has rolled over to a later data page before it is drained.
func (r *walRun) drainedHistory(big bool) {
	rng := r.rng
	const mib = 1024 * 1024
	if !r.createGroup("g1", false) {
		panic(walAbort{})
	}
	reads := func() {
		q := r.fq.Queue()
		for x := q.AcknowledgedSeq(); x <= q.AppendedSeq()+1; x++ {
			r.rec.Emit("Get", trace.F{"s": x, "res": getRes(q, r.w, x)})
		}
	}
	drain := func() {
		for r.groups["g1"].Pending() > 0 {
			r.consume("g1")
		}
		r.ack("g1", r.groups["g1"].ConsumedSeq())
		r.syncGC()
	}
	for round := 0; round < 2; round++ {
		if big {
			r.put(70*mib + rng.Intn(10*mib))
			r.put(60*mib + rng.Intn(10*mib)) // rolls over
		}
		for i := 0; i < 1+rng.Intn(3); i++ {
			r.put(1 + rng.Intn(60))
		}
		drain()
		r.reopen()
		r.ensureGroup("g1")
		for i := 0; i < 1+rng.Intn(3); i++ {
			r.put(1 + rng.Intn(60))
		}
		reads()
		r.syncGC()
		reads()
		r.consume("g1")
	}
}

// boundaryGCHistory: the acknowledged position and the append position lie in DIFFERENT index pages when Sync + GC run.
// A group exists; the append position is moved forward (explicit reset, the group follows) to three below a multiple of
// the index page capacity; messages large enough to roll the data pages over are appended across the index page edge;
// the group consumes all of them and acknowledges only up to the LAST slot of the old index page, which lies in a later
// data page than the first one: GC must release exactly the data pages below that page (its answer comes from the index
// page of the ACKNOWLEDGED sequence), every unacknowledged message stays readable; then everything is acknowledged,
// Sync, GC, reopen, reads.
func (r *walRun) boundaryGCHistory() {
	rng := r.rng
	const perPage = 1024 * 256
	const mib = 1024 * 1024
	if !r.createGroup("g1", false) {
		panic(walAbort{})
	}
	s := int64(perPage*(2+rng.Intn(2)) - 3)
	r.rec.Emit("Op", trace.F{"t": "main", "op": "SetAppended", "s": s})
	r.noImage = true
	r.fq.SetAppendedSeq(s)
	r.noImage = false
	r.proj(nil)
	r.put(70*mib + rng.Intn(10*mib)) // s+1: data page 0
	r.put(70*mib + rng.Intn(10*mib)) // s+2: data page 1, the last slot of the index page
	r.put(70*mib + rng.Intn(10*mib)) // s+3: data page 2, the first slot of the next index page
	r.put(1 + rng.Intn(100))
	for i := 0; i < 4; i++ {
		r.consume("g1")
	}
	r.ack("g1", s+2)
	r.syncGC()
	q := r.fq.Queue()
	for x := s; x <= q.AppendedSeq()+1; x++ {
		r.rec.Emit("Get", trace.F{"s": x, "res": getRes(q, r.w, x)})
	}
	r.put(1 + rng.Intn(100))
	r.consume("g1")
	r.ack("g1", s+3)
	r.syncGC()
	for x := s; x <= q.AppendedSeq()+1; x++ {
		r.rec.Emit("Get", trace.F{"s": x, "res": getRes(q, r.w, x)})
	}
	r.reopen()
	q = r.fq.Queue()
	r.ensureGroup("g1")
	r.put(1 + rng.Intn(100))
	r.consume("g1")
	r.consume("g1")
	r.ack("g1", r.groups["g1"].ConsumedSeq())
	r.syncGC()
	for x := s; x <= q.AppendedSeq()+1; x++ {
		r.rec.Emit("Get", trace.F{"s": x, "res": getRes(q, r.w, x)})
	}
}

// recoverImage opens the image after k stores with the real code and records what it finds.
func recoverImage(rec *trace.Recorder, src *walwrap.World, prefix [][]byte, k int, scratch string, nextID *int, resetFields trace.F, groupTail bool) error {
	dir := filepath.Join(scratch, fmt.Sprintf("img-%d", k))
	if err := src.Materialise(k, dir); err != nil {
		return err
	}
	defer os.RemoveAll(dir)
	rec.Reset(resetFields)
	rec.Raw(prefix)
	rec.Emit("Down", trace.F{"how": "kill", "stores": k})
	w2 := walwrap.NewWorld(dir, rec)
	w2.CopyInterns(src)
	restore := w2.Install()
	defer restore()
	r2 := &walRun{w: w2, rec: rec, nextID: *nextID}
	if err := r2.open(); err != nil {
		rec.Emit("Error", trace.F{"op": "Reopen", "err": err.Error()})
		return nil
	}
	w2.BindThread("main")
	rec.Emit("Reopen", trace.F{})
	r2.proj(nil)
	// a later append must not alter any earlier message
	r2.put(7)
	r2.put(3)
	if groupTail {
		// ... and every group the recovered queue has goes on: consume, acknowledge, Sync, GC, reads
		names := r2.fq.ConsumerGroupNames()
		sort.Strings(names)
		for _, n := range names {
			g, err := r2.fq.GetOrCreateConsumerGroup(n) // in the map: no store
			if err != nil {
				rec.Emit("Error", trace.F{"op": "GetGroup", "err": err.Error()})
				continue
			}
			r2.groups[n] = g
			r2.consume(n)
			r2.ack(n, g.ConsumedSeq())
		}
		r2.syncGC()
		q := r2.fq.Queue()
		for _, s := range []int64{0, q.AcknowledgedSeq(), q.AcknowledgedSeq() + 1, q.AppendedSeq()} {
			rec.Emit("Get", trace.F{"s": s, "res": getRes(q, w2, s)})
		}
	}
	*nextID = r2.nextID
	r2.fq.Close()
	return nil
}

func walMain(args []string) int {
	fs := flag.NewFlagSet("wal", flag.ExitOnError)
	out := fs.String("out", "wal.ndjson", "trace output")
	seed := fs.Int64("seed", 1, "seed")
	nh := fs.Int("histories", 20, "sequential histories")
	nops := fs.Int("ops", 40, "operations per history")
	images := fs.Int("images", 0, "histories whose every store is imaged and recovered")
	bigs := fs.Int("big", 0, "histories with messages large enough to roll data pages over")
	bounds := fs.Int("boundary", 0, "histories that reopen the queue on the last slot of an index page")
	rollfails := fs.Int("rollfail", 0, "histories in which the roll-over to the next data page fails (page acquisition fault)")
	groupfails := fs.Int("groupfail", 0, "histories in which the creation of a consumer group fails between mkdir and meta page (page acquisition fault), retried / reopened; imaged after every store")
	groupTail := fs.Bool("grouptail", false, "recovered crash images: every group consumes / acknowledges, Sync, GC, reads")
	nconc := fs.Int("concurrent", 0, "concurrent-appender histories (gated)")
	ngconc := fs.Int("groupconc", 0, "histories with one consuming and one acknowledging thread on the same group (gated)")
	scratch := fs.String("scratch", "", "scratch directory")
	drained := fs.Int("drained", 0, "histories in which a drained queue (everything acknowledged and synced) is reopened and appended to; every third one after a roll-over")
	boundgcs := fs.Int("boundarygc", 0, "histories in which Sync + GC run while the acknowledged and the append position lie in different index pages (and data pages)")
	scripts := fs.String("scripts", "", "leg R: JSON file with behaviours generated by TLC from WALQueueGen (list of lists of calls), run after the other histories, imaged after every store")
	unit := fs.Int("unit", 1, "bytes per length unit of the generated behaviours")
	maxImages := fs.Int("maximages", 0, "generated behaviours: at most this many crash images per behaviour (0 = all)")
	_ = fs.Parse(args)
	var gen [][]string
	if *scripts != "" {
		b, err := os.ReadFile(*scripts)
		if err == nil {
			err = json.Unmarshal(b, &gen)
		}
		if err != nil {
			fmt.Println("scripts:", err)
			return 2
		}
	}
	if *scratch == "" {
		d, _ := os.MkdirTemp("", "vdrive-wal-")
		*scratch = d
		defer os.RemoveAll(d)
	}
	rec, err := trace.New(*out)
	if err != nil {
		fmt.Println(err)
		return 2
	}
	rng := rand.New(rand.NewSource(*seed))
	sum := &trace.Summary{Module: "WALQueue", Extra: map[string]any{}}
	nimages, nstores := 0, 0
	distinct := map[string]bool{}
	nfixed := *nh + *bigs + *bounds + *rollfails + *groupfails + *boundgcs + *drained
	for h := 0; h < nfixed+len(gen); h++ {
		generated := h >= nfixed
		big := h >= *nh && h < *nh+*bigs
		boundary := h >= *nh+*bigs && h < *nh+*bigs+*bounds
		rollfail := h >= *nh+*bigs+*bounds && h < *nh+*bigs+*bounds+*rollfails
		groupfail := h >= *nh+*bigs+*bounds+*rollfails && h < *nh+*bigs+*bounds+*rollfails+*groupfails
		boundgc := h >= *nh+*bigs+*bounds+*rollfails+*groupfails && h < *nh+*bigs+*bounds+*rollfails+*groupfails+*boundgcs
		isDrained := h >= *nh+*bigs+*bounds+*rollfails+*groupfails+*boundgcs && !generated
		root := filepath.Join(*scratch, fmt.Sprintf("h%d", h))
		w := walwrap.NewWorld(root, rec)
		restore := w.Install()
		run := &walRun{w: w, rec: rec, rng: rand.New(rand.NewSource(rng.Int63())), image: h < *images || big || groupfail || generated}
		reset := trace.F{"mode": "seq", "h": h, "big": big, "boundary": boundary, "rollfail": rollfail}
		if groupfail {
			reset = trace.F{"mode": "groupfail", "h": h}
		}
		if generated {
			reset = trace.F{"mode": "generated", "h": h, "unit": *unit}
		}
		if boundgc {
			reset = trace.F{"mode": "boundarygc", "h": h}
		}
		if isDrained {
			reset = trace.F{"mode": "drained", "h": h}
		}
		rec.Reset(reset)
		rec.Tap = func(b []byte) { run.lines = append(run.lines, append([]byte{}, b...)) }
		w.OnStore = func(k int) {
			if run.image && !run.noImage && !w.FreshPending() && w.Suppress == 0 {
				run.points = append(run.points, walPoint{storeK: k + 1, lineN: len(run.lines)})
			}
		}
		if err := run.open(); err != nil {
			fmt.Println("open:", err)
			return 2
		}
		w.BindThread("main")
		n := *nops
		if big {
			n = 14
		}
		aborted := false
		func() {
			defer func() {
				if p := recover(); p != nil {
					if _, ok := p.(walAbort); !ok {
						panic(p)
					}
					aborted = true
				}
			}()
			if generated {
				run.scriptHistory(gen[h-nfixed], *unit)
			} else if boundgc {
				run.boundaryGCHistory()
			} else if isDrained {
				run.drainedHistory(h%3 == 2)
			} else if big {
				run.bigHistory()
			} else if boundary {
				run.boundaryHistory()
			} else if rollfail {
				run.rollFailHistory()
			} else if groupfail {
				run.groupFailHistory()
			} else {
				for i := 0; i < n; i++ {
					run.randomOp(false)
				}
			}
		}()
		if aborted {
			// the code under test faulted inside a call (recorded as an Error event): its locks may still be held
			run.points = nil
		} else {
			run.fq.Close()
		}
		rec.Tap = nil
		restore()
		w.OnStore = nil
		nstores += len(w.Log)
		if len(sum.Samples) < 2 && len(run.lines) > 8 {
			var smp []string
			for _, l := range run.lines[:8] {
				smp = append(smp, string(l))
			}
			sum.Samples = append(sum.Samples, smp)
		}
		distinct[fmt.Sprint(len(run.lines), len(w.Log), h)] = true
		// crash images: the directory after every store, recovered by the real code
		pts := run.points
		if generated && *maxImages > 0 && len(pts) > *maxImages {
			rng.Shuffle(len(pts), func(i, j int) { pts[i], pts[j] = pts[j], pts[i] })
			pts = pts[:*maxImages]
		}
		if big && len(pts) > 12 {
			// big payloads: sample the points (each image rewrites the payloads)
			rng.Shuffle(len(pts), func(i, j int) { pts[i], pts[j] = pts[j], pts[i] })
			pts = pts[:12]
		}
		nid := run.nextID + 1000
		for _, p := range pts {
			// the reset line itself is part of run.lines? no: Tap is set after Reset
			if err := recoverImage(rec, w, run.lines[:p.lineN], p.storeK, *scratch, &nid, trace.F{"mode": "image", "h": h, "stores": p.storeK}, *groupTail || groupfail || generated); err != nil {
				sum.Unresolved = append(sum.Unresolved, err.Error())
			}
			nimages++
		}
		os.RemoveAll(root)
	}
	// concurrent appenders under the gate scheduler
	for c := 0; c < *nconc; c++ {
		root := filepath.Join(*scratch, fmt.Sprintf("c%d", c))
		w := walwrap.NewWorld(root, rec)
		restore := w.Install()
		run := &walRun{w: w, rec: rec, rng: rand.New(rand.NewSource(rng.Int63()))}
		rec.Reset(trace.F{"mode": "concurrent", "c": c})
		if err := run.open(); err != nil {
			fmt.Println("open:", err)
			return 2
		}
		sc := sched.New(rng.Int63())
		sc.StepWait = 25 * time.Millisecond
		w.Gate = func(t, label string) {
			if t != "main" {
				sc.Yield(t, label)
			}
		}
		nthreads := 2 + rng.Intn(2)
		per := 1 + rng.Intn(3)
		var wg sync.WaitGroup
		idBase := 0
		for t := 0; t < nthreads; t++ {
			name := fmt.Sprintf("a%d", t+1)
			sc.Spawn(name)
			wg.Add(1)
			go func(name string, base int) {
				defer wg.Done()
				defer sc.Done(name)
				w.BindThread(name)
				sc.Yield(name, "start")
				for i := 0; i < per; i++ {
					id := base + i + 1
					n := 1 + (id*7)%23
					p := mkPayload(id, n)
					w.Intern(p, id)
					w.CurrentPut(n, id)
					if err := run.fq.Queue().Put(p); err != nil {
						rec.Emit("Error", trace.F{"op": "Put", "err": err.Error()})
					}
					w.ClearPut()
				}
			}(name, idBase)
			idBase += per
		}
		ok := sc.Run()
		if !ok {
			sc.ReleaseAll()
			sum.Unresolved = append(sum.Unresolved, "concurrent appenders stuck")
		}
		wg.Wait()
		w.Gate = nil
		w.BindThread("main")
		run.nextID = idBase + 100
		run.proj(nil)
		rec.Emit("Down", trace.F{"how": "close"})
		run.fq.Close()
		if err := run.open(); err == nil {
			rec.Emit("Reopen", trace.F{})
			run.proj(nil)
			run.put(9)
			run.put(4)
			run.fq.Close()
		}
		distinct["c"+fmt.Sprint(sc.Choices)] = true
		restore()
		os.RemoveAll(root)
	}
	// one thread consumes, another one acknowledges on the same group (the documented use), gated at every store
	// into the group's meta page; then close and reopen: every position survives
	for c := 0; c < *ngconc; c++ {
		root := filepath.Join(*scratch, fmt.Sprintf("gc%d", c))
		w := walwrap.NewWorld(root, rec)
		restore := w.Install()
		hr := rand.New(rand.NewSource(rng.Int63()))
		run := &walRun{w: w, rec: rec, rng: hr}
		rec.Reset(trace.F{"mode": "groupconc", "c": c})
		if err := run.open(); err != nil {
			fmt.Println("open:", err)
			return 2
		}
		w.BindThread("main")
		rec.Emit("Op", trace.F{"t": "main", "op": "CreateGroup", "g": "g1"})
		g, err := run.fq.GetOrCreateConsumerGroup("g1")
		if err != nil {
			sum.Unresolved = append(sum.Unresolved, "group: "+err.Error())
			restore()
			continue
		}
		run.groups["g1"] = g
		run.proj(nil)
		m := 4 + hr.Intn(4)
		for i := 0; i < m; i++ {
			run.put(1 + hr.Intn(40))
		}
		c0 := 2 + hr.Intn(2)
		for i := 0; i < c0; i++ {
			rec.Emit("Op", trace.F{"t": "main", "op": "Consume", "g": "g1"})
			sq := g.Consume()
			run.proj(trace.F{"t": "main", "res": sq})
		}
		sc := sched.New(rng.Int63())
		sc.StepWait = 25 * time.Millisecond
		w.GateGroups = true
		w.Gate = func(t, label string) {
			if t != "main" && label == "group-store" {
				sc.Yield(t, label)
			}
		}
		var wg sync.WaitGroup
		lastConsumed := int64(-9)
		nacks := 1 + hr.Intn(c0)
		sc.Spawn("k1")
		sc.Spawn("c1")
		wg.Add(2)
		go func() { // the acknowledging thread: positions consumed before the threads started
			defer wg.Done()
			defer sc.Done("k1")
			w.BindThread("k1")
			sc.Yield("k1", "start")
			for sq := int64(c0 - nacks); sq < int64(c0); sq++ {
				w.CurrentOp(trace.F{"op": "Ack", "g": "g1", "s": sq})
				g.Ack(sq)
				w.FinishOp()
			}
		}()
		go func() { // the consuming thread
			defer wg.Done()
			defer sc.Done("c1")
			w.BindThread("c1")
			sc.Yield("c1", "start")
			for i := c0; i < m; i++ {
				w.CurrentOp(trace.F{"op": "Consume", "g": "g1"})
				lastConsumed = g.Consume()
				w.FinishOp()
			}
		}()
		if !sc.Run() {
			sc.ReleaseAll()
			sum.Unresolved = append(sum.Unresolved, "consume/ack threads stuck")
		}
		wg.Wait()
		w.Gate, w.GateGroups = nil, false
		w.BindThread("main")
		run.nextID = 1000
		run.proj(trace.F{"t": "c1", "res": lastConsumed})
		rec.Emit("Down", trace.F{"how": "close"})
		run.fq.Close()
		if err := run.open(); err == nil {
			rec.Emit("Reopen", trace.F{})
			run.proj(nil)
			run.put(5)
			if g2, err := run.fq.GetOrCreateConsumerGroup("g1"); err == nil {
				run.groups["g1"] = g2
				rec.Emit("Op", trace.F{"t": "main", "op": "Consume", "g": "g1"})
				sq := g2.Consume()
				run.proj(trace.F{"t": "main", "res": sq})
			}
			run.fq.Close()
		}
		distinct["gc"+fmt.Sprint(sc.Choices)] = true
		restore()
		os.RemoveAll(root)
	}
	_ = rec.Close()
	sum.Traces, sum.Events = rec.Counts()
	sum.Distinct = len(distinct)
	sum.Extra["images"] = nimages
	sum.Extra["stores"] = nstores
	sum.Print()
	return 0
}
