// Package kvwrap wraps the file-system seams of lindb's kv store (kv, kv/version, kv/table):
// every file-system operation emits one trace event after the real operation returned and
// can take an image of the store directory at that very point (what a kill there leaves).
package kvwrap

import (
	"encoding/binary"
	"fmt"
	"io/fs"
	"os"
	"path/filepath"
	"runtime"
	"sort"
	"strconv"
	"strings"
	"sync"

	"github.com/BurntSushi/toml"

	"github.com/lindb/lindb/kv"
	"github.com/lindb/lindb/kv/table"
	"github.com/lindb/lindb/kv/version"
	"github.com/lindb/lindb/pkg/bufioutil"

	"verif/harness/internal/trace"
)

// World observes one store directory (and its images: any path below Root).
type World struct {
	mu   sync.Mutex
	Root string
	Rec  *trace.Recorder
	// famIDs maps family directory name -> id (from OPTIONS)
	famIDs map[string]int
	// AfterOp is called (world lock held) after every event-emitting operation; n = operations so far
	AfterOp func(n int, ev string)
	// AfterUnlocked is called after every operation WITHOUT the world lock (also when Silent / Quiet)
	AfterUnlocked func(ev string, f trace.F)
	// AfterOpF: the same with the fields of the event (also when Silent)
	AfterOpF func(n int, ev string, f trace.F)
	nops    int
	// Gate, when set, is called (no lock held) before an operation proceeds: label, family/num
	Gate func(label string)
	// thread names by goroutine id; unknown goroutines take the next announced background name
	threads  map[int64]string
	announce []string
	allocs   map[string][]int64 // file numbers allocated per thread since the last TakeAllocs
	// Quiet suppresses events
	Quiet bool
	// Silent: operations are counted and AfterOp is called, but no trace event is written
	Silent bool
}

var (
	worldsMu sync.RWMutex
	worlds   []*World
	orig     struct {
		v  version.VerifSeams
		k  kv.VerifSeams
		tw func(string) (bufioutil.BufioWriter, error)
	}
	installed bool
)

func worldOf(path string) *World {
	worldsMu.RLock()
	defer worldsMu.RUnlock()
	var best *World
	for _, w := range worlds {
		if strings.HasPrefix(path, w.Root+string(filepath.Separator)) || path == w.Root {
			if best == nil || len(w.Root) > len(best.Root) {
				best = w
			}
		}
	}
	return best
}

func NewWorld(root string, rec *trace.Recorder) *World {
	w := &World{Root: root, Rec: rec, famIDs: map[string]int{}}
	worldsMu.Lock()
	worlds = append(worlds, w)
	worldsMu.Unlock()
	return w
}

func (w *World) Drop() {
	worldsMu.Lock()
	defer worldsMu.Unlock()
	for i, x := range worlds {
		if x == w {
			worlds = append(worlds[:i], worlds[i+1:]...)
			return
		}
	}
}

func (w *World) emit(ev string, f trace.F) {
	w.mu.Lock()
	defer func() {
		w.mu.Unlock()
		// hooks that run real code (which may come back into the seams) are called without the world lock
		if fn := w.AfterUnlocked; fn != nil {
			fn(ev, f)
		}
	}()
	if w.Quiet {
		return
	}
	if !w.Silent {
		w.Rec.Emit(ev, f)
	}
	w.nops++
	if w.AfterOp != nil {
		w.AfterOp(w.nops, ev)
	}
	if w.AfterOpF != nil {
		w.AfterOpF(w.nops, ev, f)
	}
}

func (w *World) gate(label string) {
	if w.Gate != nil {
		w.Gate(label)
	}
}

func gid() int64 {
	var buf [64]byte
	n := runtime.Stack(buf[:], false)
	f := strings.Fields(string(buf[:n]))
	id, _ := strconv.ParseInt(f[1], 10, 64)
	return id
}

// GoroutineID returns the id of the calling goroutine (to ask BlockedOnLock about it later).
func GoroutineID() int64 { return gid() }

// BlockedOnLock reports whether goroutine g is waiting for a sync lock (Mutex / RWMutex) in a call whose stack
// contains frame: the deterministic form of "the thread ran until it blocked on that lock" for scripted schedules
// (no gate can be placed at a lock acquisition inside the code under test).
func BlockedOnLock(g int64, frame string) bool {
	buf := make([]byte, 1<<20)
	for {
		n := runtime.Stack(buf, true)
		if n < len(buf) {
			buf = buf[:n]
			break
		}
		buf = make([]byte, 2*len(buf))
	}
	head := fmt.Sprintf("goroutine %d [", g)
	for _, blk := range strings.Split(string(buf), "\n\n") {
		if !strings.HasPrefix(blk, head) {
			continue
		}
		state := blk[len(head):]
		if i := strings.IndexAny(state, "],"); i >= 0 {
			state = state[:i]
		}
		switch state {
		case "sync.Mutex.Lock", "sync.RWMutex.Lock", "sync.RWMutex.RLock", "semacquire":
			return strings.Contains(blk, frame)
		}
		return false
	}
	return false
}

// BindThread names the calling goroutine.
func (w *World) BindThread(name string) {
	w.mu.Lock()
	if w.threads == nil {
		w.threads = map[int64]string{}
	}
	w.threads[gid()] = name
	w.mu.Unlock()
}

// Announce pre-registers the name of a background goroutine that lindb is about to start.
func (w *World) Announce(name string) {
	w.mu.Lock()
	w.announce = append(w.announce, name)
	w.mu.Unlock()
}

// TakeAllocs returns (and forgets) the file numbers the named thread allocated.
func (w *World) TakeAllocs(thread string) []int64 {
	w.mu.Lock()
	defer w.mu.Unlock()
	out := w.allocs[thread]
	if out == nil {
		out = []int64{}
	}
	delete(w.allocs, thread)
	return out
}

// Thread returns the name of the calling goroutine ("" if unknown and nothing announced).
func (w *World) Thread() string {
	w.mu.Lock()
	defer w.mu.Unlock()
	if w.threads == nil {
		w.threads = map[int64]string{}
	}
	g := gid()
	if t, ok := w.threads[g]; ok {
		return t
	}
	if len(w.announce) > 0 {
		t := w.announce[0]
		w.announce = w.announce[1:]
		w.threads[g] = t
		return t
	}
	return ""
}

func (w *World) famID(dir string) int {
	w.mu.Lock()
	defer w.mu.Unlock()
	if id, ok := w.famIDs[dir]; ok {
		return id
	}
	return -1
}

// LoadOptions reads the family ids from the OPTIONS file of a store directory.
func (w *World) LoadOptions(storeDir string) []int {
	var info struct {
		Families map[string]struct {
			ID int `toml:"id"`
		} `toml:"families"`
	}
	ids := []int{}
	if _, err := toml.DecodeFile(filepath.Join(storeDir, version.Options), &info); err != nil {
		return ids
	}
	w.mu.Lock()
	for name, f := range info.Families {
		w.famIDs[name] = f.ID
		ids = append(ids, f.ID)
	}
	w.mu.Unlock()
	sort.Ints(ids)
	return ids
}

func manifestNum(name string) int64 {
	base := filepath.Base(name)
	if i := strings.Index(base, "-"); i >= 0 {
		n, _ := strconv.ParseInt(base[i+1:], 10, 64)
		return n
	}
	return -1
}

func tableNum(name string) int64 {
	base := filepath.Base(name)
	if i := strings.Index(base, "."); i >= 0 {
		n, _ := strconv.ParseInt(base[:i], 10, 64)
		return n
	}
	return -1
}

// DecodeAtoms / EncodeAtoms: a value is a sorted list of 4-byte atoms.
func EncodeAtoms(atoms []uint32) []byte {
	sort.Slice(atoms, func(i, j int) bool { return atoms[i] < atoms[j] })
	b := make([]byte, 0, 4*len(atoms))
	var last uint32
	for i, a := range atoms {
		if i > 0 && a == last {
			continue
		}
		var x [4]byte
		binary.LittleEndian.PutUint32(x[:], a)
		b = append(b, x[:]...)
		last = a
	}
	return b
}

func DecodeAtoms(b []byte) []uint32 {
	var out []uint32
	for i := 0; i+4 <= len(b); i += 4 {
		out = append(out, binary.LittleEndian.Uint32(b[i:]))
	}
	return out
}

// record converts a manifest record to the trace form of the specification.
func recordFields(rec []byte) trace.F {
	fam, logs, err := version.VerifDecodeEditLog(rec)
	if err != nil {
		return trace.F{"fam": -1, "err": err.Error()}
	}
	adds, dels, madds, mdels := [][]int64{}, [][]int64{}, []any{}, []any{}
	seq, nfn := int64(-1), int64(0)
	for _, l := range logs {
		switch l.Kind {
		case "newFile":
			adds = append(adds, []int64{int64(l.Level), l.File})
		case "deleteFile":
			dels = append(dels, []int64{int64(l.Level), l.File})
		case "nextFileNumber":
			nfn = l.File
		case "sequence":
			seq = l.Seq
		case "newRollupFile":
			madds = append(madds, []any{"r", l.File, l.Interval})
		case "deleteRollupFile":
			mdels = append(mdels, []any{"r", l.File, l.Interval})
		case "newReferenceFile":
			madds = append(madds, []any{"ref", l.Store, l.FamilyID, l.File})
		case "deleteReferenceFile":
			mdels = append(mdels, []any{"ref", l.Store, l.FamilyID, l.File})
		}
	}
	if fam < 0 {
		fam = 0 // store level record (StoreFamilyID)
	}
	return trace.F{"fam": fam, "adds": adds, "dels": dels, "seq": seq, "nfn": nfn, "madds": madds, "mdels": mdels}
}

type manifestWriter struct {
	bufioutil.BufioWriter
	w     *World
	num   int64
	last  []byte
	store string // directory of the store the manifest belongs to
}

func (m *manifestWriter) Write(b []byte) (int, error) {
	m.last = append([]byte{}, b...)
	return m.BufioWriter.Write(b)
}

func (m *manifestWriter) Sync() error {
	m.w.gate("manifest-append")
	err := m.BufioWriter.Sync()
	if err == nil && m.last != nil {
		f := recordFields(m.last)
		f["num"] = m.num
		m.last = nil
		m.w.emit("ManifestAppend", trace.F{"num": m.num, "rec": f, "store": m.store})
	}
	return err
}

type tableWriter struct {
	bufioutil.BufioWriter
	w    *World
	path string
	fam  int
	num  int64
}

// ReadTable returns the (key, atom) pairs of a complete table file, ok=false for a file
// without a valid footer (abandoned / partial).
func ReadTable(path string) (pairs [][]int64, ok bool) {
	defer func() {
		if r := recover(); r != nil {
			ok = false
		}
	}()
	cache := table.NewCache(filepath.Dir(path), 0)
	defer cache.Close()
	r, err := cache.GetReader("", filepath.Base(path))
	if err != nil || r == nil {
		return nil, false
	}
	it := r.Iterator()
	pairs = [][]int64{}
	for it.HasNext() {
		k := it.Key()
		for _, a := range DecodeAtoms(it.Value()) {
			pairs = append(pairs, []int64{int64(k), int64(a)})
		}
	}
	return pairs, true
}

func (t *tableWriter) Close() error {
	err := t.BufioWriter.Close()
	if err == nil {
		if pairs, ok := ReadTable(t.path); ok {
			t.w.emit("TableClose", trace.F{"fam": t.fam, "num": t.num, "content": pairs})
		} else {
			t.w.emit("TableAbandon", trace.F{"fam": t.fam, "num": t.num})
		}
	}
	return err
}

// Install routes all kv seams through the wrappers (once per process).
func Install() {
	if installed {
		return
	}
	installed = true
	orig.v = version.VerifGetSeams()
	orig.k = kv.VerifGetSeams()
	orig.tw = table.VerifGetWriterFunc()
	version.VerifSetSeams(version.VerifSeams{
		NewBufferWriter: func(fileName string) (bufioutil.BufioWriter, error) {
			w := worldOf(fileName)
			if w != nil {
				w.gate("manifest-create")
			}
			bw, err := orig.v.NewBufferWriter(fileName)
			if err != nil || w == nil {
				return bw, err
			}
			n := manifestNum(fileName)
			w.emit("ManifestCreate", trace.F{"num": n})
			return &manifestWriter{BufioWriter: bw, w: w, num: n, store: filepath.Dir(fileName)}, nil
		},
		NewBufferReader: orig.v.NewBufferReader,
		WriteFile: func(name string, data []byte, perm fs.FileMode) error {
			w := worldOf(name)
			err := orig.v.WriteFile(name, data, perm)
			if err == nil && w != nil {
				w.emit("CurrentTmpWrite", trace.F{"num": manifestNum(string(data))})
			}
			return err
		},
		ReadFile: orig.v.ReadFile,
		Rename: func(oldpath, newpath string) error {
			w := worldOf(newpath)
			err := orig.v.Rename(oldpath, newpath)
			if err == nil && w != nil {
				w.emit("CurrentRename", trace.F{})
			}
			return err
		},
	})
	table.VerifSetWriterFunc(func(fileName string) (bufioutil.BufioWriter, error) {
		w := worldOf(fileName)
		fam, n := -1, int64(-1)
		if w != nil {
			// the file number was allocated (and marked pending) just before this call, with no
			// gate in between: announce it, then let other threads run before the file is created
			fam = w.famID(filepath.Base(filepath.Dir(fileName)))
			n = tableNum(fileName)
			t := w.Thread()
			w.mu.Lock()
			if w.allocs == nil {
				w.allocs = map[string][]int64{}
			}
			w.allocs[t] = append(w.allocs[t], n)
			w.mu.Unlock()
			w.emit("TableAlloc", trace.F{"fam": fam, "num": n})
			w.gate("table-create")
		}
		bw, err := orig.tw(fileName)
		if err != nil || w == nil {
			return bw, err
		}
		w.emit("TableCreate", trace.F{"fam": fam, "num": n})
		// the file exists now: whatever protects it from the obsolete-file cleanup must already be in place
		w.gate("table-created")
		return &tableWriter{BufioWriter: bw, w: w, path: fileName, fam: fam, num: n}, nil
	})
	kv.VerifSetSeams(kv.VerifSeams{
		EncodeToml: func(fileName string, v interface{}) error {
			w := worldOf(fileName)
			err := orig.k.EncodeToml(fileName, v)
			if err == nil && w != nil {
				ids := w.LoadOptions(filepath.Dir(fileName))
				w.emit("OptionsWrite", trace.F{"fams": ids})
			}
			return err
		},
		ListDir: func(path string) ([]string, error) {
			// a gate on either side of the listing: what the caller computed before it and what it computes
			// after it can both be outdated by a writer that runs in between
			w := worldOf(path)
			if w != nil {
				w.gate("before-listdir:" + filepath.Base(path))
			}
			names, err := orig.k.ListDir(path)
			if w != nil {
				w.gate("listdir:" + filepath.Base(path))
			}
			return names, err
		},
		MkDir: orig.k.MkDir,
		Remove: func(name string) error {
			w := worldOf(name)
			err := orig.k.Remove(name)
			if err == nil && w != nil && strings.HasPrefix(filepath.Base(name), version.ManifestPrefix) {
				w.emit("ManifestRemove", trace.F{"num": manifestNum(name)})
			}
			return err
		},
		RemoveDir: func(path string) error {
			w := worldOf(path)
			if w != nil {
				w.gate("remove-table:" + filepath.Base(path))
			}
			_, statErr := os.Stat(path)
			err := orig.k.RemoveDir(path)
			if err == nil && w != nil && statErr == nil { // removing an already removed file is a no-op
				w.emit("TableRemove", trace.F{"fam": w.famID(filepath.Base(filepath.Dir(path))), "num": tableNum(path)})
			}
			return err
		},
	})
}

// CopyDir copies a store directory (files are small) -- the image a kill at this point leaves.
func CopyDir(src, dst string) error {
	return filepath.Walk(src, func(p string, info os.FileInfo, err error) error {
		if err != nil {
			return err
		}
		rel, _ := filepath.Rel(src, p)
		target := filepath.Join(dst, rel)
		if info.IsDir() {
			return os.MkdirAll(target, 0o755)
		}
		if info.Size() > 32<<20 {
			// memory-database temp buffers (sparse mmap files) are volatile state, not part of an image
			return nil
		}
		b, err := os.ReadFile(p)
		if err != nil {
			if os.IsNotExist(err) {
				return nil
			}
			return err
		}
		return os.WriteFile(target, b, 0o644)
	})
}

var _ = fmt.Sprint
