CONSTANTS
  AnyIntervalSlots = FALSE
  DevLookup = FALSE
  FirstDay = 0
  FirstCivil = 0
  LastDay = 0
  Groups = {}
  InstantsOf <- NoneOf
  Intervals = {}
  PlanInputsOf <- NoneOf
  ShardInterval = 0
  ShardInstants = {}
SPECIFICATION TraceSpec
INVARIANTS LookupMatchesOverlap
CONSTRAINT HighWater
POSTCONDITION TraceAccepted
CHECK_DEADLOCK FALSE
