---------------------------- MODULE MCReplication ----------------------------
EXTENDS Replication
CONSTANTS MaxMsgs, MaxFaults, TailLoss, AppendOnlyWhenAligned
VARIABLES nmsg, nfault
mcvars == <<vars, nmsg, nfault>>
MCInit == Init /\ nmsg = 0 /\ nfault = 0
NoF == UNCHANGED <<nmsg, nfault>>
Fault == nfault < MaxFaults /\ nfault' = nfault + 1 /\ UNCHANGED nmsg
MCNext ==
  \/ /\ nmsg < MaxMsgs /\ (AppendOnlyWhenAligned => aligned)
     /\ LeaderAppend(nmsg + 1) /\ nmsg' = nmsg + 1 /\ UNCHANGED nfault
  \/ HandshakeStep("none") /\ NoF
  \/ (\E f \in {"ack", "reset", "connect"} : HandshakeStep(f)) /\ Fault
  \/ Step("none") /\ NoF
  \/ (\E f \in {"send", "recv", "fput"} : Step(f)) /\ Fault
  \/ FollowerRestart /\ Fault
  \/ FollowerLoseLog /\ Fault
  \/ LeaderRestart /\ Fault
  \/ (TailLoss /\ \E k \in 1..2 : LeaderLoseTail(k)) /\ Fault
  \/ (\E k \in 1..2 : LeaderLoseGroup(k)) /\ Fault
  \/ LeaderGC /\ NoF
Fair == WF_mcvars(HandshakeStep("none") /\ NoF) /\ WF_mcvars(Step("none") /\ NoF)
MCSpec == MCInit /\ [][MCNext]_mcvars /\ Fair
\* after the faults stop, the follower catches up with everything the leader still holds
\* After the faults stop: either the follower side died and the leader had no traffic to notice it
\* (broken stream), or the channel is ready, has offered every message and the follower holds all of them.
Resync == <>[]((nfault = MaxFaults /\ nmsg = MaxMsgs) =>
                 (stream = "broken" \/ (st = "ready" /\ cons = lA /\ fA = lA)))
=============================================================================
