"""XWCHAN -- the broker's family write channel (module WriteChannel): an extension beyond the listed properties."""
import json
import os

import vcore


def describe(sig, lines, rel, info):
    kind = "?"
    try:
        kind = json.loads(lines[0]).get("kind", "?")
    except ValueError:
        pass
    return "%s:%s" % (sig, kind)


def run(ctx, replay):
    if replay:
        ok, info = ctx.validate_trace("WriteChannelTrace", "WriteChannelTrace.cfg", replay, dfs=False)
        if not ok:
            ctx.violation("WriteChannel:replay", "replayed trace rejected: %s" % info, replay_src=replay)
        return
    thorough = ctx.tier == "thorough"
    suffix = "_thorough" if thorough else ""
    # M: the channel with every switch at its repaired value satisfies every invariant ...
    ctx.model_check("MCWriteChannel", "MCWriteChannel%s.cfg" % suffix, timeout=3600)
    # ... the channel as the code is (every switch at its `code` value) keeps the ones it can keep: rows are packed in
    # arrival order, nothing is sent twice / parked / dropped before the first fault, every accepted row is on its way,
    # delivered or given up for a named reason ...
    ctx.model_check("MCWriteChannel", "MCWriteChannel_code%s.cfg" % suffix, timeout=3600)
    # ... and each switch at its code value alone breaks exactly the invariant it is named for (observations about the
    # real code; the traces below show that the real channel takes these steps):
    for cfg in ("retrydup",    # a chunk whose re-send fails is queued twice and delivered twice
                "stopretry",   # Stop discards the retry buffer although the stream works
                "notify",      # a leader change while there is no stream disables the leader signal for ever
                "stoporder",   # Stop sends the open chunk before the older chunks queued in ch
                "timer",       # the flush timer pushes into a full ch from the goroutine that drains it / into a closed ch
                "leak"):       # a stream dropped after a failed Send is never closed
        ctx.model_check("MCWriteChannel", "MCWriteChannel_code_%s.cfg" % cfg, expect="violation", timeout=900)
    # liveness (fair task, finitely many faults, no Stop): everything accepted is eventually delivered if the ticker
    # re-sends the retry buffer; the code re-sends it only after a LATER chunk was sent (DESIGN 0.8 observation: confirmed)
    ctx.model_check("MCWriteChannel", "MCWriteChannel_live.cfg", timeout=900)
    ctx.model_check("MCWriteChannel", "MCWriteChannel_code_live.cfg", expect="violation", timeout=900)

    tr = os.path.join(ctx.scratch, "wchan.ndjson")
    nh, steps = (400, 60) if thorough else (60, 40)
    summ, rc, _ = ctx.run_vdrive(["wchan", "--seed", ctx.seed, "--histories", nh, "--steps", steps, "--out", tr], timeout=2400)
    for u in summ["unresolved"]:
        raise vcore.Unresolved("wchan driver: %s" % u)
    for s in summ["samples"][:2]:
        ctx.sample(s)
    ctx.extra["events"] = summ["events"]
    ctx.extra.update(summ.get("extra") or {})
    vcore.validate_all(ctx, "WriteChannelTrace", "WriteChannelTrace.cfg", tr, describe=describe, dfs=False, max_rejections=40)

    def edit(pred, change):
        def mutate(ls):
            for i, ln in enumerate(ls):
                if pred(ln):
                    d = json.loads(ln)
                    if change(d) is False:
                        continue
                    out = list(ls)
                    out[i] = json.dumps(d, separators=(",", ":")) + "\n"
                    return out
            return None
        return mutate

    def other_node(d):
        d["node"] = d["node"] % 3 + 1

    def swap_rows(d):
        if len(d["rows"]) < 1:
            return False
        d["rows"][-1] += 1

    def flip_ok(d):
        d["ok"] = not d["ok"]

    def more_queued(d):
        d["chlen"] += 1

    def write_outcome(d):
        d["out"] = "block"

    clean = os.path.join(ctx.scratch, "wchan-clean.ndjson")
    with open(clean, "w") as f:
        for t in vcore.split_traces(vcore.read_lines(ctx.accepted_path))[:6]:
            f.write("".join(t))
    sent_ok = lambda ln: '"ev":"Send"' in ln and '"res":"ok"' in ln  # noqa: E731
    for pred, change, what in (
            (sent_ok, other_node, "a chunk delivered to another node"),
            (sent_ok, swap_rows, "a delivered chunk with a different last row"),
            (lambda ln: '"ev":"Created"' in ln, flip_ok, "the result of a stream creation flipped"),
            (lambda ln: '"ev":"Proj"' in ln, more_queued, "one more chunk queued in ch"),
            (lambda ln: '"ev":"WriteRow"' in ln and '"out":"ok"' in ln, write_outcome, "a Write that returned reported as blocked")):
        vcore.corrupt_selftest(ctx, "WriteChannelTrace", "WriteChannelTrace.cfg", clean, edit(pred, change), what)
    ctx.assumptions += [
        "a real replica.ChannelManager / shard channel / family channel and the real rpc.NewWriteStream; the harness implements the state watcher, the stream factory, the write client and its stream, and parks the writeTask goroutine in every call (create client, Send, CloseSend) until the driver releases it with the result it chose",
        "rows of equal size, chunk capacity = 3 rows; batch timeout 1 h, `lastFlushTime := 0` (the one private field the harness writes) stands for an expired batch timeout, the one-second ticker runs in real time",
        "private state is read through reflection for Proj (len(ch), chunk size, notifyLeaderChange, stoppedSignal) and the closed flag of ch from the runtime's channel header (layout self-checked at start)",
        "the harness stream's Context() never ends: after a cancellation Send reaches the harness, which answers io.EOF (what a terminated grpc stream answers); rpc.writeStream's own closed flag is exercised by io.EOF injected into Recv",
        "what the harness cannot see is left to TLC: the leader signal consumed while there is no stream (hidden SigNil step), and whether a chunk taken after Stop / cancel was taken by the select loop or by sendBeforeStop (disjunction in TBegin / TClose); after Stop the driver injects only io.EOF and creation failures, because it could not tell whether send() keeps the stream after another error",
        "not driven (would kill the process, panics in the writeTask goroutine): the flush timer firing after Stop closed ch, Stop while the timer push is blocked -- model only (MCWriteChannel_code_timer.cfg)",
        "a task that does not arrive where it must within 25 s is recorded as a Stuck event, which the specification rejects",
    ]
