CONSTANTS
  Leaves <- MCLeaves
  Funcs <- MCFuncs
  Ops <- MCOps
  Aliases <- MCAliases
  MaxDepth <- MCMaxDepth
  SiblingsAt <- MCSiblingsAt
  Stmts <- MCStmts
  SubSecond = TRUE
  Modes = {"tree", "stmt"}
  Texts = {}
  Calls = {}
  Lexers = {}
  EarlyRelease = FALSE
  MCMaxDepth = 0
SPECIFICATION Spec
INVARIANTS StmtRoundTrip
CHECK_DEADLOCK FALSE
