---------------------------- MODULE KVStoreTrace ----------------------------
(* Trace validation of the real kv store against KVStore.  Every file-system  *)
(* operation of kv / kv/version / kv/table passes through a seam whose wrapper *)
(* emits the event after the real operation returned; a kill at that point is  *)
(* the directory copied at that moment, reopened by the real recovery code.    *)
EXTENDS KVStore, Json

Trace == ndJsonDeserialize("trace.ndjson")
VARIABLE l
tvars == <<vars, l>>
ASSUME TLCSet(1, 0)

Ev(e) == l <= Len(Trace) /\ Trace[l].ev = e /\ l' = l + 1
Line == Trace[l]
ToSet(s) == {s[i] : i \in 1..Len(s)}

TraceInit == l = 1 /\ Init

TReset ==
  /\ Ev("Reset") /\ snaps' = Empty
  /\ optfams' = {} /\ manifests' = Empty /\ current' = 0 /\ currentTmp' = 0 /\ tables' = {}
  /\ phase' = "down" /\ fams' = {} /\ nfn' = 2 /\ mfn' = 1 /\ openMan' = 0
  /\ ver' = Empty /\ pending' = {} /\ snapTodo' = {}
  /\ committed' = Empty /\ ccontent' = Empty

RecOf(r) == Rec(r.fam, ToSet(r.adds), ToSet(r.dels), r.seq, r.nfn, ToSet(r.madds), ToSet(r.mdels))

\* content newly committed by a record: the tables it adds at level 0 without deleting anything
\* (a flush, or a rollup output in a target family); a compaction must not change the content
NewContent(r) ==
  IF r.dels = {} THEN UNION {TableOf(r.fam, x[2]).content : x \in {y \in r.adds : y[1] = 0 /\ HasTable(r.fam, y[2])
                                                                     /\ y \notin ver[r.fam].files}}
  ELSE {}

TOpenBegin == Ev("OpenBegin") /\ OpenBegin
TOptionsWrite == Ev("OptionsWrite") /\ OptionsWrite(ToSet(Line.fams))
TManifestCreate == Ev("ManifestCreate") /\ ManifestCreate(Line.num)
TManifestAppend ==
  /\ Ev("ManifestAppend")
  /\ LET r == RecOf(Line.rec) IN
     \/ /\ phase = "snap" /\ Line.num = mfn /\ r.fam \in snapTodo /\ r = SnapRec(r.fam) /\ SnapshotRecord(r.fam)
     \/ /\ phase = "store" /\ Line.num = mfn /\ r = StoreRec /\ StoreRecord
     \/ /\ phase = "ready" /\ Line.num = openMan /\ r.fam \in fams /\ Commit(r, NewContent(r))
TCurrentTmpWrite == Ev("CurrentTmpWrite") /\ CurrentTmpWrite(Line.num)
TCurrentRename == Ev("CurrentRename") /\ CurrentRename
TManifestRemove == Ev("ManifestRemove") /\ RemoveManifest(Line.num)
TTableRemove == Ev("TableRemove") /\ RemoveTable(Line.fam, Line.num)
TTableAlloc == Ev("TableAlloc") /\ TableAlloc(Line.fam, Line.num)
TTableCreate == Ev("TableCreate") /\ TableCreate(Line.fam, Line.num)
TTableClose == Ev("TableClose") /\ TableClose(Line.fam, Line.num, ToSet(Line.content))
TTableAbandon == Ev("TableAbandon") /\ <<Line.fam, Line.num>> \in pending /\ UNCHANGED vars
TWriterDone ==
  /\ Ev("WriterDone") /\ phase = "ready"
  /\ pending' = {p \in pending : ~(p[1] = Line.fam /\ p[2] \in ToSet(Line.nums))}
  /\ UNCHANGED <<disk, phase, fams, nfn, mfn, openMan, ver, snapTodo, snaps, committed, ccontent>>

ProjOK(p) ==
  /\ {p.fams[i].id : i \in 1..Len(p.fams)} = fams
  /\ \A i \in 1..Len(p.fams) :
       LET e == p.fams[i] IN
       /\ e.id \in DOMAIN ver
       /\ ToSet(e.files) = ver[e.id].files
       /\ e.seq = ver[e.id].seq
       /\ ToSet(e.marks) = ver[e.id].marks
       /\ "loaderr" \notin DOMAIN e
       /\ ToSet(e.content) = Content(e.id)

\* readers (C02): a fresh snapshot shows every completed commit; what a held snapshot reads never changes
TSnapAcquire == /\ Ev("SnapAcquire") /\ SnapAcquire(Line.id, Line.fam)
                /\ ToSet(Line.files) = ver[Line.fam].files
                /\ "loaderr" \notin DOMAIN Line
                /\ ToSet(Line.content) = Content(Line.fam)
TSnapRead == /\ Ev("SnapRead") /\ Line.id \in DOMAIN snaps
             /\ "loaderr" \notin DOMAIN Line
             /\ ToSet(Line.content) = SnapContent(Line.id)
             /\ UNCHANGED vars
TSnapClose == Ev("SnapClose") /\ SnapClose(Line.id)
TSnapCloseAgain == Ev("SnapCloseAgain") /\ SnapCloseAgain(Line.id)

TOpenEnd == Ev("OpenEnd") /\ OpenEnd /\ ProjOK(Line.proj)
TOpenFailed == Ev("OpenFailed") /\ phase = "failed" /\ UNCHANGED vars
TProj == Ev("Proj") /\ phase = "ready" /\ ProjOK(Line.proj) /\ UNCHANGED vars
TCrash == Ev("Crash") /\ Crash
TError == Ev("Error") /\ FALSE

TraceNext == TReset \/ TOpenBegin \/ TOptionsWrite \/ TManifestCreate \/ TManifestAppend \/ TCurrentTmpWrite
             \/ TCurrentRename \/ TManifestRemove \/ TTableRemove \/ TTableAlloc \/ TTableCreate \/ TTableClose \/ TTableAbandon
             \/ TWriterDone \/ TSnapAcquire \/ TSnapRead \/ TSnapClose \/ TSnapCloseAgain \/ TOpenEnd \/ TOpenFailed \/ TProj \/ TCrash
TraceSpec == TraceInit /\ [][TraceNext]_tvars

HighWater == TLCSet(1, IF l > TLCGet(1) THEN l ELSE TLCGet(1))
TraceAccepted ==
  LET hw == TLCGet(1) IN
  IF hw = Len(Trace) + 1 THEN TRUE
  ELSE /\ PrintT(<<"TRACE-REJECTED-AT-LINE", hw>>)
       /\ FALSE
=============================================================================
