CONSTANTS
  SuccessOnlyAtEnd = TRUE
  RegisterAtomic = TRUE
  KeepFirstError = TRUE
  RecoverPerStage = TRUE
  FirstErrorWins = TRUE
  ErrReadAtCompletion = TRUE
SPECIFICATION TraceSpec
INVARIANTS AtMostOnce OnlyAfterAll ErrorReported PendingSane PreOrderOK NoOpAfterFailure FailureIsOutcome WalkComplete CompletedOnce
CONSTRAINT HighWater
POSTCONDITION TraceAccepted
CHECK_DEADLOCK FALSE
