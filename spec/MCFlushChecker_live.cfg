\* the repaired code under fair requesters and workers: data never waits for ever
CONSTANTS
  Req = {r1, r2}
  MarkBeforeSend = TRUE
SPECIFICATION FairSpec
INVARIANTS NoStaleMark InFlightExact
PROPERTIES FlushedEventually
CHECK_DEADLOCK FALSE
