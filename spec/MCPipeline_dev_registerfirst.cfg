\* stateMachine.executeStage counts the stage as pending BEFORE its Identifier() is evaluated (the code before the
\* repair 37fa917): when that panics nobody ever completes the stage, the callback never fires: must violate
CONSTANTS
  MCTrees <- MCTreesQuick
  WithNextPanic = TRUE
  SuccessOnlyAtEnd = TRUE
  RegisterAtomic = FALSE
  KeepFirstError = TRUE
  RecoverPerStage = TRUE
  FirstErrorWins = TRUE
  ErrReadAtCompletion = TRUE
SPECIFICATION MCSpec
INVARIANTS AtMostOnce OnlyAfterAll ErrorReported ExactlyOnceAtEnd CompletedOnce
CHECK_DEADLOCK FALSE
