CONSTANTS
  FixLostTail = FALSE
  MismatchResync = TRUE
SPECIFICATION TraceSpec
INVARIANTS PositionalEquality NoHoles AckImpliesAppended NoSilentSkip
PROPERTIES TAckOnlyAppended
CONSTRAINT HighWater
POSTCONDITION TraceAccepted
CHECK_DEADLOCK FALSE
