package main

// seglife-probe: exploration of the window between IntervalSegment.GetOrCreateSegment and Segment.GetOrCreateDataFamily
// (Shard.GetOrCrateDataFamily) against Shard.EvictSegment.  Prints what happens; not part of a check.

import (
	"fmt"
	"os"
	"path/filepath"
	"strings"
	"sync/atomic"
	"time"

	protoMetricsV1 "github.com/lindb/common/proto/gen/v1/linmetrics"

	"github.com/lindb/lindb/kv"
	"github.com/lindb/lindb/models"
	"github.com/lindb/lindb/pkg/option"
	"github.com/lindb/lindb/pkg/timeutil"
)

func init() { register("seglife-probe", seglifeProbeMain) }

func spMetric(base int64, row int) *protoMetricsV1.Metric {
	return &protoMetricsV1.Metric{Name: "cpu", Timestamp: base + int64(row)*10000 + 1,
		Tags:         []*protoMetricsV1.KeyValue{{Key: "host", Value: fmt.Sprintf("r%d", row)}},
		SimpleFields: []*protoMetricsV1.SimpleField{{Name: "s", Value: 1, Type: protoMetricsV1.SimpleFieldType_DELTA_SUM}}}
}

func seglifeProbeMain(args []string) int {
	time.Local = time.UTC
	dir, _ := os.MkdirTemp("", "seglife")
	defer os.RemoveAll(dir)
	engine, err := openEngineAt(filepath.Join(dir, "data"))
	if err != nil {
		fmt.Println(err)
		return 2
	}
	long := timeutil.Interval(36500 * 24 * 3600 * 1000)
	seams := kv.VerifGetSeams()
	var armed atomic.Bool
	arrived, goOn := make(chan struct{}), make(chan struct{})
	var gW int64
	w := seams
	w.MkDir = func(path string) error {
		if armed.Load() && strings.Contains(path, "/segment/month/") && flGid() == atomic.LoadInt64(&gW) {
			armed.Store(false)
			close(arrived)
			<-goOn
		}
		return seams.MkDir(path)
	}
	kv.VerifSetSeams(w)
	for try := 0; try < 8; try++ {
		name := fmt.Sprintf("sp%d", try)
		opt := &option.DatabaseOption{Intervals: option.Intervals{
			{Interval: timeutil.Interval(10 * 1000), Retention: long},
			{Interval: timeutil.Interval(5 * 60 * 1000), Retention: long}}, AutoCreateNS: true}
		if err := engine.CreateShards(name, opt, models.ShardID(0)); err != nil {
			fmt.Println(err)
			return 2
		}
		db, _ := engine.GetDatabase(name)
		sh, _ := db.GetShard(models.ShardID(0))
		base := time.Date(2022, 3, 1, 11, 0, 0, 0, time.UTC).UnixMilli()
		arrived, goOn = make(chan struct{}), make(chan struct{})
		armed.Store(true)
		done := make(chan struct{})
		var ferr error
		flGo(&gW, func() {
			defer func() {
				if r := recover(); r != nil {
					ferr = fmt.Errorf("panic: %v", r)
				}
				close(done)
			}()
			f, err := sh.GetOrCrateDataFamily(base)
			ferr = err
			if err == nil {
				fmt.Println("writer: family", f.Indicator())
				m := spMetric(base, 1)
				err = f.WriteRows(storageRows(m))
				fmt.Println("writer: WriteRows ->", err)
				err = f.Flush()
				fmt.Println("writer: Flush ->", err)
			}
		})
		select {
		case <-arrived:
		case <-done:
			fmt.Println("writer finished without reaching the seam:", ferr)
			continue
		}
		fmt.Println("writer parked inside the creation of the month segment's store")
		evDone := make(chan struct{})
		var gE int64
		flGo(&gE, func() { sh.EvictSegment(); close(evDone) })
		inClose := false
		r := flAwait(func() bool {
			if flParked(&gE, "kv.(*storeManager).CloseStore", "sync.(*Mutex).Lock") {
				inClose = true
				return true
			}
			return flParked(&gE, "tsdb.(*intervalSegment).EvictSegment", "sync.(*Mutex).Lock")
		}, evDone, 20)
		fmt.Println("evict:", r, "parked inside CloseStore of the day segment:", inClose)
		close(goOn)
		<-done
		<-evDone
		fmt.Println("writer result:", ferr)
		fmt.Println("stores after:", len(storesOf(name, "day")), len(storesOf(name, "month")))
		// a second writer
		f2, err := sh.GetOrCrateDataFamily(base)
		fmt.Println("second GetOrCrateDataFamily ->", err)
		if err == nil {
			m := spMetric(base, 2)
			fmt.Println("second WriteRows ->", f2.WriteRows(storageRows(m)))
			fmt.Println("second Flush ->", f2.Flush())
		}
		if inClose {
			break
		}
	}
	return 0
}
