--------------------------- MODULE SortedDictTrace ---------------------------
(* Trace validation (leg T of C20): TLC judges the answers that the REAL code   *)
(* (pkg/trie builder / trie / iterators, index/model trie bucket + builder,     *)
(* index/v1 flusher / reader / merger over a real kv store; harness             *)
(* `vdrive dict`) gave for logged key sets and probes, against SortedDict.      *)
(* Keys are logged as arrays of byte values, ids as ints.  Query events are     *)
(* batched (one event = many probes on one dictionary); no event branches, so   *)
(* validation is linear in the trace.                                           *)
EXTENDS SortedDict, Json

Trace == ndJsonDeserialize("trace.ndjson")
VARIABLE l
tvars == <<vars, l>>
ASSUME TLCSet(1, 0)
Ev(e) == l <= Len(Trace) /\ Trace[l].ev = e /\ l' = l + 1
Line == Trace[l]

TraceInit == l = 1 /\ Init
TReset == Ev("Reset") /\ dicts' = << >>

\* ---- state changing events
\* a dictionary built by the real code from the logged pairs (trie builder, bucket builder or kv flusher)
TBuild == /\ Ev("Build") /\ Len(Line.keys) = Len(Line.vals) /\ NoDup(Line.keys)
          /\ Build(Line.d, PairsOf(Line.keys, Line.vals))
\* the marshalled form of `from` loaded again (UnmarshalBinary / TrieBucket.Unmarshal / rewritten bucket)
TLoad == Ev("Load") /\ Load(Line.d, Line.from)
\* several dictionaries of one bucket seen as one (reader over several files, bucket merge, kv compaction)
TMerge == Ev("Merge") /\ Merge(Line.d, ToSet(Line.from))

\* ---- queries: the logged answer must be the reference answer on the dictionary the model holds for Line.d.
\* The judges are state-level predicates that are meant to be EVALUATED; inside an action TLC would expand their
\* quantifiers and disjunctions structurally, comparing with TRUE forces plain evaluation.
Holds(b) == b = TRUE
Q == Line.d \in DOMAIN dicts /\ UNCHANGED dicts
D == dicts[Line.d]
Idx(s) == 1..Len(s)
TSize == Ev("Size") /\ Q /\ Cardinality(D) = Line.size
GetJudge == /\ Len(Line.found) = Len(Line.probes) /\ Len(Line.vals) = Len(Line.probes)
            /\ LET K == KeysOf(D) IN \A i \in Idx(Line.probes) : GetOK(D, K, Line.probes[i], Line.found[i] = 1, Line.vals[i])
TGet == Ev("Get") /\ Q /\ Holds(GetJudge)
PrefixJudge == /\ Len(Line.keys) = Len(Line.ps) /\ Len(Line.vals) = Len(Line.ps)
               /\ \A i \in Idx(Line.ps) : PrefixOK(D, Line.ps[i], Line.keys[i], Line.vals[i])
TPrefix == Ev("Prefix") /\ Q /\ Holds(PrefixJudge)
TIter == Ev("Iter") /\ Q /\ Holds(IterOK(D, Line.keys, Line.vals))
TIterBack == Ev("IterBack") /\ Q /\ Holds(IterBackOK(D, Line.keys, Line.vals))
SeekJudge == /\ Len(Line.valid) = Len(Line.ps) /\ Len(Line.keys) = Len(Line.ps)
             /\ LET K == KeysOf(D) IN \A i \in Idx(Line.ps) : SeekOK(K, Line.ps[i], Line.valid[i] = 1, Line.keys[i])
TSeek == Ev("Seek") /\ Q /\ Holds(SeekJudge)
TValues == Ev("Values") /\ Q /\ Holds(ValuesOK(D, Line.vals))
TCollect == Ev("Collect") /\ Q /\ Holds(CollectOK(D, Line.want, Line.ids, Line.keys))
TLike == Ev("Like") /\ Q /\ Holds(LikeOK(D, Line.kind, Line.lit, Line.ids))
TRegex == Ev("Regex") /\ Q /\ Holds(RegexOK(D, Line.kind, Line.lits, Line.ids))
TSuggest == Ev("Suggest") /\ Q /\ Line.limit >= 1 /\ Holds(SuggestOK(KeysOf(D), Line.p, Line.limit, Line.keys))

TraceNext == TReset \/ TBuild \/ TLoad \/ TMerge \/ TSize \/ TGet \/ TPrefix \/ TIter \/ TIterBack \/ TSeek
             \/ TValues \/ TCollect \/ TLike \/ TRegex \/ TSuggest
TraceSpec == TraceInit /\ [][TraceNext]_tvars

HighWater == TLCSet(1, IF l > TLCGet(1) THEN l ELSE TLCGet(1))
TraceAccepted ==
  LET hw == TLCGet(1) IN
  IF hw = Len(Trace) + 1 THEN TRUE
  ELSE /\ PrintT(<<"TRACE-REJECTED-AT-LINE", hw>>)
       /\ FALSE
=============================================================================
