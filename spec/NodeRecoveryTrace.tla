-------------------------- MODULE NodeRecoveryTrace --------------------------
(* Trace validation of a real in-process storage node (tsdb engine + real WAL  *)
(* partition with its local replicator), stepped by the harness `vdrive node`, *)
(* with directory images taken after every step and between the data commit    *)
(* and the log acknowledgement; each image is recovered by the real code,       *)
(* replayed, flushed and read back.                                             *)
EXTENDS NodeRecovery, Json

Trace == ndJsonDeserialize("trace.ndjson")
VARIABLES l,
          seenIdx   \* trace-level bookkeeping, a record: n = index families of the running index flush committed so far;
                    \* orph = data blocks that were durable at a crash while the index entries of their series were not
                    \* (the known finding AckedDataIndexed at work): the replayed log may index the series again under
                    \* ANOTHER series id (which one depends on how many index families the interrupted index flush had
                    \* committed), so such a block may stay unreachable for ever
tvars == <<vars, l, seenIdx>>
ASSUME TLCSet(1, 0)
Ev(e) == l <= Len(Trace) /\ Trace[l].ev = e /\ l' = l + 1
Line == Trace[l]

NoIdx == [n |-> 0, orph |-> {}]
TraceInit == l = 1 /\ seenIdx = NoIdx /\ Init
TReset ==
  /\ Ev("Reset")
  /\ wal' = << >> /\ gAck' = -1 /\ qAck' = -1 /\ dDict' = Empty /\ dCounter' = 0 /\ dFiles' = {} /\ dSeq' = -1
  /\ up' = TRUE /\ gCons' = -1 /\ fSeq' = -1
  /\ mDict' = Empty /\ mCounter' = 0 /\ mem' = {} /\ imm' = {} /\ immSeq' = -1 /\ gen' = 0 /\ ifl' = NoIfl /\ pendAck' = FALSE
  /\ dSer' = {} /\ dIdx' = {} /\ mSer' = {} /\ mIdx' = {} /\ iSer' = {} /\ iIdx' = {} /\ idxPhase' = "idle" /\ badIdx' = {}
  /\ seenIdx' = NoIdx

TAppend == Ev("Append") /\ AppendEntry(Line.name) /\ UNCHANGED seenIdx
TReplicaStep == Ev("ReplicaStep") /\ ReplicaStep /\ UNCHANGED seenIdx
TRBegin == Ev("RBegin") /\ RBegin /\ UNCHANGED seenIdx
TRWrite == Ev("RWrite") /\ RWrite /\ UNCHANGED seenIdx
TRCommit == Ev("RCommit") /\ RCommit /\ UNCHANGED seenIdx
TMetaFlush == Ev("MetaFlush") /\ MetaFlush /\ UNCHANGED seenIdx
TFamilyCommit == Ev("FamilyCommit") /\ FamilyFreezeAndCommit /\ UNCHANGED seenIdx
TFamilyAck == Ev("FamilyAck") /\ FamilyAck /\ UNCHANGED seenIdx
TCrash == Ev("Crash") /\ Crash /\ seenIdx' = [n |-> 0, orph |-> seenIdx.orph \cup {b \in dFiles : b.id \notin dIdx}]
TRecover == Ev("Recover") /\ Recover /\ UNCHANGED seenIdx
TLogRollback == Ev("LogRollback") /\ LogRollback(Line.gcons, Line.gack) /\ UNCHANGED seenIdx
\* steps without an effect on the modelled state
TSyncGC == Ev("SyncGC") /\ SyncGC /\ UNCHANGED seenIdx
TExpireCheck == Ev("ExpireCheck") /\ ExpireCheck(Line.expired) /\ UNCHANGED seenIdx
\* after the log of an expired family was destroyed only the data side is projected (a recovered node opens a new log)
TProjData ==
  /\ Ev("ProjData")
  /\ Line.fseq = fSeq /\ Line.dseq = dSeq
  /\ DOMAIN Line.dict = DOMAIN AllDict
  /\ \A n \in DOMAIN AllDict : Line.dict[n] = AllDict[n]
  /\ UNCHANGED vars
  /\ UNCHANGED seenIdx
\* the WAL manager creates a new log for the family after the old one was destroyed: nothing changes for the data
\* side; sequences of the (family, leader) pair go on (the family validates every entry against its recorded sequence)
TLogRecreate == Ev("LogRecreate") /\ up /\ UNCHANGED vars /\ UNCHANGED seenIdx
\* Shard.FlushIndex observed through the kv seam: prepare, then one IdxCommit per manifest commit of an index family:
\* metric inverted index, forward index, inverted index (part "index", in this order), then the series family.
\* A new series with a tag has entries in all three; the shard index finds a series by metric AND by tag, i.e.
\* the index part is durable with the THIRD index commit.  A family with nothing to flush commits nothing.
TIdxPrepare == Ev("IdxPrepare") /\ IdxPrepare /\ seenIdx' = [seenIdx EXCEPT !.n = 0]
TIdxCommit ==
  /\ Ev("IdxCommit")
  /\ IF Line.part = "index"
       THEN /\ idxPhase = "prepared" /\ iIdx # {} /\ seenIdx' = [seenIdx EXCEPT !.n = @ + 1]
            /\ IF seenIdx.n + 1 = 3 THEN IdxCommitA ELSE UNCHANGED vars
       ELSE \* the series family: after the index families if there is anything to index
            /\ seenIdx' = [seenIdx EXCEPT !.n = 0]
            /\ IF idxPhase = "half" THEN IdxCommitB ELSE (idxPhase = "prepared" /\ iIdx = {} /\ IdxCommitBoth)
TIdxDone ==
  /\ Ev("IdxDone") /\ seenIdx' = [seenIdx EXCEPT !.n = 0]
  /\ IF idxPhase = "prepared" THEN (iSer = {} /\ iIdx = {} /\ IdxCommitBoth)
     ELSE IF idxPhase = "half" THEN (iSer = {} /\ IdxCommitB)
     ELSE UNCHANGED vars
TStutter == Ev("Note") /\ UNCHANGED vars /\ UNCHANGED seenIdx

TProj ==
  /\ Ev("Proj")
  /\ Line.app = Len(wal) - 1
  /\ Line.gack = gAck /\ Line.gcons = gCons /\ Line.qack = qAck
  /\ Line.fseq = fSeq /\ Line.dseq = dSeq
  /\ DOMAIN Line.dict = DOMAIN AllDict
  /\ \A n \in DOMAIN AllDict : Line.dict[n] = AllDict[n]
  /\ UNCHANGED vars
  /\ UNCHANGED seenIdx

\* read-back of every entry: [seq, resolved (0/1), how often its point is in the data files]
TFinal ==
  /\ Ev("Final")
  /\ Len(Line.entries) = Len(wal)
  /\ \A i \in 1..Len(Line.entries) :
       LET e == Line.entries[i]  s == e[1]  n == wal[s + 1] IN
       /\ e[2] = (IF n \in DOMAIN AllDict THEN 1 ELSE 0)
       \* ... counted only for the series that the shard index finds by metric and by tag
       /\ LET full == IF n \in DOMAIN AllDict /\ AllDict[n] \in AllIdx
                         THEN Cardinality({b \in dFiles : b.seq = s /\ b.id = AllDict[n]}) ELSE 0
              lost == IF n \in DOMAIN AllDict
                         THEN Cardinality({b \in dFiles \cap seenIdx.orph : b.seq = s /\ b.id = AllDict[n]}) ELSE 0
          IN \/ e[3] = full
             \* data flushed and acknowledged before its index entries were durable, cut off by a crash (AckedDataIndexed)
             \/ (lost > 0 /\ e[3] = full - lost)
             \* index entries made durable before their dictionary entries and cut off by a crash (IndexedResolves)
             \/ (n \in DOMAIN AllDict /\ AllDict[n] \in badIdx /\ e[3] = 0)
  /\ UNCHANGED vars
  /\ UNCHANGED seenIdx

TraceNext == TReset \/ TAppend \/ TReplicaStep \/ TRBegin \/ TRWrite \/ TRCommit \/ TMetaFlush \/ TFamilyCommit \/ TFamilyAck \/ TCrash \/ TRecover \/ TLogRollback
             \/ TSyncGC \/ TExpireCheck \/ TProjData \/ TLogRecreate \/ TIdxPrepare \/ TIdxCommit \/ TIdxDone \/ TStutter \/ TProj \/ TFinal
TraceSpec == TraceInit /\ [][TraceNext]_tvars
HighWater == TLCSet(1, IF l > TLCGet(1) THEN l ELSE TLCGet(1))
TraceAccepted ==
  LET hw == TLCGet(1) IN
  IF hw = Len(Trace) + 1 THEN TRUE
  ELSE /\ PrintT(<<"TRACE-REJECTED-AT-LINE", hw>>)
       /\ FALSE
=============================================================================
