CONSTANTS
  Node = {n1, n2}
  None = None
  FailOverMayFail = TRUE
  MaxExpire = 1
  MaxFail = 1
SPECIFICATION MCSpec
CONSTRAINT Bounded
INVARIANTS SettledOwnerIsMaster
CHECK_DEADLOCK FALSE
