CONSTANTS
  Leaves = {}
  Funcs = {}
  Ops = {}
  Aliases = {}
  MaxDepth <- MCMaxDepth
  SiblingsAt <- MCSiblingsAt
  Stmts = {}
  SubSecond = FALSE
  Modes = {"calls"}
  Texts <- MCTexts
  Calls = {1, 2, 3}
  Lexers = {1, 2, 3}
  EarlyRelease = TRUE
  MCMaxDepth = 0
SPECIFICATION Spec
INVARIANTS ParseFunction
CHECK_DEADLOCK FALSE
