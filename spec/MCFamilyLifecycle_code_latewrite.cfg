\* code: a closed object accepts writes -- must violate NoLateWrite
CONSTANTS
  Leader = {1}
  MaxRow = 2
  MaxObj = 2
  MaxDb = 3
  MaxFail = 1
  MaxRef = 1
  DoubleWindow = FALSE
  CloseLocksFirst = FALSE
  RetryFailed = TRUE
  ClosedRejects = FALSE
  AtomicWrite = TRUE
  RegisterAtGet = TRUE
  AtomicEvict = TRUE
  UniqueStamp = TRUE
  EvictChecksRef = TRUE
  EvictChecksMem = TRUE
  CloseFlushes = TRUE
  AckFrozen = TRUE
SPECIFICATION MCSpec
INVARIANTS NoLateWrite
CHECK_DEADLOCK FALSE
