CONSTANTS
  ReadFaultGivesUp = TRUE
  Node = {1, 2, 3}
  Db = {"d1"}
  MaxShards = 2
  MaxRf = 2
  MaxEnv = 5
SPECIFICATION MCSpec
INVARIANTS ViewsAgree OnlineIffSomeReplicaAlive LeaderIsAliveReplica AssignmentsWellFormed
PROPERTIES GrowKeepsExisting
CHECK_DEADLOCK FALSE
