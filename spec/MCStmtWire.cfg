CONSTANTS
  Leaves <- MCLeaves
  Funcs <- MCFuncs
  Ops <- MCOps
  Aliases <- MCAliases
  MaxDepth <- MCMaxDepth
  SiblingsAt <- MCSiblingsAt
  Stmts <- MCStmts
  SubSecond = FALSE
  MCMaxDepth = 2
SPECIFICATION Spec
INVARIANTS RoundTrip StmtRoundTrip
CHECK_DEADLOCK FALSE
