CONSTANTS
  Alphabet = {0, 1, 2}
  MaxLen = 3
  MaxKeys = 3
  Deviation_SeekExactOnlyWhenProbeIsPrefix = TRUE
  Deviation_RegexScansLiteralPrefixOnly = FALSE
SPECIFICATION MCSpec
INVARIANTS AllDicts IterationIsSortedMap LookupIsMembership PrefixIsARange SeekThenScanIsPrefixEnumeration
  SuggestIsPrefixHead LoadIsIdentity MergeIsUnion PatternScanIsComplete
CHECK_DEADLOCK FALSE
