------------------------------ MODULE Pipeline ------------------------------
(***************************************************************************)
(* Query pipeline of lindb (query/pipeline.go, pipeline_state_matchine.go, *)
(* stage/base_stage.go, internal/concurrent/pool.go)  --  property C19.    *)
(*                                                                         *)
(* One thread per goroutine: "main" (the caller of Pipeline.Execute) and   *)
(* one per asynchronous stage (the pool worker that runs it).  A thread is *)
(* a stack of frames; one action per step of the code:                     *)
(*   chk   pipeline.executeStage: isCompleted() test                       *)
(*   reg   stateMachine.executeStage: pending++, stage recorded            *)
(*   plan  stage.Plan() on the caller's goroutine, then inline / pool       *)
(*   exec  stage body (baseStage.execute of the plan tree)                 *)
(*   next  completeHandle: NextStages(), one executeStage per child        *)
(*   fin   completeStage, part under the mutex (state, first error)        *)
(*   dec   completeStage, pending.Dec() and complete() when it hits zero   *)
(*   end   the handler returns                                             *)
(*   mainc Pipeline.Execute's recover: complete(err)                       *)
(* Deviation switches (both TRUE on the repaired tree):                    *)
(*   KeepFirstError   the state machine remembers the first stage error    *)
(*   RecoverPerStage  executeStage recovers a panic of its own stage       *)
(***************************************************************************)
EXTENDS Naturals, Sequences, FiniteSets, TLC

CONSTANTS KeepFirstError, RecoverPerStage

VARIABLES children,   \* [Stage -> Seq(Stage)]   the stage tree (NextStages)
          root,
          async,      \* [Stage -> BOOLEAN]
          outcome,    \* [Stage -> {"ok","err","panic"}]
          stacks,     \* [Thread -> Seq(frame)]
          pending, registered, done, completed, cbCount, cbErr,
          errSeen,    \* first error remembered by the state machine
          anyErr      \* ghost: some executed stage failed or panicked

vars == <<children, root, async, outcome, stacks, pending, registered, done,
          completed, cbCount, cbErr, errSeen, anyErr>>

Stage == DOMAIN children
Thread == Stage \cup {"main"}

InitWith(ch, rt, as, oc) ==
  /\ children = ch /\ root = rt /\ async = as /\ outcome = oc
  /\ stacks = [t \in (DOMAIN ch) \cup {"main"} |->
                 IF t = "main" THEN << [k |-> "chk", s |-> rt] >> ELSE << >>]
  /\ pending = 0 /\ registered = {} /\ done = {}
  /\ completed = FALSE /\ cbCount = 0 /\ cbErr = FALSE
  /\ errSeen = FALSE /\ anyErr = FALSE

Top(t) == stacks[t][Len(stacks[t])]
Pop(t) == SubSeq(stacks[t], 1, Len(stacks[t]) - 1)
Has(t, kind) == t \in DOMAIN stacks /\ stacks[t] # << >> /\ Top(t).k = kind
Replace(t, f) == [stacks EXCEPT ![t] = Append(Pop(t), f)]

Static == UNCHANGED <<children, root, async, outcome>>

\* stateMachine.complete(err): CAS on completed, then the callback
Complete(err) ==
  IF completed THEN UNCHANGED <<completed, cbCount, cbErr>>
  ELSE /\ completed' = TRUE /\ cbCount' = cbCount + 1 /\ cbErr' = err

\* pipeline.executeStage: `if stage == nil || p.sm.isCompleted() { return }`
Chk(t) ==
  /\ Has(t, "chk")
  /\ stacks' = IF completed THEN [stacks EXCEPT ![t] = Pop(t)]
                            ELSE Replace(t, [k |-> "reg", s |-> Top(t).s])
  /\ UNCHANGED <<pending, registered, done, completed, cbCount, cbErr, errSeen, anyErr>>
  /\ Static

\* stateMachine.executeStage: pending++, the stage is recorded
Register(t) ==
  /\ Has(t, "reg")
  /\ LET s == Top(t).s IN
     /\ pending' = pending + 1
     /\ registered' = registered \cup {s}
     /\ stacks' = Replace(t, [k |-> "plan", s |-> s])
  /\ UNCHANGED <<done, completed, cbCount, cbErr, errSeen, anyErr>>
  /\ Static

\* stage.Plan() is evaluated on the CALLER's goroutine (argument of stage.Execute), then
\* stage.Execute runs the body inline or submits it to the pool
Plan(t) ==
  /\ Has(t, "plan")
  /\ LET s == Top(t).s IN
     IF outcome[s] = "planpanic"
       THEN /\ anyErr' = TRUE
            /\ stacks' = IF RecoverPerStage
                            THEN Replace(t, [k |-> "fin", s |-> s, e |-> TRUE])
                          ELSE IF t = "main"
                            THEN [stacks EXCEPT ![t] = << [k |-> "mainc", s |-> s] >>]
                            ELSE [stacks EXCEPT ![t] = << [k |-> "fin", s |-> t, e |-> TRUE] >>]
       ELSE /\ UNCHANGED anyErr
            /\ stacks' = IF async[s]
                            THEN [stacks EXCEPT ![t] = Pop(t), ![s] = << [k |-> "exec", s |-> s] >>]
                            ELSE Replace(t, [k |-> "exec", s |-> s])
  /\ UNCHANGED <<pending, registered, done, completed, cbCount, cbErr, errSeen>>
  /\ Static

\* the stage body
Exec(t) ==
  /\ Has(t, "exec")
  /\ LET s == Top(t).s IN
     CASE outcome[s] = "ok" ->
            /\ stacks' = Replace(t, [k |-> "next", s |-> s, i |-> 1])
            /\ UNCHANGED anyErr
       [] outcome[s] = "err" ->
            /\ stacks' = Replace(t, [k |-> "fin", s |-> s, e |-> TRUE])
            /\ anyErr' = TRUE
       [] outcome[s] = "panic" ->
            /\ anyErr' = TRUE
            /\ IF RecoverPerStage
                 THEN \* executeStage(s) recovers: completeStage(s, err)
                      stacks' = Replace(t, [k |-> "fin", s |-> s, e |-> TRUE])
                 ELSE IF t = "main"
                 THEN \* unwinds to Pipeline.Execute's recover; every frame is abandoned
                      stacks' = [stacks EXCEPT ![t] = << [k |-> "mainc", s |-> s] >>]
                 ELSE \* unwinds to the pool's recover, which calls the errHandle of the
                      \* goroutine's own stage (= t); frames above it are abandoned
                      stacks' = [stacks EXCEPT ![t] = << [k |-> "fin", s |-> t, e |-> TRUE] >>]
  /\ UNCHANGED <<pending, registered, done, completed, cbCount, cbErr, errSeen>>
  /\ Static

\* completeHandle: plan the children one by one, then complete the stage itself
Next1(t) ==
  /\ Has(t, "next")
  /\ LET s == Top(t).s  i == Top(t).i IN
     stacks' = IF i <= Len(children[s])
                 THEN [stacks EXCEPT ![t] = Append(Append(Pop(t), [k |-> "next", s |-> s, i |-> i + 1]),
                                                   [k |-> "chk", s |-> children[s][i]])]
                 ELSE Replace(t, [k |-> "fin", s |-> s, e |-> FALSE])
  /\ UNCHANGED <<pending, registered, done, completed, cbCount, cbErr, errSeen, anyErr>>
  /\ Static

\* completeStage under the mutex: stage state, first error
FinMark(t) ==
  /\ Has(t, "fin")
  /\ LET s == Top(t).s  e == Top(t).e IN
     /\ done' = done \cup {s}
     /\ errSeen' = (errSeen \/ e)
     /\ stacks' = Replace(t, [k |-> "dec", s |-> s, e |-> e])
  /\ UNCHANGED <<pending, registered, completed, cbCount, cbErr, anyErr>>
  /\ Static

\* completeStage after the mutex: pending.Dec() == 0 => complete(err)
FinDec(t) ==
  /\ Has(t, "dec")
  /\ LET s == Top(t).s  e == Top(t).e IN
     /\ pending' = pending - 1
     /\ IF pending - 1 = 0
          THEN Complete(IF KeepFirstError THEN errSeen ELSE e)
          ELSE UNCHANGED <<completed, cbCount, cbErr>>
     /\ stacks' = Replace(t, [k |-> "end", s |-> s])
  /\ UNCHANGED <<registered, done, errSeen, anyErr>>
  /\ Static

FinEnd(t) ==
  /\ Has(t, "end")
  /\ stacks' = [stacks EXCEPT ![t] = Pop(t)]
  /\ UNCHANGED <<pending, registered, done, completed, cbCount, cbErr, errSeen, anyErr>>
  /\ Static

\* Pipeline.Execute's deferred recover
MainComplete ==
  /\ Has("main", "mainc")
  /\ Complete(TRUE)
  /\ stacks' = [stacks EXCEPT !["main"] = << >>]
  /\ UNCHANGED <<pending, registered, done, errSeen, anyErr>>
  /\ Static

Step(t) == Chk(t) \/ Register(t) \/ Plan(t) \/ Exec(t) \/ Next1(t) \/ FinMark(t) \/ FinDec(t) \/ FinEnd(t)
Next == (\E t \in Thread : Step(t)) \/ MainComplete

Quiescent == \A t \in Thread : stacks[t] = << >>
NoPanic == \A s \in Stage : outcome[s] \notin {"panic", "planpanic"}

\* ---------------------------------------------------------------- C19
AtMostOnce == cbCount <= 1
\* no stage panics => the completion is signalled only after every started stage finished
OnlyAfterAll == (NoPanic /\ cbCount = 1) => registered \subseteq done
\* whatever the panics: with per-stage recovery the same holds
OnlyAfterAllStrong == (RecoverPerStage /\ cbCount = 1) => registered \subseteq done
ErrorReported == (Quiescent /\ cbCount = 1 /\ anyErr) => cbErr
ExactlyOnceAtEnd == Quiescent => cbCount = 1
PendingSane == RecoverPerStage =>
                 pending = Cardinality(registered \ done) + Cardinality({t \in Thread : Has(t, "dec")})
Terminates == <>(Quiescent /\ cbCount = 1)
=============================================================================
