CONSTANTS
  SeriesFirst = FALSE
  CommitSeqBeforeWrite = FALSE
  FreezeBeforeMetaFlush = FALSE
  ExpireOnConsumed = FALSE
  IgnoreOverGap = FALSE
  Writable = FALSE
  AtomicRound = FALSE
  Name = {"m1", "m2"}
  MaxEntries = 2
  MaxCrash = 2
  MaxFlush = 3
SPECIFICATION MCSpec
INVARIANTS AckNotAhead NoLoss SeriesIndexed
CHECK_DEADLOCK FALSE
