CONSTANTS
  ReadFaultGivesUp = TRUE
SPECIFICATION TraceSpec
INVARIANTS ViewsAgree OnlineIffSomeReplicaAlive LeaderIsAliveReplica AssignmentsWellFormed
PROPERTIES TGrowKeepsExisting
CONSTRAINT HighWater
POSTCONDITION TraceAccepted
CHECK_DEADLOCK FALSE
