----------------------------- MODULE IngestTrace -----------------------------
(* Trace validation (leg T of C16): TLC judges what the REAL ingestion code      *)
(* (ingestion/proto, ingestion/flat, ingestion/influx Parse -> converter / flat   *)
(* decoder / line parser -> BrokerBatchRows -> EvictOutOfTimeRange -> shard and   *)
(* family iterators -> BrokerRow.WriteTo -> StorageBatchRows; harness             *)
(* `vdrive ingest`) produced for logged requests, against Ingest.                 *)
(* One sub-trace = one database configuration and several request batches in the  *)
(* three formats over a shared pool of series, so that the learned hash and shard *)
(* functions are confronted across formats, tag orders and batch compositions.    *)
EXTENDS Ingest, Json

Trace == ndJsonDeserialize("trace.ndjson")
VARIABLES l,
  cfg,     \* the Reset event: shards, itype, behind, ahead, limits, enriched, reqns
  exp,     \* inputs of the current request that the specification accepts, in order
  rows,    \* rows of the current batch seen so far: [rid, ts, kh]
  KH,      \* learned: canonical tags -> tags hash (set of pairs)
  NH,      \* learned: namespace ++ name -> name hash
  SH       \* learned: <<tags hash, shards>> -> shard
vars == <<cfg, exp, rows, KH, NH, SH>>
tvars == <<vars, l>>
ASSUME TLCSet(1, 0)
Ev(e) == l <= Len(Trace) /\ Trace[l].ev = e /\ l' = l + 1
Line == Trace[l]

NoCfg == [mode |-> "none"]
TraceInit == l = 1 /\ cfg = NoCfg /\ exp = << >> /\ rows = << >> /\ KH = {} /\ NH = {} /\ SH = {}
TReset == Ev("Reset") /\ cfg' = Line /\ exp' = << >> /\ rows' = << >> /\ KH' = {} /\ NH' = {} /\ SH' = {}

\* a new request: a fresh batch
TBatch == Ev("Batch") /\ cfg # NoCfg /\ exp' = << >> /\ rows' = << >> /\ UNCHANGED <<cfg, KH, NH, SH>>
\* TLC expands an action's formula structurally (a quantified implication becomes a case split per element); the
\* judges are state-level predicates and are meant to be EVALUATED, which comparing with TRUE forces
Holds(b) == b = TRUE

\* one metric of the request body; the specification decides whether it has to be accepted
TInput == /\ Ev("Input") /\ cfg # NoCfg
          /\ exp' = IF Valid(Line, cfg.limits, cfg.enriched, cfg.reqns) THEN Append(exp, Line) ELSE exp
          /\ UNCHANGED <<cfg, rows, KH, NH, SH>>
\* the next row of the parsed batch: it must be the canonical form of the next accepted input (so a rejected
\* metric leaves no row and an accepted one is not lost), with hashes that extend the learned functions
RowJudge ==
  LET m == exp[Len(rows) + 1] IN
  /\ RowOK(m, Line, cfg.limits, cfg.enriched, cfg.reqns, Line.nowlo, Line.nowhi)
  /\ FunOK(KH, Line.tags, Line.kh) /\ InjOK(KH, Line.tags, Line.kh)
  /\ FunOK(NH, Line.ns \o Line.name, Line.nh) /\ InjOK(NH, Line.ns \o Line.name, Line.nh)
TRow == /\ Ev("Row") /\ Len(rows) < Len(exp) /\ Line.j = Len(rows) + 1
        /\ Holds(RowJudge)
        /\ KH' = KH \cup {<<Line.tags, Line.kh>>}
        /\ NH' = NH \cup {<<Line.ns \o Line.name, Line.nh>>}
        /\ rows' = Append(rows, [rid |-> Line.rid, ts |-> Line.ts, kh |-> Line.kh])
        /\ UNCHANGED <<cfg, exp, SH>>
\* end of the parse: every accepted input has its row
TParseEnd == Ev("ParseEnd") /\ Line.cnt = Len(rows) /\ Len(rows) = Len(exp) /\ UNCHANGED vars
\* eviction + routing of the batch: exact partition into shard x family groups, only the window evicts,
\* the stored rows carry the hash and timestamp of the converted rows, the shard is a function of (hash, shards)
RouteJudge ==
  /\ RouteOK(rows, Line.groups, cfg.shards, cfg.itype, Line.nowlo, Line.nowhi, cfg.behind, cfg.ahead)
  /\ \A g \in 1..Len(Line.groups) :
        LET G == Line.groups[g] IN
        /\ Len(G.khs) = Len(G.rids) /\ Len(G.tss) = Len(G.rids) /\ Len(G.rids) <= G.total
        /\ \A i \in 1..Len(G.rids) : G.khs[i] = RowOf(rows, G.rids[i]).kh /\ G.tss[i] = RowOf(rows, G.rids[i]).ts
  /\ Line.evicted = Len(rows) - CountRids(Line.groups)
  /\ LET P == ShardPairs(rows, Line.groups, cfg.shards) IN IsFunction(P) /\ (\A sp \in P : FunOK(SH, sp[1], sp[2]))
TRoute == /\ Ev("Route") /\ Len(rows) = Len(exp)
          /\ Holds(RouteJudge)
          /\ SH' = SH \cup ShardPairs(rows, Line.groups, cfg.shards)
          /\ UNCHANGED <<cfg, exp, rows, KH, NH>>

TraceNext == TReset \/ TBatch \/ TInput \/ TRow \/ TParseEnd \/ TRoute
TraceSpec == TraceInit /\ [][TraceNext]_tvars

HighWater == TLCSet(1, IF l > TLCGet(1) THEN l ELSE TLCGet(1))
TraceAccepted ==
  LET hw == TLCGet(1) IN
  IF hw = Len(Trace) + 1 THEN TRUE
  ELSE /\ PrintT(<<"TRACE-REJECTED-AT-LINE", hw>>)
       /\ FALSE
=============================================================================
