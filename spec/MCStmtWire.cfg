CONSTANTS
  Leaves <- MCLeaves
  Funcs <- MCFuncs
  Ops <- MCOps
  Aliases <- MCAliases
  MaxDepth <- MCMaxDepth
  SiblingsAt <- MCSiblingsAt
  Stmts <- MCStmts
  SubSecond = FALSE
  Modes = {"tree", "stmt"}
  Texts = {}
  Calls = {}
  Lexers = {}
  EarlyRelease = FALSE
  MCMaxDepth = 2
SPECIFICATION Spec
INVARIANTS RoundTrip StmtRoundTrip
CHECK_DEADLOCK FALSE
