CONSTANTS
  Series = {a, b, c}
  MaxFlush = 2
  MaxCrash = 1
  LoopPrepare = TRUE
  PostingsFirst = FALSE
SPECIFICATION Spec
INVARIANTS Stable Injective
CHECK_DEADLOCK FALSE
