"""C14 -- storage codecs are lossless (module Codec)."""
import json
import os

import vcore

DEVS_QUICK = ["enc_keeps_pend", "dec_keeps_first", "next_wraps"]
DEVS_ALL = ["enc_keeps_buf", "enc_keeps_pend", "enc_keeps_xor", "enc_keeps_count",
            "dec_keeps_first", "dec_keeps_idx", "dec_keeps_bitpos", "next_wraps"]


def describe(sig, lines, rel, info):
    try:
        mode = json.loads(lines[0]).get("mode", "?")
    except ValueError:
        mode = "?"
    codec = ""
    try:
        codec = json.loads(lines[min(rel, len(lines)) - 1]).get("codec", "")
    except ValueError:
        pass
    return "%s:%s%s" % (sig, mode, (":" + codec) if codec else "")


def _mutate(pred, change):
    def f(lines):
        for i, ln in enumerate(lines):
            try:
                d = json.loads(ln)
            except ValueError:
                continue
            if pred(d):
                change(d)
                out = list(lines)
                out[i] = json.dumps(d, separators=(",", ":")) + "\n"
                return out
        return None
    return f


def run(ctx, replay):
    if replay:
        ok, info = ctx.validate_trace("CodecTrace", "CodecTrace.cfg", replay, dfs=False)
        if not ok:
            ctx.violation("Codec:replay", "replayed trace rejected: %s" % info, replay_src=replay)
        return
    thorough = ctx.tier == "thorough"
    # M: every reuse history of one encoder and one decoder object (what a pool hands out again), bit level,
    # against the reference; plus the round-trip laws of the delta and offset formats (ASSUMEs)
    res = ctx.model_check("MCCodec", "MCCodec_thorough.cfg" if thorough else "MCCodec.cfg", timeout=1800)
    ctx.extra["model_histories_states"] = res.distinct
    # sensitivity of the model: each clean-up step of the reset paths is needed (and the uint16 wrap of Next() is
    # the modelled form of the known finding)
    for dev in (DEVS_ALL if thorough else DEVS_QUICK):
        ctx.model_check("MCCodec", "MCCodec_dev_%s.cfg" % dev, expect="violation", timeout=600)

    # T: the real codecs
    nh, nb, ops = (4000, 800, 40) if thorough else (600, 100, 40)
    tr = os.path.join(ctx.scratch, "codec.ndjson")
    summ, rc, _ = ctx.run_vdrive(["codec", "--seed", ctx.seed, "--histories", nh, "--batch", nb, "--ops", ops,
                                  "--out", tr], timeout=1500)
    for u in summ["unresolved"]:
        raise vcore.Unresolved("codec driver: %s" % u)
    for s in summ["samples"][:4]:
        ctx.sample(s)
    ctx.extra["events"] = summ["events"]
    ctx.extra["events_by_kind"] = summ["extra"]["events_by_kind"]
    ctx.extra["distinct_bit_patterns"] = summ["extra"]["distinct_bit_patterns"]
    ctx.extra["distinct_byte_strings"] = summ["extra"]["distinct_byte_strings"]
    ctx.extra["objects"] = summ["extra"]["objects"]
    missing = [k for k in ("EncGet", "EncReset", "EncAppend", "EncEmit", "EncBytes", "EncRelease", "DecGet", "DecLoad",
                           "DecSeq", "DecProbe", "DecRelease", "StreamBytes", "StreamOpen", "StreamNext", "BatEnc",
                           "BatDec", "FoEnc", "FoDec", "FoBlocks") if not summ["extra"]["events_by_kind"].get(k)]
    if missing:
        raise vcore.Unresolved("vacuous run: no event of kind %s" % missing)
    vcore.validate_all(ctx, "CodecTrace", "CodecTrace.cfg", tr, describe=describe, dfs=False, timeout=1800)

    # the block that ends at slot 65535 (known finding C14-K1): re-confirmed on the real code on every run
    trm = os.path.join(ctx.scratch, "codec-maxslot.ndjson")
    nm = 3 if thorough else 2
    summ2, rc, _ = ctx.run_vdrive(["codec", "--seed", ctx.seed, "--maxslot", nm, "--out", trm], timeout=300)
    ctx.extra["events"] += summ2["events"]
    vcore.validate_all(ctx, "CodecTrace", "CodecTrace.cfg", trm, describe=describe, dfs=False, max_rejections=nm + 2)

    # binding self-tests: corrupted outputs of different kinds must be rejected
    clean = os.path.join(ctx.scratch, "codec-clean.ndjson")
    with open(clean, "w") as f:
        for t in vcore.split_traces(vcore.read_lines(tr))[:12] + vcore.split_traces(vcore.read_lines(tr))[-3:]:
            f.write("".join(t))
    tests = [
        ("a value read sequentially has other bits",
         lambda d: d.get("ev") == "DecSeq" and len(d["vals"]) > 1,
         lambda d: d["vals"].__setitem__(1, d["vals"][1] + 1)),
        ("a slot-addressed read misses a value",
         lambda d: d.get("ev") == "DecProbe" and sum(d["oks"]) > 0,
         lambda d: d["oks"].__setitem__(d["oks"].index(1), 0)),
        ("an offset reads back changed",
         lambda d: d.get("ev") == "FoDec" and len(d["out"]) > 0,
         lambda d: d["out"][-1].__setitem__(1, d["out"][-1][1] ^ 1)),
    ]
    if thorough:
        tests += [
            ("a delta-packed integer reads back +1",
             lambda d: d.get("ev") == "BatDec" and d["codec"] == "dbp" and len(d["out"]) > 0,
             lambda d: d["out"].__setitem__(0, d["out"][0] + 1)),
            ("the reader does not notice the end of the block",
             lambda d: d.get("ev") == "DecSeq" and d["ended"],
             lambda d: d.__setitem__("ended", False)),
            ("a stream field comes back under another id",
             lambda d: d.get("ev") == "StreamNext" and d["has"],
             lambda d: d.__setitem__("fid", d["fid"] ^ 1)),
            ("one event dropped (the bytes of a block were never produced)",
             None, None),
        ]
    for what, pred, change in tests:
        if pred is None:
            def drop(lines):
                for i, ln in enumerate(lines):
                    if '"ev":"EncBytes"' in ln and '"isnil":false' in ln:
                        return lines[:i] + lines[i + 1:]
                return None
            vcore.corrupt_selftest(ctx, "CodecTrace", "CodecTrace.cfg", clean, drop, what)
        else:
            vcore.corrupt_selftest(ctx, "CodecTrace", "CodecTrace.cfg", clean, _mutate(pred, change), what)
    if thorough:
        # every trace action must have been taken
        cov = ctx.tlc("CodecTrace", "CodecTrace.cfg", workers=1, files={"trace.ndjson": clean}, coverage=True, count=False)
        never = [k for k, v in cov.coverage.items() if k.startswith("T") and "@CodecTrace" in k and v == 0]
        ctx.extra["trace_action_coverage"] = {k: v for k, v in cov.coverage.items() if "@CodecTrace" in k}
        if never:
            raise vcore.Unresolved("trace actions never taken: %s" % never)
    ctx.assumptions += [
        "bit patterns and byte strings are compared through the recorder's interning (equal bits <=> equal id); bitmaps through their run-length canonical form computed by the driver",
        "the breadth over IEEE-754 patterns, slot masks, offsets and integers is seeded sampling by value class (TLC has no floats); TLC decides every reuse history of the bit-level model and judges every recorded answer",
        "the bytes of an encoder are copied before the encoder is reused, a decoder's answers are taken before its next reset (as lindb's callers do); Bytes() is called once per block; TSDDecoder.Seek (no caller in lindb) is not driven",
        "sync.Pool may hand out any released object or a new one: the driver records which object it got, the specification only requires that nobody else still holds it and that nothing of its previous use shows",
    ]
