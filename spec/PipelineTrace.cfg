CONSTANTS
  KeepFirstError = TRUE
  RecoverPerStage = TRUE
  FirstErrorWins = TRUE
  ErrReadAtCompletion = TRUE
SPECIFICATION TraceSpec
INVARIANTS AtMostOnce OnlyAfterAll ErrorReported PendingSane PreOrderOK NoOpAfterFailure FailureIsOutcome WalkComplete
CONSTRAINT HighWater
POSTCONDITION TraceAccepted
CHECK_DEADLOCK FALSE
