--------------------------- MODULE ReplicationGen ---------------------------
(***************************************************************************)
(* Leg R of C08 (behaviours OUT of the model, INTO the code).              *)
(* TLC (-simulate) chooses behaviours of the protocol model; every step    *)
(* appends one word to `script`.  lib/vcore.py reads the scripts from the  *)
(* simulation output, `vdrive repl --scripts` executes them step by step   *)
(* against the real remote replicator / partitions / fan-out queues, and   *)
(* the recorded trace (full projection after every step) is validated by   *)
(* ReplicationTrace: the real state must be the state the model predicts   *)
(* after every step of a behaviour the MODEL picked (fault placements are  *)
(* TLC's, not the driver's random generator's).                            *)
(*                                                                         *)
(* faultFrom keeps the faults away from the start of some behaviours so    *)
(* that they land on a channel with traffic and history.                   *)
(***************************************************************************)
EXTENDS MCReplication
VARIABLES script, faultFrom
gvars == <<mcvars, script, faultFrom>>
L(s) == script' = Append(script, s) /\ UNCHANGED faultFrom
K(k) == IF k = 1 THEN "1" ELSE IF k = 2 THEN "2" ELSE "3"
GFault == nmsg >= faultFrom /\ Fault
GInit == MCInit /\ script = <<>> /\ faultFrom \in 0..(MaxMsgs - 2)
GNext ==
  \/ /\ nmsg < MaxMsgs /\ (AppendOnlyWhenAligned => aligned)
     /\ LeaderAppend(nmsg + 1) /\ nmsg' = nmsg + 1 /\ UNCHANGED nfault /\ L("append")
  \/ HandshakeStep("none") /\ NoF /\ L("hs:none")
  \/ \E f \in {"ack", "reset", "connect"} : HandshakeStep(f) /\ GFault /\ L("hs:" \o f)
  \/ Step("none") /\ NoF /\ L("round:none")
  \/ \E f \in {"send", "recv", "fput"} : Step(f) /\ GFault /\ L("round:" \o f)
  \/ FollowerRestart /\ GFault /\ L("frestart")
  \/ FollowerLoseLog /\ GFault /\ L("flose")
  \/ LeaderRestart /\ GFault /\ L("lrestart")
  \/ \E k \in 1..3 : TailLoss /\ LeaderLoseTail(k) /\ GFault /\ L("losetail:" \o K(k))
  \/ \E k \in 1..3 : LeaderLoseGroup(k) /\ GFault /\ L("losegroup:" \o K(k))
  \/ LeaderGC /\ NoF /\ lQ' # lQ /\ L("gc")
GSpec == GInit /\ [][GNext]_gvars
=============================================================================
