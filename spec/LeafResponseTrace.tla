------------------------- MODULE LeafResponseTrace -------------------------
(* Trace validation of real LeafExecuteContext objects whose SendResponse is  *)
(* called by the completion callback of a real pipeline (`vdrive leafresp`).  *)
EXTENDS LeafResponse, Json

Trace == ndJsonDeserialize("trace.ndjson")
VARIABLE l
tvars == <<vars, l>>
ASSUME TLCSet(1, 0)
Ev(e) == l <= Len(Trace) /\ Trace[l].ev = e /\ l' = l + 1
Line == Trace[l]

TraceInit == l = 1 /\ Init
TReset == /\ Ev("Reset")
          /\ pipeErr' = "none" /\ grouping' = Line.grouping /\ cancelled' = Line.cancelled
          /\ answered' = FALSE /\ sent' = [r \in Receiver |-> << >>]
TComplete == Ev("Complete") /\ Complete(Line.err)
TSend == Ev("SendResponse") /\ SendResponse(Line.err)
\* what the receivers' streams recorded so far (receivers the history does not use stay empty in the model's eyes:
\* the driver always uses all of them)
TProj == /\ Ev("Proj")
         /\ \A r \in Receiver : Line.sent[r] = sent[r]
         /\ UNCHANGED vars
TraceNext == TReset \/ TComplete \/ TSend \/ TProj
TraceSpec == TraceInit /\ [][TraceNext]_tvars
HighWater == TLCSet(1, IF l > TLCGet(1) THEN l ELSE TLCGet(1))
TraceAccepted ==
  LET hw == TLCGet(1) IN
  IF hw = Len(Trace) + 1 THEN TRUE
  ELSE /\ PrintT(<<"TRACE-REJECTED-AT-LINE", hw>>)
       /\ FALSE
=============================================================================
