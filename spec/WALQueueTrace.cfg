CONSTANTS
  PageSize = 134217728
  AtomicPut = TRUE
  ClampConsumed = TRUE
  MetaByPage = TRUE
SPECIFICATION TraceSpec
INVARIANTS Readable DurablyReadable Dense MemoryMatchesDisk GroupDirs GroupOrder QAckBounds
PROPERTIES TQAckMonotone TQAckMovesBelowMin
CONSTRAINT HighWater
POSTCONDITION TraceAccepted
CHECK_DEADLOCK FALSE
