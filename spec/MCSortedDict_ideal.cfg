CONSTANTS
  Alphabet = {0, 1, 2}
  MaxLen = 2
  MaxKeys = 3
  Deviation_SeekExactOnlyWhenProbeIsPrefix = FALSE
  Deviation_RegexScansLiteralPrefixOnly = FALSE
SPECIFICATION MCSpec
INVARIANTS AllDicts SeekIsLeastUpperBound SeekThenScanIsPrefixEnumeration
CHECK_DEADLOCK FALSE
