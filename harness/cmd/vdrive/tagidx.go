package main

// vdrive tagidx -- property C10 (module TagIndex).
//
// Drives a REAL tsdb.Engine: series are written through DataFamily.WriteRows (memdb -> metric meta
// database -> shard index database), the tag value dictionary (database level) and the inverted /
// forward index (shard level) are moved between mutable memory, immutable memory, level-0 files and
// compacted files with PrepareFlush / Flush / Family.Compact / engine reopen, and every condition is
// asked as SQL TEXT through the real query path (sql.Parse -> query.MetricDataSearch -> root plan ->
// in-process loopback transport -> real leaf task processor -> tag value lookup, series filtering,
// grouping context build, grouping collect -> root reduce -> ResultSet).
//
// Events (judged by spec/TagIndexTrace.tla against the reference Eval of spec/TagIndex.tla):
//   Reset   mode, keys (names as bytes), nk
//   Write   newvals [[key, bytes]...] (values first used by this batch, in a fixed numbering order),
//           series [[metric, [value index per key, 0 = key missing], id inside the metric, x]...]  (x = 1: the series
//           carries tags under keys outside the judged key set), filler / fillsid (that many more series of metric 1
//           with none of the judged keys), slot (the 10s slot the points go to), other (strings of the other metric's
//           series, only for re-execution)
//   PrepMeta / FlushMeta / CompactMeta   tag value dictionary (database level): MetaDB().PrepareFlush / Flush, Family.Compact
//   PrepIdx / FlushIdx / CompactIdx      inverted / forward / metric index (shard level): IndexDB().PrepareFlush / Flush, Family.Compact
//   Reopen  engine closed (flushes everything) and opened again;  Refresh  every series re-written into the next slot
//   Dict    k, entries [[value index, tag value id]...]: the tag value dictionary of key k of the judged metric as the metadata
//           database lists it (FindTagValueIDsForTag + CollectTagValues); logged before every dictionary compaction and at the
//           stops of the window universes (a value has ONE id)
//   Query   m, cond (AST of the GENERATED condition), g (group-by keys), slot, res ok|error, sql,
//           groups [[value index per group key], count]  (count = sum of the field: every series writes 1 once per era)
// Strings are interned: a returned tag value is logged as its index in the value table of its key
// (a string nobody wrote gets a negative index).
//
// Universes: small (random histories), tour (every placement of the property text, whatever the seed), window (questions
// and writes INSIDE the commit of a dictionary / index flush, then about exactly the entries that flush persisted), big (thousands
// of series, a unique key, ids across the 65536 boundary), enum (EVERY set of one / two series of the universe leg M
// explores x every atom), and -- in a second file -- the universes that exercise recorded findings.
// --script re-executes a recorded history (strings reconstructed from a sub-trace) and prints the real answers.

import (
	"context"
	"encoding/json"
	"flag"
	"fmt"
	"math"
	"math/rand"
	"os"
	"path/filepath"
	"regexp"
	"sort"
	"strings"
	"sync"
	"time"

	commonconstants "github.com/lindb/common/constants"
	commonmodels "github.com/lindb/common/models"
	protoMetricsV1 "github.com/lindb/common/proto/gen/v1/linmetrics"
	"google.golang.org/grpc"

	"github.com/lindb/lindb/coordinator/broker"
	"github.com/lindb/lindb/flow"
	"github.com/lindb/lindb/kv"
	"github.com/lindb/lindb/kv/table"
	"github.com/lindb/lindb/models"
	"github.com/lindb/lindb/pkg/bufioutil"
	"github.com/lindb/lindb/pkg/option"
	"github.com/lindb/lindb/pkg/timeutil"
	protoCommonV1 "github.com/lindb/lindb/proto/gen/v1/common"
	"github.com/lindb/lindb/query"
	querycontext "github.com/lindb/lindb/query/context"
	"github.com/lindb/lindb/rpc"
	"github.com/lindb/lindb/sql"
	"github.com/lindb/lindb/sql/stmt"
	"github.com/lindb/lindb/tsdb"

	"verif/harness/internal/trace"
)

func init() { register("tagidx", tagidxMain) }

// ---------------------------------------------------------------- loopback (root -> leaf in one process)

type tixTaskMgr struct {
	mu    sync.Mutex
	tasks map[string]querycontext.TaskContext
}

func (m *tixTaskMgr) AddTask(id string, c querycontext.TaskContext) {
	m.mu.Lock()
	m.tasks[id] = c
	m.mu.Unlock()
}
func (m *tixTaskMgr) RemoveTask(id string) { m.mu.Lock(); delete(m.tasks, id); m.mu.Unlock() }
func (m *tixTaskMgr) Receive(resp *protoCommonV1.TaskResponse, from string) error {
	m.mu.Lock()
	c := m.tasks[resp.RequestID]
	m.mu.Unlock()
	if c == nil {
		return fmt.Errorf("request may be evicted")
	}
	go c.HandleResponse(resp, from)
	return nil
}

type tixSrvStream struct {
	grpc.ServerStream
	from string
	to   *tixTaskMgr
}

func (s *tixSrvStream) Send(r *protoCommonV1.TaskResponse) error  { return s.to.Receive(r, s.from) }
func (s *tixSrvStream) Recv() (*protoCommonV1.TaskRequest, error) { select {} }
func (s *tixSrvStream) Context() context.Context                  { return context.Background() }

type tixTransport struct {
	mu   sync.Mutex
	leaf map[string]query.TaskProcessor
	root *tixTaskMgr
}

func (t *tixTransport) SendRequest(target string, req *protoCommonV1.TaskRequest) error {
	t.mu.Lock()
	proc := t.leaf[target]
	t.mu.Unlock()
	if proc == nil {
		return fmt.Errorf("no node %s", target)
	}
	stream := &tixSrvStream{from: target, to: t.root}
	go func() {
		ctx := flow.NewTaskContextWithTimeout(context.Background(), 120*time.Second)
		if err := proc.Process(ctx, stream, req); err != nil {
			_ = stream.Send(&protoCommonV1.TaskResponse{RequestID: req.RequestID, Completed: true, ErrMsg: err.Error()})
		}
	}()
	return nil
}
func (t *tixTransport) SendResponse(string, *protoCommonV1.TaskResponse) error { return nil }

type tixChooser struct {
	broker.StateManager
	db   models.Database
	leaf string
}

func (c *tixChooser) Choose(string, int) ([]*models.PhysicalPlan, error) {
	return []*models.PhysicalPlan{{Database: c.db.Name, Targets: []*models.Target{{Indicator: c.leaf, ShardIDs: []models.ShardID{1}}}}}, nil
}
func (c *tixChooser) GetDatabaseCfg(string) (models.Database, bool) { return c.db, true }

// ---------------------------------------------------------------- condition AST

type tixCond struct {
	Op   string // atom | and | or | paren | true
	L, R *tixCond
	// atom
	K     int    // key index (1-based)
	Kind  string // eq | in | like | regex
	Neg   bool
	Shape string   // like: prefix|suffix|contains|exact ; regex: prefix|prefixany|exact|suffix|contains|bare
	Lits  [][]byte // eq/like: one literal, in/regex: several
	Pat   string   // like pattern / regexp as rendered into the SQL text
	Anch  bool     // regex rendered with ^ (literal prefix of the compiled pattern is empty)
	LP    []byte   // regex: regexp.LiteralPrefix() of the rendered pattern
	Alt   int      // rendering variant (!= vs <>, quoting)
}

func (c *tixCond) json() map[string]any {
	switch c.Op {
	case "true":
		return map[string]any{"op": "true"}
	case "paren":
		return map[string]any{"op": "paren", "l": c.L.json()}
	case "and", "or":
		return map[string]any{"op": c.Op, "l": c.L.json(), "r": c.R.json()}
	}
	neg := 0
	if c.Neg {
		neg = 1
	}
	m := map[string]any{"op": "atom", "k": c.K, "kind": c.Kind, "neg": neg, "shape": c.Shape, "lits": bbInts(c.Lits)}
	if c.Kind == "regex" {
		m["lp"] = bInts(c.LP)
		anch := 0
		if c.Anch {
			anch = 1
		}
		m["anch"] = anch
	}
	if c.Kind == "like" || c.Kind == "regex" {
		m["pat"] = c.Pat
	}
	return m
}

// only single quotes work for names / values: a double-quoted token is the JSON STRING token of the lexer, and
// strutil.GetStringValue does not strip back-quotes; so a value containing ' cannot be written in a query at all
func tixQuote(s string, _ int) string { return "'" + s + "'" }

func (u *tixUniverse) keySQL(k int) string {
	name := u.keys[k-1]
	for _, r := range name {
		if !(r >= 'a' && r <= 'z') {
			return "'" + name + "'"
		}
	}
	return name
}

// sql renders the condition; child binaries of a binary are parenthesised unless the node says
// "chain" (left operand of a left-associative chain is left bare)
func (u *tixUniverse) sql(c *tixCond) string {
	switch c.Op {
	case "paren":
		return "(" + u.sql(c.L) + ")"
	case "and", "or":
		return u.sql(c.L) + " " + c.Op + " " + u.sql(c.R)
	}
	key := u.keySQL(c.K)
	switch c.Kind {
	case "eq":
		op := "="
		if c.Neg {
			op = []string{"!=", "<>"}[c.Alt%2]
		}
		return key + op + tixQuote(string(c.Lits[0]), c.Alt)
	case "in":
		vs := make([]string, len(c.Lits))
		for i, l := range c.Lits {
			vs[i] = tixQuote(string(l), c.Alt+i)
		}
		op := " in "
		if c.Neg {
			op = " not in "
		}
		return key + op + "(" + strings.Join(vs, ",") + ")"
	case "like":
		op := " like "
		if c.Neg {
			op = " not like "
		}
		return key + op + tixQuote(c.Pat, c.Alt)
	default:
		op := "=~"
		if c.Neg {
			op = "!~"
		}
		return key + op + tixQuote(c.Pat, c.Alt)
	}
}

// ---------------------------------------------------------------- universe

type tixSeries struct {
	m    int   // metric index (1-based)
	tags []int // per key: 0 = missing, else index (1-based) into vals[k]
}

type tixUniverse struct {
	keys       []string
	pool       [][]string       // candidate values per key
	vals       [][]string       // values in dictionary creation order per key (what the trace knows)
	vidx       []map[string]int // value -> index in vals[k]
	metrics    []string
	series     []tixSeries
	strs       [][]string      // tag strings of every written series (re-written after a reopen)
	have       map[string]bool // tag tuples already written (metric + tags)
	otherOneIn int             // one series in .. belongs to the other metric
	uniq       int             // key index (1-based) whose value is unique per series, 0 = none
	nextU      int
	nfill      int    // untagged-for-the-judge filler series of metric 1 (logged as counts)
	nsid       [2]int // series written so far per metric: the id a new series gets inside its metric (creation order)
}

var tixAlphabets = [][]string{
	{"a", "b"},
	{"a", "b", "c", "-"},
	{"a", "é", "中", "ü", "😀"},
	{"h", "o", "s", "t", "-", "1", "2", "."},
	{"a", "b", "*", ".", "(", " ", "_"},
	{"A", "a", "0", "~", "é"},
}

func tixRandValue(rng *rand.Rand, alpha []string, pool []string) string {
	// values sharing prefixes: extend / cut an existing value half of the time
	if len(pool) > 0 && rng.Intn(2) == 0 {
		base := []rune(pool[rng.Intn(len(pool))])
		switch rng.Intn(3) {
		case 0:
			return string(base) + alpha[rng.Intn(len(alpha))]
		case 1:
			if len(base) > 1 {
				return string(base[:1+rng.Intn(len(base)-1)])
			}
		default:
			return alpha[rng.Intn(len(alpha))] + string(base)
		}
	}
	n := 1 + rng.Intn(4)
	var sb strings.Builder
	for i := 0; i < n; i++ {
		sb.WriteString(alpha[rng.Intn(len(alpha))])
	}
	return sb.String()
}

var tixKeyNames = []string{"host", "dc", "ver", "k-ü", "role", "az"}

func newTixUniverse(rng *rand.Rand, nkeys, nvals int, uniq bool) *tixUniverse {
	u := &tixUniverse{metrics: []string{"cpu", "mem"}, have: map[string]bool{}, otherOneIn: 5}
	perm := rng.Perm(len(tixKeyNames))
	for i := 0; i < nkeys; i++ {
		u.keys = append(u.keys, tixKeyNames[perm[i]])
	}
	if uniq {
		u.keys = append(u.keys, "uid")
		u.uniq = len(u.keys)
	}
	for k := range u.keys {
		alpha := tixAlphabets[rng.Intn(len(tixAlphabets))]
		var pool []string
		seen := map[string]bool{}
		n := 1 + rng.Intn(nvals)
		for len(pool) < n {
			v := tixRandValue(rng, alpha, pool)
			if v == "" || seen[v] || strings.Contains(v, "'") {
				continue
			}
			seen[v] = true
			pool = append(pool, v)
		}
		u.pool = append(u.pool, pool)
		u.vals = append(u.vals, nil)
		u.vidx = append(u.vidx, map[string]int{})
		_ = k
	}
	return u
}

// newSeries draws a series that was not written before (nil when the space is exhausted)
func (u *tixUniverse) newSeries(rng *rand.Rand, missP int) (tixSeries, []string, bool) {
	for try := 0; try < 50; try++ {
		s := tixSeries{m: 1, tags: make([]int, len(u.keys))}
		if rng.Intn(u.otherOneIn) == 0 {
			s.m = 2
		}
		strs := make([]string, len(u.keys))
		for k := range u.keys {
			if k+1 == u.uniq {
				u.nextU++
				strs[k] = fmt.Sprintf("u%d", u.nextU)
				continue
			}
			if rng.Intn(100) < missP {
				continue
			}
			strs[k] = u.pool[k][rng.Intn(len(u.pool[k]))]
		}
		id := fmt.Sprint(s.m, "\x00", strings.Join(strs, "\x00"))
		if u.have[id] {
			continue
		}
		u.have[id] = true
		return s, strs, true
	}
	return tixSeries{}, nil, false
}

// ---------------------------------------------------------------- run

type tixRun struct {
	recentAtoms []*tixCond // the last atoms generated (for repeated leaves)
	recentU     *tixUniverse
	rec         *trace.Recorder
	rng         *rand.Rand
	sum         *trace.Summary
	scratch     string
	n           int
	counts      map[string]int
	qstats      map[string]int
	debug       bool

	// one universe
	dir       string
	dbName    string
	engine    tsdb.Engine
	db        tsdb.Database
	shard     tsdb.Shard
	family    tsdb.DataFamily
	mgr       *query.SearchMgr
	u         *tixUniverse
	ok        bool
	norefresh bool
	slot      int // the 10s slot every point of the current era is written to (a new era starts after a reopen)
}

const tixT0 = int64(1646092800000) // 2022-03-01 00:00:00 UTC

func (r *tixRun) emit(ev string, f trace.F) {
	r.rec.Emit(ev, f)
	r.counts[ev]++
}

func (r *tixRun) unresolved(format string, a ...any) {
	if len(r.sum.Unresolved) < 10 {
		r.sum.Unresolved = append(r.sum.Unresolved, fmt.Sprintf(format, a...))
	}
	r.ok = false
}

func (r *tixRun) open() bool {
	engine, err := openEngineAt(r.dir)
	if err != nil {
		r.unresolved("open engine: %v", err)
		return false
	}
	r.engine = engine
	interval := timeutil.Interval(10 * 1000)
	opt := &option.DatabaseOption{Intervals: option.Intervals{{Interval: interval, Retention: timeutil.Interval(36500 * 24 * 3600 * 1000)}}, AutoCreateNS: true}
	db, ok := engine.GetDatabase(r.dbName)
	if !ok {
		if err := engine.CreateShards(r.dbName, opt, models.ShardID(1)); err != nil {
			r.unresolved("create shards: %v", err)
			return false
		}
		db, _ = engine.GetDatabase(r.dbName)
	}
	r.db = db
	shard, ok := db.GetShard(models.ShardID(1))
	if !ok {
		r.unresolved("shard missing after open")
		return false
	}
	r.shard = shard
	fam, err := shard.GetOrCrateDataFamily(tixT0)
	if err != nil {
		r.unresolved("family: %v", err)
		return false
	}
	r.family = fam
	rootNode := models.StatelessNode{HostIP: "1.1.1.1", GRPCPort: 9000}
	leafN := &models.StatefulNode{StatelessNode: models.StatelessNode{HostIP: "2.2.2.2", GRPCPort: 2891}, ID: 1}
	tm := &tixTaskMgr{tasks: map[string]querycontext.TaskContext{}}
	fct := rpc.NewTaskServerFactory()
	fct.Register(rootNode.Indicator(), &tixSrvStream{from: leafN.Indicator(), to: tm})
	tr := &tixTransport{leaf: map[string]query.TaskProcessor{leafN.Indicator(): query.NewLeafTaskProcessor(leafN, engine, fct)}, root: tm}
	dbCfg := models.Database{Name: r.dbName, Option: opt}
	r.mgr = &query.SearchMgr{CurNode: rootNode, Choose: &tixChooser{db: dbCfg, leaf: leafN.Indicator()}, TaskMgr: tm, TransportMgr: tr, Timeout: 120 * time.Second}
	return true
}

func (r *tixRun) close() {
	if r.engine != nil {
		r.engine.Close()
		r.engine = nil
	}
}

// stores of this universe: metadata (database level) and index (shard level)
func (r *tixRun) stores(kind string) []kv.Store {
	var out []kv.Store
	for _, s := range kv.GetStoreManager().GetStores() {
		if !strings.HasPrefix(s.Name(), r.dir) && !strings.Contains(s.Name(), string(filepath.Separator)+r.dbName+string(filepath.Separator)) {
			continue
		}
		base := strings.ToLower(s.Name())
		if strings.Contains(base, string(filepath.Separator)+"segment"+string(filepath.Separator)) {
			continue
		}
		isIdx := strings.Contains(base, "index")
		if (kind == "index") == isIdx {
			out = append(out, s)
		}
	}
	return out
}

func (r *tixRun) compact(kind string) [][2]int {
	files := [][2]int{}
	for _, s := range r.stores(kind) {
		names := s.ListFamilyNames()
		sort.Strings(names)
		for _, n := range names {
			f := s.GetFamily(n)
			snap := f.GetSnapshot()
			before := snap.GetCurrent().NumberOfFilesInLevel(0)
			snap.Close()
			f.Compact()
			kv.VerifWaitFamily(f)
			snap = f.GetSnapshot()
			after := snap.GetCurrent().NumberOfFilesInLevel(0)
			snap.Close()
			if before > 1 {
				files = append(files, [2]int{before, after})
			}
		}
	}
	return files
}

// points writes one point (value 1, current slot) for every given series
func (r *tixRun) points(batch []tixSeries, strs [][]string) bool {
	u := r.u
	for from := 0; from < len(batch); from += 5000 {
		to := from + 5000
		if to > len(batch) {
			to = len(batch)
		}
		var ms []*protoMetricsV1.Metric
		for i := from; i < to; i++ {
			var tags []*protoMetricsV1.KeyValue
			for k, v := range strs[i] {
				if v == "" {
					continue
				}
				tags = append(tags, &protoMetricsV1.KeyValue{Key: u.keys[k], Value: v})
			}
			ms = append(ms, &protoMetricsV1.Metric{Name: u.metrics[batch[i].m-1], Timestamp: tixT0 + int64(r.slot)*10000 + 1000, Tags: tags,
				SimpleFields: []*protoMetricsV1.SimpleField{{Name: "f", Value: 1, Type: protoMetricsV1.SimpleFieldType_DELTA_SUM}}})
		}
		rows := storageRows(ms...)
		if len(rows) != to-from {
			r.unresolved("row conversion lost rows: %d of %d", len(rows), to-from)
			return false
		}
		if err := r.family.WriteRows(rows); err != nil {
			r.unresolved("WriteRows: %v", err)
			return false
		}
	}
	return true
}

func (r *tixRun) write(batch []tixSeries, strs [][]string) bool {
	u := r.u
	newvals := [][]any{}
	logged := [][]any{}
	decoys := [][]any{}
	// dictionary creation order = row order, inside a row the order of the row's (sorted) tags; the trace only
	// needs WHICH values are new in this batch and one consistent numbering, so number them in key-name order per row
	for i := range batch {
		type kvp struct {
			k int
			v string
		}
		var ps []kvp
		for k, v := range strs[i] {
			if v != "" {
				ps = append(ps, kvp{k, v})
			}
		}
		sort.Slice(ps, func(a, b int) bool { return u.keys[ps[a].k] < u.keys[ps[b].k] })
		for _, p := range ps {
			if batch[i].m != 1 {
				continue // the decoy metric has its own tag keys / dictionaries; it is not part of the judged dictionary
			}
			if _, ok := u.vidx[p.k][p.v]; !ok {
				u.vals[p.k] = append(u.vals[p.k], p.v)
				u.vidx[p.k][p.v] = len(u.vals[p.k])
				newvals = append(newvals, []any{p.k + 1, bInts([]byte(p.v))})
			}
		}
	}
	for i := range batch {
		for k, v := range strs[i] {
			if v != "" && batch[i].m == 1 {
				batch[i].tags[k] = u.vidx[k][v]
			}
		}
		if batch[i].m != 1 {
			// series of the other metric: its tag keys / values live in that metric's own dictionaries, the judged universe
			// only knows that the series exists (the strings are kept for re-execution of the trace)
			d := [][]any{}
			for k, v := range strs[i] {
				if v != "" {
					d = append(d, []any{k + 1, bInts([]byte(v))})
				}
			}
			x := 0
			if len(d) > 0 {
				x = 1 // tagged, under the other metric's own keys
			}
			logged = append(logged, []any{batch[i].m, make([]int, len(u.keys)), u.nsid[batch[i].m-1], x})
			u.nsid[batch[i].m-1]++
			decoys = append(decoys, []any{i + 1, d})
		} else {
			logged = append(logged, []any{batch[i].m, append([]int(nil), batch[i].tags...), u.nsid[0], 0})
			u.nsid[0]++
		}
	}
	if !r.points(batch, strs) {
		return false
	}
	u.series = append(u.series, batch...)
	u.strs = append(u.strs, strs...)
	r.emit("Write", trace.F{"newvals": newvals, "series": logged, "other": decoys, "slot": r.slot, "filler": 0, "fillsid": u.nsid[0]})
	return true
}

// dictDump logs the tag value dictionary of every live key of the judged metric (Dict events).  Returns false when the
// driver itself saw one string under two ids: the history is then not continued into a dictionary compaction (the
// merger builds a trie of the merged keys on a BACKGROUND goroutine and panics on a repeated key: the process, and the
// recorded trace with it, would be lost).  The verdict is the specification's: it rejects the Dict event.
func (r *tixRun) dictDump() bool {
	u := r.u
	if u.nsid[0] == 0 || r.db == nil {
		return true
	}
	meta := r.db.MetaDB()
	mid, err := meta.GetMetricID(commonconstants.DefaultNamespace, u.metrics[0])
	if err != nil {
		r.unresolved("dictionary dump: metric id: %v", err)
		return false
	}
	schema, err := meta.GetSchema(mid)
	if err != nil || schema == nil {
		r.unresolved("dictionary dump: schema: %v", err)
		return false
	}
	function := true
	for _, k := range u.liveKeys() {
		tk, ok := schema.TagKeys.Find(u.keys[k-1])
		if !ok {
			r.unresolved("dictionary dump: tag key %s is not in the schema", u.keys[k-1])
			return false
		}
		ids, err := meta.FindTagValueIDsForTag(tk.ID)
		if err != nil {
			r.unresolved("dictionary dump: value ids of %s: %v", u.keys[k-1], err)
			return false
		}
		list := ids.ToArray()
		strs := map[uint32]string{}
		if err := meta.CollectTagValues(tk.ID, ids.Clone(), strs); err != nil {
			r.unresolved("dictionary dump: values of %s: %v", u.keys[k-1], err)
			return false
		}
		entries := [][]int{}
		seen := map[string]bool{}
		for _, id := range list {
			v, has := strs[id]
			switch {
			case !has:
				entries = append(entries, []int{-1, int(id)}) // an id without a string
			case u.vidx[k-1][v] > 0:
				entries = append(entries, []int{u.vidx[k-1][v], int(id)})
			default:
				entries = append(entries, []int{-2, int(id)}) // a string nobody wrote under this key
			}
			if has && seen[v] {
				function = false
			}
			seen[v] = true
		}
		r.emit("Dict", trace.F{"k": k, "entries": entries})
	}
	if !function {
		r.qstats["dictionary-with-a-repeated-value"]++
	}
	return function
}

func (r *tixRun) step(op string) bool {
	switch op {
	case "PrepMeta":
		r.db.MetaDB().PrepareFlush()
	case "FlushMeta":
		if err := r.db.MetaDB().Flush(); err != nil {
			r.unresolved("meta flush: %v", err)
			return false
		}
	case "PrepIdx":
		r.shard.IndexDB().PrepareFlush()
	case "FlushIdx":
		if err := r.shard.IndexDB().Flush(); err != nil {
			r.unresolved("index flush: %v", err)
			return false
		}
	case "CompactMeta", "CompactIdx":
		kind := "meta"
		if op == "CompactIdx" {
			kind = "index"
		} else if !r.dictDump() {
			r.ok = false // (not unresolved: the Dict event just logged is what the specification judges)
			return false
		}
		files := r.compact(kind)
		if len(files) > 0 {
			r.qstats["compactions-that-merged-files:"+kind]++
		}
		r.emit(op, trace.F{"files": files})
		return true
	case "Reopen":
		// a pending immutable generation is flushed first (in production PrepareFlush and Flush are always paired)
		if err := r.db.MetaDB().Flush(); err != nil {
			r.unresolved("meta flush: %v", err)
			return false
		}
		if err := r.shard.IndexDB().Flush(); err != nil {
			r.unresolved("index flush: %v", err)
			return false
		}
		r.close()
		if !r.open() {
			return false
		}
		r.emit(op, trace.F{})
		if r.norefresh {
			return true
		}
		// a new era: the data of the old one was flushed by Close.  Every series gets a point in the next slot
		// (existing series are found again through the persisted tags -> series id dictionary), queries ask that slot.
		r.slot++
		if !r.points(r.u.series, r.u.strs) {
			return false
		}
		r.emit("Refresh", trace.F{"slot": r.slot})
		return true
	}
	if os.Getenv("TIX_DEBUG") != "" {
		for _, kind := range []string{"meta", "index"} {
			for _, st := range r.stores(kind) {
				for _, n := range st.ListFamilyNames() {
					snap := st.GetFamily(n).GetSnapshot()
					fmt.Fprintf(os.Stderr, "  %s %s/%s level0=%d\n", kind, filepath.Base(st.Name()), n, snap.GetCurrent().NumberOfFilesInLevel(0))
					snap.Close()
				}
			}
		}
	}
	r.emit(op, trace.F{})
	return true
}

func (r *tixRun) timeCond() string {
	t := time.UnixMilli(tixT0 + int64(r.slot)*10000).UTC()
	return "time>='" + t.Format("2006-01-02 15:04:05") + "' and time<='" + t.Add(9*time.Second).Format("2006-01-02 15:04:05") + "'"
}

// query asks one condition through the real query path and logs the answer
func (r *tixRun) query(m int, c *tixCond, g []int, class string) {
	u := r.u
	var sb strings.Builder
	sb.WriteString("select f from " + u.metrics[m-1] + " where " + r.timeCond())
	if c.Op != "true" {
		sb.WriteString(" and " + u.sql(c))
	}
	if len(g) > 0 {
		ks := make([]string, len(g))
		for i, k := range g {
			ks[i] = u.keySQL(k)
		}
		sb.WriteString(" group by " + strings.Join(ks, ","))
	}
	sb.WriteString(fmt.Sprintf(" limit %d", len(u.series)+50)) // (filler series never form groups of their own)
	q := sb.String()
	ev := trace.F{"m": m, "cond": c.json(), "g": g, "sql": q, "class": class, "slot": r.slot}
	if g == nil {
		ev["g"] = []int{}
	}
	st, err := sql.Parse(q)
	if err != nil {
		r.unresolved("generated SQL does not parse: %s: %v", q, err)
		return
	}
	qs, ok := st.(*stmt.Query)
	if !ok {
		r.unresolved("generated SQL is not a query: %s", q)
		return
	}
	var rs any
	func() {
		defer func() { // a panic of the code under test on the asking goroutine is an answer ("error"), judged like one
			if x := recover(); x != nil {
				rs, err = nil, fmt.Errorf("panic: %v", x)
			}
		}()
		rs, err = query.MetricDataSearch(context.Background(), &models.ExecuteParam{Database: r.dbName, SQL: q}, qs, r.mgr)
	}()
	groups := [][]any{}
	switch {
	case err != nil:
		// an empty selection is an empty answer, not an error; unknown metrics / tag keys (which are errors) are not asked
		ev["res"] = "error"
		ev["err"] = err.Error()
	default:
		ev["res"] = "ok"
		res, _ := rs.(*commonmodels.ResultSet)
		if res == nil {
			ev["res"] = "error"
			ev["err"] = fmt.Sprintf("unexpected result type %T", rs)
			break
		}
		for _, s := range res.Series {
			vals := make([]int, len(g))
			for i, k := range g {
				v, has := s.Tags[u.keys[k-1]]
				switch {
				case !has:
					vals[i] = -1
				case u.vidx[k-1][v] > 0:
					vals[i] = u.vidx[k-1][v]
				default:
					vals[i] = -2 // a string nobody wrote under this key
				}
			}
			if len(s.Tags) != len(g) {
				vals = append(vals, -3) // more / fewer tags than grouping keys
			}
			total := 0.0
			for _, pts := range s.Fields {
				for _, v := range pts {
					total += v
				}
			}
			cnt := int(math.Round(total))
			if math.Abs(total-float64(cnt)) > 1e-6 || len(s.Fields) != 1 {
				cnt = -1
			}
			groups = append(groups, []any{vals, cnt})
		}
	}
	ev["groups"] = groups
	r.emit("Query", ev)
	r.qstats[class+":"+ev["res"].(string)]++
	if ev["res"] == "ok" && len(groups) == 0 {
		r.qstats["ok-empty"]++
	}
	if r.debug {
		fmt.Fprintf(os.Stderr, "Q %s -> %s %v %v\n", q, ev["res"], ev["err"], groups)
	}
	if len(r.sum.Samples) < 4 && ev["res"] == "ok" && len(groups) > 0 && c.Op != "atom" && c.Op != "true" {
		r.sum.Samples = append(r.sum.Samples, map[string]any{"sql": q, "series_written": len(u.series), "groups_returned": len(groups)})
	}
}

// ---------------------------------------------------------------- condition generation

// a literal related to the values of key k: a value, a piece of a value, or something absent
func (r *tixRun) lit(k int, whole bool) []byte {
	u := r.u
	src := u.vals[k-1]
	if len(src) == 0 || r.rng.Intn(8) == 0 {
		src = u.pool[k-1]
	}
	if r.rng.Intn(10) == 0 {
		return []byte(tixRandValue(r.rng, tixAlphabets[r.rng.Intn(len(tixAlphabets))], nil))
	}
	v := []rune(src[r.rng.Intn(len(src))])
	if whole {
		if r.rng.Intn(6) == 0 {
			return []byte(string(v) + "x")
		}
		return []byte(string(v))
	}
	a := r.rng.Intn(len(v))
	b := a + 1 + r.rng.Intn(len(v)-a)
	switch r.rng.Intn(4) {
	case 0:
		return []byte(string(v[:b]))
	case 1:
		return []byte(string(v[a:]))
	case 2:
		return []byte(string(v[a:b]))
	}
	return []byte(string(v))
}

func tixSQLSafe(s string) bool { return !strings.Contains(s, "'") }

// atom draws an atomic filter.  unanchored: allow regex renderings whose compiled literal prefix is not empty
// (findings trace only).
func (r *tixRun) atom(unanchoredRegex bool) *tixCond {
	ks := r.u.liveKeys()
	c := &tixCond{Op: "atom", K: ks[r.rng.Intn(len(ks))], Neg: r.rng.Intn(3) == 0, Alt: r.rng.Intn(6)}
	switch x := r.rng.Intn(10); {
	case x < 3:
		c.Kind = "eq"
		c.Lits = [][]byte{r.lit(c.K, true)}
	case x < 5:
		c.Kind = "in"
		n := 1 + r.rng.Intn(3)
		for i := 0; i < n; i++ {
			c.Lits = append(c.Lits, r.lit(c.K, true))
		}
	case x < 8:
		c.Kind = "like"
		c.Shape = []string{"prefix", "suffix", "contains", "exact"}[r.rng.Intn(4)]
		l := r.lit(c.K, c.Shape == "exact")
		// the shape is read off the ends of the pattern: keep stars out of the ends of the literal
		l = []byte(strings.Trim(string(l), "*"))
		if len(l) == 0 && c.Shape != "contains" {
			l = []byte("a")
		}
		if r.rng.Intn(12) == 0 && c.Shape == "contains" {
			l = nil // '**': contains the empty string
		}
		if r.rng.Intn(25) == 0 && c.Shape == "exact" {
			l = nil // '': equal to the empty string
		}
		c.Lits = [][]byte{l}
		switch c.Shape {
		case "prefix":
			c.Pat = string(l) + "*"
		case "suffix":
			c.Pat = "*" + string(l)
		case "contains":
			c.Pat = "*" + string(l) + "*"
		default:
			c.Pat = string(l)
		}
	default:
		c.Kind = "regex"
		c.Shape = []string{"prefix", "prefixany", "exact", "suffix", "contains"}[r.rng.Intn(5)]
		n := 1 + r.rng.Intn(2)
		for i := 0; i < n; i++ {
			c.Lits = append(c.Lits, r.lit(c.K, c.Shape == "exact"))
		}
		c.Anch = true
		if unanchoredRegex && r.rng.Intn(2) == 0 {
			c.Shape = []string{"suffix", "contains", "bare"}[r.rng.Intn(3)]
			c.Anch = false
			if c.Shape != "contains" {
				c.Lits = c.Lits[:1]
			}
		}
		c.Pat = renderRegex(c.Shape, c.Lits, c.Anch)
		if rp, err := regexp.Compile(c.Pat); err == nil {
			lp, _ := rp.LiteralPrefix()
			c.LP = []byte(lp)
		} else {
			r.unresolved("generated regexp does not compile: %s", c.Pat)
		}
	}
	for _, l := range c.Lits {
		if !tixSQLSafe(string(l)) {
			return r.atom(unanchoredRegex)
		}
	}
	if !tixSQLSafe(c.Pat) {
		return r.atom(unanchoredRegex)
	}
	return c
}

// cond draws a condition of the grammar: atoms joined by and / or, parentheses; chains without parentheses are
// left-associative with one precedence level (grammar rule tagFilterExpr (AND|OR) tagFilterExpr)
func (r *tixRun) cond(depth int, unanch bool) *tixCond {
	if depth <= 0 || r.rng.Intn(4) == 0 {
		a := r.atom(unanch)
		// the same atomic filter may occur several times in one where clause: one of the last atoms is used again
		if r.recentU != r.u {
			r.recentU, r.recentAtoms = r.u, nil
		}
		if n := len(r.recentAtoms); n > 0 && r.rng.Intn(4) == 0 {
			cp := *r.recentAtoms[r.rng.Intn(n)]
			a = &cp
		} else {
			r.recentAtoms = append(r.recentAtoms, a)
			if len(r.recentAtoms) > 3 {
				r.recentAtoms = r.recentAtoms[1:]
			}
		}
		if r.rng.Intn(8) == 0 {
			return &tixCond{Op: "paren", L: a}
		}
		return a
	}
	op := []string{"and", "or"}[r.rng.Intn(2)]
	l := r.cond(depth-1, unanch)
	rt := r.cond(depth-1, unanch)
	// right operand: always parenthesised when it is a binary; left operand: bare (chain) half of the time
	if rt.Op == "and" || rt.Op == "or" {
		rt = &tixCond{Op: "paren", L: rt}
	}
	if (l.Op == "and" || l.Op == "or") && r.rng.Intn(2) == 0 {
		l = &tixCond{Op: "paren", L: l}
	}
	return &tixCond{Op: op, L: l, R: rt}
}

// liveKeys: the tag keys some series of the judged metric carries (a key the metric's schema does not know is a
// query ERROR in lindb, not an empty answer; such conditions are not generated)
func (u *tixUniverse) liveKeys() []int {
	var ks []int
	for k := range u.keys {
		if len(u.vals[k]) > 0 {
			ks = append(ks, k+1)
		}
	}
	return ks
}

func (r *tixRun) groupKeys() []int {
	u := r.u
	var g []int
	live := u.liveKeys()
	isLive := func(k int) bool { return len(u.vals[k-1]) > 0 }
	switch x := r.rng.Intn(10); {
	case x < 1:
		return nil
	case x < 5 && u.uniq > 0 && isLive(u.uniq):
		g = append(g, u.uniq)
		for _, k := range live {
			if k != u.uniq && r.rng.Intn(3) == 0 {
				g = append(g, k)
			}
		}
	default:
		for _, k := range live {
			if r.rng.Intn(2) == 0 {
				g = append(g, k)
			}
		}
	}
	r.rng.Shuffle(len(g), func(i, j int) { g[i], g[j] = g[j], g[i] })
	return g
}

func (r *tixRun) queries(n, depth int) {
	if r.u.nsid[0] == 0 {
		return // the judged metric does not exist yet: asking it is an error ("metric not found"), not an empty answer
	}
	for i := 0; i < n && r.ok; i++ {
		m := 1
		var c *tixCond
		if r.rng.Intn(15) == 0 || len(r.u.liveKeys()) == 0 {
			c = &tixCond{Op: "true"}
		} else {
			c = r.cond(r.rng.Intn(depth+1), r.rng.Intn(4) == 0)
		}
		r.query(m, c, r.groupKeys(), "main")
	}
}

// ---------------------------------------------------------------- universes

func (r *tixRun) begin(mode string, u *tixUniverse) bool {
	r.n++
	r.u = u
	r.ok = true
	r.slot = 1
	r.norefresh = false
	r.dir = filepath.Join(r.scratch, fmt.Sprintf("u%d", r.n))
	r.dbName = fmt.Sprintf("db%d", r.n)
	keys := make([][]int, len(u.keys))
	for i, k := range u.keys {
		keys[i] = bInts([]byte(k))
	}
	r.rec.Reset(trace.F{"mode": mode, "keys": keys, "nk": len(u.keys), "u": r.n})
	r.counts["Reset"]++
	return r.open()
}

func (r *tixRun) end() {
	r.close()
	os.RemoveAll(r.dir)
}

func (r *tixRun) writeSome(n, missP int) bool {
	var batch []tixSeries
	var strs [][]string
	for i := 0; i < n; i++ {
		s, st, ok := r.u.newSeries(r.rng, missP)
		if !ok {
			break
		}
		batch = append(batch, s)
		strs = append(strs, st)
	}
	if len(batch) == 0 {
		return true
	}
	return r.write(batch, strs)
}

var tixOps = []string{"PrepMeta", "FlushMeta", "PrepIdx", "FlushIdx", "CompactMeta", "CompactIdx", "Reopen"}

// a small universe: a random history of writes, index placements and queries
func (r *tixRun) small(steps, qn int) {
	rng := r.rng
	u := newTixUniverse(rng, 1+rng.Intn(3), 2+rng.Intn(5), rng.Intn(3) == 0)
	if !r.begin("small", u) {
		return
	}
	defer r.end()
	missP := []int{0, 20, 40}[rng.Intn(3)]
	if !r.writeSome(1+rng.Intn(6), missP) {
		return
	}
	ask := func() {
		if r.ok {
			r.queries(qn, 2)
		}
	}
	ask()
	for i := 0; i < steps && r.ok; i++ {
		switch x := rng.Intn(20); {
		case x < 6:
			r.writeSome(1+rng.Intn(6), missP)
		case x < 9: // a whole flush cycle of the tag value dictionary, asked in the middle
			r.step("PrepMeta")
			ask()
			r.step("FlushMeta")
		case x < 12: // ... of the shard index
			r.step("PrepIdx")
			ask()
			r.step("FlushIdx")
		case x < 14:
			r.step(tixOps[rng.Intn(4)]) // a lone PrepareFlush / Flush
		case x < 16:
			r.step("CompactIdx")
		case x < 18:
			r.step("CompactMeta")
		case x < 19:
			r.step("Reopen")
		default:
			r.step("PrepMeta")
			r.step("PrepIdx")
			r.writeSome(1+rng.Intn(4), missP) // new entries next to a waiting immutable generation
		}
		ask()
	}
}

// a tour: one universe led through EVERY placement of the property text -- in memory, being flushed (immutable
// generation with new entries beside it), flushed, several files, compacted (mergers), reopened, and compacted again
// after the reopen -- with questions at every stop, so that each run visits them whatever the seed
func (r *tixRun) tour(qn int) {
	rng := r.rng
	u := newTixUniverse(rng, 2+rng.Intn(2), 3+rng.Intn(4), rng.Intn(2) == 0)
	if !r.begin("tour", u) {
		return
	}
	defer r.end()
	missP := []int{10, 30}[rng.Intn(2)]
	w := func() bool { return r.writeSome(3+rng.Intn(5), missP) }
	ask := func() {
		if r.ok {
			r.queries(qn, 2)
		}
	}
	ops := func(names ...string) bool {
		for _, n := range names {
			if !r.step(n) {
				return false
			}
		}
		return true
	}
	_ = w() && func() bool { ask(); return true }() &&
		ops("PrepMeta", "PrepIdx") && func() bool { ask(); return true }() && // being flushed
		w() && func() bool { ask(); return true }() && // new entries beside the immutable generation
		ops("FlushMeta", "FlushIdx") && func() bool { ask(); return true }() && // one file + memory
		ops("PrepMeta", "FlushMeta", "PrepIdx", "FlushIdx") && func() bool { ask(); return true }() && // two files
		w() && ops("PrepMeta", "FlushMeta", "PrepIdx", "FlushIdx") && func() bool { ask(); return true }() && // three files
		ops("CompactIdx") && func() bool { ask(); return true }() && // merged index files, dictionary still in level 0
		ops("CompactMeta") && func() bool { ask(); return true }() &&
		w() && func() bool { ask(); return true }() && // memory beside compacted files
		ops("Reopen") && func() bool { ask(); return true }() &&
		w() && ops("PrepIdx", "FlushIdx", "PrepMeta", "FlushMeta", "CompactIdx", "CompactMeta") && func() bool { ask(); return true }()
}

// ---------------------------------------------------------------- exhaustive small universe
// Every set of one or two series over two keys and the values {a, ab, b} (a key may be missing, a series may have no
// tag at all) -- the universe leg M explores -- is built on a real engine under one of six placement scripts, and
// EVERY atom of a fixed list (all operators, negations, shapes and literals a, ab, b, c) plus a sample of depth-2
// conditions is asked.

var tixEnumVals = []string{"a", "ab", "b"}

var tixEnumScripts = [][2][]string{
	{nil, nil},
	{{"PrepMeta", "PrepIdx"}, nil},
	{{"PrepMeta", "FlushMeta", "PrepIdx", "FlushIdx"}, nil},
	{{"PrepMeta", "FlushMeta", "PrepIdx", "FlushIdx"}, {"PrepMeta", "FlushMeta", "PrepIdx", "FlushIdx", "CompactIdx", "CompactMeta"}},
	{{"PrepIdx", "FlushIdx"}, {"PrepMeta"}},
	{{"PrepMeta", "FlushMeta", "PrepIdx", "FlushIdx"}, {"Reopen"}},
}

func (r *tixRun) enumAtoms() []*tixCond {
	var out []*tixCond
	b := func(s string) []byte { return []byte(s) }
	lits := []string{"a", "ab", "b", "c"}
	for _, k := range r.u.liveKeys() {
		for _, neg := range []bool{false, true} {
			add := func(c *tixCond) {
				c.Op, c.K, c.Neg, c.Alt = "atom", k, neg, len(out)
				if c.Kind == "regex" {
					c.Pat = renderRegex(c.Shape, c.Lits, c.Anch)
					if rp, err := regexp.Compile(c.Pat); err == nil {
						lp, _ := rp.LiteralPrefix()
						c.LP = []byte(lp)
					}
				}
				out = append(out, c)
			}
			for _, l := range lits {
				add(&tixCond{Kind: "eq", Lits: [][]byte{b(l)}})
			}
			add(&tixCond{Kind: "in", Lits: [][]byte{b("a"), b("b")}})
			add(&tixCond{Kind: "in", Lits: [][]byte{b("ab"), b("c")}})
			add(&tixCond{Kind: "in", Lits: [][]byte{b("a"), b("ab"), b("b")}})
			for _, l := range lits {
				add(&tixCond{Kind: "like", Shape: "prefix", Lits: [][]byte{b(l)}, Pat: l + "*"})
				add(&tixCond{Kind: "like", Shape: "suffix", Lits: [][]byte{b(l)}, Pat: "*" + l})
				add(&tixCond{Kind: "like", Shape: "contains", Lits: [][]byte{b(l)}, Pat: "*" + l + "*"})
				add(&tixCond{Kind: "like", Shape: "exact", Lits: [][]byte{b(l)}, Pat: l})
			}
			add(&tixCond{Kind: "like", Shape: "contains", Lits: [][]byte{nil}, Pat: "**"})
			add(&tixCond{Kind: "like", Shape: "exact", Lits: [][]byte{nil}, Pat: ""})
			for _, l := range lits[:3] {
				for _, sh := range []string{"prefix", "prefixany", "exact", "suffix", "contains"} {
					add(&tixCond{Kind: "regex", Shape: sh, Lits: [][]byte{b(l)}, Anch: true})
				}
				for _, sh := range []string{"suffix", "contains", "bare"} {
					add(&tixCond{Kind: "regex", Shape: sh, Lits: [][]byte{b(l)}, Anch: false})
				}
			}
			add(&tixCond{Kind: "regex", Shape: "exact", Lits: [][]byte{b("a"), b("ab")}, Anch: true})
			add(&tixCond{Kind: "regex", Shape: "contains", Lits: [][]byte{b("b"), b("c")}, Anch: false})
		}
	}
	return out
}

func (r *tixRun) enumUniverse(idx int, set [][]string, depth2 int) {
	u := &tixUniverse{metrics: []string{"cpu", "mem"}, have: map[string]bool{}, otherOneIn: 1 << 30,
		keys: []string{"host", "dc"}, pool: [][]string{tixEnumVals, tixEnumVals}, vals: [][]string{nil, nil}, vidx: []map[string]int{{}, {}}}
	if !r.begin("enum", u) {
		return
	}
	defer r.end()
	script := tixEnumScripts[idx%len(tixEnumScripts)]
	groupings := [][]int{nil, {1}, {2}, {1, 2}, {2, 1}}
	for i, strs := range set {
		if !r.write([]tixSeries{{m: 1, tags: make([]int, 2)}}, [][]string{strs}) {
			return
		}
		var ops []string
		if i < 2 {
			ops = script[i]
		}
		if len(set) == 1 {
			ops = script[1] // a single series: the second half of the script
			if ops == nil {
				ops = script[0]
			}
		}
		for _, op := range ops {
			if !r.step(op) {
				return
			}
		}
	}
	live := map[int]bool{}
	for _, k := range u.liveKeys() {
		live[k] = true
	}
	pick := func(n int) []int {
		var g []int
		for _, k := range groupings[n%len(groupings)] {
			if live[k] {
				g = append(g, k)
			}
		}
		return g
	}
	atoms := r.enumAtoms()
	n := 0
	r.query(1, &tixCond{Op: "true"}, pick(idx), "enum")
	for _, a := range atoms {
		n++
		r.query(1, a, pick(idx+n), "enum")
	}
	for i := 0; i < depth2 && len(atoms) > 0 && r.ok; i++ {
		a, b := *atoms[r.rng.Intn(len(atoms))], *atoms[r.rng.Intn(len(atoms))]
		op := []string{"and", "or"}[r.rng.Intn(2)]
		var c *tixCond
		switch r.rng.Intn(3) {
		case 0:
			c = &tixCond{Op: op, L: &a, R: &b}
		case 1:
			c = &tixCond{Op: op, L: &tixCond{Op: "paren", L: &a}, R: &b}
		default:
			a2 := *atoms[r.rng.Intn(len(atoms))]
			c = &tixCond{Op: op, L: &tixCond{Op: []string{"and", "or"}[r.rng.Intn(2)], L: &a, R: &b}, R: &tixCond{Op: "paren", L: &a2}}
		}
		n++
		r.query(1, c, pick(idx+n), "enum")
	}
}

// enum runs the universes whose index is selected (every = 1: all of them)
func (r *tixRun) enum(every, offset, depth2 int, triples int) int {
	var maps [][]string
	opts := append([]string{""}, tixEnumVals...)
	for _, a := range opts {
		for _, b := range opts {
			maps = append(maps, []string{a, b})
		}
	}
	var sets [][][]string
	for i := range maps {
		sets = append(sets, [][]string{maps[i]})
	}
	for i := range maps {
		for j := range maps {
			if i != j { // both write orders: the placement scripts treat the first and the second series differently
				sets = append(sets, [][]string{maps[i], maps[j]})
			}
		}
	}
	for t := 0; t < triples; t++ {
		p := r.rng.Perm(len(maps))
		sets = append(sets, [][]string{maps[p[0]], maps[p[1]], maps[p[2]]})
	}
	done := 0
	for idx, set := range sets {
		if every > 1 && (idx+offset)%every != 0 {
			continue
		}
		r.enumUniverse(idx, set, depth2)
		done++
	}
	return done
}

// a medium / big universe: many series (series ids cross the 65536 container boundary when n > 65536), a unique key,
// written in a few batches with flushes in between
func (r *tixRun) big(n, qn int) {
	rng := r.rng
	u := newTixUniverse(rng, 2, 6, true)
	u.otherOneIn = 50
	if !r.begin("big", u) {
		return
	}
	defer r.end()
	batches := 3 + rng.Intn(3)
	per := (n + batches - 1) / batches
	script := [][]string{{"PrepMeta", "FlushMeta", "PrepIdx", "FlushIdx"}, {"PrepIdx"}, {"FlushIdx", "PrepMeta"}, {"FlushMeta", "PrepIdx", "FlushIdx", "CompactIdx", "CompactMeta"}, {}, {"Reopen"}}
	for b := 0; b < batches && r.ok; b++ {
		var batch []tixSeries
		var strs [][]string
		for i := 0; i < per && len(u.series)+len(batch) < n; i++ {
			s, st, ok := u.newSeries(rng, 25)
			if !ok {
				break
			}
			batch = append(batch, s)
			strs = append(strs, st)
		}
		if len(batch) > 0 && !r.write(batch, strs) {
			return
		}
		for _, op := range script[b%len(script)] {
			if !r.step(op) {
				return
			}
		}
		r.queries(qn, 2)
	}
}

// ---------------------------------------------------------------- questions and writes INSIDE the commit of a flush
// "Being flushed" is not one instant: a flush writes its table file, commits it to the kv family (manifest record, new
// version) and only then does the store drop its immutable generation / swap its snapshot.  The table-file seam of the
// kv layer (kv/table verif hook, the same seam harness/internal/kvwrap uses) lets the driver run code at the moment the
// file of a flush is complete and the flusher is about to commit it: the flushing goroutine itself asks questions /
// writes series there (sequential, deterministic: no second thread, no sleep).  For the specification this is the
// placement "immutable generation waiting for its flush" (the FlushMeta / FlushIdx event is logged when the flush
// returned), so every answer given inside the window, and every answer given afterwards about entries that exactly
// this flush persisted, is judged like any other.

type tixTableWriter struct {
	bufioutil.BufioWriter
	name string
}

func (t *tixTableWriter) Close() error {
	err := t.BufioWriter.Close()
	if err == nil && tixFail.hit(t.name) {
		// the environment's fault: the table file of this flush cannot be completed (disk full, i/o error at close)
		return fmt.Errorf("injected: no space left on device (%s)", filepath.Base(filepath.Dir(t.name)))
	}
	if err == nil {
		tixWin.fire(t.name)
	}
	return err
}

// tixFail: the armed flush fault (at most one): the next table file closed below root/<store>/<family> fails
type tixFailSeam struct {
	mu     sync.Mutex
	root   string
	store  string // "meta" / "index" store directory name part
	family string
	fired  bool
}

var tixFail tixFailSeam

func (f *tixFailSeam) hit(fileName string) bool {
	f.mu.Lock()
	defer f.mu.Unlock()
	if f.family == "" || f.fired || !strings.HasPrefix(fileName, f.root+string(filepath.Separator)) {
		return false
	}
	famDir := filepath.Dir(fileName)
	if filepath.Base(famDir) != f.family || !strings.Contains(filepath.Dir(famDir), f.store) {
		return false
	}
	f.fired = true
	return true
}

// flushFail runs IndexDB().Flush() (kind "index") or MetaDB().Flush() (kind "meta") with the close of the table file of
// `family` failing.  The event names the stores of the model whose flush had committed before the failing one (the
// order of the code: metric, forward, inverted, series / ns, metric, schema, tv).
func (r *tixRun) flushFail(kind, family string) bool {
	tixInstallWindowSeam()
	tixFail.mu.Lock()
	tixFail.root, tixFail.family, tixFail.fired = r.dir, family, false
	tixFail.store = map[string]string{"index": "index", "meta": "meta"}[kind]
	tixFail.mu.Unlock()
	var err error
	if kind == "index" {
		err = r.shard.IndexDB().Flush()
	} else {
		err = r.db.MetaDB().Flush()
	}
	tixFail.mu.Lock()
	fired := tixFail.fired
	tixFail.family = ""
	tixFail.mu.Unlock()
	if !fired {
		// nothing of that family was pending: the flush had no table to write there; what happened is an ordinary flush
		if err != nil {
			r.unresolved("%s flush (no fault fired): %v", kind, err)
			return false
		}
		if kind == "index" {
			r.emit("FlushIdx", trace.F{})
		} else {
			r.emit("FlushMeta", trace.F{})
		}
		return true
	}
	if err == nil {
		r.emit("Error", trace.F{"op": "Flush", "err": "the flush reported success although the table file of " + family + " could not be completed"})
		r.ok = false
		return false
	}
	r.qstats["flush-fault:"+kind+":"+family]++
	if kind == "index" {
		order := []string{"metric", "forward", "inverted", "series"}
		done := []string{}
		for _, f := range order {
			if f == family {
				break
			}
			if f != "series" {
				done = append(done, f)
			}
		}
		r.emit("FlushIdxFail", trace.F{"failed": family, "done": done})
	} else {
		r.emit("FlushMetaFail", trace.F{"failed": family, "tvdone": false})
	}
	return true
}

// flushfail: one universe whose flushes fail at the completion of the table file of one family (the environment's
// fault), with questions right after the failure, new series beside the generation that is still waiting, the retry,
// further cycles, compaction and a reopen.  A failed flush loses nothing: what it did not persist is still answered
// from the immutable generation, and the retry persists it.
func (r *tixRun) flushfail(variant, qn int) {
	rng := r.rng
	u := newTixUniverse(rng, 2+rng.Intn(2), 3+rng.Intn(4), rng.Intn(2) == 0)
	if !r.begin("flushfail", u) {
		return
	}
	defer r.end()
	missP := []int{10, 30}[rng.Intn(2)]
	w := func() bool { return r.writeSome(3+rng.Intn(5), missP) }
	ask := func() bool {
		if r.ok {
			r.queries(qn, 2)
		}
		return r.ok
	}
	idxFam := []string{"inverted", "forward", "metric", "series"}[variant%4]
	_ = w() && ask() &&
		r.step("PrepMeta") && r.step("PrepIdx") && ask() &&
		r.flushFail("index", idxFam) && ask() &&
		w() && ask() &&
		r.flushFail("meta", "tv") && ask() &&
		r.step("FlushMeta") && r.step("FlushIdx") && ask() && // the retries
		r.step("PrepMeta") && r.step("FlushMeta") && r.step("PrepIdx") && r.step("FlushIdx") && ask() &&
		w() && r.step("PrepIdx") && r.flushFail("index", []string{"inverted", "forward", "metric", "series"}[(variant+1)%4]) && ask() &&
		r.step("FlushIdx") && ask() &&
		r.step("CompactIdx") && ask() &&
		r.step("CompactMeta") && ask() &&
		r.step("Reopen") && ask() &&
		w() && ask()
}

// tixWin: the armed window (at most one; the callback runs on the goroutine that closed the table file)
type tixWindowSeam struct {
	mu        sync.Mutex
	installed bool
	root      string                     // only files below this directory
	fn        func(store, family string) // nil = not armed
	busy      bool
}

var tixWin tixWindowSeam

func tixInstallWindowSeam() {
	tixWin.mu.Lock()
	defer tixWin.mu.Unlock()
	if tixWin.installed {
		return
	}
	tixWin.installed = true
	orig := table.VerifGetWriterFunc()
	table.VerifSetWriterFunc(func(fileName string) (bufioutil.BufioWriter, error) {
		bw, err := orig(fileName)
		if err != nil {
			return bw, err
		}
		return &tixTableWriter{BufioWriter: bw, name: fileName}, nil
	})
}

func (w *tixWindowSeam) fire(fileName string) {
	w.mu.Lock()
	fn, root := w.fn, w.root
	if fn == nil || w.busy || !strings.HasPrefix(fileName, root+string(filepath.Separator)) {
		w.mu.Unlock()
		return
	}
	w.busy = true
	w.mu.Unlock()
	defer func() {
		w.mu.Lock()
		w.busy = false
		w.mu.Unlock()
	}()
	famDir := filepath.Dir(fileName)
	fn(filepath.Dir(famDir), filepath.Base(famDir))
}

// flushInWindow runs the flush step `op` with the window armed: fn runs on the flushing goroutine each time the flush
// finished the table file of one family of this universe and is about to commit it.  Returns the families whose
// commit window was entered.
func (r *tixRun) flushInWindow(op string, fn func(family string)) ([]string, bool) {
	tixInstallWindowSeam()
	var fired []string
	tixWin.mu.Lock()
	tixWin.root = r.dir
	tixWin.fn = func(store, family string) {
		defer func() {
			if x := recover(); x != nil {
				r.unresolved("panic inside the commit window of %s: %v", family, x)
			}
		}()
		fired = append(fired, family)
		r.qstats["window-entered:"+op+":"+family]++
		fn(family)
	}
	tixWin.mu.Unlock()
	ok := r.step(op)
	tixWin.mu.Lock()
	tixWin.fn = nil
	tixWin.mu.Unlock()
	return fired, ok
}

func tixHas(xs []string, x string) bool {
	for _, y := range xs {
		if y == x {
			return true
		}
	}
	return false
}

// window: one universe whose dictionary / index flushes are entered.  Generations of tag values of the SAME tag keys:
// A (persisted by a plain flush), B (persisted by a flush whose commit window is entered), C (created inside a window).
// Inside the window of the flush of B the driver resolves values of the same keys that are NOT in memory (A: persisted
// earlier; absent ones) through every lookup path -- equals / in (dictionary get), like / regex (dictionary scan),
// group by (reverse lookup), and the write path (get-or-create of a persisted value, creation of a new one).  After
// the flush every value the flush persisted is asked for through every atom kind, then new series with those values
// are written and asked for again (a value that were given a second id would split its posting lists: equals and
// like / regex, or group by, then disagree with the reference), then the same once more around the next flush,
// a compaction and a reopen.
func (r *tixRun) window(variant, qn int) {
	rng := r.rng
	nkeys := 1 + rng.Intn(2)
	u := &tixUniverse{metrics: []string{"cpu", "mem"}, have: map[string]bool{}, otherOneIn: 6}
	perm := rng.Perm(len(tixKeyNames))
	for i := 0; i < nkeys; i++ {
		u.keys = append(u.keys, tixKeyNames[perm[i]])
	}
	u.keys = append(u.keys, "uid") // every series is new, whatever its other tags: a value can be re-used at will
	u.uniq = len(u.keys)
	gens := make([][3][]string, nkeys) // per key: value generations A, B, C (disjoint)
	for k := 0; k < nkeys; k++ {
		alpha := tixAlphabets[rng.Intn(len(tixAlphabets))]
		var pool []string
		seen := map[string]bool{}
		for len(pool) < 7 {
			v := tixRandValue(rng, alpha, pool)
			if len(pool) >= 12 { // (a tiny alphabet may run out of short strings)
				v += fmt.Sprint(len(pool))
			}
			if v == "" || seen[v] || strings.Contains(v, "'") {
				continue
			}
			seen[v] = true
			pool = append(pool, v)
		}
		gens[k] = [3][]string{pool[0:2], pool[2:5], pool[5:7]}
		u.pool = append(u.pool, pool)
		u.vals = append(u.vals, nil)
		u.vidx = append(u.vidx, map[string]int{})
	}
	u.pool = append(u.pool, []string{"u1", "u2", "u3"}) // (literals for generated conditions; the values are u<n>)
	u.vals = append(u.vals, nil)
	u.vidx = append(u.vidx, map[string]int{})
	if !r.begin("window", u) {
		return
	}
	defer r.end()
	full := u.pool

	// batch: n new series whose values are drawn from the given generations; the first series belongs to the judged
	// metric and carries, under every key, the first value of the LAST given generation (so that generation is used)
	batch := func(n, missP int, g ...int) bool {
		pools := make([][]string, len(u.keys))
		pools[u.uniq-1] = full[u.uniq-1]
		for k := 0; k < nkeys; k++ {
			for _, x := range g {
				pools[k] = append(pools[k], gens[k][x]...)
			}
		}
		u.pool = pools
		defer func() { u.pool = full }()
		var b []tixSeries
		var strs [][]string
		first := make([]string, len(u.keys))
		for k := 0; k < nkeys; k++ {
			first[k] = gens[k][g[len(g)-1]][0]
		}
		u.nextU++
		first[u.uniq-1] = fmt.Sprintf("u%d", u.nextU)
		u.have[fmt.Sprint(1, "\x00", strings.Join(first, "\x00"))] = true
		b = append(b, tixSeries{m: 1, tags: make([]int, len(u.keys))})
		strs = append(strs, first)
		for i := 1; i < n; i++ {
			sr, st, ok := u.newSeries(rng, missP)
			if !ok {
				break
			}
			b = append(b, sr)
			strs = append(strs, st)
		}
		return r.write(b, strs)
	}
	atom := func(k int, kind, shape string, neg bool, lits ...string) *tixCond {
		c := &tixCond{Op: "atom", K: k, Kind: kind, Shape: shape, Neg: neg, Alt: rng.Intn(6)}
		for _, l := range lits {
			c.Lits = append(c.Lits, []byte(l))
		}
		switch kind {
		case "like":
			c.Pat = map[string]string{"prefix": lits[0] + "*", "suffix": "*" + lits[0], "contains": "*" + lits[0] + "*", "exact": lits[0]}[shape]
		case "regex":
			c.Anch = true
			c.Pat = renderRegex(shape, c.Lits, true)
			if rp, err := regexp.Compile(c.Pat); err == nil {
				lp, _ := rp.LiteralPrefix()
				c.LP = []byte(lp)
			} else {
				r.unresolved("generated regexp does not compile: %s", c.Pat)
			}
		}
		return c
	}
	likeSafe := func(v string) bool { return !strings.HasPrefix(v, "*") && !strings.HasSuffix(v, "*") }
	grp := func(k int) []int {
		switch rng.Intn(4) {
		case 0:
			return []int{k}
		case 1:
			return []int{u.uniq, k}
		case 2:
			return []int{u.uniq}
		}
		return nil
	}
	absent := func(k int) string { return gens[k-1][0][0] + "zq" } // (no alphabet has these letters)
	// about(k, v, class): value v of key k through every atom kind
	about := func(k int, v, class string) {
		other := absent(k)
		if len(u.vals[k-1]) > 0 {
			other = u.vals[k-1][rng.Intn(len(u.vals[k-1]))]
		}
		r.query(1, atom(k, "eq", "", false, v), grp(k), class)
		r.query(1, atom(k, "in", "", false, absent(k), v), grp(k), class)
		if likeSafe(v) {
			r.query(1, atom(k, "like", []string{"exact", "prefix"}[rng.Intn(2)], false, v), grp(k), class)
		}
		r.query(1, atom(k, "regex", "exact", false, v), grp(k), class)
		switch rng.Intn(3) {
		case 0:
			r.query(1, atom(k, "eq", "", true, v), grp(k), class)
		case 1:
			r.query(1, atom(k, "in", "", true, v, other), grp(k), class)
		default:
			r.query(1, &tixCond{Op: "or", L: atom(k, "eq", "", false, v), R: atom(k, "eq", "", false, other)}, []int{k}, class)
		}
	}
	// the values of generation x that were really written
	written := func(k, x int) []string {
		var out []string
		for _, v := range gens[k-1][x] {
			if u.vidx[k-1][v] > 0 {
				out = append(out, v)
			}
		}
		return out
	}
	probe := func(class string, g ...int) bool {
		if !r.dictDump() {
			r.ok = false // (see dictDump: such a history is not led into a dictionary compaction)
			return false
		}
		for k := 1; k <= nkeys && r.ok; k++ {
			for _, x := range g {
				for _, v := range written(k, x) {
					about(k, v, class)
				}
			}
		}
		r.query(1, &tixCond{Op: "true"}, []int{1 + rng.Intn(nkeys)}, class)
		if r.ok {
			r.queries(qn, 2)
		}
		return r.ok
	}
	// what runs inside a commit window: lookups of values that are not in memory (persisted earlier / absent), of values
	// in the generation being flushed and in the mutable one; a write that re-uses persisted values and creates new ones
	inside := func(old, flushing int, write bool, newGen ...int) func(string) {
		return func(family string) {
			class := "in-window"
			for k := 1; k <= nkeys && r.ok; k++ {
				vs := written(k, old)
				if len(vs) > 0 {
					r.query(1, atom(k, "eq", "", false, vs[rng.Intn(len(vs))]), grp(k), class)
				}
				r.query(1, atom(k, "eq", "", false, absent(k)), grp(k), class)
				if fs := written(k, flushing); len(fs) > 0 {
					v := fs[rng.Intn(len(fs))]
					r.query(1, atom(k, "in", "", false, v, absent(k)), grp(k), class)
					if likeSafe(v) {
						r.query(1, atom(k, "like", "prefix", false, v), []int{k}, class)
					}
				}
			}
			if write && r.ok {
				batch(2+rng.Intn(2), 10, newGen...)
			}
			if r.ok {
				r.queries(qn, 2)
			}
		}
	}
	need := func(fired []string, fam, op string) bool {
		if !tixHas(fired, fam) {
			r.unresolved("window scenario: the commit window of family %s was not entered by %s (entered: %v)", fam, op, fired)
			return false
		}
		return true
	}

	// ---- generation A: written, persisted by a plain flush cycle
	if !batch(3+rng.Intn(3), 15, 0) {
		return
	}
	if !(r.step("PrepMeta") && r.step("FlushMeta") && r.step("PrepIdx") && r.step("FlushIdx")) {
		return
	}
	if !probe("window-a", 0) {
		return
	}
	// ---- generation B beside the persisted A (some series re-use A values: get-or-create of persisted values)
	if !batch(4+rng.Intn(3), 15, 0, 1) {
		return
	}
	if variant%2 == 1 && !probe("window-b-mem", 1) {
		return
	}
	if !r.step("PrepMeta") {
		return
	}
	// ---- the flush of B, entered: the dictionary is asked for / given values of the same keys while it commits
	fired, ok := r.flushInWindow("FlushMeta", inside(0, 1, variant%3 == 2, 0, 2))
	if !ok || !need(fired, "tv", "FlushMeta") {
		return
	}
	// ---- every value this flush persisted, through every atom kind
	if !probe("window-after", 1, 0) {
		return
	}
	// ---- new series that carry those values: each value must resolve to the id it has
	if !batch(3+rng.Intn(3), 10, 0, 1) {
		return
	}
	if !probe("window-reuse", 1) {
		return
	}
	// ---- the same for the index flush (posting lists, forward index, series dictionary), entered as well
	if !r.step("PrepIdx") {
		return
	}
	fired, ok = r.flushInWindow("FlushIdx", inside(0, 1, variant%2 == 0, 1, 2))
	if !ok || !need(fired, "inverted", "FlushIdx") || !need(fired, "forward", "FlushIdx") {
		return
	}
	if !probe("window-after-idx", 1, 2) {
		return
	}
	// ---- generation C: next dictionary flush entered with a write inside, then compaction and reopen
	if !batch(3+rng.Intn(2), 10, 1, 2) || !r.step("PrepMeta") {
		return
	}
	fired, ok = r.flushInWindow("FlushMeta", inside(1, 2, true, 0, 1, 2))
	if !ok || !need(fired, "tv", "FlushMeta") {
		return
	}
	if !probe("window-after", 2, 1) {
		return
	}
	if !batch(3, 10, 2) {
		return
	}
	if !probe("window-reuse", 2) {
		return
	}
	if !(r.step("PrepMeta") && r.step("FlushMeta") && r.step("PrepIdx") && r.step("FlushIdx") && r.step("CompactMeta") && r.step("CompactIdx")) {
		return
	}
	if !probe("window-compacted", 0, 1, 2) {
		return
	}
	if variant%2 == 0 && r.step("Reopen") {
		probe("window-reopened", 1, 2)
	}
}

func tagidxMain(args []string) int {
	fs := flag.NewFlagSet("tagidx", flag.ExitOnError)
	seed := fs.Int64("seed", 1, "seed")
	out := fs.String("out", "tagidx.ndjson", "trace file")
	outF := fs.String("out-findings", "", "trace file of the sub-traces that exercise recorded findings")
	scratch := fs.String("scratch", "", "scratch directory")
	nsmall := fs.Int("small", 10, "small universes")
	steps := fs.Int("steps", 8, "history steps per small universe")
	qn := fs.Int("q", 4, "queries after every step")
	ntour := fs.Int("tour", 0, "placement tours")
	nbig := fs.Int("big", 0, "big universes")
	bign := fs.Int("big-n", 3000, "series per big universe")
	bigq := fs.Int("big-q", 3, "queries per batch of a big universe")
	nfind := fs.Int("findings", 1, "universes per recorded finding")
	ntw := fs.Int("twins", 0, "universes with filters whose textual forms coincide (k = '~a' / k =~ 'a', k in ('a,b') / k in ('a','b'))")
	nff := fs.Int("flushfail", 0, "universes whose flushes fail at the completion of one family's table file (fault injection), then are retried")
	nwin := fs.Int("window", 0, "universes whose flushes are entered (questions / writes inside the commit window of a flush)")
	enumEvery := fs.Int("enum-every", 0, "exhaustive small universe: run every n-th series set (0 = none, 1 = all 256)")
	enumD2 := fs.Int("enum-depth2", 30, "depth-2 conditions per enumerated universe")
	enumTriples := fs.Int("enum-triples", 0, "additional random three-series sets")
	lut := fs.Bool("lut", false, "findings: include the universe with series ids in three bitmap containers (131072+ series)")
	debug := fs.Bool("debug", false, "print queries")
	script := fs.String("script", "", "re-execute a script (JSON: keys, ops) made from a sub-trace and print the answers")
	_ = fs.Parse(args)
	if *scratch == "" {
		d, err := os.MkdirTemp("", "tagidx")
		if err != nil {
			fmt.Fprintln(os.Stderr, err)
			return 2
		}
		*scratch = d
		defer os.RemoveAll(d)
	}
	sum := &trace.Summary{Module: "tagidx", Extra: map[string]any{}}
	rec, err := trace.New(*out)
	if err != nil {
		fmt.Fprintln(os.Stderr, err)
		return 2
	}
	r := &tixRun{rec: rec, rng: rand.New(rand.NewSource(*seed)), sum: sum, scratch: *scratch, counts: map[string]int{}, qstats: map[string]int{}, debug: *debug}
	if *script != "" {
		r.runScript(*script)
		rec.Close()
		sum.Traces, sum.Events = rec.Counts()
		sum.Print()
		return 0
	}
	for i := 0; i < *nsmall; i++ {
		r.small(*steps, *qn)
	}
	for i := 0; i < *ntour; i++ {
		r.tour(*qn)
	}
	for i := 0; i < *nbig; i++ {
		r.big(*bign, *bigq)
	}
	for i := 0; i < *nwin; i++ {
		r.window(i+int(*seed), *qn)
	}
	for i := 0; i < *nff; i++ {
		r.flushfail(i+int(*seed), *qn)
	}
	for i := 0; i < *ntw; i++ {
		r.twins(i + int(*seed))
	}
	if *enumEvery > 0 {
		sum.Extra["enum_universes"] = r.enum(*enumEvery, int(*seed), *enumD2, *enumTriples)
	}
	rec.Close()
	tr, ev := rec.Counts()
	if *outF != "" {
		recF, err := trace.New(*outF)
		if err != nil {
			fmt.Fprintln(os.Stderr, err)
			return 2
		}
		r.rec = recF
		for i := 0; i < *nfind; i++ {
			r.findingLikeStar()
			r.findingRegex()
			r.findingFamilyRead()
			r.findingCommaGroupBy()
			if *lut {
				r.findingForwardLut(i%2 == 1)
			}
		}
		recF.Close()
		t2, e2 := recF.Counts()
		tr += t2
		ev += e2
	}
	sum.Traces, sum.Events = tr, ev
	sum.Extra["event_counts"] = r.counts
	sum.Extra["query_outcomes"] = r.qstats
	sum.Print()
	return 0
}

// twins: tag filters whose TEXTUAL forms coincide although they are different filters -- k = '~a' and k =~ 'a' both
// read "k=~a", k in ('a,b') and k in ('a','b') both read "k in (a,b)" -- in ONE where clause, over values chosen so that
// the two filters select different series.  (Before the repair 14963b2 the two lookups shared one result.)
func (r *tixRun) twins(variant int) {
	pool := []string{"a", "~a", "~~a", "b", "a,b", "ab"}
	u := &tixUniverse{metrics: []string{"cpu", "mem"}, have: map[string]bool{}, otherOneIn: 5}
	u.keys = []string{"az", "rack"}
	for range u.keys {
		u.pool = append(u.pool, append([]string{}, pool...))
		u.vals = append(u.vals, nil)
		u.vidx = append(u.vidx, map[string]int{})
	}
	if !r.begin("twins", u) {
		return
	}
	defer r.end()
	if !r.writeSome(14, 10) || !r.writeSome(10, 10) {
		return
	}
	eq := func(k int, v string, neg bool) *tixCond {
		return &tixCond{Op: "atom", K: k, Kind: "eq", Neg: neg, Lits: [][]byte{[]byte(v)}, Alt: r.rng.Intn(6)}
	}
	in := func(k int, neg bool, vs ...string) *tixCond {
		c := &tixCond{Op: "atom", K: k, Kind: "in", Neg: neg, Alt: r.rng.Intn(6)}
		for _, v := range vs {
			c.Lits = append(c.Lits, []byte(v))
		}
		return c
	}
	re := func(k int, v string, neg bool) *tixCond {
		c := &tixCond{Op: "atom", K: k, Kind: "regex", Neg: neg, Shape: "bare", Lits: [][]byte{[]byte(v)}, Anch: false}
		c.Pat = renderRegex(c.Shape, c.Lits, c.Anch)
		if rp, err := regexp.Compile(c.Pat); err == nil {
			lp, _ := rp.LiteralPrefix()
			c.LP = []byte(lp)
		}
		return c
	}
	and := func(a, b *tixCond) *tixCond { return &tixCond{Op: "and", L: a, R: b} }
	or := func(a, b *tixCond) *tixCond { return &tixCond{Op: "or", L: a, R: b} }
	ask := func() {
		for k := 1; k <= 2 && r.ok; k++ {
			for _, c := range []*tixCond{
				and(re(k, "a", true), eq(k, "~a", true)),
				and(eq(k, "~a", true), re(k, "a", true)),
				and(re(k, "a", false), eq(k, "~a", true)),
				or(eq(k, "~a", false), re(k, "b", false)),
				or(re(k, "~a", false), eq(k, "~~a", false)),
				and(in(k, true, "a,b"), in(k, false, "a", "b")),
				or(in(k, false, "a,b"), in(k, false, "a", "b")),
				and(in(k, false, "a", "b", "a,b"), in(k, true, "a,b")),
			} {
				if r.ok {
					// (not grouped: a value with a comma under group-by is another matter, see findingCommaGroupBy)
					r.query(1, c, nil, "twins")
				}
			}
		}
	}
	ask()
	if variant%2 == 0 {
		_ = r.step("PrepMeta") && r.step("FlushMeta") && r.step("PrepIdx") && r.step("FlushIdx")
		ask()
	}
	_ = r.step("Reopen")
	ask()
}

// ---------------------------------------------------------------- recorded findings

// a tag value that contains a COMMA under group-by: the tag values of a group travel from the leaves to the root joined
// by commas (tag.ConcatTagValues / SplitTagValues), so such a group comes back with one value too many and is lost
func (r *tixRun) findingCommaGroupBy() {
	pool := []string{"a", "b", "a,b"}
	u := &tixUniverse{metrics: []string{"cpu", "mem"}, have: map[string]bool{}, otherOneIn: 1 << 30}
	u.keys = []string{"az", "rack"}
	for range u.keys {
		u.pool = append(u.pool, append([]string{}, pool...))
		u.vals = append(u.vals, nil)
		u.vidx = append(u.vidx, map[string]int{})
	}
	if !r.begin("finding-comma-groupby", u) {
		return
	}
	defer r.end()
	if !r.writeSome(12, 0) {
		return
	}
	for k := 1; k <= 2 && r.ok; k++ {
		c := &tixCond{Op: "atom", K: k, Kind: "in", Lits: [][]byte{[]byte("a"), []byte("b"), []byte("a,b")}}
		r.query(1, c, []int{k}, "comma-groupby")
	}
}

// like '*': accepted by the parser, the reference says "contains the empty string" (every series that has the key)
func (r *tixRun) findingLikeStar() {
	u := newTixUniverse(r.rng, 2, 4, false)
	if !r.begin("finding-like-star", u) {
		return
	}
	defer r.end()
	if !r.writeSome(5, 20) {
		return
	}
	for _, neg := range []bool{false, true} {
		c := &tixCond{Op: "atom", K: 1, Kind: "like", Neg: neg, Shape: "contains", Lits: [][]byte{nil}, Pat: "*"}
		r.query(1, c, []int{1}, "like-star")
	}
	r.step("PrepMeta")
	r.step("FlushMeta")
	c := &tixCond{Op: "atom", K: 1, Kind: "like", Shape: "contains", Lits: [][]byte{nil}, Pat: "*"}
	r.query(1, &tixCond{Op: "or", L: r.atom(false), R: c}, []int{1}, "like-star")
}

// data family read: when the family holds the metric both in the memory database and in files and the selected
// series all live on one side, the other side answers "not found" and the whole family yields nothing
func (r *tixRun) findingFamilyRead() {
	u := newTixUniverse(r.rng, 1, 3, true)
	if !r.begin("finding-family-read", u) {
		return
	}
	defer r.end()
	r.norefresh = true
	if !r.writeSome(3, 0) {
		return
	}
	first := len(u.series)
	if !r.step("Reopen") { // Close flushes the data of the first batch to a file; no refresh: same slot
		return
	}
	if !r.writeSome(3, 0) {
		return
	}
	uidOf := func(i int) []byte { return []byte(u.strs[i][u.uniq-1]) }
	var old, young int = -1, -1
	for i, s := range u.series {
		if s.m == 1 && i < first && old < 0 {
			old = i
		}
		if s.m == 1 && i >= first && young < 0 {
			young = i
		}
	}
	if old < 0 || young < 0 {
		return
	}
	eq := func(i int) *tixCond {
		return &tixCond{Op: "atom", K: u.uniq, Kind: "eq", Lits: [][]byte{uidOf(i)}}
	}
	g := []int{u.uniq}
	r.query(1, eq(old), g, "family-read")                                      // only in the file
	r.query(1, eq(young), g, "family-read")                                    // only in memory
	r.query(1, &tixCond{Op: "or", L: eq(old), R: eq(young)}, g, "family-read") // both sides: answered
	r.query(1, &tixCond{Op: "true"}, g, "family-read")
}

// filler writes n series of metric 1 WITHOUT tags (they only take series ids); logged as a count
func (r *tixRun) filler(n int) bool {
	u := r.u
	from := u.nsid[0]
	for done := 0; done < n; {
		k := n - done
		if k > 5000 {
			k = 5000
		}
		ms := make([]*protoMetricsV1.Metric, 0, k)
		for i := 0; i < k; i++ {
			// a series is identified by its tags, so every filler series carries one tag under a key ("zfill") that is
			// not part of the judged key set and never appears in a query: for the judge it is a series of metric 1
			// without any of the judged keys (x = 1: it does have index entries)
			ms = append(ms, &protoMetricsV1.Metric{Name: u.metrics[0], Timestamp: tixT0 + int64(r.slot)*10000 + 1000,
				Tags:         []*protoMetricsV1.KeyValue{{Key: "zfill", Value: fmt.Sprintf("f%d", from+done+i)}},
				SimpleFields: []*protoMetricsV1.SimpleField{{Name: "f", Value: 1, Type: protoMetricsV1.SimpleFieldType_DELTA_SUM}}})
		}
		rows := storageRows(ms...)
		if len(rows) != k {
			r.unresolved("row conversion lost filler rows")
			return false
		}
		if err := r.family.WriteRows(rows); err != nil {
			r.unresolved("WriteRows: %v", err)
			return false
		}
		done += k
	}
	u.nsid[0] += n
	u.nfill += n
	r.emit("Write", trace.F{"newvals": [][]any{}, "series": [][]any{}, "other": [][]any{}, "slot": r.slot, "filler": n, "fillsid": from})
	return true
}

// forward index reader: the offset table of a persisted entry is not cumulative; from the third bitmap container
// (series ids >= 131072 inside one metric) group by reads the tag values of other series
func (r *tixRun) findingForwardLut(compactVariant bool) {
	u := &tixUniverse{metrics: []string{"cpu", "mem"}, have: map[string]bool{}, otherOneIn: 1 << 30,
		keys: []string{"role", "host"}, pool: [][]string{nil, nil}, vals: [][]string{nil, nil}, vidx: []map[string]int{{}, {}}}
	if !r.begin("finding-forward-lut", u) {
		return
	}
	defer r.end()
	r.norefresh = true
	tagged := func(c int) bool {
		var batch []tixSeries
		var strs [][]string
		for i := 0; i < 3; i++ {
			st := []string{fmt.Sprintf("r%d%c", c, 'a'+i), fmt.Sprintf("h%d", (c+i)%2)}
			if i == 2 {
				st[1] = "" // one series per container without the second key
			}
			batch = append(batch, tixSeries{m: 1, tags: make([]int, 2)})
			strs = append(strs, st)
		}
		return r.write(batch, strs)
	}
	flush := func() bool { return r.step("PrepIdx") && r.step("FlushIdx") }
	all := &tixCond{Op: "true"}
	ask := func() {
		r.query(1, all, []int{1}, "forward-lut")
		r.query(1, all, []int{2, 1}, "forward-lut")
		r.query(1, &tixCond{Op: "atom", K: 1, Kind: "like", Shape: "prefix", Lits: [][]byte{[]byte("r2")}, Pat: "r2*"}, []int{1}, "forward-lut")
		r.query(1, &tixCond{Op: "atom", K: 2, Kind: "eq", Neg: true, Lits: [][]byte{[]byte("h0")}}, []int{1, 2}, "forward-lut")
	}
	for c := 0; c < 3 && r.ok; c++ {
		if !tagged(c) {
			return
		}
		if c < 2 && !r.filler(65536-3) {
			return
		}
		if compactVariant && !flush() {
			return
		}
	}
	ask() // everything in memory (or three files with one container each): answered correctly
	if compactVariant {
		r.step("CompactIdx") // the merged file holds three containers per key
	} else {
		flush() // one flush writes three containers per key
	}
	ask()
}

// unanchored regular expressions: the in-memory dictionary matches anywhere, the persisted dictionary only scans the
// keys that start with the literal prefix of the compiled pattern
func (r *tixRun) findingRegex() {
	u := newTixUniverse(r.rng, 2, 6, false)
	if !r.begin("finding-regex-unanchored", u) {
		return
	}
	defer r.end()
	if !r.writeSome(8, 10) {
		return
	}
	ask := func() {
		for i := 0; i < 6 && r.ok; i++ {
			var c *tixCond
			for try := 0; try < 200; try++ {
				c = r.atom(true)
				if c.Kind == "regex" && !c.Anch {
					break
				}
			}
			if c.Kind != "regex" || c.Anch {
				continue
			}
			if r.rng.Intn(3) == 0 {
				c = &tixCond{Op: "and", L: c, R: r.atom(false)}
			}
			r.query(1, c, r.groupKeys(), "regex-unanchored")
		}
	}
	ask()
	r.step("PrepMeta")
	ask()
	r.step("FlushMeta")
	ask()
	r.writeSome(4, 10)
	ask()
	r.step("PrepMeta")
	r.step("FlushMeta")
	r.step("CompactMeta")
	ask()
	r.step("Reopen")
	ask()
}

// ---------------------------------------------------------------- re-execution of a recorded history

type tixScriptOp struct {
	Op     string              `json:"op"` // Write | Refresh | PrepMeta | ... | Reopen | sql
	Series []map[string]string `json:"series,omitempty"`
	Metric []string            `json:"metric,omitempty"`
	Slot   int                 `json:"slot,omitempty"`
	SQL    string              `json:"sql,omitempty"`
}

// runScript executes writes (tags as strings), placements and raw SQL on a fresh engine and prints every answer
func (r *tixRun) runScript(path string) {
	b, err := os.ReadFile(path)
	if err != nil {
		r.unresolved("script: %v", err)
		return
	}
	var ops []tixScriptOp
	if err := json.Unmarshal(b, &ops); err != nil {
		r.unresolved("script: %v", err)
		return
	}
	r.u = &tixUniverse{metrics: []string{"cpu", "mem"}}
	if !r.begin("script", r.u) {
		return
	}
	defer r.end()
	r.norefresh = true
	var all []*protoMetricsV1.Metric
	put := func(ms []*protoMetricsV1.Metric, slot int) {
		for _, m := range ms {
			m.Timestamp = tixT0 + int64(slot)*10000 + 1000
		}
		if err := r.family.WriteRows(storageRows(ms...)); err != nil {
			fmt.Println("WRITE ERROR", err)
		}
	}
	for _, op := range ops {
		switch op.Op {
		case "Write":
			var ms []*protoMetricsV1.Metric
			for i, tags := range op.Series {
				var kvs []*protoMetricsV1.KeyValue
				for k, v := range tags {
					kvs = append(kvs, &protoMetricsV1.KeyValue{Key: k, Value: v})
				}
				ms = append(ms, &protoMetricsV1.Metric{Name: op.Metric[i], Tags: kvs,
					SimpleFields: []*protoMetricsV1.SimpleField{{Name: "f", Value: 1, Type: protoMetricsV1.SimpleFieldType_DELTA_SUM}}})
			}
			put(ms, op.Slot)
			all = append(all, ms...)
			fmt.Printf("Write %d series, slot %d\n", len(ms), op.Slot)
		case "Refresh":
			put(all, op.Slot)
			fmt.Printf("Refresh %d series, slot %d\n", len(all), op.Slot)
		case "sql":
			st, err := sql.Parse(op.SQL)
			if err != nil {
				fmt.Println("PARSE ERROR", op.SQL, err)
				continue
			}
			rs, err := query.MetricDataSearch(context.Background(), &models.ExecuteParam{Database: r.dbName, SQL: op.SQL}, st.(*stmt.Query), r.mgr)
			if err != nil {
				fmt.Printf("%s\n   -> ERROR %v\n", op.SQL, err)
				continue
			}
			res := rs.(*commonmodels.ResultSet)
			var out []string
			for _, s := range res.Series {
				total := 0.0
				for _, pts := range s.Fields {
					for _, v := range pts {
						total += v
					}
				}
				out = append(out, fmt.Sprintf("%v=%v", s.Tags, total))
			}
			sort.Strings(out)
			fmt.Printf("%s\n   -> %d groups %v\n", op.SQL, len(out), out)
		default:
			if !r.step(op.Op) {
				fmt.Println("STEP FAILED", op.Op, r.sum.Unresolved)
				return
			}
			fmt.Println(op.Op)
		}
	}
}
