CONSTANTS
  FixLostTail = FALSE
  MismatchResync = TRUE
SPECIFICATION TraceSpec
INVARIANTS NoHoles
CONSTRAINT HighWater
POSTCONDITION TraceAccepted
CHECK_DEADLOCK FALSE
