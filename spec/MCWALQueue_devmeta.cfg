CONSTANTS
  PageSize = 4
  AtomicPut = TRUE
  ClampConsumed = TRUE
  MetaByPage = FALSE
  Threads = {t1, t2}
  Groups = {g1, g2}
  Lens = {2, 3}
  MaxPut = 3
  MaxOps = 6
  MaxDown = 1
SPECIFICATION MCSpec
VIEW MCView
INVARIANTS Readable DurablyReadable Dense MemoryMatchesDisk GroupDirs GroupOrder QAckBounds
PROPERTIES QAckMonotone QAckMovesBelowMin
CHECK_DEADLOCK FALSE
