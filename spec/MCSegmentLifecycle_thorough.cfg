\* the design with both windows closed: all properties hold
CONSTANTS
  Writer = {w1, w2}
  MaxObj = 4
  MaxFam = 4
  MaxRow = 4
  ClosedSegmentRejects = TRUE
  ClosedFamilyRejects = TRUE
SPECIFICATION Spec
INVARIANTS TypeOK OneOpenStore MapIsOpen NoOrphanFamily NoLateWrite AcceptedCanBeDurable NoFailedFlush
CHECK_DEADLOCK FALSE
