CONSTANTS
  Node = {1, 2, 3}
  Db = {"d1", "d2"}
  Broker = {1, 2}
  MaxShards = 3
  RenotifyOnDb = TRUE
  GrowRouting = TRUE
  DropChannel = TRUE
SPECIFICATION TraceSpec
INVARIANTS QueryableCoversOnline
CONSTRAINT HighWater
POSTCONDITION TraceAccepted
CHECK_DEADLOCK FALSE
