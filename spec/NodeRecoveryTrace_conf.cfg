CONSTANTS
  SeriesFirst = FALSE
  CommitSeqBeforeWrite = FALSE
  FreezeBeforeMetaFlush = FALSE
  ExpireOnConsumed = FALSE
  Writable = FALSE
SPECIFICATION TraceSpec
INVARIANTS SeriesIndexed AckNotAhead NoLoss
CONSTRAINT HighWater
POSTCONDITION TraceAccepted
CHECK_DEADLOCK FALSE
