"""C03 -- compaction of metric data never changes what a reader can observe (module MetricData)."""
import json
import os

import vcore


def describe(sig, lines, rel, info):
    small = ""
    try:
        small = ":smallfiles" if json.loads(lines[0]).get("smallfiles") else ""
    except ValueError:
        pass
    return sig + small


def run_mdata(ctx, args, label):
    tr = os.path.join(ctx.scratch, "mdata-%s.ndjson" % label)
    scr = os.path.join(ctx.scratch, "scr-%s" % label)
    os.makedirs(scr, exist_ok=True)
    summ, rc, out = ctx.run_vdrive(["mdata", "--seed", ctx.seed, "--out", tr, "--scratch", scr] + args,
                                   timeout=3000, allow_fail=True)
    if summ is None:
        # the driver process died: a panic on a compaction / rollup goroutine of lindb kills the process
        if "panic:" in out and ("compact_job.go" in out or "family_rollup.go" in out or "metricsdata" in out):
            where = [ln.strip() for ln in out.splitlines() if "/repo/" in ln][:3]
            ctx.violation("MetricData:panic:background-job", "the kv background job panicked (process death): %s" % "; ".join(where),
                          replay_src=tr if os.path.exists(tr) else None)
            return None
        print(out[-3000:])
        raise vcore.Unresolved("mdata driver died")
    for u in summ["unresolved"]:
        raise vcore.Unresolved("mdata driver: %s" % u)
    for s in summ["samples"][:1]:
        ctx.sample(s)
    ctx.extra["events"] = ctx.extra.get("events", 0) + summ["events"]
    vcore.validate_all(ctx, "MetricDataTrace", "MetricDataTrace.cfg", tr, describe=describe, dfs=False)
    return tr


def run(ctx, replay):
    if replay:
        ok, info = ctx.validate_trace("MetricDataTrace", "MetricDataTrace.cfg", replay, dfs=False)
        if not ok:
            ctx.violation("MetricData:replay", "replayed trace rejected: %s" % info, replay_src=replay)
        return
    thorough = ctx.tier == "thorough"
    # M: the reference merge is insensitive to grouping / repeated compaction, for every field type
    ctx.model_check("MCMetricData", "MCMetricData.cfg", timeout=900)
    ctx.model_check("MCMetricData", "MCMetricData_b.cfg", timeout=900)
    # the reference does not depend on the magnitude of slot numbers (two slots far apart, beyond the 360-slot blocks)
    ctx.model_check("MCMetricData", "MCMetricData_w.cfg", timeout=900)
    tr = run_mdata(ctx, ["--compact", 400 if thorough else 60, "--rollup", 0], "compact")
    if tr is None:
        return
    # wide slot ranges (families of 1s / 1m type intervals: block and union ranges of 359..4000 slots, sparse cells)
    trw = run_mdata(ctx, ["--compact", 0, "--wide", 240 if thorough else 32, "--rollup", 0], "wide")
    if trw is None:
        return

    # key ranges: the output of a compaction, one level up, spans an untouched file of that level (inputs entirely below
    # and entirely above it): every metric of the untouched file still reads the same
    trg = run_mdata(ctx, ["--compact", 0, "--gap", 60 if thorough else 8, "--rollup", 0], "gap")
    if trg is None:
        return

    def lose_cell(lines):
        for i, ln in enumerate(lines):
            if '"ev":"After"' in ln:
                d = json.loads(ln)
                for m in d["blocks"]:
                    for b in d["blocks"][m]:
                        if b:
                            b.pop()
                            out = list(lines)
                            out[i] = json.dumps(d, separators=(",", ":")) + "\n"
                            return out
        return None

    def wrong_sum(lines):
        for i, ln in enumerate(lines):
            if '"ev":"After"' in ln:
                d = json.loads(ln)
                for m in d["blocks"]:
                    for b in d["blocks"][m]:
                        for c in b:
                            if c[1] == 1:  # the sum field
                                c[3] += 1
                                out = list(lines)
                                out[i] = json.dumps(d, separators=(",", ":")) + "\n"
                                return out
        return None
    def empty_slot_reads_zero(lines):
        # a slot without a value inside a wide block reads 0 after the compaction
        for i, ln in enumerate(lines):
            if '"ev":"After"' in ln:
                d = json.loads(ln)
                for m in d["blocks"]:
                    for b in d["blocks"][m]:
                        have = set((c[0], c[1], c[2]) for c in b)
                        hi = max([c[2] for c in b] or [0])
                        for c in b:
                            if c[2] + 1 < hi and (c[0], c[1], c[2] + 1) not in have:
                                b.append([c[0], c[1], c[2] + 1, 0])
                                out = list(lines)
                                out[i] = json.dumps(d, separators=(",", ":")) + "\n"
                                return out
        return None

    def min_with_zero(lines):
        # a min cell aggregated with a 0 that nobody wrote
        for i, ln in enumerate(lines):
            if '"ev":"After"' in ln:
                d = json.loads(ln)
                for m in d["blocks"]:
                    for b in d["blocks"][m]:
                        for c in b:
                            if c[1] == 2 and c[3] != 0:  # the min field
                                c[3] = 0
                                out = list(lines)
                                out[i] = json.dumps(d, separators=(",", ":")) + "\n"
                                return out
        return None
    vcore.corrupt_selftest(ctx, "MetricDataTrace", "MetricDataTrace.cfg", trw, empty_slot_reads_zero, "an empty slot of a wide block reads 0 after compaction")
    vcore.corrupt_selftest(ctx, "MetricDataTrace", "MetricDataTrace.cfg", trw, min_with_zero, "a min cell of a wide block is aggregated with 0")
    vcore.corrupt_selftest(ctx, "MetricDataTrace", "MetricDataTrace.cfg", tr, lose_cell, "a cell disappears in the compaction output")
    vcore.corrupt_selftest(ctx, "MetricDataTrace", "MetricDataTrace.cfg", tr, wrong_sum, "a sum cell is off by one after compaction")
    ctx.assumptions += [
        "values are integral float64 (exact aggregation), slots 0..11 (compact histories) and sparse cells in slot ranges of 359..4000 slots (wide histories: slot universes 720 / 1440 / 3600 / 4000, block ranges and union ranges around and above the 360-slot block of the merger's accumulator, 2 metrics x 2-4 series x 2-5 fields), series ids from a pool that crosses the 65536 container boundaries",
        "blocks are written with the real metricsdata.Flusher through a real kv flusher, compacted by Family.Compact() with the registered MetricDataMerger, and read back with Snapshot.Load + metricsdata.NewReader + the query data loader",
    ]
