SPECIFICATION TraceSpec
INVARIANTS Injective
CONSTRAINT HighWater
POSTCONDITION TraceAccepted
CHECK_DEADLOCK FALSE
