CONSTANTS
  FixLostTail = FALSE
SPECIFICATION TraceSpec
INVARIANTS NoHoles
CONSTRAINT HighWater
POSTCONDITION TraceAccepted
CHECK_DEADLOCK FALSE
