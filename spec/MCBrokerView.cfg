CONSTANTS
  Node = {1, 2}
  Db = {"d1", "d2"}
  Broker = {1}
  MaxShards = 2
  RenotifyOnDb = TRUE
  GrowRouting = TRUE
  DropChannel = TRUE
  MaxPub = 2
  MaxDbEv = 3
  MaxNodeEv = 1
SPECIFICATION MCSpec
INVARIANTS QueryableCoversOnline Writable RoutingFollowsCount NoOrphanChannel
CHECK_DEADLOCK FALSE
