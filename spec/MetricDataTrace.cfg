SPECIFICATION TraceSpec
CONSTRAINT HighWater
POSTCONDITION TraceAccepted
CHECK_DEADLOCK FALSE
