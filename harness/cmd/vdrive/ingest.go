package main

// vdrive ingest -- C16: ingestion canonicalises rows and routes them deterministically.
//
// Seeded metrics (tag permutations and repeated keys, unicode and escape characters, every field
// type, histograms, NaN/Inf, limits, missing timestamps) are rendered as protobuf, flat and line
// protocol request bodies and sent through the exported ingestion entry points
// (ingestion/proto.Parse, ingestion/flat.Parse, ingestion/influx.Parse); the resulting batch is
// then evicted and routed exactly as replica/channel_database.go databaseChannel.Write does
// (EvictOutOfTimeRange, NewShardGroupIterator, family iterator, BrokerRow.WriteTo) and what
// reached each family is read back through metric.StorageBatchRows.  Inputs, converted rows and
// (shard, family, rows) groups are logged; TLC judges them against spec/Ingest.tla.

import (
	"bytes"
	"flag"
	"fmt"
	"math"
	"math/rand"
	"net/http"
	"net/http/httptest"
	"strconv"
	"strings"
	"time"

	flatbuffers "github.com/google/flatbuffers/go"
	"github.com/lindb/common/proto/gen/v1/flatMetricsV1"
	protoMetricsV1 "github.com/lindb/common/proto/gen/v1/linmetrics"

	"github.com/lindb/lindb/ingestion/flat"
	"github.com/lindb/lindb/ingestion/influx"
	"github.com/lindb/lindb/ingestion/proto"
	"github.com/lindb/lindb/models"
	"github.com/lindb/lindb/pkg/timeutil"
	"github.com/lindb/lindb/series/metric"
	"github.com/lindb/lindb/series/tag"

	"verif/harness/internal/trace"
)

func init() { register("ingest", ingestMain) }

const dayMs = int64(86400000)

func tsPair(ts int64) []int64 { return []int64{ts / dayMs, ts % dayMs} }
func durPair(d int64) []int64 { return []int64{d / dayMs, d % dayMs} }

// ftok is the equality token of a float value.  -0.0 and +0.0 share a token: the flat encoding elides a field that
// equals its default (0.0), so the sign of a zero does not survive any of the three paths (numerically equal).
func ftok(v float64) string {
	if v == 0 {
		v = 0
	}
	return fmt.Sprintf("%016x", math.Float64bits(v))
}

type aField struct {
	name   []byte
	typ    string // proto / flat: last sum min max first unspec ; influx: kind num bool str
	vclass string // num nan inf
	val    float64
	text   string // influx rendering of the value
}

type aHist struct {
	bounds, values       []float64
	min, max, sum, count float64
}

func (h *aHist) tok() string {
	if h == nil {
		return ""
	}
	var sb strings.Builder
	for i := range h.bounds {
		sb.WriteString(ftok(h.bounds[i]) + ":" + ftok(h.values[i]) + ",")
	}
	sb.WriteString(ftok(h.min) + ftok(h.max) + ftok(h.sum) + ftok(h.count))
	return sb.String()
}

type aMetric struct {
	rid    int
	name   []byte
	ns     []byte
	ts     int64
	tsz    bool // timestamp not set
	tsbad  bool // line protocol: unparsable timestamp
	tags   [][2][]byte
	fields []aField
	hist   string // none ok bad
	h      *aHist
	why    string // what the generator intended (information only; the specification decides validity)
}

func (m *aMetric) event(format string) trace.F {
	tags := make([][][]int, len(m.tags))
	for i, t := range m.tags {
		tags[i] = [][]int{bInts(t[0]), bInts(t[1])}
	}
	fields := make([][]any, len(m.fields))
	for i, f := range m.fields {
		fields[i] = []any{bInts(f.name), f.typ, f.vclass, ftok(f.val)}
	}
	b2i := func(b bool) int {
		if b {
			return 1
		}
		return 0
	}
	ts := tsPair(m.ts)
	if m.tsz || m.tsbad {
		ts = []int64{0, 0}
	}
	htok := ""
	if m.hist == "ok" {
		htok = m.h.tok()
	}
	return trace.F{"fmt": format, "rid": m.rid, "name": bInts(m.name), "ns": bInts(m.ns), "ts": ts, "tsz": b2i(m.tsz),
		"tsbad": b2i(m.tsbad), "tags": tags, "fields": fields, "hist": m.hist, "htok": htok, "why": m.why}
}

// ---------------------------------------------------------------- renderers
var protoTypes = map[string]protoMetricsV1.SimpleFieldType{
	"last": protoMetricsV1.SimpleFieldType_LAST, "sum": protoMetricsV1.SimpleFieldType_DELTA_SUM,
	"min": protoMetricsV1.SimpleFieldType_Min, "max": protoMetricsV1.SimpleFieldType_Max,
	"first": protoMetricsV1.SimpleFieldType_FIRST, "unspec": protoMetricsV1.SimpleFieldType_SIMPLE_UNSPECIFIED,
}
var flatTypes = map[string]flatMetricsV1.SimpleFieldType{
	"last": flatMetricsV1.SimpleFieldTypeLast, "sum": flatMetricsV1.SimpleFieldTypeDeltaSum,
	"min": flatMetricsV1.SimpleFieldTypeMin, "max": flatMetricsV1.SimpleFieldTypeMax,
	"first": flatMetricsV1.SimpleFieldTypeFirst, "unspec": flatMetricsV1.SimpleFieldTypeUnSpecified,
}
var flatTypeNames = map[flatMetricsV1.SimpleFieldType]string{
	flatMetricsV1.SimpleFieldTypeLast: "last", flatMetricsV1.SimpleFieldTypeDeltaSum: "sum",
	flatMetricsV1.SimpleFieldTypeMin: "min", flatMetricsV1.SimpleFieldTypeMax: "max",
	flatMetricsV1.SimpleFieldTypeFirst: "first", flatMetricsV1.SimpleFieldTypeUnSpecified: "unspec",
}

func renderProto(ms []*aMetric) ([]byte, error) {
	var ml protoMetricsV1.MetricList
	for _, m := range ms {
		pm := &protoMetricsV1.Metric{Name: string(m.name), Namespace: string(m.ns), Timestamp: m.ts}
		if m.tsz {
			pm.Timestamp = 0
		}
		for _, t := range m.tags {
			pm.Tags = append(pm.Tags, &protoMetricsV1.KeyValue{Key: string(t[0]), Value: string(t[1])})
		}
		for _, f := range m.fields {
			pm.SimpleFields = append(pm.SimpleFields, &protoMetricsV1.SimpleField{Name: string(f.name), Type: protoTypes[f.typ], Value: f.val})
		}
		if m.h != nil {
			pm.CompoundField = &protoMetricsV1.CompoundField{Min: m.h.min, Max: m.h.max, Sum: m.h.sum, Count: m.h.count,
				ExplicitBounds: append([]float64{}, m.h.bounds...), Values: append([]float64{}, m.h.values...)}
		}
		ml.Metrics = append(ml.Metrics, pm)
	}
	return ml.Marshal()
}

// renderFlat builds the flat form by hand: tags in the given order, repeated keys kept, hashes left as garbage
// (the broker has to sort, de-duplicate and hash itself)
func renderFlat(b *flatbuffers.Builder, ms []*aMetric, rng *rand.Rand) []byte {
	var out bytes.Buffer
	for _, m := range ms {
		b.Reset()
		var keys, vals, kvs, fnames, fields []flatbuffers.UOffsetT
		for _, t := range m.tags {
			keys = append(keys, b.CreateByteString(t[0]))
			vals = append(vals, b.CreateByteString(t[1]))
		}
		for i := range keys {
			flatMetricsV1.KeyValueStart(b)
			flatMetricsV1.KeyValueAddKey(b, keys[i])
			flatMetricsV1.KeyValueAddValue(b, vals[i])
			kvs = append(kvs, flatMetricsV1.KeyValueEnd(b))
		}
		for _, f := range m.fields {
			fnames = append(fnames, b.CreateByteString(f.name))
		}
		for i, f := range m.fields {
			flatMetricsV1.SimpleFieldStart(b)
			flatMetricsV1.SimpleFieldAddName(b, fnames[i])
			flatMetricsV1.SimpleFieldAddType(b, flatTypes[f.typ])
			flatMetricsV1.SimpleFieldAddValue(b, f.val)
			fields = append(fields, flatMetricsV1.SimpleFieldEnd(b))
		}
		flatMetricsV1.MetricStartKeyValuesVector(b, len(kvs))
		for i := len(kvs) - 1; i >= 0; i-- {
			b.PrependUOffsetT(kvs[i])
		}
		kvsVec := b.EndVector(len(kvs))
		flatMetricsV1.MetricStartSimpleFieldsVector(b, len(fields))
		for i := len(fields) - 1; i >= 0; i-- {
			b.PrependUOffsetT(fields[i])
		}
		fieldsVec := b.EndVector(len(fields))
		var compound flatbuffers.UOffsetT
		if m.h != nil {
			flatMetricsV1.CompoundFieldStartValuesVector(b, len(m.h.values))
			for i := len(m.h.values) - 1; i >= 0; i-- {
				b.PrependFloat64(m.h.values[i])
			}
			cv := b.EndVector(len(m.h.values))
			flatMetricsV1.CompoundFieldStartExplicitBoundsVector(b, len(m.h.bounds))
			for i := len(m.h.bounds) - 1; i >= 0; i-- {
				b.PrependFloat64(m.h.bounds[i])
			}
			cb := b.EndVector(len(m.h.bounds))
			flatMetricsV1.CompoundFieldStart(b)
			flatMetricsV1.CompoundFieldAddCount(b, m.h.count)
			flatMetricsV1.CompoundFieldAddSum(b, m.h.sum)
			flatMetricsV1.CompoundFieldAddMin(b, m.h.min)
			flatMetricsV1.CompoundFieldAddMax(b, m.h.max)
			flatMetricsV1.CompoundFieldAddValues(b, cv)
			flatMetricsV1.CompoundFieldAddExplicitBounds(b, cb)
			compound = flatMetricsV1.CompoundFieldEnd(b)
		}
		name := b.CreateByteString(m.name)
		ns := b.CreateByteString(m.ns)
		flatMetricsV1.MetricStart(b)
		flatMetricsV1.MetricAddNamespace(b, ns)
		flatMetricsV1.MetricAddName(b, name)
		flatMetricsV1.MetricAddNameHash(b, rng.Uint64())
		if !m.tsz {
			flatMetricsV1.MetricAddTimestamp(b, m.ts)
		}
		flatMetricsV1.MetricAddKeyValues(b, kvsVec)
		flatMetricsV1.MetricAddKvsHash(b, rng.Uint64())
		flatMetricsV1.MetricAddSimpleFields(b, fieldsVec)
		if compound != 0 {
			flatMetricsV1.MetricAddCompoundField(b, compound)
		}
		b.FinishSizePrefixed(flatMetricsV1.MetricEnd(b))
		out.Write(b.FinishedBytes())
	}
	return out.Bytes()
}

func influxEscape(s []byte, name bool) string {
	var sb strings.Builder
	for _, c := range s {
		if c == ',' || c == ' ' || (c == '=' && !name) {
			sb.WriteByte('\\')
		}
		sb.WriteByte(c)
	}
	return sb.String()
}

func renderInflux(ms []*aMetric, precision string, rng *rand.Rand) []byte {
	var sb strings.Builder
	for _, m := range ms {
		if rng.Intn(6) == 0 {
			sb.WriteString("# a comment line\n")
		}
		sb.WriteString(influxEscape(m.name, true))
		for _, t := range m.tags {
			sb.WriteString("," + influxEscape(t[0], false) + "=" + influxEscape(t[1], false))
		}
		sb.WriteByte(' ')
		for i, f := range m.fields {
			if i > 0 {
				sb.WriteByte(',')
			}
			sb.WriteString(influxEscape(f.name, false) + "=" + f.text)
		}
		switch {
		case m.tsbad:
			sb.WriteString(" 12x4")
		case !m.tsz:
			v := m.ts
			switch precision {
			case "s":
				v = m.ts / 1000
			case "us":
				v = m.ts * 1000
			case "ns":
				v = m.ts * 1000000
			}
			sb.WriteString(" " + strconv.FormatInt(v, 10))
		}
		sb.WriteByte('\n')
	}
	return []byte(sb.String())
}

// ---------------------------------------------------------------- generator
type ingestGen struct {
	rng     *rand.Rand
	limits  *models.Limits
	names   [][]byte
	nss     [][]byte
	tagsets [][][2][]byte // identities (distinct keys); rows permute them and repeat keys
	now     int64
	behind  int64
	ahead   int64
	rid     int
	keys    [][]byte
	vals    [][]byte
	// line protocol lines without tags but with several fields are dropped by the parser (recorded finding,
	// exercised in mode "influx-notags"); elsewhere such a metric keeps one field only
	allowTaglessMultiField bool
	onlyInWindow           bool // no timestamps outside the window (mode "pool": second and third batch)
	nsPool                 [][]byte
}

var ingestKeyPool = []string{"host", "zone", "dc", "k", "k2", "ip", "é", "名", "a b", "a,b", "x=y", "Z", "_", "h|x", "k\\\\", "p\\q"}
var ingestValPool = []string{"a", "b", "1.1.1.1", "us-east", "ü", "中文", "v 1", "v,2", "p=q", "", "A", "0", "x|y", "C:\\\\", "a\\b", "w\\\\,z", "e\\\\ f\\\\"}
var ingestNamePool = []string{"cpu", "mem.used", "disk|io", "net rx", "a,b", "é", "load=1", "m", "system.cpu.load", "disk\\\\", "n\\m"}
var ingestFieldPool = []string{"f", "value", "count_sum", "x_last", "the_first", "HistogramX", "__bucket_9", "uptime", "é", "bs\\\\"}

func newIngestGen(rng *rand.Rand, limits *models.Limits, now, behind, ahead int64) *ingestGen {
	g := &ingestGen{rng: rng, limits: limits, now: now, behind: behind, ahead: ahead}
	for _, i := range rng.Perm(len(ingestNamePool))[:4] {
		g.names = append(g.names, []byte(ingestNamePool[i]))
	}
	g.nss = [][]byte{{}, []byte("ns1"), []byte("n|s")}
	g.nsPool = g.nss
	for _, k := range ingestKeyPool {
		g.keys = append(g.keys, []byte(k))
	}
	for _, v := range ingestValPool {
		if v != "" {
			g.vals = append(g.vals, []byte(v))
		}
	}
	for i := 0; i < 6; i++ {
		n := rng.Intn(5)
		var ts [][2][]byte
		for _, ki := range rng.Perm(len(g.keys))[:n] {
			ts = append(ts, [2][]byte{g.keys[ki], g.vals[rng.Intn(len(g.vals))]})
		}
		g.tagsets = append(g.tagsets, ts)
	}
	return g
}

// timestamps: inside the window, outside it, next to hour / day / month edges, unset.  Instants closer than
// 20 s to a window bound are avoided (the code reads its clock a little after the driver does).
func (g *ingestGen) timestamp() (ts int64, unset bool) {
	margin := int64(20000)
	lo, hi := g.now-30*dayMs, g.now+30*dayMs
	if g.behind > 0 {
		lo = g.now - g.behind + margin
	}
	if g.ahead > 0 {
		hi = g.now + g.ahead - margin
	}
	inside := func() int64 { return lo + g.rng.Int63n(hi-lo+1) }
	if g.onlyInWindow {
		return inside(), false
	}
	switch c := g.rng.Intn(20); {
	case c < 9:
		return inside(), false
	case c < 11 && g.behind > 0: // far or just behind
		return g.now - g.behind - margin - g.rng.Int63n(400*dayMs), false
	case c < 13 && g.ahead > 0:
		return g.now + g.ahead + margin + g.rng.Int63n(400*dayMs), false
	case c < 14:
		return 0, true
	case c < 17: // an edge of an hour / a day inside the window
		t := inside()
		unit := []int64{3600000, dayMs}[g.rng.Intn(2)]
		e := t/unit*unit - int64(g.rng.Intn(2))
		if e >= lo && e <= hi {
			return e, false
		}
		return t, false
	default:
		return g.now - int64(g.rng.Intn(3000)), false
	}
}

func long(n int) []byte { return bytes.Repeat([]byte{'x'}, n) }

func (g *ingestGen) metric(format string) *aMetric {
	g.rid++
	rng := g.rng
	m := &aMetric{rid: g.rid, name: g.names[rng.Intn(len(g.names))], hist: "none", why: "ok"}
	if format != "influx" {
		m.ns = g.nsPool[rng.Intn(len(g.nsPool))]
	} else {
		m.ns = []byte{}
	}
	m.ts, m.tsz = g.timestamp()
	// tags: an identity, permuted, sometimes with repeated keys
	base := g.tagsets[rng.Intn(len(g.tagsets))]
	for _, i := range rng.Perm(len(base)) {
		m.tags = append(m.tags, base[i])
	}
	if len(m.tags) > 0 && rng.Intn(4) == 0 {
		for n := 1 + rng.Intn(2); n > 0; n-- {
			t := m.tags[rng.Intn(len(m.tags))]
			dup := [2][]byte{t[0], g.vals[rng.Intn(len(g.vals))]}
			at := rng.Intn(len(m.tags) + 1)
			m.tags = append(m.tags[:at], append([][2][]byte{dup}, m.tags[at:]...)...)
		}
		m.why = "dup-keys"
	}
	// fields: the first one carries the row id
	if format == "influx" {
		m.fields = []aField{{name: []byte(ingestFieldPool[rng.Intn(len(ingestFieldPool))]), typ: "num", vclass: "num",
			val: float64(m.rid), text: strconv.Itoa(m.rid) + []string{"", "i", ".0"}[rng.Intn(3)]}}
		for n := rng.Intn(3); n > 0; n-- {
			name := []byte(ingestFieldPool[rng.Intn(len(ingestFieldPool))] + strconv.Itoa(rng.Intn(3)))
			switch rng.Intn(5) {
			case 0:
				bt := []string{"t", "T", "true", "True", "TRUE"}[rng.Intn(5)]
				m.fields = append(m.fields, aField{name: name, typ: "bool", vclass: "num", val: 1, text: bt})
			case 1:
				bf := []string{"f", "F", "false", "False", "FALSE"}[rng.Intn(5)]
				m.fields = append(m.fields, aField{name: name, typ: "bool", vclass: "num", val: 0, text: bf})
			case 2:
				m.fields = append(m.fields, aField{name: name, typ: "str", vclass: "num", val: 0, text: `"str"`})
			default:
				txt := []string{"1.5", "-2", "3e2", "0", "42i", "-7i", "9u"}[rng.Intn(7)]
				num := strings.TrimRight(txt, "iu")
				v, _ := strconv.ParseFloat(num, 64)
				m.fields = append(m.fields, aField{name: name, typ: "num", vclass: "num", val: v, text: txt})
			}
		}
	} else {
		types := []string{"last", "sum", "min", "max", "first"}
		m.fields = []aField{{name: []byte(ingestFieldPool[rng.Intn(len(ingestFieldPool))]), typ: types[rng.Intn(5)], vclass: "num", val: float64(m.rid)}}
		for n := rng.Intn(3); n > 0; n-- {
			v := []float64{0, -1.5, 1e300, 5e-324, float64(rng.Intn(1000)), math.Copysign(0, -1)}[rng.Intn(6)]
			m.fields = append(m.fields, aField{name: []byte(ingestFieldPool[rng.Intn(len(ingestFieldPool))] + strconv.Itoa(rng.Intn(3))),
				typ: types[rng.Intn(5)], vclass: "num", val: v})
		}
		if rng.Intn(6) == 0 {
			nb := 3 + rng.Intn(3)
			h := &aHist{min: 1, max: 9, sum: 20, count: float64(m.rid)}
			for i := 0; i < nb; i++ {
				h.bounds = append(h.bounds, float64(i+1)*2.5)
				h.values = append(h.values, float64(rng.Intn(5)))
			}
			h.bounds[nb-1] = math.Inf(1)
			m.h, m.hist = h, "ok"
			if rng.Intn(3) == 0 {
				m.fields = nil // histogram only: the count carries the row id
			}
		}
	}
	// invalid or limit cases
	L := g.limits
	if rng.Intn(4) == 0 {
		c := rng.Intn(16)
		switch {
		case c == 0 && format != "influx":
			m.name, m.why = []byte{}, "empty-name"
		case c == 1:
			m.name, m.why = long(L.MaxMetricNameLength+1), "name-too-long"
		case c == 2:
			m.name, m.why = long(L.MaxMetricNameLength), "name-at-limit"
		case c == 3 && format != "influx":
			m.fields, m.h, m.hist, m.why = nil, nil, "none", "no-fields"
		case c == 3:
			m.fields, m.why = []aField{{name: []byte("s"), typ: "str", vclass: "num", text: `"only"`}}, "no-fields"
		case c == 4 && format != "influx":
			m.tags = append(m.tags, [2][]byte{{}, []byte("v")})
			m.why = "empty-tag-key"
		case c == 5 && format != "influx":
			m.tags = append(m.tags, [2][]byte{[]byte("kk"), {}})
			m.why = "empty-tag-value"
		case c == 6:
			for i := 0; len(m.tags) <= L.MaxTagsPerMetric; i++ {
				m.tags = append(m.tags, [2][]byte{[]byte("t" + strconv.Itoa(i)), []byte("v")})
			}
			m.why = "too-many-tags"
		case c == 7:
			m.tags = append(m.tags, [2][]byte{long(L.MaxTagNameLength + 1), []byte("v")})
			m.why = "tag-key-too-long"
		case c == 8:
			m.tags = append(m.tags, [2][]byte{[]byte("kl"), long(L.MaxTagValueLength + 1)})
			m.why = "tag-value-too-long"
		case c == 9 && len(m.fields) > 0:
			for i := 0; len(m.fields) <= L.MaxFieldsPerMetric; i++ {
				f := aField{name: []byte("g" + strconv.Itoa(i) + "_sum"), typ: "sum", vclass: "num", val: 1, text: "1"}
				if format == "influx" {
					f.typ = "num"
				}
				m.fields = append(m.fields, f)
			}
			m.why = "too-many-fields"
		case c == 10 && len(m.fields) > 0 && format != "influx":
			m.fields = append(m.fields, aField{name: []byte{}, typ: "sum", vclass: "num", val: 1})
			m.why = "empty-field-name"
		case c == 11 && len(m.fields) > 0:
			f := aField{name: long(L.MaxFieldNameLength + 1), typ: "sum", vclass: "num", val: 1, text: "1"}
			if format == "influx" {
				f.typ = "num"
			}
			m.fields = append(m.fields, f)
			m.why = "field-name-too-long"
		case c == 12 && len(m.fields) > 0 && format != "influx":
			m.fields = append(m.fields, aField{name: []byte("u"), typ: "unspec", vclass: "num", val: 1})
			m.why = "field-type-unspecified"
		case c == 13 && len(m.fields) > 0:
			f := aField{name: []byte("nanf"), typ: "last", vclass: "nan", val: math.NaN(), text: "NaN"}
			if rng.Intn(2) == 0 {
				f = aField{name: []byte("inff"), typ: "last", vclass: "inf", val: math.Inf(1 - 2*rng.Intn(2)), text: "Infinity"}
				if f.val < 0 {
					f.text = "-Infinity"
				}
			}
			if format == "influx" {
				f.typ = "num"
			}
			m.fields = append(m.fields, f)
			m.why = "nan-or-inf"
		case c == 14 && format != "influx":
			h := &aHist{min: 1, max: 9, sum: 20, count: float64(m.rid), bounds: []float64{1, 2, 3, math.Inf(1)}, values: []float64{1, 1, 1, 1}}
			switch rng.Intn(4) {
			case 0:
				h.values[1] = -1
			case 1:
				h.bounds[1] = 0.5
			case 2:
				h.bounds[3] = 100
			default:
				h.sum = -3
			}
			m.h, m.hist, m.why = h, "bad", "bad-histogram"
		case c == 15 && format == "influx":
			m.tsbad, m.why = true, "bad-timestamp"
		case c == 15 && format == "flat":
			m.ns, m.why = long(L.MaxNamespaceLength+1), "namespace-too-long"
		}
	}
	if format == "influx" && len(m.tags) == 0 && len(m.fields) > 1 && !g.allowTaglessMultiField {
		m.fields = m.fields[:1]
	}
	return m
}

// ---------------------------------------------------------------- observation
func rowEvent(fm *flatMetricsV1.Metric) trace.F {
	var kv flatMetricsV1.KeyValue
	tags := make([][][]int, fm.KeyValuesLength())
	for i := range tags {
		fm.KeyValues(&kv, i)
		tags[i] = [][]int{bInts(kv.Key()), bInts(kv.Value())}
	}
	var sf flatMetricsV1.SimpleField
	fields := make([][]any, fm.SimpleFieldsLength())
	rid := -1
	for i := range fields {
		fm.SimpleFields(&sf, i)
		fields[i] = []any{bInts(sf.Name()), flatTypeNames[sf.Type()], ftok(sf.Value())}
		if i == 0 {
			rid = int(sf.Value())
		}
	}
	hist, htok := "none", ""
	var cf flatMetricsV1.CompoundField
	if fm.CompoundField(&cf) != nil {
		h := &aHist{min: cf.Min(), max: cf.Max(), sum: cf.Sum(), count: cf.Count()}
		for i := 0; i < cf.ExplicitBoundsLength(); i++ {
			h.bounds = append(h.bounds, cf.ExplicitBounds(i))
		}
		for i := 0; i < cf.ValuesLength(); i++ {
			h.values = append(h.values, cf.Values(i))
		}
		if len(h.bounds) == len(h.values) {
			hist, htok = "ok", h.tok()
		} else {
			hist = "mismatch"
		}
		if rid < 0 {
			rid = int(cf.Count())
		}
	}
	return trace.F{"rid": rid, "name": bInts(fm.Name()), "ns": bInts(fm.Namespace()), "ts": tsPair(fm.Timestamp()),
		"tags": tags, "kh": strconv.FormatUint(fm.KvsHash(), 10), "nh": strconv.FormatUint(fm.NameHash(), 10),
		"fields": fields, "hist": hist, "htok": htok}
}

type ingestCfg struct {
	shards   int32
	interval timeutil.Interval
	itype    string
	behind   int64
	ahead    int64
	// the same window as option text, and whether the batch goes through a real channel manager
	behindText, aheadText string
	realChan              bool
	limits                *models.Limits
	enriched              tag.Tags
	reqNs                 string
}

// route is databaseChannel.Write without the channels: evict, group by shard, group by family, write each group's
// rows into a buffer (familyChannel.Write) and read the buffer back as the storage side does
func ingestRoute(rec *trace.Recorder, cfg *ingestCfg, batch *metric.BrokerBatchRows, sum *trace.Summary) {
	lo := time.Now().UnixMilli() - 2000
	evicted := batch.EvictOutOfTimeRange(cfg.behind, cfg.ahead)
	hi := time.Now().UnixMilli() + 100
	groups := []any{}
	it := batch.NewShardGroupIterator(cfg.shards)
	for it.HasRowsForNextShard() {
		shardIdx, fit := it.FamilyRowsForNextShard(cfg.interval)
		for fit.HasNextFamily() {
			familyTime, rows := fit.NextFamily()
			var buf bytes.Buffer
			size := 0
			for i := range rows {
				size += rows[i].Size()
				if _, err := rows[i].WriteTo(&buf); err != nil {
					sum.Unresolved = append(sum.Unresolved, "WriteTo: "+err.Error())
				}
			}
			if size != buf.Len() {
				sum.Violations = append(sum.Violations, trace.Violation{Signature: "Ingest:size", Detail: fmt.Sprintf("Size() sums to %d but %d bytes written", size, buf.Len())})
			}
			sb := metric.NewStorageBatchRows()
			sb.UnmarshalRows(buf.Bytes())
			rids, khs, tss := []int{}, []string{}, [][]int64{}
			for _, sr := range sb.Rows() {
				rid := -1
				if sr.SimpleFieldsLen() > 0 {
					fi := sr.NewSimpleFieldIterator()
					fi.HasNext()
					rid = int(fi.NextValue())
				} else if ci, ok := sr.NewCompoundFieldIterator(); ok {
					rid = int(ci.Count())
				}
				rids = append(rids, rid)
				khs = append(khs, strconv.FormatUint(sr.TagsHash(), 10))
				tss = append(tss, tsPair(sr.Timestamp()))
			}
			groups = append(groups, trace.F{"shard": shardIdx, "family": tsPair(familyTime), "total": len(rows), "rids": rids, "khs": khs, "tss": tss})
		}
	}
	rec.Emit("Route", trace.F{"nowlo": tsPair(lo), "nowhi": tsPair(hi), "evicted": evicted, "groups": groups})
}

func ingestParse(format string, body []byte, precision string, cfg *ingestCfg) (*metric.BrokerBatchRows, error) {
	url := "/write"
	if precision != "" {
		url += "?precision=" + precision
	}
	req := httptest.NewRequest(http.MethodPost, url, bytes.NewReader(body))
	// The flat and line-protocol paths sanitise the request namespace IN PLACE through an unsafe string->[]byte
	// cast (strutil.String2ByteSlice + series.SanitizeNamespaceOrMetricName): a namespace with '|' held in
	// read-only memory (a string constant) kills the process with a fault, a heap string is silently rewritten.
	// Every call therefore gets its own heap copy (as a namespace taken from an HTTP query is).
	ns := string(append([]byte{}, cfg.reqNs...))
	switch format {
	case "proto":
		return proto.Parse(req, cfg.enriched, ns, cfg.limits)
	case "flat":
		return flat.Parse(req, cfg.enriched, ns, cfg.limits)
	default:
		return influx.Parse(req, cfg.enriched, ns, cfg.limits)
	}
}

// ingestEdge: 1 = the line-protocol body is padded with empty lines so that the newline of a valid line in the middle
// of the body is the LAST byte of the reader's 64 KiB block; 2 = the same body shifted by one byte (control)
var ingestEdge int

func padToBlockEdge(body []byte, shifted bool) []byte {
	const block = 64 * 1024
	lines := bytes.SplitAfter(body, []byte("\n"))
	k := len(lines) / 2
	if k >= len(lines) {
		return body
	}
	a := bytes.Join(lines[:k], nil)
	x := lines[k]
	b := bytes.Join(lines[k+1:], nil)
	pad := block - len(a) - len(x)
	if shifted {
		pad++
	}
	if pad < 0 {
		return body
	}
	out := append([]byte{}, a...)
	out = append(out, bytes.Repeat([]byte("\n"), pad)...)
	out = append(out, x...)
	return append(out, b...)
}

func ingestBatch(rec *trace.Recorder, g *ingestGen, cfg *ingestCfg, format string, n int, fb *flatbuffers.Builder,
	sum *trace.Summary, counts map[string]int, release bool) {
	precision := ""
	if format == "influx" {
		precision = []string{"ms", "ms", "s", "us", "ns"}[g.rng.Intn(5)]
	}
	var ms []*aMetric
	for i := 0; i < n; i++ {
		m := g.metric(format)
		if precision == "s" && !m.tsz {
			m.ts = m.ts / 1000 * 1000
		}
		ms = append(ms, m)
	}
	rec.Emit("Batch", trace.F{"fmt": format, "precision": precision})
	for _, m := range ms {
		counts["why:"+m.why]++
		rec.Emit("Input", m.event(format))
	}
	var body []byte
	var err error
	switch format {
	case "proto":
		body, err = renderProto(ms)
	case "flat":
		body = renderFlat(fb, ms, g.rng)
	default:
		body = renderInflux(ms, precision, g.rng)
		if ingestEdge != 0 {
			body = padToBlockEdge(body, ingestEdge == 2)
		}
	}
	if err != nil {
		sum.Unresolved = append(sum.Unresolved, "render: "+err.Error())
		return
	}
	lo := time.Now().UnixMilli() - 2000
	batch, err := ingestParse(format, body, precision, cfg)
	hi := time.Now().UnixMilli() + 100
	if err != nil || batch == nil {
		// "empty metrics": every metric of the request was rejected
		msg := "nil batch"
		if err != nil {
			msg = err.Error()
		}
		rec.Emit("ParseEnd", trace.F{"cnt": 0, "err": msg})
		return
	}
	rows := batch.Rows()
	for j := range rows {
		fm := rows[j].Metric()
		e := rowEvent(&fm)
		e["j"] = j + 1
		e["nowlo"], e["nowhi"] = tsPair(lo), tsPair(hi)
		rec.Emit("Row", e)
		counts["rows:"+format]++
	}
	rec.Emit("ParseEnd", trace.F{"cnt": len(rows), "err": ""})
	if cfg.realChan {
		chanRoute(rec, cfg, batch, sum) // releases the batch itself (ChannelManager.Write)
		return
	}
	ingestRoute(rec, cfg, batch, sum)
	if release {
		batch.Release()
	}
}

func ingestMain(args []string) int {
	fs := flag.NewFlagSet("ingest", flag.ExitOnError)
	out := fs.String("out", "ingest.ndjson", "trace output (expected to be accepted)")
	outPool := fs.String("out-findings", "", "trace output: sub-traces exercising the recorded findings (judged strictly)")
	seed := fs.Int64("seed", 1, "seed")
	rounds := fs.Int("rounds", 40, "sub-traces")
	batches := fs.Int("batches", 4, "batches per sub-trace")
	maxRows := fs.Int("rows", 20, "max metrics per batch")
	poolRounds := fs.Int("findings", 2, "sub-traces per recorded finding")
	chanRounds := fs.Int("chan", 0, "sub-traces whose batch is routed by a real replica.ChannelManager")
	_ = fs.Parse(args)
	sum := &trace.Summary{Module: "Ingest", Extra: map[string]any{}}
	counts := map[string]int{}
	rng := rand.New(rand.NewSource(*seed))
	fb := flatbuffers.NewBuilder(1024)
	files := map[string]any{}

	mkCfg := func(r *rand.Rand) *ingestCfg {
		cfg := &ingestCfg{}
		cfg.shards = []int32{1, 2, 3, 4, 8, 16, 100}[r.Intn(7)]
		switch r.Intn(4) {
		case 0:
			cfg.interval, cfg.itype = timeutil.Interval(5*60*1000), "month"
		case 1:
			cfg.interval, cfg.itype = timeutil.Interval(3600*1000), "year"
		default:
			cfg.interval, cfg.itype = timeutil.Interval(10*1000), "day"
		}
		if cfg.interval.Type().String() != cfg.itype {
			sum.Unresolved = append(sum.Unresolved, "interval type mismatch: "+cfg.interval.Type().String()+" vs "+cfg.itype)
		}
		windows := [][2]int64{{2 * 3600000, 3600000}, {dayMs, dayMs}, {70 * dayMs, 40 * dayMs}, {0, 3600000}, {3 * dayMs, 0}, {0, 0}}
		w := windows[r.Intn(len(windows))]
		cfg.behind, cfg.ahead = w[0], w[1]
		cfg.limits = models.NewDefaultLimits()
		cfg.limits.MaxMetricNameLength = 24
		cfg.limits.MaxNamespaceLength = 12
		cfg.limits.MaxTagNameLength = 10
		cfg.limits.MaxTagValueLength = 14
		cfg.limits.MaxTagsPerMetric = 6
		cfg.limits.MaxFieldsPerMetric = 5
		cfg.limits.MaxFieldNameLength = 14
		if r.Intn(5) == 0 { // all checks off
			cfg.limits.MaxMetricNameLength, cfg.limits.MaxNamespaceLength, cfg.limits.MaxTagNameLength = 0, 0, 0
			cfg.limits.MaxTagValueLength, cfg.limits.MaxTagsPerMetric, cfg.limits.MaxFieldsPerMetric, cfg.limits.MaxFieldNameLength = 0, 0, 0, 0
		}
		switch r.Intn(3) {
		case 0:
			cfg.enriched = tag.Tags{tag.NewTag([]byte("e_region"), []byte("r1"))}
		case 1:
			cfg.enriched = tag.Tags{tag.NewTag([]byte("e_region"), []byte("r1")), tag.NewTag([]byte("e_az"), []byte("z"))}
		}
		cfg.reqNs = []string{"", "req-ns", "r|n"}[r.Intn(3)]
		return cfg
	}
	resetEvent := func(mode string, cfg *ingestCfg) trace.F {
		en := make([][][]int, len(cfg.enriched))
		for i, t := range cfg.enriched {
			en[i] = [][]int{bInts(t.Key), bInts(t.Value)}
		}
		L := cfg.limits
		return trace.F{"mode": mode, "shards": cfg.shards, "itype": cfg.itype, "behind": durPair(cfg.behind), "ahead": durPair(cfg.ahead),
			"limits": trace.F{"name": L.MaxMetricNameLength, "ns": L.MaxNamespaceLength, "tagkey": L.MaxTagNameLength,
				"tagval": L.MaxTagValueLength, "tags": L.MaxTagsPerMetric, "fields": L.MaxFieldsPerMetric, "fieldname": L.MaxFieldNameLength},
			"enriched": en, "reqns": bInts([]byte(cfg.reqNs))}
	}
	run := func(path string, fn func(rec *trace.Recorder, r *rand.Rand)) {
		if path == "" {
			return
		}
		rec, err := trace.New(path)
		if err != nil {
			sum.Unresolved = append(sum.Unresolved, err.Error())
			return
		}
		fn(rec, rand.New(rand.NewSource(rng.Int63())))
		_ = rec.Close()
		t, e := rec.Counts()
		sum.Traces += t
		sum.Events += e
		files[path[strings.LastIndex(path, "/")+1:]] = map[string]int{"traces": t, "events": e}
	}
	formats := []string{"proto", "flat", "influx"}
	// main: batches are never released, so every batch object is fresh (the pool stays empty)
	run(*out, func(rec *trace.Recorder, r *rand.Rand) {
		for i := 0; i < *rounds; i++ {
			cfg := mkCfg(r)
			g := newIngestGen(r, cfg.limits, time.Now().UnixMilli(), cfg.behind, cfg.ahead)
			rec.Reset(resetEvent("mix", cfg))
			for b := 0; b < *batches; b++ {
				ingestBatch(rec, g, cfg, formats[(i+b)%3], 1+r.Intn(*maxRows), fb, sum, counts, false)
			}
		}
		// chan: the batch goes through the broker's real channel manager / database channel / family channels;
		// the write window comes from the database option (asymmetric windows included)
		for i := 0; i < *chanRounds; i++ {
			cfg := mkCfg(r)
			cfg.realChan = true
			b, a := chanDurations[r.Intn(len(chanDurations))], chanDurations[r.Intn(len(chanDurations))]
			cfg.behind, cfg.behindText, cfg.ahead, cfg.aheadText = b.ms, b.text, a.ms, a.text
			cfg.shards = []int32{1, 2, 3, 4, 8}[r.Intn(5)]
			g := newIngestGen(r, cfg.limits, time.Now().UnixMilli(), cfg.behind, cfg.ahead)
			rec.Reset(resetEvent("chan", cfg))
			ingestBatch(rec, g, cfg, formats[i%3], 4+r.Intn(*maxRows), fb, sum, counts, false)
		}
	})
	run(*outPool, func(rec *trace.Recorder, r *rand.Rand) {
		plain := func(cfg *ingestCfg) {
			cfg.enriched, cfg.reqNs = nil, ""
		}
		// influx-notags: line protocol lines without tags and with more than one field
		for i := 0; i < *poolRounds; i++ {
			cfg := mkCfg(r)
			plain(cfg)
			g := newIngestGen(r, cfg.limits, time.Now().UnixMilli(), cfg.behind, cfg.ahead)
			g.allowTaglessMultiField = true
			g.tagsets = [][][2][]byte{{}, {}, g.tagsets[0]}
			rec.Reset(resetEvent("influx-notags", cfg))
			ingestBatch(rec, g, cfg, "influx", 10, fb, sum, counts, false)
		}
		// influx-edge: a body larger than the reader's 64 KiB block with a line ending exactly on the block edge
		for i := 0; i < *poolRounds; i++ {
			cfg := mkCfg(r)
			plain(cfg)
			g := newIngestGen(r, cfg.limits, time.Now().UnixMilli(), cfg.behind, cfg.ahead)
			rec.Reset(resetEvent("influx-edge", cfg))
			ingestEdge = 1 + i%3/2 // two aligned bodies, then one shifted by a byte
			ingestBatch(rec, g, cfg, "influx", 12, fb, sum, counts, false)
			ingestEdge = 0
		}
		// flat-reqns: flat rows without a namespace in a request that names one
		for i := 0; i < *poolRounds; i++ {
			cfg := mkCfg(r)
			plain(cfg)
			cfg.reqNs = "req-ns"
			g := newIngestGen(r, cfg.limits, time.Now().UnixMilli(), cfg.behind, cfg.ahead)
			g.nsPool = [][]byte{{}, {}, []byte("ns1")}
			rec.Reset(resetEvent("flat-reqns", cfg))
			ingestBatch(rec, g, cfg, "flat", 8, fb, sum, counts, false)
		}
		// pool (LAST: it leaves dirty batch objects in the process-wide pool): a batch with evicted rows is released and
		// the next request gets the same object back from the pool
		for i := 0; i < *poolRounds; i++ {
			cfg := mkCfg(r)
			plain(cfg)
			cfg.behind, cfg.ahead = 2*3600000, 3600000
			g := newIngestGen(r, cfg.limits, time.Now().UnixMilli(), cfg.behind, cfg.ahead)
			rec.Reset(resetEvent("pool", cfg))
			for b := 0; b < 3; b++ {
				g.onlyInWindow = b > 0
				ingestBatch(rec, g, cfg, "proto", 12, fb, sum, counts, true)
			}
		}
	})
	sum.Distinct = sum.Traces
	sum.Extra["files"] = files
	sum.Extra["counts"] = counts
	sum.Print()
	return 0
}
