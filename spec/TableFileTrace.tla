--------------------------- MODULE TableFileTrace ---------------------------
(* Trace validation of the real table builder / reader / merged iterator and  *)
(* of version lookups (harness `vdrive table`) against TableFile.tla.  The    *)
(* driver offers keys and values (ascending and not, through Add and through  *)
(* the stream writer), reads everything back through the reader cache, merged *)
(* iterators and kv snapshots, and logs what the real code answered; TLC      *)
(* takes a step only if the answers equal the reference.  Histories of mode   *)
(* "levels" put several files with overlapping / nested / identical key       *)
(* ranges into levels 1 and 2 (edit log; real flushes + level-0 compactions)  *)
(* and repeat every lookup (the files of a level sit in a map).               *)
EXTENDS TableFile, Json

Trace == ndJsonDeserialize("trace.ndjson")
VARIABLE l
tvars == <<vars, l>>
ASSUME TLCSet(1, 0)
Ev(e) == l <= Len(Trace) /\ Trace[l].ev = e /\ l' = l + 1
Line == Trace[l]

TraceInit == l = 1 /\ Init
TReset == Ev("Reset") /\ bld' = <<>> /\ tab' = <<>> /\ ver' = <<>> /\ big' = <<>>

TCreate == Ev("Create") /\ Create(Line.t)
TOffered == Ev("Offered") /\ Offered(Line.t, Line.k, Line.v, Line.len, Line.via, Line.ssize, Line.proj)
TClose == Ev("Close") /\ Close(Line.t, Line.err)
TOpen == Ev("Open") /\ Open(Line.t, Line.err)
TGet == Ev("Get") /\ Get(Line.t, Line.k, Line.found, Line.v)
TIterate == Ev("Iterate") /\ Iterate(Line.t, Line.ks, Line.vs)
TMerged == Ev("Merged") /\ Merged(Line.ts, Line.ks, Line.vs)
TFlushed == Ev("Flushed") /\ Flushed(Line.f, Line.puts, Line.min, Line.max)
TFound == Ev("Found") /\ Found(Line.k, Line.fs)
TLoaded == Ev("Loaded") /\ Loaded(Line.k, Line.vs)
\* levels (histories of mode "levels"): edit-log installs / removals, level listing, level-0 compactions
TInstalled == Ev("Installed") /\ Installed(Line.f, Line.t, Line.lvl, Line.min, Line.max)
TRemoved == Ev("Removed") /\ Removed(Line.f)
TListed == Ev("Listed") /\ Listed(Line.files)
TCompacted == Ev("Compacted") /\ Len(Line.ins) = Cardinality(ToSet(Line.ins)) /\ Compacted(ToSet(Line.ins), Line.outs)
TMoved == Ev("Moved") /\ Moved(Line.f)
TBigBuilt == Ev("BigBuilt") /\ BigBuilt(Line.t, Line.cnt, Line.pal, Line.samp, Line.proj)
TBigGet == Ev("BigGet") /\ BigGet(Line.t, Line.i, Line.k, Line.found, Line.vi, Line.vp)
TBigAbsent == Ev("BigAbsent") /\ BigAbsent(Line.t, Line.found)
TBigIterated == Ev("BigIterated") /\ BigIterated(Line.t, Line.count, Line.rows)

TraceNext == TReset \/ TCreate \/ TOffered \/ TClose \/ TOpen \/ TGet \/ TIterate \/ TMerged
             \/ TFlushed \/ TFound \/ TLoaded \/ TInstalled \/ TRemoved \/ TListed \/ TCompacted \/ TMoved \/ TBigBuilt \/ TBigGet \/ TBigAbsent \/ TBigIterated
TraceSpec == TraceInit /\ [][TraceNext]_tvars

\* invariants of the reference state reached through the real history
TablesAscending == \A t \in DOMAIN tab : Ascending(tab[t].ks) /\ Len(tab[t].ks) = Len(tab[t].vs) /\ tab[t].ks # <<>>
VersionSelectionComplete == SelectionComplete

HighWater == TLCSet(1, IF l > TLCGet(1) THEN l ELSE TLCGet(1))
TraceAccepted ==
  LET hw == TLCGet(1) IN
  IF hw = Len(Trace) + 1 THEN TRUE
  ELSE /\ PrintT(<<"TRACE-REJECTED-AT-LINE", hw>>)
       /\ FALSE
=============================================================================
