\* deviation: Close does not flush -- must violate ClosedIsFlushed
CONSTANTS
  Leader = {1}
  MaxRow = 2
  MaxObj = 2
  MaxDb = 3
  MaxFail = 1
  MaxRef = 1
  DoubleWindow = FALSE
  CloseLocksFirst = FALSE
  RetryFailed = TRUE
  ClosedRejects = TRUE
  AtomicWrite = TRUE
  RegisterAtGet = TRUE
  AtomicEvict = TRUE
  UniqueStamp = TRUE
  EvictChecksRef = TRUE
  EvictChecksMem = TRUE
  CloseFlushes = FALSE
  AckFrozen = TRUE
SPECIFICATION MCSpec
INVARIANTS ClosedIsFlushed
CHECK_DEADLOCK FALSE
