--------------------------- MODULE PipelineTrace ---------------------------
(* Trace validation: executions of the real pipeline (harness `vdrive       *)
(* pipeline`) must be behaviours of Pipeline.  Many traces are concatenated; *)
(* a Reset event carries the stage tree, async flags, plan outcomes and the   *)
(* plan tree of every stage (children and operator of every plan node).      *)
EXTENDS Pipeline, Json

Trace == ndJsonDeserialize("trace.ndjson")

VARIABLES l,        \* next line of Trace to be consumed
          gated     \* the run had the gate between the unlock and pending.Dec() of completeStage: every unlock is an event
tvars == <<vars, l, gated>>

ASSUME TLCSet(1, 0)

Ev(e) == l <= Len(Trace) /\ Trace[l].ev = e /\ l' = l + 1 /\ (e # "Reset" => UNCHANGED gated)
Line == Trace[l]

EmptyTree == [x \in {} |-> << >>]

TraceInit ==
  /\ l = 1 /\ gated = FALSE
  /\ InitWith(EmptyTree, "none", EmptyTree, EmptyTree, [kids |-> EmptyTree, out |-> EmptyTree, root |-> EmptyTree], EmptyTree)

TReset ==
  /\ Ev("Reset")
  /\ gated' = ("gate" \in DOMAIN Line /\ Line.gate)
  /\ children' = Line.children /\ root' = Line.root
  /\ async' = Line.async /\ outcome' = Line.outcome
  /\ stacks' = [t \in (DOMAIN Line.children) \cup {"main"} |->
                  IF t = "main" THEN << [k |-> "chk", s |-> Line.root] >> ELSE << >>]
  /\ pending' = 0 /\ registered' = {} /\ done' = {}
  /\ completed' = FALSE /\ cbCount' = 0 /\ cbErr' = FALSE
  /\ errSeen' = FALSE /\ anyErr' = FALSE
  /\ pkids' = Line.pkids /\ pout' = Line.pout /\ proot' = Line.proot
  /\ opLog' = [s \in DOMAIN Line.children |-> << >>] /\ failedSt' = {} /\ lateOp' = FALSE
  /\ npanic' = [s \in DOMAIN Line.children |->
                  IF "npanic" \in DOMAIN Line /\ s \in DOMAIN Line.npanic THEN Line.npanic[s] ELSE -1]
  /\ finTwice' = FALSE

TRegister == Ev("Register") /\ \E t \in Thread : Has(t, "reg") /\ Top(t).s = Line.s /\ ~IdentPanics(Line.s) /\ Register(t)
\* a panic inside the complete-callback of stage s: NextStages() itself (k = 0, nothing registered yet) or the
\* Identifier() of its k-th next stage inside stateMachine.executeStage (the next stages before it are registered)
TNextPanic ==
  /\ Ev("NextPanic")
  /\ npanic[Line.s] = Line.k
  /\ IF Line.k = 0
       THEN \E t \in Thread : NextPanics(t) /\ Top(t).s = Line.s /\ Next1(t)
       ELSE \E t \in Thread : /\ Has(t, "reg") /\ IdentPanics(Top(t).s) /\ ParentOf(Top(t).s) = Line.s
                               /\ Top(t).s = children[Line.s][Line.k] /\ Register(t)
\* an operator of the plan tree of stage s ran: it must be the next one of the walk (pre-order, nothing after a failure)
TOp       == Ev("Op") /\ Line.outcome # "none" /\ \E t \in Thread : Has(t, "op") /\ Top(t).s = Line.s /\ Top(t).n = Line.node
                                             /\ pout[Line.node] = Line.outcome /\ OpRun(t)
TPlanPanic == Ev("PlanPanic") /\ \E t \in Thread : Has(t, "plan") /\ Top(t).s = Line.s
                                             /\ outcome[Line.s] = "planpanic" /\ Plan(t)
TFinMark  == Ev("FinMark") /\ \E t \in Thread : Has(t, "fin") /\ Top(t).s = Line.s /\ FinMark(t)
\* completeStage of stage s released the mutex and has not decremented pending yet (the harness' gate)
TUnlocked == Ev("Unlocked") /\ gated /\ \E t \in Thread : Has(t, "unl") /\ Top(t).s = Line.s /\ FinUnlock(t)
\* the completion callback ran: the call that brought pending to zero read the first error and completed, or
\* Pipeline.Execute's recover did; the error flag is the one the specification computes
TCallback == /\ Ev("Callback")
             /\ \/ \E t \in Thread : FinComplete(t)
                \/ MainComplete
             /\ cbCount' = cbCount + 1
             /\ cbErr' = Line.err
\* one of the two handlers passed to stage.Execute returned (the harness wraps them)
TFinEnd   == Ev("FinEnd") /\ \E t \in Thread : Has(t, "end") /\ Top(t).s = Line.s /\ ~Top(t).q /\ FinEnd(t)
\* Pipeline.Execute returned on the caller's goroutine
TMainRet  == Ev("MainReturn") /\ stacks["main"] = << >> /\ UNCHANGED vars
\* the harness saw every goroutine finish: the model must agree, and exactly one callback
TQuiesce  == Ev("Quiesce") /\ Quiescent /\ cbCount = 1 /\ Line.calls = 1 /\ UNCHANGED vars

\* steps the harness cannot observe
Silent == /\ l <= Len(Trace)
          /\ \/ \E t \in Thread : Chk(t) \/ (Next1(t) /\ ~NextPanics(t)) \/ (Plan(t) /\ outcome[Top(t).s] # "planpanic")
                                   \* pending.Dec(); complete() of an already completed pipeline
                                   \/ FinDec(t) \/ (FinComplete(t) /\ cbCount' = cbCount)
                                   \* the unlock is an event of gated runs only
                                   \/ (FinUnlock(t) /\ ~gated)
                                   \* the walk of the plan tree between two operators; plan nodes without operator
                                   \/ Kids(t) \/ (OpRun(t) /\ pout[Top(t).n] = "none")
                                   \* a stage completed by executeStage's recover does not pass
                                   \* through the harness' wrapped handlers: no FinEnd event
                                   \/ (FinEnd(t) /\ Top(t).q)
             \/ (MainComplete /\ cbCount' = cbCount)
          /\ UNCHANGED <<l, gated>>

TraceNext == TReset \/ TRegister \/ TNextPanic \/ TOp \/ TPlanPanic \/ TFinMark \/ TUnlocked \/ TCallback \/ TFinEnd \/ TMainRet \/ TQuiesce \/ Silent

TraceSpec == TraceInit /\ [][TraceNext]_tvars

\* high-water mark of consumed lines (needs -workers 1)
HighWater == TLCSet(1, IF l > TLCGet(1) THEN l ELSE TLCGet(1))
TraceAccepted ==
  LET hw == TLCGet(1) IN
  IF hw = Len(Trace) + 1 THEN TRUE
  ELSE /\ PrintT(<<"TRACE-REJECTED-AT-LINE", hw>>)
       /\ FALSE
TraceView == <<vars, l, gated>>
=============================================================================
