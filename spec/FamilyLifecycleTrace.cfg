\* the code as it is (UniqueStamp / CloseLocksFirst at the values of the repaired code, the other windows as the code has them); leaders are 1..2; the properties that hold for the code, on every history (also those with memory databases created in one clock tick)
CONSTANTS
  Leader = {1, 2}
  MaxRow = 60
  MaxObj = 6
  MaxDb = 60
  DoubleWindow = TRUE
  CloseLocksFirst = FALSE
  RetryFailed = FALSE
  ClosedRejects = FALSE
  AtomicWrite = FALSE
  RegisterAtGet = TRUE
  AtomicEvict = FALSE
  UniqueStamp = TRUE
  EvictChecksRef = TRUE
  EvictChecksMem = TRUE
  CloseFlushes = TRUE
  AckFrozen = TRUE
SPECIFICATION TraceSpec
INVARIANTS TypeOK FlushShape FlushedOnce AckNotAhead AckedRowsDurable ClosedIsFlushed NoStuck
PROPERTIES FlushedNeverGrows NoWriteIntoClosed
CONSTRAINT HighWater
POSTCONDITION TraceAccepted
CHECK_DEADLOCK FALSE
