--------------------------- MODULE SegmentLifecycle ---------------------------
(***************************************************************************)
(* Segments of one shard interval (tsdb/interval_segment.go, segment.go,    *)
(* shard.go GetOrCrateDataFamily / EvictSegment): an extension beyond the    *)
(* listed properties (DESIGN.md section 0.8), next to FamilyLifecycle.        *)
(*                                                                         *)
(* One segment NAME (one day) and the segment OBJECTS the interval segment   *)
(* creates for it over time.  A segment object owns a kv store (opened in    *)
(* newSegment through the store manager, closed by Segment.Close) and a map  *)
(* of data family objects; the periodic TTL task evicts a segment object     *)
(* that has no family in its map (EvictSegment: NeedEvict, Close, removal    *)
(* from the interval segment's map); the next access creates a NEW object    *)
(* (a new store over the same directory).  Somebody may still hold the old   *)
(* object: Shard.GetOrCrateDataFamily gets the segment first (interval       *)
(* segment mutex), creates the segments of the rollup targets (kv stores:    *)
(* file-system work), and only then asks the segment for the family          *)
(* (segment mutex).                                                          *)
(*                                                                         *)
(* One action per critical section:                                          *)
(*   GetSeg(w)    IntervalSegment.GetOrCreateSegment        (interval mutex)  *)
(*   GetFam(w)    Segment.GetOrCreateDataFamily on the handle (segment mutex) *)
(*   Write(w)     DataFamily.WriteRows on the family handle                   *)
(*   Flush(o)     DataFamily.Flush: kv commit on the store of the object      *)
(*   FamEvict(o)  DataFamily.Evict -> Close, Segment.EvictFamily              *)
(*   EvictBegin   EvictSegment takes the interval mutex                       *)
(*   EvictCheck   Segment.NeedEvict                          (segment mutex)  *)
(*   EvictClose   Segment.Close (families closed = flushed, store closed),    *)
(*                removal from the map, interval mutex released               *)
(* Switches (value of the code in brackets):                                  *)
(*   ClosedSegmentRejects [FALSE before the repair, TRUE since] a closed      *)
(*       segment object refuses to hand out a family; the caller goes back    *)
(*       to the interval segment.  FALSE: the family is created on the        *)
(*       CLOSED kv store -- rows are accepted, every flush fails ("commit     *)
(*       edit log failure"), nothing of them is ever durable or acknowledged  *)
(*   ClosedFamilyRejects  [FALSE] WriteRows on a closed family object is      *)
(*       accepted silently (the window FamilyLifecycle names ClosedRejects):  *)
(*       the object creates a memory database of its own; nobody but the      *)
(*       holder of the handle can flush it (it left the family manager), and  *)
(*       once its segment object is evicted too that flush fails              *)
(* Family objects are entities (`Fam`): a handle names one of them, a segment *)
(* object's map holds at most one (one family time).  A flush that failed     *)
(* leaves the frozen database in place: later Flush calls of that object      *)
(* return nil without doing anything (FamilyLifecycle: RetryFailed).          *)
(***************************************************************************)
EXTENDS Integers, FiniteSets, TLC

CONSTANTS
  \* @type: Set(Str);
  Writer,
  \* @type: Int;
  MaxObj,
  \* @type: Int;
  MaxFam,
  \* @type: Int;
  MaxRow,
  \* @type: Bool;
  ClosedSegmentRejects,
  \* @type: Bool;
  ClosedFamilyRejects

Obj == 1..MaxObj
Fam == 1..MaxFam
Row == 1..MaxRow

VARIABLES
  \* @type: Int;
  segMap,   \* the segment object in the interval segment's map (0 = none)
  \* @type: Int;
  nobj,     \* segment objects created so far
  \* @type: Int -> Str;
  st,       \* [Obj -> {"none","open","closed"}]   closed = Segment.Close ran: its kv store is closed
  \* @type: Int -> Int;
  cached,   \* [Obj -> Fam \cup {0}]  the family object in the segment's family map
  \* @type: Int;
  nfam,     \* family objects created so far
  \* @type: Int -> Int;
  fseg,     \* [Fam -> Obj \cup {0}]  the segment object (its kv store) the family object was created on
  \* @type: Int -> Str;
  fst,      \* [Fam -> {"none","live","closed"}]
  \* @type: Int -> Set(Int);
  fmem,     \* [Fam -> SUBSET Row]  rows in the memory databases of the family object
  \* @type: Int -> Bool;
  stuck,    \* [Fam -> BOOLEAN]  a flush of the object failed: its later Flush calls are ignored
  \* @type: Set(Int);
  flushed,  \* SUBSET Row: rows in a committed file of the kv family (durable)
  \* @type: Set(Int);
  late,     \* SUBSET Row: rows accepted by a closed family object
  \* @type: Int;
  next,     \* next row
  \* @type: Str -> Str;
  wpc,      \* [Writer -> {"idle","gotseg","gotfam"}]
  \* @type: Str -> Int;
  wseg,     \* [Writer -> Obj \cup {0}]: the segment handle
  \* @type: Str -> Int;
  wfam,     \* [Writer -> Fam \cup {0}]: the family handle
  \* @type: Str;
  imutex,   \* "free" | "evict": the interval segment mutex held across steps (only EvictSegment does that)
  \* @type: Str;
  ev,       \* "idle" | "check" | "closing": the TTL task inside EvictSegment
  \* @type: Bool;
  failed    \* history: a flush failed because the store of its family was closed

vars == <<segMap, nobj, st, cached, nfam, fseg, fst, fmem, stuck, flushed, late, next, wpc, wseg, wfam, imutex, ev, failed>>

Init ==
  /\ segMap = 0 /\ nobj = 0 /\ nfam = 0
  /\ st = [o \in Obj |-> "none"] /\ cached = [o \in Obj |-> 0]
  /\ fseg = [f \in Fam |-> 0] /\ fst = [f \in Fam |-> "none"] /\ fmem = [f \in Fam |-> {}] /\ stuck = [f \in Fam |-> FALSE]
  /\ flushed = {} /\ late = {} /\ next = 1
  /\ wpc = [w \in Writer |-> "idle"] /\ wseg = [w \in Writer |-> 0] /\ wfam = [w \in Writer |-> 0]
  /\ imutex = "free" /\ ev = "idle" /\ failed = FALSE

\* ------------------------------------------------------------------ the write path
GetSeg(w) ==
  /\ wpc[w] = "idle" /\ imutex = "free"
  /\ IF segMap # 0
       THEN /\ wseg' = [wseg EXCEPT ![w] = segMap]
            /\ UNCHANGED <<segMap, nobj, st>>
       ELSE /\ nobj < MaxObj
            /\ nobj' = nobj + 1 /\ segMap' = nobj + 1
            /\ st' = [st EXCEPT ![nobj + 1] = "open"]
            /\ wseg' = [wseg EXCEPT ![w] = nobj + 1]
  /\ wpc' = [wpc EXCEPT ![w] = "gotseg"]
  /\ UNCHANGED <<cached, nfam, fseg, fst, fmem, stuck, flushed, late, next, wfam, imutex, ev, failed>>

\* the family of the object's map, or a new family object on whatever the store of the object is by now
TakeFam(w, o) ==
  IF cached[o] # 0
    THEN /\ wfam' = [wfam EXCEPT ![w] = cached[o]]
         /\ UNCHANGED <<cached, nfam, fseg, fst>>
    ELSE /\ nfam < MaxFam
         /\ nfam' = nfam + 1 /\ cached' = [cached EXCEPT ![o] = nfam + 1]
         /\ fseg' = [fseg EXCEPT ![nfam + 1] = o] /\ fst' = [fst EXCEPT ![nfam + 1] = "live"]
         /\ wfam' = [wfam EXCEPT ![w] = nfam + 1]

\* res: "ok" = a family handle; "closed" = the segment object refused (the repair), the caller starts again
GetFam(w, res) ==
  /\ wpc[w] = "gotseg"
  /\ LET o == wseg[w] IN
     IF st[o] = "closed" /\ ClosedSegmentRejects
       THEN /\ res = "closed"
            /\ wpc' = [wpc EXCEPT ![w] = "idle"] /\ wseg' = [wseg EXCEPT ![w] = 0]
            /\ UNCHANGED <<cached, nfam, fseg, fst, wfam>>
       ELSE /\ res = "ok"
            /\ TakeFam(w, o)
            /\ wpc' = [wpc EXCEPT ![w] = "gotfam"]
            /\ UNCHANGED wseg
  /\ UNCHANGED <<segMap, nobj, st, fmem, stuck, flushed, late, next, imutex, ev, failed>>

\* res: "ok" | "err"
Write(w, res) ==
  /\ wpc[w] = "gotfam" /\ next <= MaxRow
  /\ LET f == wfam[w] IN
     /\ res = IF fst[f] = "live" \/ ~ClosedFamilyRejects THEN "ok" ELSE "err"
     /\ IF res = "ok"
          THEN /\ fmem' = [fmem EXCEPT ![f] = @ \cup {next}] /\ next' = next + 1
               /\ late' = IF fst[f] = "live" THEN late ELSE late \cup {next}
          ELSE UNCHANGED <<fmem, next, late>>
  /\ UNCHANGED <<segMap, nobj, st, cached, nfam, fseg, fst, stuck, flushed, wpc, wseg, wfam, imutex, ev, failed>>

\* the writer lets go of its handles
Done(w) ==
  /\ wpc[w] = "gotfam"
  /\ wpc' = [wpc EXCEPT ![w] = "idle"] /\ wseg' = [wseg EXCEPT ![w] = 0] /\ wfam' = [wfam EXCEPT ![w] = 0]
  /\ UNCHANGED <<segMap, nobj, st, cached, nfam, fseg, fst, fmem, stuck, flushed, late, next, imutex, ev, failed>>

\* DataFamily.Flush of family object f (by the flush checker while the object is in the family manager, or by whoever
\* holds the handle); ok = the call returned nil
Flush(f, ok) ==
  /\ fst[f] # "none" /\ fmem[f] # {}
  /\ IF stuck[f]
       THEN ok /\ UNCHANGED <<flushed, fmem, stuck, failed>>
       ELSE /\ ok = (st[fseg[f]] = "open")
            /\ IF ok THEN flushed' = flushed \cup fmem[f] /\ fmem' = [fmem EXCEPT ![f] = {}] /\ UNCHANGED <<stuck, failed>>
               ELSE failed' = TRUE /\ stuck' = [stuck EXCEPT ![f] = TRUE] /\ UNCHANGED <<flushed, fmem>>
  /\ UNCHANGED <<segMap, nobj, st, cached, nfam, fseg, fst, late, next, wpc, wseg, wfam, imutex, ev>>

\* DataFamily.Evict of an idle family (nothing in memory, old enough): Close + Segment.EvictFamily
FamEvict(f) ==
  /\ fst[f] = "live" /\ fmem[f] = {} /\ cached[fseg[f]] = f
  /\ fst' = [fst EXCEPT ![f] = "closed"] /\ cached' = [cached EXCEPT ![fseg[f]] = 0]
  /\ UNCHANGED <<segMap, nobj, st, nfam, fseg, fmem, stuck, flushed, late, next, wpc, wseg, wfam, imutex, ev, failed>>

\* ------------------------------------------------------------------ the TTL task
EvictBegin ==
  /\ imutex = "free" /\ ev = "idle"
  /\ imutex' = IF segMap # 0 THEN "evict" ELSE "free"
  /\ ev' = IF segMap # 0 THEN "check" ELSE "idle"
  /\ UNCHANGED <<segMap, nobj, st, cached, nfam, fseg, fst, fmem, stuck, flushed, late, next, wpc, wseg, wfam, failed>>

EvictCheck(go) ==
  /\ ev = "check"
  /\ go = (cached[segMap] = 0)
  /\ ev' = IF go THEN "closing" ELSE "idle"
  /\ imutex' = IF go THEN imutex ELSE "free"
  /\ UNCHANGED <<segMap, nobj, st, cached, nfam, fseg, fst, fmem, stuck, flushed, late, next, wpc, wseg, wfam, failed>>

\* Segment.Close: the family of the map is closed (its memory flushed), the store is closed; removal from the map
EvictClose ==
  /\ ev = "closing"
  /\ LET o == segMap  f == cached[segMap] IN
     /\ IF f # 0
          THEN /\ flushed' = IF stuck[f] THEN flushed ELSE flushed \cup fmem[f]
               /\ fmem' = IF stuck[f] THEN fmem ELSE [fmem EXCEPT ![f] = {}]
               /\ fst' = [fst EXCEPT ![f] = "closed"]
          ELSE UNCHANGED <<flushed, fmem, fst>>
     /\ cached' = [cached EXCEPT ![o] = 0]
     /\ st' = [st EXCEPT ![o] = "closed"]
  /\ segMap' = 0 /\ ev' = "idle" /\ imutex' = "free"
  /\ UNCHANGED <<nobj, nfam, fseg, stuck, late, next, wpc, wseg, wfam, failed>>

Next ==
  \/ \E w \in Writer : GetSeg(w) \/ Done(w)
  \/ \E w \in Writer, res \in {"ok", "closed"} : GetFam(w, res)
  \/ \E w \in Writer, res \in {"ok", "err"} : Write(w, res)
  \/ \E f \in Fam, ok \in BOOLEAN : Flush(f, ok)
  \/ \E f \in Fam : FamEvict(f)
  \/ EvictBegin \/ EvictClose
  \/ \E go \in BOOLEAN : EvictCheck(go)

Spec == Init /\ [][Next]_vars

\* ------------------------------------------------------------------ properties
TypeOK ==
  /\ segMap \in 0..nobj /\ nobj \in 0..MaxObj /\ nfam \in 0..MaxFam /\ next \in 1..(MaxRow + 1)
  /\ \A w \in Writer : wseg[w] \in 0..nobj /\ wfam[w] \in 0..nfam
  /\ \A o \in Obj : cached[o] \in 0..nfam
\* two stores over the directory of the segment are never open at once
OneOpenStore == Cardinality({o \in Obj : st[o] = "open"}) <= 1
\* the object of the map is open, and the family of a map is a live family of that object
MapIsOpen == /\ segMap # 0 => st[segMap] = "open"
             /\ \A o \in Obj : cached[o] # 0 => (fst[cached[o]] = "live" /\ fseg[cached[o]] = o)
\* a live family object sits on an open store (otherwise none of its flushes can ever commit)
NoOrphanFamily == \A f \in Fam : fst[f] = "live" => st[fseg[f]] = "open"
\* no row is accepted by a closed family object
NoLateWrite == late = {}
\* every accepted row is durable, or sits in the family object of the current segment's map, whose store is open:
\* the flush job of the node (which walks the family manager) can still make it durable
Accepted == 1..(next - 1)
AcceptedCanBeDurable ==
  \A r \in Accepted : r \in flushed \/ (\E f \in Fam : r \in fmem[f] /\ fst[f] = "live" /\ st[fseg[f]] = "open" /\ ~stuck[f])
\* no flush fails because of the life cycle
NoFailedFlush == ~failed
=============================================================================
