-------------------------- MODULE FlushCheckerTrace --------------------------
(* Trace validation of the real data flush checker of a real engine            *)
(* (`vdrive flushchk`): uninterrupted Database.Flush calls (one event: the      *)
(* composition of all steps of requester and worker) and the gated scenario in  *)
(* which the requester is parked right after its request went into the channel  *)
(* (gate hook `flushchecker.sent`) until the worker has finished the job; after *)
(* every step the projection: is the database marked (dbInFlushing), the        *)
(* in-flight counter, does the family hold unflushed data.                      *)
EXTENDS FlushChecker, Json, Sequences

Trace == ndJsonDeserialize("trace.ndjson")
VARIABLES l
tvars == <<vars, l>>
ASSUME TLCSet(1, 0)
Ev(e) == l <= Len(Trace) /\ Trace[l].ev = e /\ l' = l + 1
Line == Trace[l]
R == CHOOSE r \in Req : TRUE

TraceInit == l = 1 /\ Init
TReset == /\ Ev("Reset") /\ mark' = FALSE /\ queue' = 0 /\ running' = 0 /\ inflight' = 0
          /\ pc' = [r \in Req |-> "idle"] /\ dirty' = FALSE
TWrite == Ev("Write") /\ Write
\* one uninterrupted Database.Flush, waited for: Check ; Send ; Mark ; Take ; Finish -- or dropped at the check
TFlush ==
  /\ Ev("Flush")
  /\ Quiet
  /\ Line.dropped = mark
  /\ IF mark THEN UNCHANGED vars
     ELSE dirty' = FALSE /\ UNCHANGED <<mark, queue, running, inflight, pc>>
\* the steps one by one (gated)
\* the requester stands behind its send (the gate): Again ; Check (not dropped) ; Send as one step
TSend ==
  /\ Ev("Send")
  /\ pc[R] \in {"idle", "done", "dropped"} /\ ~mark
  /\ queue' = queue + 1
  /\ IF MarkBeforeSend
       THEN mark' = TRUE /\ inflight' = inflight + 1 /\ pc' = [pc EXCEPT ![R] = "done"]
       ELSE pc' = [pc EXCEPT ![R] = "sent"] /\ UNCHANGED <<mark, inflight>>
  /\ UNCHANGED <<running, dirty>>
TTake == Ev("Take") /\ Take
TFinish == Ev("Finish") /\ Finish
\* the requester goes on behind the gate: the store of the mark, unless it was stored with the check
TMark == Ev("Mark") /\ IF MarkBeforeSend THEN UNCHANGED vars ELSE Mark(R)
TProj ==
  /\ Ev("Proj")
  /\ Line.mark = mark /\ Line.inflight = inflight /\ Line.dirty = dirty
  /\ UNCHANGED vars

TraceNext == TReset \/ TWrite \/ TFlush \/ TSend \/ TTake \/ TFinish \/ TMark \/ TProj
TraceSpec == TraceInit /\ [][TraceNext]_tvars
HighWater == TLCSet(1, IF l > TLCGet(1) THEN l ELSE TLCGet(1))
TraceAccepted ==
  LET hw == TLCGet(1) IN
  IF hw = Len(Trace) + 1 THEN TRUE
  ELSE /\ PrintT(<<"TRACE-REJECTED-AT-LINE", hw>>)
       /\ FALSE
=============================================================================
