"""C04 -- rollup writes the right aggregate into the right coarse slot, once (module MetricData)."""
import json
import os

import vcore
from props import c03


def run(ctx, replay):
    if replay:
        ok, info = ctx.validate_trace("MetricDataTrace", "MetricDataTrace.cfg", replay, dfs=False)
        if not ok:
            ctx.violation("MetricData:replay", "replayed trace rejected: %s" % info, replay_src=replay)
        return
    thorough = ctx.tier == "thorough"
    # M: rollup of a compacted source = rollup of the original files; grouping-insensitive reference
    ctx.model_check("MCMetricData", "MCMetricData.cfg", timeout=900)
    ctx.model_check("MCMetricData", "MCMetricData_b.cfg", timeout=900)
    # several source families (days, hours) into ONE target family: the rollup outputs the target accumulates job by job
    # read as the reference rollup of all source files; the target's bookkeeping of what it already holds (reference =
    # source store / family id / file number) lets every offered file in exactly once -- a reference without the source
    # store, or no reference at all, must violate
    ctx.model_check("MCMetricData", "MCMetricData_ms.cfg", timeout=900)
    if thorough:
        ctx.model_check("MCMetricData", "MCMetricData_msb.cfg", timeout=900)
    ctx.model_check("MCMetricData", "MCMetricData_ms_dev_shortkey.cfg", expect="violation", timeout=900)
    ctx.model_check("MCMetricData", "MCMetricData_ms_dev_nokey.cfg", expect="violation", timeout=900)
    # T: real engine, 10s -> 5min (day -> month) and -> 1h (day -> year); rollup, again, after restart, and
    # restarted from the directory image after every manifest commit of the rollup job
    nr, ni = (300, 80) if thorough else (40, 10)
    tr = c03.run_mdata(ctx, ["--compact", 0, "--rollup", nr, "--images", ni], "rollup")
    if tr is None:
        return
    n_img = sum(1 for ln in vcore.read_lines(tr) if "image-after-commit" in ln)
    ctx.extra["rollup_checks_from_crash_images"] = n_img

    def wrong_slot(lines):
        for i, ln in enumerate(lines):
            if '"ev":"Rollup"' in ln:
                d = json.loads(ln)
                for b in d["targetblocks"]:
                    if b:
                        b[0][2] += 1
                        out = list(lines)
                        out[i] = json.dumps(d, separators=(",", ":")) + "\n"
                        return out
        return None

    def doubled(lines):
        for i, ln in enumerate(lines):
            if '"ev":"Rollup"' in ln and '"label":"again"' in ln:
                d = json.loads(ln)
                t = {str(k): v for k, v in json.loads(lines[[j for j in range(i) if '"ev":"Types"' in lines[j]][-1]])["types"].items()}
                for b in d["targetblocks"]:
                    for c in b:
                        if t.get(str(c[1])) == "sum":
                            c[3] *= 2
                            out = list(lines)
                            out[i] = json.dumps(d, separators=(",", ":")) + "\n"
                            return out
        return None
    # T: 2-3 source days of one month (each day its own source store, so source family ids and file numbers repeat from
    # day to day), same / different hours: all of them roll up into ONE family of the 1h target (and into one family per
    # day of the 5min target); day by day, all pending in one pass, file by file, seeded orders; again; after a restart;
    # restarted from the image after every manifest commit of the last day's rollup
    nm, nmi = (160, 40) if thorough else (24, 4)
    trm = c03.run_mdata(ctx, ["--compact", 0, "--rollup", 0, "--multiday", nm, "--multiday-images", nmi], "rollup-multiday")
    if trm is None:
        return
    ctx.extra["multiday_rollup_checks"] = sum(1 for ln in vcore.read_lines(trm) if '"ev":"RollupM"' in ln)
    ctx.extra["multiday_rollup_checks_from_crash_images"] = sum(1 for ln in vcore.read_lines(trm) if '"ev":"RollupM"' in ln and "image-after-commit" in ln)

    def day_missing(lines):
        # the last block of a 1h target family that has sources of several days disappears (and its place with it)
        for i, ln in enumerate(lines):
            if '"ev":"RollupM"' in ln and '"target":"1h"' in ln:
                d = json.loads(ln)
                for fam in d["families"]:
                    if len(set(s["day"] for s in fam["sources"])) < 2:
                        continue
                    idx = [k for k, w in enumerate(d["where"]) if w == fam["want"] and d["targetblocks"][k]]
                    if len(idx) < 2:
                        continue
                    del d["targetblocks"][idx[-1]]
                    del d["where"][idx[-1]]
                    out = list(lines)
                    out[i] = json.dumps(d, separators=(",", ":")) + "\n"
                    return out
        return None

    def other_family(lines):
        # a block of the 5min target is found in the family of another day
        for i, ln in enumerate(lines):
            if '"ev":"RollupM"' in ln and '"target":"5m"' in ln:
                d = json.loads(ln)
                wants = sorted(set(d["where"]))
                if len(wants) < 2:
                    continue
                for k, w in enumerate(d["where"]):
                    if d["targetblocks"][k]:
                        d["where"][k] = [x for x in wants if x != w][0]
                        out = list(lines)
                        out[i] = json.dumps(d, separators=(",", ":")) + "\n"
                        return out
        return None
    vcore.corrupt_selftest(ctx, "MetricDataTrace", "MetricDataTrace.cfg", trm, day_missing, "one rollup output of a month family fed by several days is missing")
    vcore.corrupt_selftest(ctx, "MetricDataTrace", "MetricDataTrace.cfg", trm, other_family, "a 5min block sits in another day's family")
    vcore.corrupt_selftest(ctx, "MetricDataTrace", "MetricDataTrace.cfg", tr, wrong_slot, "a target cell sits in the neighbouring coarse slot")
    vcore.corrupt_selftest(ctx, "MetricDataTrace", "MetricDataTrace.cfg", tr, doubled, "a sum cell counted twice after the rollup was triggered again")
    # observation only (never part of the verdict): CloseStore of a source store while its rollup job is between two
    # target stores -- both sides wait for each other (manager mutex held across family.close / GetStoreByName of the
    # job); the histories above therefore never close a source store while its job may run
    try:
        scr = os.path.join(ctx.scratch, "scr-closeprobe")
        os.makedirs(scr, exist_ok=True)
        summ, _, _ = ctx.run_vdrive(["mdata", "--closeprobe", "--out", os.path.join(ctx.scratch, "closeprobe.ndjson"), "--scratch", scr],
                                    timeout=120, allow_fail=True)
        if summ is not None:
            ctx.extra["observation_close_source_store_during_rollup"] = summ.get("extra", {}).get("closeprobe")
            ctx.log("probe: CloseStore(source store) vs its rollup job -> %s" % ctx.extra["observation_close_source_store_during_rollup"])
            probe = ctx.extra["observation_close_source_store_during_rollup"] or {}
            if probe.get("deadlock"):
                # (repaired in /repo: the manager's mutex is no longer held across store.close)
                ctx.violation("KVStore:probe:closestore-vs-rollup:deadlock",
                              "CloseStore(source store) while its rollup job runs: CloseStore holds the store manager's mutex and waits for the "
                              "job, the job needs the mutex to look its next target store up: both parked forever (%s)" % probe,
                              replay_src=os.path.join(ctx.scratch, "closeprobe.ndjson") if os.path.exists(os.path.join(ctx.scratch, "closeprobe.ndjson")) else None)
    except vcore.Unresolved:
        raise
    except Exception as e:  # noqa: BLE001 -- a probe that cannot be obtained is not a verdict
        ctx.log("probe (close vs rollup) not obtained: %s" % e)
    ctx.assumptions += [
        "source interval 10s (one family per hour), targets 5min (month calculator: family = day) and 1h (year calculator: family = month); the expected base slot (hour*12, (day-1)*24+hour) and the expected target segment/family are computed by the harness from the civil date, independent of lindb's calculators; TZ=UTC",
        "one source family per history (any hour of five dates incl. a leap day and month/year ends); values integral",
        "multi-day histories: 2-3 days of one of four months (leap February, December incl. the step into the next year), 1-2 hours per day, 1-2 files per source family; the expected target family and base slot of every source family come from the civil date; rollup passes are triggered with ForceRollup on every source store and awaited (no source store is closed while its job may run)",
        "kill = directory copied after each manifest append of the rollup job, reopened by a new engine",
    ]
