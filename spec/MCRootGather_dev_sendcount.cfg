CONSTANTS
  Leaves = {"l1", "l2", "l3"}
  CountAtSend = TRUE
SPECIFICATION MCSpec
INVARIANTS CompleteAfterAll
CHECK_DEADLOCK FALSE
