package main

// The broker's REAL write path for a parsed batch: replica.ChannelManager -> databaseChannel.Write (evict by the
// database's write window, shard x family grouping) -> shard channel -> family channel (chunk, snappy) -> write
// stream.  The storage side is a capturing WriteServiceClient: what it receives per (shard, family) is decoded
// as the storage does and reported in the same Route event as the transcribed loop of ingest.go.

import (
	"context"
	"encoding/json"
	"errors"
	"fmt"
	"io"
	"sort"
	"strconv"
	"sync"
	"time"

	"google.golang.org/grpc"
	"google.golang.org/grpc/metadata"

	"github.com/lindb/common/pkg/ltoml"
	"github.com/lindb/lindb/config"
	"github.com/lindb/lindb/constants"
	"github.com/lindb/lindb/coordinator/broker"
	"github.com/lindb/lindb/models"
	"github.com/lindb/lindb/pkg/compress"
	"github.com/lindb/lindb/pkg/option"
	"github.com/lindb/lindb/pkg/timeutil"
	protoCommonV1 "github.com/lindb/lindb/proto/gen/v1/common"
	protoReplicaV1 "github.com/lindb/lindb/proto/gen/v1/replica"
	protoWriteV1 "github.com/lindb/lindb/proto/gen/v1/write"
	"github.com/lindb/lindb/replica"
	"github.com/lindb/lindb/series/metric"

	"verif/harness/internal/trace"
)

type chanStateMgr struct {
	broker.StateManager
	fn func(models.Database, map[models.ShardID]models.ShardState, map[models.NodeID]models.StatefulNode)
}

func (f *chanStateMgr) WatchShardStateChangeEvent(fn func(models.Database, map[models.ShardID]models.ShardState, map[models.NodeID]models.StatefulNode)) {
	f.fn = fn
}

type chanKey struct {
	shard  int
	family int64
}

type chanCapture struct {
	mu   sync.Mutex
	sent map[chanKey][][]byte
	n    int
}

type capFct struct{ c *chanCapture }

func (capFct) LogicNode() models.Node { return &models.StatelessNode{HostIP: "127.0.0.1", GRPCPort: 1} }
func (capFct) CreateTaskClient(models.Node) (protoCommonV1.TaskService_HandleClient, error) {
	return nil, errors.New("no task client")
}
func (capFct) CreateReplicaServiceClient(models.Node) (protoReplicaV1.ReplicaServiceClient, error) {
	return nil, errors.New("no replica client")
}
func (f capFct) CreateWriteServiceClient(models.Node) (protoWriteV1.WriteServiceClient, error) {
	return &capWriteClient{c: f.c}, nil
}

type capWriteClient struct{ c *chanCapture }

func (w *capWriteClient) Write(ctx context.Context, _ ...grpc.CallOption) (protoWriteV1.WriteService_WriteClient, error) {
	md, _ := metadata.FromOutgoingContext(ctx)
	vals := md.Get(constants.RPCMetaKeyFamilyState)
	if len(vals) != 1 {
		return nil, errors.New("no family state in the stream metadata")
	}
	fs := models.FamilyState{}
	if err := json.Unmarshal([]byte(vals[0]), &fs); err != nil {
		return nil, err
	}
	return &capStream{c: w.c, key: chanKey{int(fs.Shard.ID), fs.FamilyTime}, ctx: ctx, done: make(chan struct{})}, nil
}

type capStream struct {
	grpc.ClientStream
	c    *chanCapture
	key  chanKey
	ctx  context.Context
	done chan struct{}
	once sync.Once
}

func (s *capStream) Send(r *protoWriteV1.WriteRequest) error {
	s.c.mu.Lock()
	s.c.sent[s.key] = append(s.c.sent[s.key], append([]byte{}, r.Record...))
	s.c.n++
	s.c.mu.Unlock()
	return nil
}
func (s *capStream) Recv() (*protoWriteV1.WriteResponse, error) {
	select {
	case <-s.done:
	case <-s.ctx.Done():
	}
	return nil, io.EOF
}
func (s *capStream) Context() context.Context { return s.ctx }
func (s *capStream) CloseSend() error { s.once.Do(func() { close(s.done) }); return nil }

var chanVariant int

var chanDurations = []struct {
	text string
	ms   int64
}{{"30m", 1800000}, {"1h", 3600000}, {"3h", 3 * 3600000}, {"1d", 86400000}, {"40d", 40 * 86400000}}

// chanRoute sends the batch through a real channel manager of a database configured like cfg and emits Route
func chanRoute(rec *trace.Recorder, cfg *ingestCfg, batch *metric.BrokerBatchRows, sum *trace.Summary) {
	bc := config.NewDefaultBrokerBase()
	bc.Write.BatchTimeout = ltoml.Duration(time.Millisecond)
	config.SetGlobalBrokerConfig(bc)
	ctx, cancel := context.WithCancel(context.Background())
	defer cancel()
	capt := &chanCapture{sent: map[chanKey][][]byte{}}
	sm := &chanStateMgr{}
	cm := replica.NewChannelManager(ctx, capFct{capt}, sm)
	if sm.fn == nil {
		sum.Unresolved = append(sum.Unresolved, "channel manager does not watch shard states")
		return
	}
	// the write interval is the SMALLEST interval of the option wherever it is listed: rollup intervals of other types
	// (month: 5m, year: 1h) are listed before or after it
	ivs := option.Intervals{{Interval: cfg.interval, Retention: cfg.interval * 100000}}
	chanVariant++
	if int64(cfg.interval) < 5*60*1000 {
		r5m := option.Interval{Interval: timeutil.Interval(5 * 60 * 1000), Retention: timeutil.Interval(5 * 60 * 1000 * 100000)}
		r1h := option.Interval{Interval: timeutil.Interval(3600 * 1000), Retention: timeutil.Interval(3600 * 1000 * 100000)}
		switch chanVariant % 4 {
		case 1:
			ivs = option.Intervals{r1h, r5m, ivs[0]}
		case 2:
			ivs = option.Intervals{r5m, ivs[0], r1h}
		case 3:
			ivs = option.Intervals{ivs[0], r5m, r1h}
		}
	}
	db := models.Database{Name: "db", NumOfShard: int(cfg.shards), ReplicaFactor: 1,
		Option: &option.DatabaseOption{Intervals: ivs, Behind: cfg.behindText, Ahead: cfg.aheadText}}
	shards := map[models.ShardID]models.ShardState{}
	for i := 0; i < int(cfg.shards); i++ {
		shards[models.ShardID(i)] = models.ShardState{ID: models.ShardID(i), State: models.OnlineShard, Leader: 1,
			Replica: models.Replica{Replicas: []models.NodeID{1}}}
	}
	sm.fn(db, shards, map[models.NodeID]models.StatefulNode{1: {ID: 1, StatelessNode: models.StatelessNode{HostIP: "1.1.1.1", GRPCPort: 2891}}})
	total := batch.Len()
	lo := time.Now().UnixMilli() - 2000
	if err := cm.Write(ctx, "db", batch); err != nil {
		rec.Emit("Error", trace.F{"op": "ChannelManager.Write", "err": err.Error()})
	}
	hi := time.Now().UnixMilli() + 100
	// the rows the database channel marked as evicted (the batch object is back in its pool but untouched until the
	// next request is parsed)
	marked := 0
	for _, r := range batch.Rows() {
		if r.Size() == 0 {
			marked++
		}
	}
	// every family channel flushes its chunk on its next one-second tick (batch timeout = 1 ms); wait until every
	// row that was not evicted has reached the storage side.  Rows still missing after 25 s are lost.
	arrivedRows := func() int {
		capt.mu.Lock()
		defer capt.mu.Unlock()
		n := 0
		rd := compress.NewSnappyReader()
		for _, recs := range capt.sent {
			for _, rec0 := range recs {
				if block, err := rd.Uncompress(rec0); err == nil {
					sb := metric.NewStorageBatchRows()
					sb.UnmarshalRows(append([]byte{}, block...))
					n += sb.Len()
				}
			}
		}
		return n
	}
	for deadline := time.Now().Add(25 * time.Second); time.Now().Before(deadline); {
		if arrivedRows() >= total-marked {
			break
		}
		time.Sleep(50 * time.Millisecond)
	}
	time.Sleep(100 * time.Millisecond) // a row sent twice would show up now
	capt.mu.Lock()
	keys := make([]chanKey, 0, len(capt.sent))
	for k := range capt.sent {
		keys = append(keys, k)
	}
	sort.Slice(keys, func(i, j int) bool {
		if keys[i].shard != keys[j].shard {
			return keys[i].shard < keys[j].shard
		}
		return keys[i].family < keys[j].family
	})
	groups := []any{}
	arrived := 0
	rd := compress.NewSnappyReader()
	for _, k := range keys {
		rids, khs, tss := []int{}, []string{}, [][]int64{}
		for _, rec0 := range capt.sent[k] {
			block, err := rd.Uncompress(rec0)
			if err != nil {
				sum.Unresolved = append(sum.Unresolved, "uncompress captured chunk: "+err.Error())
				continue
			}
			sb := metric.NewStorageBatchRows()
			sb.UnmarshalRows(append([]byte{}, block...))
			for _, sr := range sb.Rows() {
				rid := -1
				if sr.SimpleFieldsLen() > 0 {
					fi := sr.NewSimpleFieldIterator()
					fi.HasNext()
					rid = int(fi.NextValue())
				} else if ci, ok := sr.NewCompoundFieldIterator(); ok {
					rid = int(ci.Count())
				}
				rids = append(rids, rid)
				khs = append(khs, strconv.FormatUint(sr.TagsHash(), 10))
				tss = append(tss, tsPair(sr.Timestamp()))
			}
		}
		arrived += len(rids)
		groups = append(groups, trace.F{"shard": k.shard, "family": tsPair(k.family), "total": len(rids), "rids": rids, "khs": khs, "tss": tss})
	}
	capt.mu.Unlock()
	cm.Close()
	rec.Emit("Route", trace.F{"nowlo": tsPair(lo), "nowhi": tsPair(hi), "evicted": total - arrived, "groups": groups, "via": "channel-manager", "marked": marked})
	_ = fmt.Sprint()
}
