SPECIFICATION TraceSpec
INVARIANTS TablesAscending VersionSelectionComplete
CONSTRAINT HighWater
POSTCONDITION TraceAccepted
CHECK_DEADLOCK FALSE
