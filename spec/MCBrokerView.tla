---------------------------- MODULE MCBrokerView ----------------------------
(* Bounded instance of BrokerView: every order in which the three watchers'  *)
(* events are handled, for a few published storage states (the leader of an   *)
(* online shard is the smallest live node; one or two shards per database).   *)
EXTENDS BrokerView
CONSTANTS MaxPub, MaxDbEv, MaxNodeEv
VARIABLES npub, ndb, nnode
mcvars == <<vars, npub, ndb, nnode>>
Min(S) == CHOOSE x \in S : \A y \in S : x <= y
PubStates ==
  {[live |-> L,
    shards |-> [db \in D |-> [sid \in 0..(cnt[db] - 1) |->
                  IF L = {} THEN [state |-> "offline", leader |-> -1] ELSE [state |-> "online", leader |-> Min(L)]]]] :
     L \in SUBSET Node, D \in SUBSET Db, cnt \in [Db -> 1..MaxShards]}
MCInit == Init /\ npub = 0 /\ ndb = 0 /\ nnode = 0
MCNext ==
  \/ (\E db \in Db : PutDb(db) \/ DropDb(db)) /\ ndb < MaxDbEv /\ ndb' = ndb + 1 /\ UNCHANGED <<npub, nnode>>
  \/ (\E b \in Broker : BrokerUp(b) \/ BrokerDown(b)) /\ nnode < MaxNodeEv /\ nnode' = nnode + 1 /\ UNCHANGED <<npub, ndb>>
  \/ (\E s \in PubStates : Publish(s)) /\ npub < MaxPub /\ npub' = npub + 1 /\ UNCHANGED <<ndb, nnode>>
  \/ (ProcDb \/ ProcNode \/ \E done \in SUBSET Db : ProcState(done)) /\ UNCHANGED <<npub, ndb, nnode>>
MCSpec == MCInit /\ [][MCNext]_mcvars
=============================================================================
