package main

import (
	"context"
	"encoding/json"
	"errors"
	"flag"
	"fmt"
	"math/rand"
	"time"

	"github.com/lindb/lindb/constants"
	"github.com/lindb/lindb/coordinator/elect"
	"github.com/lindb/lindb/models"
	"github.com/lindb/lindb/pkg/state"

	"verif/harness/internal/trace"
)

func init() { register("election", electionMain) }

// electWorld is the repository all nodes share: one key with an owner, a queue of undelivered watch
// events per node.  Elect is gated: the elect loop of a node parks in it until the driver lets it run.
type electWorld struct {
	key     int // 0 = none
	val     []byte
	evq     [][]*state.Event
	arrived []chan struct{}
	permit  []chan struct{}
	done    []chan bool
	watch   []chan *state.Event
}

type electRepo struct {
	state.Repository
	w  *electWorld
	id int // 1-based
}

func (r *electRepo) broadcast(e *state.Event) {
	for i := range r.w.evq {
		r.w.evq[i] = append(r.w.evq[i], e)
	}
}

func (r *electRepo) Elect(ctx context.Context, _ string, value []byte, _ int64) (bool, <-chan state.Closed, error) {
	i := r.id - 1
	r.w.arrived[i] <- struct{}{}
	select {
	case <-r.w.permit[i]:
	case <-ctx.Done():
		return false, nil, ctx.Err()
	}
	ok := false
	if r.w.key == 0 {
		r.w.key, r.w.val, ok = r.id, append([]byte{}, value...), true
		r.broadcast(&state.Event{Type: state.EventTypeModify, KeyValues: []state.EventKeyValue{{Key: constants.MasterPath, Value: r.w.val}}})
	}
	r.w.done[i] <- ok
	return ok, nil, nil
}

func (r *electRepo) Watch(_ context.Context, _ string, _ bool) state.WatchEventChan {
	return r.w.watch[r.id-1]
}

// Delete runs on the handler goroutine of a node while the driver waits for that handler: no other access
func (r *electRepo) Delete(_ context.Context, _ string) error {
	if r.w.key != 0 {
		r.w.key = 0
		r.broadcast(&state.Event{Type: state.EventTypeDelete})
	}
	return nil
}

type electListener struct {
	role string
	fail bool
}

func (l *electListener) OnFailOver() error {
	if l.fail {
		l.fail = false
		return errors.New("fail over failed")
	}
	l.role = "active"
	return nil
}
func (l *electListener) OnResignation() { l.role = "none" }

func electionHistory(rec *trace.Recorder, rng *rand.Rand, nn, steps int, mayFail bool, h int, sum *trace.Summary) {
	w := &electWorld{evq: make([][]*state.Event, nn)}
	ctx, cancel := context.WithCancel(context.Background())
	defer cancel()
	els := make([]elect.Election, nn)
	ls := make([]*electListener, nn)
	for i := 0; i < nn; i++ {
		w.arrived = append(w.arrived, make(chan struct{}, 1))
		w.permit = append(w.permit, make(chan struct{}))
		w.done = append(w.done, make(chan bool, 1))
		w.watch = append(w.watch, make(chan *state.Event))
	}
	loop := make([]string, nn)
	wait := func(i int) bool {
		select {
		case <-w.arrived[i]:
			loop[i] = "trying"
			return true
		case <-time.After(5 * time.Second):
			sum.Unresolved = append(sum.Unresolved, fmt.Sprintf("node %d: elect loop did not reach repo.Elect", i+1))
			return false
		}
	}
	for i := 0; i < nn; i++ {
		ls[i] = &electListener{role: "none"}
		node := &models.StatelessNode{HostIP: fmt.Sprintf("1.1.1.%d", i+1), GRPCPort: 2891}
		els[i] = elect.NewElection(ctx, &electRepo{w: w, id: i + 1}, node, 10, ls[i])
		els[i].Initialize()
		els[i].Elect()
	}
	for i := 0; i < nn; i++ {
		if !wait(i) {
			return
		}
	}
	nodeOf := func(m *models.Master) int {
		if m == nil || m.Node == nil {
			return 0
		}
		var k int
		_, _ = fmt.Sscanf(m.Node.HostIP, "1.1.1.%d", &k)
		return k
	}
	proj := func() {
		im, ca, ro, lo, ql := []bool{}, []int{}, []string{}, []string{}, []int{}
		for i := 0; i < nn; i++ {
			im = append(im, els[i].IsMaster())
			ca = append(ca, nodeOf(els[i].GetMaster()))
			ro = append(ro, ls[i].role)
			lo = append(lo, loop[i])
			ql = append(ql, len(w.evq[i]))
		}
		rec.Emit("Proj", trace.F{"key": w.key, "ismaster": im, "cached": ca, "role": ro, "loop": lo, "qlen": ql})
	}
	// deliver the head event of node i and wait until its handler is done with it
	deliver := func(i int) {
		e := w.evq[i][0]
		w.evq[i] = w.evq[i][1:]
		w.watch[i] <- e
	}
	barrier := func(i int) { w.watch[i] <- &state.Event{Err: errors.New("barrier")} }
	rec.Reset(trace.F{"mode": "election", "h": h, "nodes": nn, "mayfail": mayFail})
	proj()
	script := []string{}
	for s := 0; s < steps; s++ {
		i := rng.Intn(nn)
		switch c := rng.Intn(100); {
		case c < 35 && loop[i] == "trying":
			w.permit[i] <- struct{}{}
			ok := <-w.done[i]
			loop[i] = "waiting"
			rec.Emit("Elect", trace.F{"node": i + 1, "ok": ok})
			script = append(script, fmt.Sprintf("elect:%d:%v", i+1, ok))
		case c < 45 && w.key != 0:
			rec.Emit("LeaseExpire", trace.F{})
			w.key = 0
			(&electRepo{w: w, id: 0}).broadcast(&state.Event{Type: state.EventTypeDelete})
			script = append(script, "expire")
		case len(w.evq[i]) > 0:
			e := w.evq[i][0]
			if e.Type == state.EventTypeDelete {
				if loop[i] != "waiting" {
					continue // the handler would block on the retry signal: let the loop finish its Elect first
				}
				rec.Emit("HandleDelete", trace.F{"node": i + 1})
				deliver(i)
				if !wait(i) { // reElect signals the loop, the loop calls Elect again
					return
				}
				barrier(i)
				script = append(script, fmt.Sprintf("del:%d", i+1))
			} else {
				m := models.Master{}
				_ = json.Unmarshal(e.KeyValues[0].Value, &m)
				self := nodeOf(&m) == i+1
				fail := self && mayFail && loop[i] == "waiting" && rng.Intn(4) == 0
				ls[i].fail = fail
				rec.Emit("HandleModify", trace.F{"node": i + 1, "m": nodeOf(&m), "failover": map[bool]string{true: "fail", false: "ok"}[fail]})
				deliver(i)
				if fail {
					if !wait(i) {
						return
					}
				}
				barrier(i)
				script = append(script, fmt.Sprintf("mod:%d:%d:%v", i+1, nodeOf(&m), fail))
			}
		default:
			continue
		}
		proj()
	}
	cancel()
	for i := 0; i < nn; i++ {
		close(w.watch[i])
	}
	if len(sum.Samples) < 3 {
		sum.Samples = append(sum.Samples, map[string]any{"script": script})
	}
}

func electionMain(args []string) int {
	fs := flag.NewFlagSet("election", flag.ExitOnError)
	out := fs.String("out", "election.ndjson", "trace output")
	seed := fs.Int64("seed", 1, "seed")
	nh := fs.Int("histories", 60, "histories")
	steps := fs.Int("steps", 80, "steps per history")
	_ = fs.Parse(args)
	rec, err := trace.New(*out)
	if err != nil {
		fmt.Println(err)
		return 2
	}
	rng := rand.New(rand.NewSource(*seed))
	sum := &trace.Summary{Module: "Election", Extra: map[string]any{}}
	for h := 0; h < *nh; h++ {
		electionHistory(rec, rand.New(rand.NewSource(rng.Int63())), 3, *steps, h%3 == 2, h, sum)
	}
	_ = rec.Close()
	sum.Traces, sum.Events = rec.Counts()
	sum.Distinct = sum.Traces
	sum.Print()
	return 0
}
