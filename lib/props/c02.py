"""C02 -- KV store: snapshot reads are stable, needed files stay alive under concurrency (module KVStore)."""
import json
import os

import vcore
from props import c01


def run(ctx, replay):
    if replay:
        ok, info = ctx.validate_trace("KVStoreTrace", "KVStoreTrace.cfg", replay, dfs=False)
        if not ok:
            ctx.violation("KVStore:replay", "replayed trace rejected: %s" % info, replay_src=replay)
        return
    thorough = ctx.tier == "thorough"
    # M: readers / flusher / compaction / two cleanups interleaved at critical-section granularity
    ctx.model_check("MCKVReaders", "MCKVReaders.cfg", timeout=3000, coverage=thorough)
    ctx.model_check("MCKVReaders", "MCKVReaders_dev_collect.cfg", expect="violation", timeout=600)
    ctx.model_check("MCKVReaders", "MCKVReaders_dev_unpend.cfg", expect="violation", timeout=600)
    # several committers on one family: commits are serialised read-modify-write steps of the current version; a base
    # version read before the version-set lock (BaseBeforeLock) loses a commit that returned success
    ctx.model_check("MCKVReaders", "MCKVReaders_committers_thorough.cfg" if thorough else "MCKVReaders_committers.cfg", timeout=3000)
    ctx.model_check("MCKVReaders", "MCKVReaders_dev_baseearly.cfg", expect="violation", timeout=600)
    # T: real family under the seeded gate scheduler (gates = the file-system seams)
    tr = os.path.join(ctx.scratch, "kvc.ndjson")
    scr = os.path.join(ctx.scratch, "scr-kvc")
    os.makedirs(scr, exist_ok=True)
    n = 600 if thorough else 60
    summ, rc, _ = ctx.run_vdrive(["kvc", "--seed", ctx.seed, "--histories", n, "--out", tr, "--scratch", scr], timeout=3000)
    for u in summ["unresolved"]:
        raise vcore.Unresolved("kvc driver: %s" % u)
    for s in summ["samples"][:3]:
        ctx.sample(s)
    ctx.extra["schedules"] = summ["extra"]["schedules"]
    ctx.extra["scheduled_steps"] = summ["extra"]["steps"]
    ctx.extra["overlapping_commit_scenarios"] = summ["extra"].get("overlapping", 0)
    vcore.validate_all(ctx, "KVStoreTrace", "KVStoreTrace.cfg", tr, describe=c01.describe, dfs=False)
    # sequential histories with reopen as well (snapshots across commits)
    c01.run_kv(ctx, ["--histories", 40 if thorough else 8, "--ops", 24, "--images", 0], "seq")
    # files a PENDING ROLLUP still needs: real engine, one source store with two rollup targets (5 min, 1 h), half of
    # the histories finish the first target while the second target store is not open yet (its marks stay pending
    # across compaction + cleanup of the source), then the second rollup runs: it must still find every source file
    # (judged by the rollup part of MetricDataTrace: the target holds the reference rollup of everything, once)
    from props import c03
    c03.run_mdata(ctx, ["--compact", 0, "--rollup", 60 if thorough else 10, "--images", 0], "pending-rollup")

    def stale_read(lines):
        for i, ln in enumerate(lines):
            if '"ev":"SnapRead"' in ln and '"content":[[' in ln:
                d = json.loads(ln)
                d["content"] = d["content"][1:]
                out = list(lines)
                out[i] = json.dumps(d, separators=(",", ":")) + "\n"
                return out
        return None

    def early_remove(lines):
        # move a TableRemove in front of the commit that makes the file obsolete
        for i, ln in enumerate(lines):
            if '"ev":"TableRemove"' in ln:
                for j in range(i - 1, -1, -1):
                    if '"ev":"ManifestAppend"' in lines[j] and '"dels":[[' in lines[j]:
                        out = list(lines)
                        x = out.pop(i)
                        out.insert(j, x)
                        return out
                    if '"ev":"Reset"' in lines[j]:
                        break
        return None
    vcore.corrupt_selftest(ctx, "KVStoreTrace", "KVStoreTrace.cfg", tr, stale_read, "a snapshot read lost one key")
    vcore.corrupt_selftest(ctx, "KVStoreTrace", "KVStoreTrace.cfg", tr, early_remove, "a table removed before the commit that obsoletes it")
    ctx.assumptions += [
        "schedules are explored at the granularity of the gates: file-system seams (table create, manifest append, directory listing, table removal) and the reader steps; a race strictly inside one such section is invisible",
        "reader cache TTL expiry is not driven by the harness (cache eviction on delete is exercised)",
    ]
