CONSTANTS
  Series = {a, b, c}
  MaxFlush = 2
  MaxCrash = 1
  LoopPrepare = FALSE
  PostingsFirst = TRUE
SPECIFICATION Spec
INVARIANTS Stable Injective
CHECK_DEADLOCK FALSE
