------------------------------ MODULE MCCodec ------------------------------
(* Leg M of C14.  A bit-level transcription of the pooled time-series block   *)
(* encoder / decoder (pkg/encoding/tsd.go + xor.go over pkg/bit writer/reader) *)
(* at word width W instead of 64 and byte width B instead of 8 runs in         *)
(* lockstep with the reference actions of Codec.tla: every output of the       *)
(* transcription is offered to the reference action; if the reference refuses  *)
(* it, `bad` is raised.  TLC enumerates every reuse history of ONE encoder     *)
(* object and ONE decoder object over MaxBlocks blocks (what a pool hands out  *)
(* again is exactly such an object), every block shape up to MaxSlots slots,   *)
(* every partial decode, and slot-addressed probes.  The elements of Dev       *)
(* switch off single clean-up steps of the Reset paths (or switch on the       *)
(* uint16 wrap of Next()): each must make NoDivergence fail -- that is the     *)
(* evidence that the property rests on these steps.                            *)
(* Besides: algebraic round-trip laws of the delta-bit-packing and the         *)
(* fixed-width offset formats over tiny universes (ASSUMEs, evaluated once).   *)
EXTENDS Codec

CONSTANTS W,          \* value width in bits (code: 64)
          B,          \* bits per byte of the bit writer/reader (code: 8)
          Vals,       \* values appended (subset of 0..2^W-1)
          Starts,     \* start slots
          MCMaxSlot,  \* stands for 65535
          MaxSlots,   \* slots per block
          MaxBlocks,  \* blocks per history
          MaxLoads,   \* decoder resets per history
          MaxProbes,  \* slot-addressed probes per load
          Dev         \* deviations switched on

VARIABLES ie,   \* the encoder object, as the code has it
          id,   \* the decoder object, as the code has it
          bad,  \* the reference refused an output of the transcription
          cnt   \* history bounds
mcvars == <<vars, ie, id, bad, cnt>>

RECURSIVE Pow2(_)
Pow2(n) == IF n = 0 THEN 1 ELSE 2 * Pow2(n - 1)
ToBits(v, n) == [i \in 1..n |-> (v \div Pow2(n - i)) % 2]
RECURSIVE FromBits(_)
FromBits(bs) == IF bs = <<>> THEN 0 ELSE 2 * FromBits(SubSeq(bs, 1, Len(bs) - 1)) + bs[Len(bs)]
Xor(a, b) == FromBits([i \in 1..W |-> (ToBits(a, W)[i] + ToBits(b, W)[i]) % 2])
OnesAt(d) == {i \in 1..W : ToBits(d, W)[i] = 1}
LZ(d) == (CHOOSE i \in OnesAt(d) : \A j \in OnesAt(d) : i <= j) - 1
TZ(d) == W - (CHOOSE i \in OnesAt(d) : \A j \in OnesAt(d) : i >= j)
RECURSIVE Log2Up(_)
Log2Up(n) == IF n <= 1 THEN 0 ELSE 1 + Log2Up((n + 1) \div 2)
LB == Log2Up(W)          \* bits of the "leading zeros" and "block size - 1" fields (code: 6)
Zeros(n) == [i \in 1..n |-> 0]

-----------------------------------------------------------------------------
(* bit.Writer over a bytes.Buffer: out = bits of complete bytes, pend = the byte in progress *)
Emit(e, bs) ==
  LET total == e.pend \o bs
      k == (Len(total) \div B) * B
  IN [e EXCEPT !.out = @ \o SubSeq(total, 1, k), !.pend = SubSeq(total, k + 1, Len(total))]
Flushed(e) == e.out \o (IF e.pend = <<>> THEN <<>> ELSE e.pend \o Zeros(B - Len(e.pend)))

(* XOREncoder.Write *)
XorWrite(e, v) ==
  IF e.first THEN Emit([e EXCEPT !.first = FALSE, !.prev = v], ToBits(v, W))
  ELSE LET delta == Xor(v, e.prev) IN
    IF delta = 0 THEN Emit([e EXCEPT !.prev = v], <<0>>)
    ELSE LET l == LZ(delta)  t == TZ(delta) IN
      IF l >= e.lead /\ t >= e.trail
      THEN Emit([e EXCEPT !.prev = v],
                <<1, 1>> \o ToBits(delta \div Pow2(e.trail), W - e.lead - e.trail))
      ELSE Emit([e EXCEPT !.prev = v, !.lead = l, !.trail = t],
                <<1, 0>> \o ToBits(l, LB) \o ToBits(W - l - t - 1, LB) \o ToBits(delta \div Pow2(t), W - l - t))

NewEncImpl == [out |-> <<>>, pend |-> <<>>, first |-> TRUE, prev |-> 0, lead |-> 0, trail |-> 0,
               start |-> 0, count |-> 0]
(* TSDEncoder.RestWithStartTime: startTime, count, err; Reset(): bitBuffer.Reset, bitWriter.Reset, values.Reset *)
EncResetImpl(e, start) ==
  [out   |-> IF "enc_keeps_buf" \in Dev THEN e.out ELSE <<>>,
   pend  |-> IF "enc_keeps_pend" \in Dev THEN e.pend ELSE <<>>,
   first |-> IF "enc_keeps_xor" \in Dev THEN e.first ELSE TRUE,
   prev  |-> IF "enc_keeps_xor" \in Dev THEN e.prev ELSE 0,
   lead  |-> 0, trail |-> 0,
   start |-> start,
   count |-> IF "enc_keeps_count" \in Dev THEN e.count ELSE 0]
AppendImpl(e, m, v) ==
  LET e1 == Emit([e EXCEPT !.count = @ + 1], <<m>>) IN IF m = 1 THEN XorWrite(e1, v) ELSE e1
\* Bytes(): <start, start+count-1 (uint16)> ++ flushed bits; equal bytes <=> equal record
WireOf(e) == [start |-> e.start, end |-> (e.start + e.count - 1) % (MCMaxSlot + 1), bits |-> Flushed(e)]

-----------------------------------------------------------------------------
(* bit.Reader over bufioutil.Buffer: p = bits consumed from the buffer, stale = bits of a byte *)
(* left in the reader by a previous use (Reader.Reset() drops them)                            *)
Rd1(d) ==
  IF d.stale # <<>> THEN [b |-> Head(d.stale), d |-> [d EXCEPT !.stale = Tail(@)]]
  ELSE IF d.p < Len(d.bits) THEN [b |-> d.bits[d.p + 1], d |-> [d EXCEPT !.p = @ + 1]]
  ELSE [b |-> 0, d |-> [d EXCEPT !.err = TRUE]]
RECURSIVE RdN(_, _, _)
RdN(d, n, acc) == IF n = 0 THEN [v |-> acc, d |-> d] ELSE LET x == Rd1(d) IN RdN(x.d, n - 1, 2 * acc + x.b)
\* what a reader that stopped inside a byte still holds
StaleOf(d) == IF d.stale # <<>> THEN d.stale
              ELSE SubSeq(d.bits, d.p + 1, MinOf(Len(d.bits), ((d.p + B - 1) \div B) * B))

(* XORDecoder.Next + Value *)
XorNext(d) ==
  IF d.first THEN LET x == RdN(d, W, 0) IN [x.d EXCEPT !.first = FALSE, !.val = x.v]
  ELSE LET c1 == Rd1(d) IN
    IF c1.b = 0 THEN c1.d
    ELSE LET c2 == Rd1(c1.d) IN
      IF c2.b = 0
      THEN LET xl == RdN(c2.d, LB, 0)
               xs == RdN(xl.d, LB, 0)
               size == xs.v + 1
               tr == W - xl.v - size
               xd == RdN(xs.d, size, 0)
           IN [xd.d EXCEPT !.lead = xl.v, !.trail = tr,
                           !.val = Xor(d.val, (xd.v * Pow2(IF tr < 0 THEN 0 ELSE tr)) % Pow2(W))]
      ELSE LET xd == RdN(c2.d, W - c2.d.lead - c2.d.trail, 0)
           IN [xd.d EXCEPT !.val = Xor(d.val, (xd.v * Pow2(c2.d.trail)) % Pow2(W))]

NewDecImpl == [bits |-> <<>>, p |-> 0, stale |-> <<>>, err |-> FALSE, first |-> TRUE, val |-> 0,
               lead |-> 0, trail |-> 0, start |-> 0, end |-> 0, idx |-> 0]
(* TSDDecoder.Reset(data): values.Reset, buf.SetBuf, idx, err, header, reader.Reset *)
DecResetImpl(d, w) ==
  [bits  |-> w.bits, p |-> 0,
   stale |-> IF "dec_keeps_bitpos" \in Dev THEN StaleOf(d) ELSE <<>>,
   err   |-> FALSE,
   first |-> IF "dec_keeps_first" \in Dev THEN d.first ELSE TRUE,
   val   |-> IF "dec_keeps_val" \in Dev THEN d.val ELSE 0,
   lead  |-> 0, trail |-> 0,
   start |-> w.start, end |-> w.end,
   idx   |-> IF "dec_keeps_idx" \in Dev THEN d.idx ELSE 0]
SlotSum(d) == IF "next_wraps" \in Dev THEN (d.start + d.idx) % (MCMaxSlot + 1) ELSE d.start + d.idx
NextImpl(d) == SlotSum(d) <= d.end                \* then idx++
\* one iteration of { Next(); HasValue(); Value() }
SeqImpl(d) ==
  IF ~NextImpl(d) THEN [d |-> d, marks |-> <<>>, vals |-> <<>>, ended |-> TRUE]
  ELSE LET h == Rd1([d EXCEPT !.idx = @ + 1]) IN
    IF h.b = 1 THEN LET d2 == XorNext(h.d) IN [d |-> d2, marks |-> <<1>>, vals |-> <<d2.val>>, ended |-> FALSE]
    ELSE [d |-> h.d, marks |-> <<0>>, vals |-> <<>>, ended |-> FALSE]
\* GetValue(slot) = HasValueWithSlot(slot) then Value()
ProbeImpl(d, slot) ==
  IF slot < d.start \/ slot > d.end \/ slot # SlotSum(d) THEN [d |-> d, oks |-> <<0>>, vals |-> <<>>]
  ELSE LET h == Rd1([d EXCEPT !.idx = @ + 1]) IN
    IF h.b = 1 THEN LET d2 == XorNext(h.d) IN [d |-> d2, oks |-> <<1>>, vals |-> <<d2.val>>]
    ELSE [d |-> h.d, oks |-> <<0>>, vals |-> <<>>]

-----------------------------------------------------------------------------
ENC == 1
DEC == 2
MCInit ==
  /\ obj = (ENC :> FreshEnc(0)) @@ (DEC :> FreshDec) /\ blk = <<>> /\ strm = <<>> /\ bat = <<>>
  /\ ie = NewEncImpl /\ id = NewDecImpl /\ bad = FALSE
  /\ cnt = [blocks |-> 0, loads |-> 0, probes |-> 0]

\* take the reference action with the transcription's outputs, or record that it refuses them
Judge(ok, A) == IF ok THEN A /\ UNCHANGED bad ELSE bad' = TRUE /\ UNCHANGED vars

MCEncReset(s) ==
  /\ cnt.blocks < MaxBlocks
  /\ ie' = EncResetImpl(ie, s)
  /\ Judge(EncResetOk(ENC, s), EncResetDo(ENC, s)) /\ UNCHANGED <<id, cnt>>
MCAppend(m, v) ==
  /\ ~obj[ENC].done /\ Len(obj[ENC].marks) < MaxSlots /\ cnt.blocks < MaxBlocks
  /\ obj[ENC].start + Len(obj[ENC].marks) <= MCMaxSlot
  /\ ie' = AppendImpl(ie, m, v)
  /\ LET vs == IF m = 1 THEN <<v>> ELSE <<>> IN Judge(EncAppendOk(ENC, <<m>>, vs), EncAppendDo(ENC, <<m>>, vs))
  /\ UNCHANGED <<id, cnt>>
MCBytes ==
  /\ ~obj[ENC].done /\ cnt.blocks < MaxBlocks
  /\ Judge(EncBytesOk(ENC, TRUE, WireOf(ie), ie.count = 0), EncBytesDo(ENC, TRUE, WireOf(ie), ie.count = 0))
  /\ cnt' = [cnt EXCEPT !.blocks = @ + 1] /\ UNCHANGED <<ie, id>>
\* The encoder and the decoder object share no variable: interleaving the steps of one with the steps
\* of the other adds no behaviour, so the decoder moves only between two blocks of the encoder.
MCLoad(w) ==
  /\ cnt.loads < MaxLoads /\ obj[ENC].done
  /\ LET nd == DecResetImpl(id, w) IN
       /\ id' = nd
       /\ LET lo == blk[w].start  hi == blk[w].start + Len(blk[w].marks) - 1
          IN Judge(DecLoadOk(DEC, w, lo, hi, nd.start, nd.end), DecLoadDo(DEC, w, lo, hi))
  /\ cnt' = [cnt EXCEPT !.loads = @ + 1, !.probes = 0] /\ UNCHANGED ie
MCSeq ==
  /\ obj[DEC].ld /\ obj[ENC].done
  /\ LET r == SeqImpl(id) IN
       /\ id' = r.d
       /\ Judge(DecSeqOk(DEC, 1, r.marks, r.vals, r.ended, r.d.err, r.d.start + r.d.idx - 1), DecSeqDo(DEC, 1))
  /\ UNCHANGED <<ie, cnt>>
MCProbe(slot) ==
  /\ obj[DEC].ld /\ obj[ENC].done /\ cnt.probes < MaxProbes
  /\ LET r == ProbeImpl(id, slot) IN
       /\ id' = r.d
       /\ Judge(DecProbeOk(DEC, <<slot>>, r.oks, r.vals), DecProbeDo(DEC, <<slot>>))
  /\ cnt' = [cnt EXCEPT !.probes = @ + 1] /\ UNCHANGED ie

\* probes: the next slot and its neighbours (behind / skipping ahead) and both ends of the slot axis
ProbeSlots == {s \in 0..MCMaxSlot : s \in {0, MCMaxSlot} \/ (s - (id.start + id.idx)) \in {-1, 0, 1}}
MCNext ==
  /\ ~bad
  /\ \/ \E s \in Starts : MCEncReset(s)
     \/ \E v \in Vals : MCAppend(1, v)
     \/ MCAppend(0, 0)
     \/ MCBytes
     \/ \E w \in DOMAIN blk : MCLoad(w)
     \/ MCSeq
     \/ \E slot \in ProbeSlots : MCProbe(slot)
MCSpec == MCInit /\ [][MCNext]_mcvars

\* the property: no history makes the (transcribed) code answer anything but the reference
NoDivergence == ~bad
\* algebraic law of the reference itself: walking a block's slots upwards reads the block
SlotReadsAgree == \A w \in DOMAIN blk : SlotWalkAgrees(blk[w], blk[w].start)
\* the sequential cursor never runs past the block
CursorInRange == obj[DEC].ld => obj[DEC].cur <= Len(blk[obj[DEC].b].marks)

\* the decoder's remaining state is a function of (block, cursor): nothing else survives a reset
View == <<obj, blk, ie, id, bad, cnt.blocks, cnt.loads, cnt.probes>>

-----------------------------------------------------------------------------
(* Delta bit packing (delta_bit_packing.go) in K-bit two's complement: first value, deltas   *)
(* previous - v, minimum delta, (delta - minimum) packed with the bit width of the largest.  *)
(* A new encoder starts with minDelta = 0, a Reset one with the largest integer: both occur. *)
CONSTANTS K, DbpLen
Mod == Pow2(K)
Wrap(x) == LET y == x % Mod IN IF y >= Mod \div 2 THEN y - Mod ELSE y     \* int32(..)
UWrap(x) == x % Mod                                                       \* uint32(..)
IntsK == (0 - Mod \div 2)..(Mod \div 2 - 1)
RECURSIVE BitLen(_)
BitLen(n) == IF n = 0 THEN 0 ELSE 1 + BitLen(n \div 2)
SeqMin(s, init) == IF s = <<>> THEN init
                   ELSE LET m == CHOOSE x \in {s[i] : i \in DOMAIN s} : \A i \in DOMAIN s : x <= s[i]
                        IN IF m < init THEN m ELSE init
SeqMax(s) == IF s = <<>> THEN 0 ELSE CHOOSE x \in {s[i] : i \in DOMAIN s} : \A i \in DOMAIN s : x >= s[i]
DbpEncode(s, minInit) ==
  LET deltas == [i \in 1..(Len(s) - 1) |-> Wrap(s[i] - s[i + 1])]
      minD == SeqMin(deltas, minInit)
      dd == [i \in 1..Len(deltas) |-> UWrap(deltas[i] - minD)]
      width == BitLen(SeqMax(dd))
  IN [n |-> Len(deltas), width |-> width, min |-> minD, first |-> s[1],
      packed |-> Flatten([i \in 1..Len(dd) |-> ToBits(dd[i], width)])]
RECURSIVE DbpRead(_, _, _, _)
DbpRead(w, i, prev, acc) ==
  IF i > w.n THEN acc
  ELSE LET x == FromBits(SubSeq(w.packed, (i - 1) * w.width + 1, i * w.width))
           v == Wrap(Wrap(x) + w.min)
           vv == Wrap(prev - v)
       IN DbpRead(w, i + 1, vv, Append(acc, vv))
DbpDecode(w) == DbpRead(w, 1, w.first, <<w.first>>)
RECURSIVE SeqsOfLen(_, _)
SeqsOfLen(S, n) == IF n = 0 THEN {<<>>} ELSE {Append(s, x) : s \in SeqsOfLen(S, n - 1), x \in S}
SeqsUpTo(S, n) == UNION {SeqsOfLen(S, k) : k \in 0..n}
ASSUME DbpLossless ==
  \A s \in SeqsUpTo(IntsK, DbpLen) \ {<<>>} : \A mi \in {0, Mod \div 2 - 1} :
    DbpDecode(DbpEncode(s, mi)) = s

(* Fixed-width offsets (fixed_offset.go) with 2-bit "bytes": width = least number of bytes of *)
(* the maximum (1..4), every offset stored little-endian in that many bytes.                  *)
FoW(v) == IF v < 4 THEN 1 ELSE IF v < 16 THEN 2 ELSE IF v < 64 THEN 3 ELSE 4
FoDigits(v, w) == [i \in 1..w |-> (v \div Pow2(2 * (i - 1))) % 4]
RECURSIVE FoNum(_)
FoNum(ds) == IF ds = <<>> THEN 0 ELSE ds[1] + 4 * FoNum(Tail(ds))
FoEncode(s) == LET w == FoW(SeqMax(s)) IN [w |-> w, n |-> Len(s), body |-> Flatten([i \in 1..Len(s) |-> FoDigits(s[i], w)])]
FoGet(t, i) == FoNum(SubSeq(t.body, i * t.w + 1, (i + 1) * t.w))       \* 0-based index
FoSample == {0, 3, 4, 15, 16, 63, 64, 255}
ASSUME FoLossless ==
  \A s \in SeqsUpTo(FoSample, 3) \ {<<>>} :
    LET t == FoEncode(s) IN t.n = Len(s) /\ \A i \in 0..(Len(s) - 1) : FoGet(t, i) = s[i + 1]
=============================================================================
