CONSTANTS
  Keys <- K3
  Vals = {1, 2}
  VLen <- VLen2
  NFiles = 3
  Dev = {"find_one_per_level"}
SPECIFICATION MCSpec
INVARIANTS BuilderAgrees SizeAgrees GetAgrees IterAgrees MergeAgrees FindAgrees RefSelectionComplete
CHECK_DEADLOCK FALSE
