--------------------------- MODULE MCMetricData ---------------------------
(* Algebra of the reference merge on a small universe: compacting in any     *)
(* grouping / repeatedly gives what compacting all inputs at once gives, and  *)
(* a rollup of a compacted source equals the rollup of the original files.    *)
EXTENDS MetricData
CONSTANTS Series, Slots, Vals
CONSTANT Types
TypesA == (1 :> "sum") @@ (2 :> "last")
TypesB == (1 :> "min") @@ (2 :> "max")
Cells == [s : Series, f : DOMAIN Types, slot : Slots, v : Vals]
SmallBlocks == {b \in SUBSET Cells : Cardinality(b) <= 2 /\ WellFormed(b)}
VARIABLE bs
Init == bs \in [1..3 -> SmallBlocks]
Next == UNCHANGED bs
Spec == Init /\ [][Next]_bs
S3 == <<bs[1], bs[2], bs[3]>>
\* compaction of {1,2} first, its output compacted with 3 later (level-0 with an overlapping level-1 file)
TwoStep == RefMerge(<<RefMerge(<<bs[1], bs[2]>>, Types), bs[3]>>, Types)
RepeatedCompactionOK == CompactionOK(S3, Types, TwoStep)
OneStepOK == CompactionOK(S3, Types, RefMerge(S3, Types))
\* rollup after compaction = rollup of the original files (ratio 2, base 5)
RollupAfterCompactOK ==
  LET direct == RefMerge(S3, Types) IN
  \A out \in {{[s |-> k[1], f |-> k[2], slot |-> k[3],
               v |-> IF Exact(Types, k[2]) THEN RollupAgg(Types, <<direct>>, k, 5, 2)
                     ELSE (CHOOSE c \in RollupSources(<<direct>>, k, 5, 2) : TRUE).v] : k \in RollupKeys(<<direct>>, 5, 2)}} :
     RollupOK(S3, Types, 5, 2, out)
=============================================================================
