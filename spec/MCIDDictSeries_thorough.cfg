CONSTANTS
  Series = {a, b, c, d}
  MaxFlush = 3
  MaxCrash = 2
  LoopPrepare = TRUE
  PostingsFirst = TRUE
SPECIFICATION Spec
INVARIANTS Stable Injective UsedDurable
CHECK_DEADLOCK FALSE
