------------------------ MODULE FamilyLifecycleTrace ------------------------
(* Trace validation of real tsdb data family objects of a real engine        *)
(* (`vdrive famlife`): every event is one action of FamilyLifecycle with the  *)
(* arguments and results the driver observed; `Proj` compares what GetState / *)
(* IsFlushing / the family manager / the kv version report for every object  *)
(* created so far, `Read` what a query through the real leaf path sees of     *)
(* every written row.                                                         *)
EXTENDS FamilyLifecycle, Json

Trace == ndJsonDeserialize("trace.ndjson")
VARIABLES l,
  dbStampNo   \* [Db -> Nat]: the number the driver gave to the creation time of the database
tvars == <<vars, l, dbStampNo>>
ASSUME TLCSet(1, 0)
Ev(e) == l <= Len(Trace) /\ Trace[l].ev = e /\ l' = l + 1
Line == Trace[l]

TraceInit == l = 1 /\ Init /\ old = FALSE /\ dbStampNo = [d \in Db |-> 0]

TReset ==
  /\ Ev("Reset")
  /\ cur' = 0 /\ mgr' = 0 /\ nobj' = 0 /\ ndb' = 0 /\ next' = 1 /\ old' = Line.old
  /\ mut' = [o \in Obj |-> 0] /\ imm' = [o \in Obj |-> 0]
  /\ dbRows' = [d \in Db |-> {}] /\ dbSt' = [d \in Db |-> "none"]
  /\ dbStamp' = [d \in Db |-> 0] /\ stRange' = [k \in Db |-> NoRange]
  /\ seq' = [o \in Obj |-> NoSeq] /\ persist' = [o \in Obj |-> NoSeq] /\ immSeq' = [o \in Obj |-> NoSeq]
  /\ cbs' = [o \in Obj |-> {}] /\ lastAck' = [o \in Obj |-> NoSeq] /\ ref' = [o \in Obj |-> 0]
  /\ fl' = [o \in Obj |-> "idle"] /\ toAck' = [o \in Obj |-> {}] /\ lock' = [o \in Obj |-> FALSE]
  /\ cl' = [o \in Obj |-> "none"] /\ ev' = [o \in Obj |-> "none"]
  /\ files' = << >> /\ dseq' = NoSeq
  /\ where' = [r \in Row |-> 0] /\ rowLeader' = [r \in Row |-> 0] /\ late' = {}
  /\ wh' = 0 /\ wo' = 0 /\ badEvict' = FALSE /\ ignored' = FALSE
  /\ dbStampNo' = [d \in Db |-> 0]

TLoad0 == Ev("Load") /\ Load /\ cur' = Line.obj
\* stamp: 0 = the mutable database existed; n = the new database has the n-th distinct creation time of the history
\* (observed: GetState reports the uptime of the database against the same clock).  With UniqueStamp the key of a new
\* database is its own whatever the clock said: two creations in one tick must not share anything (sametick: the
\* driver saw them less than 1 ms apart)
StampKey(n) == IF n = 0 \/ UniqueStamp THEN ndb + 1
               ELSE IF \E d \in 1..ndb : dbStampNo[d] = n /\ dbSt[d] = "live"
                      THEN dbStamp[CHOOSE d \in 1..ndb : dbStampNo[d] = n /\ dbSt[d] = "live"] ELSE ndb + 1
TWrite ==
  /\ Ev("Write") /\ next = Line.row
  /\ (Line.stamp = 0) = (mut[Line.obj] # 0)
  /\ Write(Line.obj, Line.leader, StampKey(Line.stamp))
  /\ dbStampNo' = IF Line.stamp = 0 THEN dbStampNo ELSE [dbStampNo EXCEPT ![ndb + 1] = Line.stamp]
TWriteGet == Ev("WriteGet") /\ WriteGet(Line.obj, ndb + 1) /\ UNCHANGED dbStampNo
TWritePut0 == Ev("WritePut") /\ next = Line.row /\ WritePut(Line.leader)
TWriteClosed0 == Ev("WriteClosed") /\ next = Line.row /\ WriteClosed(Line.obj, Line.leader, Line.res)
TCommit0 == Ev("Commit") /\ Commit(Line.obj, Line.leader, Line.seq)
TAckReg0 ==
  /\ Ev("AckReg")
  /\ Line.got = (IF persist[Line.obj][Line.leader] >= 0 THEN persist[Line.obj][Line.leader] ELSE -1)
  /\ AckReg(Line.obj, Line.leader)
TRetain0 == Ev("Retain") /\ Retain(Line.obj)
TRelease0 == Ev("Release") /\ Release(Line.obj)

TFlushFreeze0 == Ev("FlushFreeze") /\ FlushFreeze(Line.obj)
TFlushRetry0 == Ev("FlushRetry") /\ FlushRetry(Line.obj)
TFlushNothing0 == Ev("FlushNothing") /\ FlushNothing(Line.obj)
TFlushBusy0 == Ev("FlushBusy") /\ FlushBusy(Line.obj)
TFlushFail0 == Ev("FlushFail") /\ FlushFail(Line.obj)
TFlushCommit0 == Ev("FlushCommit") /\ FlushCommit(Line.obj)
TFlushAck0 == Ev("FlushAck") /\ FlushAck(Line.obj, Line.leader) /\ lastAck'[Line.obj][Line.leader] = Line.seq
TFlushRelease0 == Ev("FlushRelease") /\ FlushRelease(Line.obj)
TFlushDrop0 == Ev("FlushDrop") /\ FlushDrop(Line.obj)

TCloseBegin0 == Ev("CloseBegin") /\ CloseBegin(Line.obj)
TCloseWait0 == Ev("CloseWait") /\ CloseWait(Line.obj)
TCloseCommit0 == Ev("CloseCommit") /\ CloseCommit(Line.obj)
TCloseAck0 == Ev("CloseAck") /\ CloseAck(Line.obj, Line.leader) /\ lastAck'[Line.obj][Line.leader] = Line.seq
TCloseNext0 == Ev("CloseNext") /\ CloseNext(Line.obj)
TCloseEnd0 == Ev("CloseEnd") /\ CloseEnd(Line.obj)
\* the terminal state of Close against a running flush: nothing of the object can move any more
TStuck0 == Ev("Stuck") /\ Stuck(Line.obj) /\ UNCHANGED vars

\* the steps of Evict observed one by one (a gated run) ...
TEvictRef0 == Ev("EvictRef") /\ EvictRef(Line.obj, IF Line.go THEN "go" ELSE "ref")
TEvictMem0 ==
  /\ Ev("EvictMem")
  /\ LET o == Line.obj
         res == IF EvictChecksMem /\ (mut[o] # 0 \/ imm[o] # 0) THEN "mem" ELSE IF ~old THEN "young" ELSE "go" IN
     /\ Line.go = (res = "go")
     /\ EvictMem(o, res)
\* ... and one uninterrupted call of Evict: EvictRef ; EvictMem ; CloseBegin ; CloseWait ; CloseEnd (an object that
\* passes the checks has no memory database, Close has nothing to flush), result = the object left manager and segment
TEvict0 ==
  /\ Ev("Evict")
  /\ LET o == Line.obj
         go == ref[o] <= 0 /\ mut[o] = 0 /\ imm[o] = 0 /\ old IN
     /\ Open(o) /\ mgr = o /\ ev[o] = "none" /\ cl[o] = "none" /\ ~lock[o]
     /\ Line.closed = go
     /\ IF go
          THEN /\ fl[o] = "idle"
               /\ cl' = [cl EXCEPT ![o] = "closed"] /\ mgr' = 0 /\ cur' = 0
          ELSE UNCHANGED <<cl, mgr, cur>>
     /\ UNCHANGED <<nobj, ndb, next, old, mut, imm, dbRows, dbSt, dbStamp, stRange, seq, persist, immSeq, cbs, lastAck, ref,
                    fl, toAck, lock, ev, files, dseq, where, rowLeader, late, wh, wo, badEvict, ignored>>

\* what a query sees of every row written so far (value 1 per row in its own series and slot)
TRead0 ==
  /\ Ev("Read")
  /\ CanRead
  /\ Len(Line.vis) = next - 1
  /\ \A r \in 1..(next - 1) : Line.vis[r] = Vis(r)
  /\ UNCHANGED vars

SeqList(f) == [i \in 1..Cardinality(Leader) |-> f[i]]
DbCount(d) == IF d = 0 THEN -1 ELSE Cardinality(dbRows[d])
TProj0 ==
  /\ Ev("Proj")
  /\ Len(Line.objs) = nobj
  /\ Line.mgr = mgr
  /\ \A i \in 1..Cardinality(Leader) : Line.dseq[i] = dseq[i]
  /\ \A o \in 1..nobj :
       LET p == Line.objs[o] IN
       /\ p.flushing = (fl[o] # "idle")
       /\ IF p.locked THEN lock[o]
          ELSE /\ IF cl[o] = "closed" THEN TRUE ELSE p.mut = DbCount(mut[o]) /\ p.imm = DbCount(imm[o])
               /\ \A i \in 1..Cardinality(Leader) : p.seq[i] = seq[o][i] /\ p.persist[i] = persist[o][i]
  /\ UNCHANGED vars

TLoad == TLoad0 /\ UNCHANGED dbStampNo
TWritePut == TWritePut0 /\ UNCHANGED dbStampNo
TWriteClosed == TWriteClosed0 /\ UNCHANGED dbStampNo
TCommit == TCommit0 /\ UNCHANGED dbStampNo
TAckReg == TAckReg0 /\ UNCHANGED dbStampNo
TRetain == TRetain0 /\ UNCHANGED dbStampNo
TRelease == TRelease0 /\ UNCHANGED dbStampNo
TFlushFreeze == TFlushFreeze0 /\ UNCHANGED dbStampNo
TFlushRetry == TFlushRetry0 /\ UNCHANGED dbStampNo
TFlushNothing == TFlushNothing0 /\ UNCHANGED dbStampNo
TFlushBusy == TFlushBusy0 /\ UNCHANGED dbStampNo
TFlushFail == TFlushFail0 /\ UNCHANGED dbStampNo
TFlushCommit == TFlushCommit0 /\ UNCHANGED dbStampNo
TFlushAck == TFlushAck0 /\ UNCHANGED dbStampNo
TFlushRelease == TFlushRelease0 /\ UNCHANGED dbStampNo
TFlushDrop == TFlushDrop0 /\ UNCHANGED dbStampNo
TCloseBegin == TCloseBegin0 /\ UNCHANGED dbStampNo
TCloseWait == TCloseWait0 /\ UNCHANGED dbStampNo
TCloseCommit == TCloseCommit0 /\ UNCHANGED dbStampNo
TCloseAck == TCloseAck0 /\ UNCHANGED dbStampNo
TCloseNext == TCloseNext0 /\ UNCHANGED dbStampNo
TCloseEnd == TCloseEnd0 /\ UNCHANGED dbStampNo
TStuck == TStuck0 /\ UNCHANGED dbStampNo
TEvictRef == TEvictRef0 /\ UNCHANGED dbStampNo
TEvictMem == TEvictMem0 /\ UNCHANGED dbStampNo
TEvict == TEvict0 /\ UNCHANGED dbStampNo
TRead == TRead0 /\ UNCHANGED dbStampNo
TProj == TProj0 /\ UNCHANGED dbStampNo
TraceNext ==
  \/ TReset \/ TWrite \/ TWriteGet
  \/ TLoad \/ TWritePut \/ TWriteClosed \/ TCommit \/ TAckReg \/ TRetain \/ TRelease
  \/ TFlushFreeze \/ TFlushRetry \/ TFlushNothing \/ TFlushBusy \/ TFlushFail \/ TFlushCommit \/ TFlushAck
  \/ TFlushRelease \/ TFlushDrop \/ TCloseBegin \/ TCloseWait \/ TCloseCommit \/ TCloseAck \/ TCloseNext
  \/ TCloseEnd \/ TStuck \/ TEvictRef \/ TEvictMem \/ TEvict \/ TRead \/ TProj
TraceSpec == TraceInit /\ [][TraceNext]_tvars
HighWater == TLCSet(1, IF l > TLCGet(1) THEN l ELSE TLCGet(1))
TraceAccepted ==
  LET hw == TLCGet(1) IN
  IF hw = Len(Trace) + 1 THEN TRUE
  ELSE /\ PrintT(<<"TRACE-REJECTED-AT-LINE", hw>>)
       /\ FALSE
=============================================================================
