package main

import (
	"flag"
	"fmt"
	"math"
	"math/rand"
	"os"
	"path/filepath"
	"sort"

	"github.com/lindb/lindb/flow"
	"github.com/lindb/lindb/kv"
	"github.com/lindb/lindb/kv/version"
	"github.com/lindb/lindb/pkg/encoding"
	"github.com/lindb/lindb/pkg/timeutil"
	"github.com/lindb/lindb/series/field"
	"github.com/lindb/lindb/sql/stmt"
	"github.com/lindb/lindb/tsdb/tblstore/metricsdata"

	"verif/harness/internal/kvwrap"
	"verif/harness/internal/trace"
)

func init() { register("mdata", mdataMain) }

// a cell of a metric block: [series, field id, slot, value]
type mcell [4]int64

type mblock struct {
	metric uint32
	fields field.Metas // sorted by id
	start  uint16
	end    uint16
	// series -> field id -> slot -> value
	data map[uint32]map[field.ID]map[uint16]int64
}

var mdataFieldPool = field.Metas{
	{ID: 1, Type: field.SumField, Name: "f1"},
	{ID: 2, Type: field.MinField, Name: "f2"},
	{ID: 3, Type: field.MaxField, Name: "f3"},
	{ID: 4, Type: field.LastField, Name: "f4"},
	{ID: 5, Type: field.FirstField, Name: "f5"},
}

var mdataSeriesPool = []uint32{0, 1, 2, 7, 65534, 65535, 65536, 65537, 65540, 131071, 131072, 200000}

func mdataTypes() map[string]string {
	m := map[string]string{}
	for _, f := range mdataFieldPool {
		m[fmt.Sprint(f.ID)] = f.Type.String()
	}
	return m
}

func genBlock(rng *rand.Rand, metric uint32, maxSlot int) *mblock {
	b := &mblock{metric: metric, data: map[uint32]map[field.ID]map[uint16]int64{}}
	// a subset of the fields (a field may be present in some files only)
	for _, f := range mdataFieldPool {
		if rng.Intn(3) != 0 {
			b.fields = append(b.fields, f)
		}
	}
	if len(b.fields) == 0 {
		b.fields = append(b.fields, mdataFieldPool[rng.Intn(len(mdataFieldPool))])
	}
	s := rng.Intn(maxSlot)
	e := s + rng.Intn(maxSlot-s)
	b.start, b.end = uint16(s), uint16(e)
	nseries := 1 + rng.Intn(4)
	for len(b.data) < nseries {
		sid := mdataSeriesPool[rng.Intn(len(mdataSeriesPool))]
		if _, ok := b.data[sid]; ok {
			continue
		}
		fm := map[field.ID]map[uint16]int64{}
		for _, f := range b.fields {
			if rng.Intn(5) == 0 {
				continue // this series has no data for the field
			}
			sl := map[uint16]int64{}
			for x := s; x <= e; x++ {
				if rng.Intn(3) != 0 {
					sl[uint16(x)] = int64(1 + rng.Intn(50))
				}
			}
			if len(sl) > 0 {
				fm[f.ID] = sl
			}
		}
		if len(fm) == 0 {
			f := b.fields[0]
			fm[f.ID] = map[uint16]int64{uint16(s): int64(1 + rng.Intn(50))}
		}
		b.data[sid] = fm
	}
	return b
}

func (b *mblock) cells() []mcell {
	out := []mcell{}
	for sid, fm := range b.data {
		for fid, sl := range fm {
			for slot, v := range sl {
				out = append(out, mcell{int64(sid), int64(fid), int64(slot), v})
			}
		}
	}
	sortCells(out)
	return out
}

func sortCells(c []mcell) {
	sort.Slice(c, func(i, j int) bool {
		for k := 0; k < 4; k++ {
			if c[i][k] != c[j][k] {
				return c[i][k] < c[j][k]
			}
		}
		return false
	})
}

// flushBlock writes the block with the real metricsdata.Flusher (as a memory-database flush does)
func flushBlock(mf metricsdata.Flusher, b *mblock) error {
	mf.PrepareMetric(b.metric, b.fields)
	sids := make([]uint32, 0, len(b.data))
	for sid := range b.data {
		sids = append(sids, sid)
	}
	sort.Slice(sids, func(i, j int) bool { return sids[i] < sids[j] })
	for _, sid := range sids {
		for idx, f := range b.fields {
			sl := b.data[sid][f.ID]
			if len(sl) == 0 {
				if err := mf.FlushField(nil); err != nil {
					return err
				}
				continue
			}
			enc := mf.GetEncoder(idx)
			enc.RestWithStartTime(b.start)
			for x := b.start; ; x++ {
				if v, ok := sl[x]; ok {
					enc.AppendTime(true)
					enc.AppendValue(math.Float64bits(float64(v)))
				} else {
					enc.AppendTime(false)
				}
				if x == b.end {
					break
				}
			}
			data, err := enc.BytesWithoutTime()
			if err != nil {
				return err
			}
			if err := mf.FlushField(append([]byte{}, data...)); err != nil {
				return err
			}
		}
		if err := mf.FlushSeries(sid); err != nil {
			return err
		}
	}
	return mf.CommitMetric(timeutil.SlotRange{Start: b.start, End: b.end})
}

// readBlockCells reads every (series, field, slot) value of a metric block through the query
// read path (MetricReader.Load + DataLoader.Load).
func readBlockCells(block []byte) (cells []mcell, err error) {
	cells = []mcell{}
	defer func() {
		if r := recover(); r != nil {
			err = fmt.Errorf("panic reading block: %v", r)
		}
	}()
	r, err := metricsdata.NewReader("verif", block)
	if err != nil {
		return nil, err
	}
	metas := r.GetFields()
	bitmap := r.GetSeriesIDs()
	for idx, highKey := range bitmap.GetHighKeys() {
		container := bitmap.GetContainerAtIndex(idx)
		var minLow uint16
		ctx := &flow.DataLoadContext{
			SeriesIDHighKey:       highKey,
			LowSeriesIDsContainer: container,
			ShardExecuteCtx: &flow.ShardExecuteContext{
				StorageExecuteCtx: &flow.StorageExecuteContext{Fields: metas, Query: &stmt.Query{}},
			},
			Decoder: encoding.GetTSDDecoder(),
		}
		ctx.DownSampling = func(slotRange timeutil.SlotRange, seriesIdx uint16, fieldIdx int, getter encoding.TSDValueGetter) {
			seriesID := uint32(highKey)<<16 | uint32(minLow+seriesIdx)
			for s := slotRange.Start; ; s++ {
				if v, ok := getter.GetValue(s); ok {
					iv := int64(v)
					if float64(iv) != v {
						iv = -999999 // not an integral value: cannot be a value the harness wrote
					}
					cells = append(cells, mcell{int64(seriesID), int64(metas[fieldIdx].ID), int64(s), iv})
				}
				if s == slotRange.End {
					break
				}
			}
		}
		ctx.Grouping()
		minLow = ctx.MinSeriesID
		loader := r.Load(ctx)
		if loader == nil {
			continue
		}
		loader.Load(ctx)
	}
	sortCells(cells)
	return cells, nil
}

// familyBlocks reads, for every metric key, the blocks of the family in the order Load delivers them
func familyBlocks(f kv.Family, metrics []uint32) (map[uint32][][]mcell, error) {
	snap := f.GetSnapshot()
	defer snap.Close()
	out := map[uint32][][]mcell{}
	for _, m := range metrics {
		var ferr error
		err := snap.Load(m, func(value []byte) error {
			c, err := readBlockCells(append([]byte{}, value...))
			if err != nil {
				ferr = err
				return nil
			}
			out[m] = append(out[m], c)
			return nil
		})
		if err != nil {
			return nil, err
		}
		if ferr != nil {
			return nil, ferr
		}
	}
	return out, nil
}

func familyFiles(f kv.Family, levels int) [][]int64 {
	snap := f.GetSnapshot()
	defer snap.Close()
	files := [][]int64{}
	v := snap.GetCurrent()
	for l := 0; l < levels; l++ {
		for _, fm := range v.GetFiles(l) {
			files = append(files, []int64{int64(l), fm.GetFileNumber().Int64()})
		}
	}
	return files
}

var _ = version.Options

// compaction history on a real kv family with the real metric-data merger
func mdataCompactHistory(rec *trace.Recorder, dir string, rng *rand.Rand, h int, sum *trace.Summary) {
	mdataCompactHistoryGen(rec, dir, rng, h, sum, "compact", "20", []uint32{1, 2, 3}, nil,
		func(m uint32) *mblock { return genBlock(rng, m, 12) })
}

// ---- wide slot ranges (families of 1s / 1m type intervals: 3600 slots per hour family, 1440 per day family) ----

// a wide history draws its blocks from one slot universe and one small series set; the slot range of a block, and the
// union slot range of the blocks of one metric that one compaction merges, is usually wider than 360 slots (the merger's
// per-slot accumulator has a fixed-size fast path up to 360 slots and a pooled one above it); the data is sparse (a few
// populated slots per series and field: the "no value" slots matter) and every metric has several series and several
// fields of all field types, merged one after the other (a pooled accumulator must not leak from one to the next).
type mwide struct {
	universe int      // number of slots of the family
	profile  int      // 0 random ranges, 1 edge (union range 359..362 slots), 2 disjoint narrow ranges far apart, 3 full family
	series   []uint32 // series ids of this history
	edgeLen  int
	edgeAt   int
}

var mdataWideUniverses = []int{720, 1440, 3600, 4000}

func newWide(rng *rand.Rand, h int) *mwide {
	w := &mwide{profile: h % 4, universe: mdataWideUniverses[(h/4)%len(mdataWideUniverses)]}
	if h >= 16 {
		w.profile = rng.Intn(4)
		w.universe = mdataWideUniverses[rng.Intn(len(mdataWideUniverses))]
	}
	n := 2 + rng.Intn(3)
	perm := rng.Perm(len(mdataSeriesPool))
	for _, i := range perm[:n] {
		w.series = append(w.series, mdataSeriesPool[i])
	}
	w.edgeLen = 359 + (h/4+rng.Intn(2)*2)%4 // 359, 360, 361, 362
	w.edgeAt = rng.Intn(w.universe - w.edgeLen)
	return w
}

func (w *mwide) slotRange(rng *rand.Rand) (s, e int) {
	u := w.universe
	switch w.profile {
	case 1:
		// every block touches one end of a window of edgeLen slots: the union range of two blocks is the window
		s, e = w.edgeAt, w.edgeAt+w.edgeLen-1
		if rng.Intn(2) == 0 {
			e = s + rng.Intn(w.edgeLen)
		} else {
			s = e - rng.Intn(w.edgeLen)
		}
	case 2:
		// narrow blocks (each below 360 slots) anywhere in the family: only the union is wide
		n := 1 + rng.Intn(300)
		s = rng.Intn(u - n)
		if rng.Intn(3) == 0 {
			s = []int{0, u - n}[rng.Intn(2)]
		}
		e = s + n - 1
	case 3:
		s, e = rng.Intn(3), u-1-rng.Intn(3)
	default:
		n := 361 + rng.Intn(u-361)
		s = rng.Intn(u - n + 1)
		e = s + n - 1
	}
	return s, e
}

func (w *mwide) genBlock(rng *rand.Rand, metric uint32) *mblock {
	b := &mblock{metric: metric, data: map[uint32]map[field.ID]map[uint16]int64{}}
	for _, f := range mdataFieldPool {
		if rng.Intn(4) != 0 {
			b.fields = append(b.fields, f)
		}
	}
	if len(b.fields) < 2 {
		b.fields = append(field.Metas{}, mdataFieldPool[1:4]...)
	}
	s, e := w.slotRange(rng)
	b.start, b.end = uint16(s), uint16(e)
	for _, sid := range w.series {
		if rng.Intn(4) == 0 && len(b.data) > 0 {
			continue
		}
		fm := map[field.ID]map[uint16]int64{}
		for _, f := range b.fields {
			if rng.Intn(6) == 0 {
				continue // this series has no data for the field
			}
			sl := map[uint16]int64{}
			for k := 1 + rng.Intn(6); k > 0; k-- {
				x := s + rng.Intn(e-s+1)
				switch rng.Intn(6) {
				case 0:
					x = s
				case 1:
					x = e
				case 2:
					// the slots around the 360 boundary of the block / of the family
					x = s + 358 + rng.Intn(4)
					if x > e {
						x = e
					}
				}
				sl[uint16(x)] = int64(1 + rng.Intn(50))
			}
			fm[f.ID] = sl
		}
		if len(fm) == 0 {
			fm[b.fields[0].ID] = map[uint16]int64{uint16(e): int64(1 + rng.Intn(50))}
		}
		b.data[sid] = fm
	}
	return b
}

func mdataWideHistory(rec *trace.Recorder, dir string, rng *rand.Rand, h int, sum *trace.Summary) {
	w := newWide(rng, h)
	mdataCompactHistoryGen(rec, dir, rng, h, sum, "wide", "21", []uint32{1, 2},
		trace.F{"universe": w.universe, "profile": w.profile}, func(m uint32) *mblock { return w.genBlock(rng, m) })
}

func mdataCompactHistoryGen(rec *trace.Recorder, dir string, rng *rand.Rand, h int, sum *trace.Summary, mode, family string,
	metrics []uint32, extra trace.F, gen func(metric uint32) *mblock) {
	mdataCompactHistoryPlan(rec, dir, rng, h, sum, mode, family, metrics, extra, gen, nil)
}

// gap histories: the key ranges of the files matter.  A first compaction leaves a file one level up that holds the
// metrics in the MIDDLE of the key space; the next compaction merges level-0 files whose key ranges lie entirely below
// and entirely above it, so that its output -- one level up as well -- spans the untouched file without sharing a key
// with it; later rounds write everything again.  Every metric must read the same before and after each compaction.
func mdataGapHistory(rec *trace.Recorder, dir string, rng *rand.Rand, h int, sum *trace.Summary) {
	low := []uint32{1, 5 + uint32(rng.Intn(3))}
	mid := []uint32{100, 150, 200 + uint32(rng.Intn(5))}
	high := []uint32{1000, 1001 + uint32(rng.Intn(4))}
	all := append(append(append([]uint32{}, low...), mid...), high...)
	plan := [][][]uint32{
		{mid, mid},
		{low, high},
		{low, high, low},
		{all, mid},
	}
	if h%2 == 1 {
		plan = [][][]uint32{{mid, mid[:2]}, {high, low}, {all, all}, {low, high}}
	}
	mdataCompactHistoryPlan(rec, dir, rng, h, sum, "compact-gap", "20", all, trace.F{"gap": true},
		func(m uint32) *mblock { return genBlock(rng, m, 12) }, plan)
}

func mdataCompactHistoryPlan(rec *trace.Recorder, dir string, rng *rand.Rand, h int, sum *trace.Summary, mode, family string,
	metrics []uint32, extra trace.F, gen func(metric uint32) *mblock, plan [][][]uint32) {
	store, err := kv.GetStoreManager().CreateStore(dir, kv.DefaultStoreOption())
	if err != nil {
		sum.Unresolved = append(sum.Unresolved, err.Error())
		return
	}
	defer func() { _ = kv.GetStoreManager().CloseStore(dir) }()
	opt := kv.FamilyOption{Merger: string(metricsdata.MetricDataMerger)}
	small := rng.Intn(2) == 0 && plan == nil
	if small {
		opt.MaxFileSize = uint32(64 + rng.Intn(400)) // output split over several files
	}
	f, err := store.CreateFamily(family, opt)
	if err != nil {
		sum.Unresolved = append(sum.Unresolved, err.Error())
		return
	}
	reset := trace.F{"mode": mode, "h": h, "smallfiles": small, "types": mdataTypes()}
	for k, v := range extra {
		reset[k] = v
	}
	rec.Reset(reset)
	rounds := 1 + rng.Intn(3)
	if plan != nil {
		rounds = len(plan)
	}
	// a read of the whole family; with a plan (key ranges matter: the files a lookup visits come out of a map) the family
	// is read several times and the read with the fewest cells is the one that is judged
	read := func() (map[uint32][][]mcell, error) {
		best, err := familyBlocks(f, metrics)
		if err != nil || plan == nil {
			return best, err
		}
		count := func(x map[uint32][][]mcell) (n int) {
			for _, bl := range x {
				for _, b := range bl {
					n += len(b)
				}
			}
			return n
		}
		for i := 0; i < 7; i++ {
			again, err := familyBlocks(f, metrics)
			if err != nil {
				return nil, err
			}
			if count(again) < count(best) {
				best = again
			}
		}
		return best, nil
	}
	for r := 0; r < rounds; r++ {
		nfiles := 2 + rng.Intn(3)
		if plan != nil {
			nfiles = len(plan[r])
		}
		for i := 0; i < nfiles; i++ {
			kf := f.NewFlusher()
			mf, err := metricsdata.NewFlusher(kf)
			if err != nil {
				sum.Unresolved = append(sum.Unresolved, err.Error())
				return
			}
			written := []any{}
			fileMetrics := metrics
			if plan != nil {
				fileMetrics = plan[r][i]
			}
			for _, m := range fileMetrics {
				if plan == nil && rng.Intn(4) == 0 {
					continue
				}
				b := gen(m)
				if err := flushBlock(mf, b); err != nil {
					rec.Emit("Error", trace.F{"op": "flushBlock", "err": err.Error()})
					return
				}
				written = append(written, trace.F{"metric": m, "cells": b.cells()})
			}
			if err := mf.Close(); err != nil {
				rec.Emit("Error", trace.F{"op": "flush close", "err": err.Error()})
			}
			kf.Release()
			rec.Emit("Flush", trace.F{"blocks": written})
		}
		before, err := read()
		if err != nil {
			rec.Emit("Error", trace.F{"op": "read before", "err": err.Error()})
			return
		}
		bj := map[string]any{}
		for m, bl := range before {
			bj[fmt.Sprint(m)] = bl
		}
		rec.Emit("Before", trace.F{"blocks": bj, "files": familyFiles(f, 2)})
		f.Compact()
		kv.VerifWaitFamily(f)
		after, err := read()
		if err != nil {
			rec.Emit("Error", trace.F{"op": "read after", "err": err.Error()})
			return
		}
		aj := map[string]any{}
		for m, bl := range after {
			aj[fmt.Sprint(m)] = bl
		}
		rec.Emit("After", trace.F{"blocks": aj, "files": familyFiles(f, 2)})
		if len(sum.Samples) < 2 {
			sum.Samples = append(sum.Samples, map[string]any{"before": bj, "after": aj})
		}
	}
}

func mdataMain(args []string) int {
	fs := flag.NewFlagSet("mdata", flag.ExitOnError)
	out := fs.String("out", "mdata.ndjson", "trace output")
	seed := fs.Int64("seed", 1, "seed")
	nh := fs.Int("compact", 40, "compaction histories")
	ngap := fs.Int("gap", 0, "compaction histories whose output one level up spans an untouched file of that level (key ranges below and above it)")
	nw := fs.Int("wide", 0, "compaction histories with wide slot ranges (above 360 slots)")
	nr := fs.Int("rollup", 0, "rollup histories")
	nimg := fs.Int("images", 0, "rollup histories restarted from the image after every manifest commit of the rollup job")
	nmd := fs.Int("multiday", 0, "rollup histories with several source days rolling up into one target family")
	nmdimg := fs.Int("multiday-images", 0, "multi-day rollup histories restarted from the image after every manifest commit of the last rollup pass")
	closeProbe := fs.Bool("closeprobe", false, "observation only: CloseStore of a source store while its rollup job is between two target stores (the process is lost afterwards)")
	scratch := fs.String("scratch", "", "scratch directory")
	_ = fs.Parse(args)
	if *scratch == "" {
		d, _ := os.MkdirTemp("", "vdrive-mdata-")
		*scratch = d
		defer os.RemoveAll(d)
	}
	if *nimg > 0 || *nmdimg > 0 {
		kvwrap.Install()
	}
	rec, err := trace.New(*out)
	if err != nil {
		fmt.Println(err)
		return 2
	}
	rng := rand.New(rand.NewSource(*seed))
	sum := &trace.Summary{Module: "MetricData", Extra: map[string]any{}}
	if *closeProbe {
		sum.Extra["closeprobe"] = mdataCloseProbe(rec, filepath.Join(*scratch, "probe"))
		sum.Print()
		// the kv store manager's mutex may be held for good: no orderly shutdown
		os.Exit(0)
	}
	for h := 0; h < *nh; h++ {
		d := filepath.Join(*scratch, fmt.Sprintf("m%d", h))
		mdataCompactHistory(rec, d, rand.New(rand.NewSource(rng.Int63())), h, sum)
		_ = rec.Flush()
		os.RemoveAll(d)
	}
	gaprng := rand.New(rand.NewSource(*seed*31337 + 5))
	for h := 0; h < *ngap; h++ {
		d := filepath.Join(*scratch, fmt.Sprintf("g%d", h))
		mdataGapHistory(rec, d, rand.New(rand.NewSource(gaprng.Int63())), h, sum)
		_ = rec.Flush()
		os.RemoveAll(d)
	}
	for h := 0; h < *nw; h++ {
		d := filepath.Join(*scratch, fmt.Sprintf("w%d", h))
		mdataWideHistory(rec, d, rand.New(rand.NewSource(rng.Int63())), h, sum)
		_ = rec.Flush()
		os.RemoveAll(d)
	}
	for h := 0; h < *nr; h++ {
		d := filepath.Join(*scratch, fmt.Sprintf("r%d", h))
		mdataRollupHistory(rec, d, rand.New(rand.NewSource(rng.Int63())), h, sum, h < *nimg)
		_ = rec.Flush()
		if os.Getenv("VERIF_KEEP") == "" {
			os.RemoveAll(d)
		}
	}
	for h := 0; h < *nmd; h++ {
		d := filepath.Join(*scratch, fmt.Sprintf("d%d", h))
		mdataMultiDayHistory(rec, d, rand.New(rand.NewSource(rng.Int63())), h, sum, h < *nmdimg)
		_ = rec.Flush()
		if os.Getenv("VERIF_KEEP") == "" {
			os.RemoveAll(d)
		}
	}
	_ = rec.Close()
	sum.Traces, sum.Events = rec.Counts()
	sum.Distinct = sum.Traces
	sum.Print()
	return 0
}
