-------------------------- MODULE MetricDataTrace --------------------------
(* TLC as judge of recorded compactions (C03) and rollups (C04) of the real    *)
(* code: the harness flushes metric blocks with the real metricsdata.Flusher    *)
(* into a real kv family, reads every metric through Snapshot.Load +            *)
(* metricsdata.NewReader before and after Family.Compact() / ForceRollup(), and *)
(* logs the cell sets; the actions require after = the reference merge.         *)
EXTENDS MetricData, Json

Trace == ndJsonDeserialize("trace.ndjson")
VARIABLES l, types, before,
          flushed,  \* [metric -> Seq(block)]: every block handed to the real flusher in this history
          srcSeen   \* <<target key, value>> of every source cell the Rollup events of this history showed so far
vars == <<types, before, flushed, srcSeen>>
tvars == <<vars, l>>
ASSUME TLCSet(1, 0)
Ev(e) == l <= Len(Trace) /\ Trace[l].ev = e /\ l' = l + 1
Line == Trace[l]
EmptyF == [x \in {} |-> 0]

\* JSON: a block is a list of [series, field, slot, value]
BlockOf(cs) == {[s |-> cs[i][1], f |-> cs[i][2], slot |-> cs[i][3], v |-> cs[i][4]] : i \in 1..Len(cs)}
BlocksOf(list) == [i \in 1..Len(list) |-> BlockOf(list[i])]
\* JSON: {"1":"sum",...} -> [1 |-> "sum", ...]  (field ids 0..9)
TypesOf(j) == [f \in {x \in 0..9 : ToString(x) \in DOMAIN j} |-> j[ToString(f)]]

TraceInit == l = 1 /\ types = EmptyF /\ before = EmptyF /\ flushed = EmptyF /\ srcSeen = {}
TReset == Ev("Reset") /\ types' = TypesOf(Line.types) /\ before' = EmptyF /\ flushed' = EmptyF /\ srcSeen' = {}
\* a flush: one block per metric goes through the real metricsdata flusher into one file
MetricKey(b) == ToString(b.metric)
TFlush ==
  /\ Ev("Flush")
  /\ flushed' = [m \in (DOMAIN flushed) \cup {MetricKey(Line.blocks[i]) : i \in 1..Len(Line.blocks)} |->
                   (IF m \in DOMAIN flushed THEN flushed[m] ELSE << >>)
                   \o SelectSeq([i \in 1..Len(Line.blocks) |-> IF MetricKey(Line.blocks[i]) = m THEN BlockOf(Line.blocks[i].cells) ELSE {}],
                                LAMBDA b : b # {})]
  /\ UNCHANGED <<types, before, srcSeen>>
\* what a reader observes of a metric is the reference merge of everything that was flushed for it -- before a
\* compaction (the files as the flusher wrote them) and after it
\* The key sets are compared first, straight from the logged cell lists (linear in the number of cells).  This is a
\* consequence of CompactionOK (Keys(out) = AllKeys(blocks), and Keys(RefMerge(x)) = AllKeys(x)), not an extra
\* requirement: it keeps the judgement cheap when a compaction over a wide slot range (families of 1s / 1m intervals,
\* up to 4000 slots) makes cells appear or disappear -- the reference merge of an output with tens of thousands of
\* unexpected cells is never built.  Nothing here enumerates a slot range: only logged cells are looked at.
CellKeys(cs) == {<<cs[i][1], cs[i][2], cs[i][3]>> : i \in 1..Len(cs)}
ListKeys(list) == UNION {CellKeys(list[i]) : i \in 1..Len(list)}
ReadsAsFlushed(blocks) ==
  /\ DOMAIN blocks = DOMAIN flushed
  /\ \A m \in DOMAIN flushed : ListKeys(blocks[m]) = AllKeys(flushed[m])
  /\ \A m \in DOMAIN flushed : CompactionOK(flushed[m], types, RefMerge(BlocksOf(blocks[m]), types))
TBefore == Ev("Before") /\ ReadsAsFlushed(Line.blocks) /\ before' = Line.blocks /\ UNCHANGED <<types, flushed, srcSeen>>

\* after a compaction every metric reads as the reference merge of what it read before;
\* the output may be split over several blocks (files): the blocks read after are merged again (cell-wise)
\* before the comparison.  (No disjunction inside this action: TLC would branch on it for every pair of blocks.)
TAfter ==
  /\ Ev("After")
  /\ DOMAIN Line.blocks = DOMAIN before
  /\ \A m \in DOMAIN before : ListKeys(Line.blocks[m]) = ListKeys(before[m])
  /\ \A m \in DOMAIN before :
       LET ins == BlocksOf(before[m])
           outs == BlocksOf(Line.blocks[m])
       IN CompactionOK(ins, types, RefMerge(outs, types))
  /\ ReadsAsFlushed(Line.blocks)
  /\ UNCHANGED vars

\* rollup: target cells = rollup of the source blocks (exactly once)
TTypes == Ev("Types") /\ types' = TypesOf(Line.types) /\ UNCHANGED <<before, flushed, srcSeen>>
TRollup ==
  /\ Ev("Rollup")
  /\ LET src == BlocksOf(Line.source)
         tgt == BlocksOf(Line.targetblocks)
     IN /\ RollupOKHist(src, types, Line.base, Line.ratio, RefMerge(tgt, types), srcSeen) = TRUE
        \* all of it in the target family (segment / family) that contains the timestamps
        /\ \A i \in 1..Len(Line.where) : Line.where[i] = Line.wantfamily
        /\ srcSeen' = srcSeen \cup RollupPairs(src, Line.base, Line.ratio)
  /\ UNCHANGED <<types, before, flushed>>

\* rollup of several source families (days, hours) -- every target family of the target interval is judged: it holds
\* the reference rollup of ALL source families whose timestamps it contains (each with its own base slot), every source
\* file exactly once, whatever number of rollup jobs / passes / restarts brought them in; and nothing sits in a family
\* that is not expected.  families: [want (segment/family), sources: [base, blocks]]; targetblocks / where: every block
\* of the metric in the stores of the target interval and the family it was read from (file order).
SourcesOf(list) == [sx \in 1..Len(list) |-> [base |-> list[sx].base, blocks |-> BlocksOf(list[sx].blocks)]]
BlocksAt(list, where, want) ==
  LET ix == SelectSeq([i \in 1..Len(list) |-> i], LAMBDA i : where[i] = want)
  IN [j \in 1..Len(ix) |-> BlockOf(list[ix[j]])]
\* (a predicate of the logged line only, compared with TRUE in the action: TLC evaluates it as an expression instead of
\* unfolding the quantifiers as part of the next-state relation, which recurses once per cell pair)
RollupMOK(ln) ==
  /\ Len(ln.where) = Len(ln.targetblocks)
  /\ \A fx \in 1..Len(ln.families) :
       MultiRollupOK(SourcesOf(ln.families[fx].sources), types, ln.ratio,
                     RefMerge(BlocksAt(ln.targetblocks, ln.where, ln.families[fx].want), types))
  /\ \A wx \in 1..Len(ln.where) : \E fx \in 1..Len(ln.families) : ln.where[wx] = ln.families[fx].want
TRollupM == Ev("RollupM") /\ RollupMOK(Line) = TRUE /\ UNCHANGED vars

TNote == Ev("Note") /\ UNCHANGED vars

TraceNext == TReset \/ TTypes \/ TFlush \/ TBefore \/ TAfter \/ TRollup \/ TRollupM \/ TNote
TraceSpec == TraceInit /\ [][TraceNext]_tvars
HighWater == TLCSet(1, IF l > TLCGet(1) THEN l ELSE TLCGet(1))
TraceAccepted ==
  LET hw == TLCGet(1) IN
  IF hw = Len(Trace) + 1 THEN TRUE
  ELSE /\ PrintT(<<"TRACE-REJECTED-AT-LINE", hw>>)
       /\ FALSE
=============================================================================
