CONSTANTS
  Thread = {t1, t2}
  Name = {n1, n2}
  MaxCalls = 4
  RecheckMem = TRUE
  RecheckDisk = TRUE
  GuardCacheAdd = TRUE
SPECIFICATION Spec
INVARIANTS Stable Injective
CHECK_DEADLOCK FALSE
