CONSTANTS
  Node = {n1, n2}
  None = None
  K = 2
  ChCap = 2
  MaxRetry = 1
  RetryDup = FALSE
  StopDropsRetry = FALSE
  StickyNotify = FALSE
  StopChunkFirst = FALSE
  RetryOnTick = TRUE
  TimerPushUnguarded = FALSE
  CloseOnDrop = TRUE
  MaxRow = 6
  MaxFaults = 2
  MaxLeader = 2
  AllowStop = TRUE
  AllowCancel = TRUE
  AllowAbort = TRUE
  AllowTimer = TRUE
  FaultsOnlyBeforeStop = FALSE
SPECIFICATION MCSpec
SYMMETRY Sym
INVARIANTS TypeOK Conservation ChunksAreRuns FaultFreeOnce InOrder AtMostOnce StaleStreamSignalled NotifyMeansSignal StopDelivers TaskNeverStuck NoStreamLeak
CHECK_DEADLOCK FALSE
