CONSTANTS
  FixLostTail = FALSE
  MismatchResync = TRUE
  MaxMsgs = 4
  MaxFaults = 3
  TailLoss = TRUE
  AppendOnlyWhenAligned = TRUE
SPECIFICATION MCSpec
INVARIANTS PositionalEquality NoHoles AckImpliesAppended NoSilentSkip
PROPERTIES Resync AckOnlyAppended
CHECK_DEADLOCK FALSE
