---------------------------- MODULE MCPipeline ----------------------------
(* Bounded instance of Pipeline: every tree shape of MCTrees, every async    *)
(* flag and every outcome assignment, every interleaving.                     *)
EXTENDS Pipeline

Tree(ch) == [s \in DOMAIN ch |-> ch[s]]

\* tree shapes over up to 4 stages; "r" is the root
T1 == [r |-> << >>]
T2 == [r |-> <<"a">>, a |-> << >>]
T3 == [r |-> <<"a", "b">>, a |-> << >>, b |-> << >>]
T4 == [r |-> <<"a">>, a |-> <<"b">>, b |-> << >>]
T5 == [r |-> <<"a", "b">>, a |-> <<"c">>, b |-> << >>, c |-> << >>]
T6 == [r |-> <<"a">>, a |-> <<"b", "c">>, b |-> << >>, c |-> << >>]
T7 == [r |-> <<"a", "b", "c">>, a |-> << >>, b |-> << >>, c |-> << >>]
T8 == [r |-> <<"a">>, a |-> <<"b">>, b |-> <<"c">>, c |-> << >>]
MCTreesAll == {T1, T2, T3, T4, T5, T6, T7, T8}
MCTreesQuick == {T1, T2, T3, T4, T5}
MCTreesPair == {T2, T3}    \* one / two children finishing beside their parent
CONSTANT MCTrees

\* every stage has a plan of one node (named like the stage); plan TREES are the subject of MCPipelineTree
OnePlan(ch, oc) == [kids |-> [s \in DOMAIN ch |-> << >>],
                    out  |-> [s \in DOMAIN ch |-> IF oc[s] = "planpanic" THEN "ok" ELSE oc[s]],
                    root |-> [s \in DOMAIN ch |-> s]]

MCInit == \E ch \in MCTrees :
            \E as \in [DOMAIN ch -> BOOLEAN] :
              \E oc \in [DOMAIN ch -> {"ok", "err", "panic", "planpanic"}] :
                InitWith(ch, "r", as, [s \in DOMAIN ch |-> IF oc[s] = "planpanic" THEN "planpanic" ELSE "tree"],
                         OnePlan(ch, oc))

MCSpec == MCInit /\ [][Next]_vars /\ WF_vars(Next)
=============================================================================
