CONSTANTS
  PageSize = 1000
  AtomicPut = TRUE
  ClampConsumed = TRUE
  MetaByPage = TRUE
  Threads = {main}
  Groups = {g1, g2, g3}
  Lens = {1,7,40}
  MaxPut = 60
  MaxOps = 400
  MaxDown = 4
SPECIFICATION GSpec
CHECK_DEADLOCK FALSE
