-------------------------- MODULE ReplicationTrace --------------------------
(* Trace validation of the real remote replicator + real partitions + real   *)
(* fan-out queues (harness `vdrive repl`) against Replication.  The driver    *)
(* owns the clock: one event per step it takes, then the projection of both   *)
(* logs and all indexes read back through the public API.                     *)
EXTENDS Replication, Json

Trace == ndJsonDeserialize("trace.ndjson")
VARIABLE l
tvars == <<vars, l>>
ASSUME TLCSet(1, 0)
Ev(e) == l <= Len(Trace) /\ Trace[l].ev = e /\ l' = l + 1
Line == Trace[l]

TraceInit == l = 1 /\ Init
TReset == /\ Ev("Reset")
          /\ lLog' = Empty /\ lA' = -1 /\ lQ' = -1 /\ cons' = -1 /\ gack' = -1
          /\ fLog' = Empty /\ fA' = -1 /\ fQ' = -1 /\ st' = "init" /\ stream' = "none" /\ aligned' = TRUE

\* the history starts on a long-lived leader log: every leader position (and the group for the follower) is at s
TBase == /\ Ev("Base") /\ lA = -1 /\ fA = -1
         /\ lA' = Line.s /\ lQ' = Line.s /\ cons' = Line.s /\ gack' = Line.s
         /\ UNCHANGED <<lLog, fLog, fA, fQ, st, stream, aligned>>
TAppend == Ev("Append") /\ LeaderAppend(Line.id)
THandshake == Ev("Handshake") /\ HandshakeStep(Line.rpcfail)
TRound == Ev("Round") /\ Step(Line.fault)
TFollowerRestart == Ev("FollowerRestart") /\ FollowerRestart
TFollowerLoseLog == Ev("FollowerLoseLog") /\ FollowerLoseLog
TLeaderRestart == Ev("LeaderRestart") /\ LeaderRestart
TLeaderLoseTail == Ev("LeaderLoseTail") /\ LeaderLoseTail(Line.k)
TLeaderLoseGroup == Ev("LeaderLoseGroup") /\ LeaderLoseGroup(Line.k)
TLeaderGC == Ev("LeaderGC") /\ LeaderGC

LiveOK(live, log, q, a) ==
  /\ Len(live) = (IF a > q THEN a - q ELSE 0)
  /\ \A i \in 1..Len(live) : live[i] = (IF (q + i) \in DOMAIN log THEN log[q + i] ELSE -1)

TProj ==
  /\ Ev("Proj")
  /\ Line.lA = lA /\ Line.lQ = lQ /\ Line.cons = cons /\ Line.gack = gack
  /\ Line.fA = fA /\ Line.fQ = fQ /\ Line.st = st
  /\ LiveOK(Line.llive, lLog, lQ, lA)
  /\ LiveOK(Line.flive, fLog, fQ, fA)
  /\ UNCHANGED vars

TraceNext == TReset \/ TBase \/ TAppend \/ THandshake \/ TRound \/ TFollowerRestart \/ TFollowerLoseLog
             \/ TLeaderRestart \/ TLeaderLoseTail \/ TLeaderLoseGroup \/ TLeaderGC \/ TProj
TraceSpec == TraceInit /\ [][TraceNext]_tvars

IsTraceReset == l <= Len(Trace) /\ Trace[l].ev = "Reset"
TAckOnlyAppended == [][IsTraceReset \/ (gack' > gack => (gack' <= fA' \/ gack' <= lQ'))]_tvars

HighWater == TLCSet(1, IF l > TLCGet(1) THEN l ELSE TLCGet(1))
TraceAccepted ==
  LET hw == TLCGet(1) IN
  IF hw = Len(Trace) + 1 THEN TRUE
  ELSE /\ PrintT(<<"TRACE-REJECTED-AT-LINE", hw>>)
       /\ FALSE
=============================================================================
