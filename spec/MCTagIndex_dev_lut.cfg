CONSTANTS
  NK = 2
  Values <- V_a_ab
  ExtraLits <- L_none
  Metrics = {1}
  MaxSeries = 3
  CoreSize = "small"
  Ops = {"idx"}
  Canonical = FALSE
  UnanchoredRegex = FALSE
  ContainerSize = 1
  Deviation_RegexScansLiteralPrefixOnly = FALSE
  Deviation_FamilyReadAllOrNothing = FALSE
  Deviation_LikeLoneStarPanics = FALSE
  Deviation_ForwardLutNotCumulative = TRUE
  Deviation_NotIgnoresKey = FALSE
SPECIFICATION MCSpec
INVARIANTS TypeOK SidOK FilterIsEval GroupByIsRef JudgeIsSharp
CHECK_DEADLOCK FALSE
