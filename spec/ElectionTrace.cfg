CONSTANTS
  Node = {1, 2, 3}
  None = 0
  FailOverMayFail = TRUE
SPECIFICATION TraceSpec
INVARIANTS SettledHasMaster SettledAgreement RoleFollowsBelief DualMasterOnlyWhileDeletePending
CONSTRAINT HighWater
POSTCONDITION TraceAccepted
CHECK_DEADLOCK FALSE
