package main

import (
	"fmt"
	"os"
	"sync"
	"time"

	"github.com/lindb/common/pkg/logger"
	"go.uber.org/zap/zapcore"

	"github.com/lindb/lindb/index"
	"github.com/lindb/lindb/series/field"
)

func main() {
	logger.RunningAtomicLevel.SetLevel(zapcore.FatalLevel)
	bad := 0
	index.VerifGate = func(point string) {
		if point == "schemastore.flushed" {
			time.Sleep(300 * time.Microsecond)
		}
	}
	for it := 0; it < 3000; it++ {
		dir, _ := os.MkdirTemp("", "ss")
		db, err := index.NewMetricMetaDatabase("db", dir)
		if err != nil {
			panic(err)
		}
		mid, _ := db.GenMetricID([]byte("ns"), []byte("mem"))
		_, _ = db.GenTagKeyID(mid, []byte("host"))
		db.PrepareFlush()
		_ = db.Flush()
		var wg sync.WaitGroup
		ids := map[string]uint32{}
		var mu sync.Mutex
		for t := 0; t < 3; t++ {
			wg.Add(1)
			go func(t int) {
				defer wg.Done()
				for k := 0; k < 4; k++ {
					name := fmt.Sprintf("k%d_%d", t, k)
					id, err := db.GenTagKeyID(mid, []byte(name))
					if err == nil {
						mu.Lock()
						ids[name] = uint32(id)
						mu.Unlock()
					}
					_, _ = db.GenFieldID(mid, field.Meta{Name: field.Name("f" + name), Type: field.SumField})
				}
			}(t)
		}
		wg.Add(1)
		go func() {
			defer wg.Done()
			for k := 0; k < 4; k++ {
				db.PrepareFlush()
				_ = db.Flush()
			}
		}()
		wg.Wait()
		db.PrepareFlush()
		_ = db.Flush()
		db.PrepareFlush()
		_ = db.Flush()
		for name, id := range ids {
			sc, err := db.GetSchema(mid)
			got := int64(-1)
			if err == nil && sc != nil {
				if tm, ok := sc.TagKeys.Find(name); ok {
					got = int64(tm.ID)
				}
			}
			if err != nil || got != int64(id) {
				bad++
				if bad < 6 {
					fmt.Printf("iter %d: tag key %s had id %d, now %v err=%v\n", it, name, id, got, err)
				}
			}
		}
		_ = db.Close()
		os.RemoveAll(dir)
	}
	fmt.Println("lost/changed:", bad)
}
