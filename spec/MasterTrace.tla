----------------------------- MODULE MasterTrace -----------------------------
(* Trace validation of the real master StateManager (events fed one at a time  *)
(* through the verif hook, in-memory repository) against Master.               *)
EXTENDS Master, Json

Trace == ndJsonDeserialize("trace.ndjson")
VARIABLE l
tvars == <<vars, l>>
ASSUME TLCSet(1, 0)
Ev(e) == l <= Len(Trace) /\ Trace[l].ev = e /\ l' = l + 1
Line == Trace[l]

TraceInit == l = 1 /\ Init
TReset == /\ Ev("Reset")
          /\ repoLive' = {} /\ repoAssign' = Empty /\ pending' = << >>
          /\ dbs' = Empty /\ stateLive' = {} /\ sAssign' = Empty /\ sStates' = Empty

TNodeUp == Ev("NodeUp") /\ NodeUp(Line.node)
TNodeDown == Ev("NodeDown") /\ NodeDown(Line.node)
TPutDatabase == Ev("PutDatabase") /\ PutDatabase(Line.db, Line.shards, Line.rf)
TDropDatabase == Ev("DropDatabase") /\ DropDatabase(Line.db)
\* the start index and the replica shift are random in the code: some pair must explain the result
TProcess == /\ Ev("Process") /\ pending # << >> /\ Head(pending).t = Line.t
            /\ LET n == IF repoLive = {} THEN 1 ELSE Cardinality(repoLive) IN
               \E st \in 0..(n - 1), sh \in 0..(n - 1) :
                  ProcessF(st, sh, IF "fault" \in DOMAIN Line THEN Line.fault ELSE "none")

\* JSON: {"db": {"<shard>": [replicas]}} with shard ids as strings "0","1",..
ShardKey(sid) == ToString(sid)
AssignEq(j, a) ==
  /\ DOMAIN j = DOMAIN a
  /\ \A db \in DOMAIN a :
       /\ DOMAIN j[db] = {ShardKey(sid) : sid \in DOMAIN a[db]}
       /\ \A sid \in DOMAIN a[db] : j[db][ShardKey(sid)] = a[db][sid]
StatesEq(j, s) ==
  /\ DOMAIN j = DOMAIN s
  /\ \A db \in DOMAIN s :
       /\ DOMAIN j[db] = {ShardKey(sid) : sid \in DOMAIN s[db]}
       /\ \A sid \in DOMAIN s[db] : /\ j[db][ShardKey(sid)].state = s[db][sid].state
                                    /\ j[db][ShardKey(sid)].leader = s[db][sid].leader
SeqToSet(q) == {q[i] : i \in 1..Len(q)}

TState ==
  /\ Ev("State")
  /\ SeqToSet(Line.live) = stateLive
  /\ SeqToSet(Line.repolive) = repoLive
  /\ AssignEq(Line.repoassign, repoAssign)
  /\ AssignEq(Line.assign, sAssign)
  /\ StatesEq(Line.states, sStates)
  /\ Line.npending = Len(pending)
  /\ UNCHANGED vars

TraceNext == TReset \/ TNodeUp \/ TNodeDown \/ TPutDatabase \/ TDropDatabase \/ TProcess \/ TState
TraceSpec == TraceInit /\ [][TraceNext]_tvars

IsTraceReset == l <= Len(Trace) /\ Trace[l].ev = "Reset"
TGrowKeepsExisting ==
  [][IsTraceReset \/ \A db \in (DOMAIN repoAssign) \cap (DOMAIN repoAssign') :
       \A sid \in DOMAIN repoAssign[db] : sid \in DOMAIN repoAssign'[db] /\ repoAssign'[db][sid] = repoAssign[db][sid]]_tvars

HighWater == TLCSet(1, IF l > TLCGet(1) THEN l ELSE TLCGet(1))
TraceAccepted ==
  LET hw == TLCGet(1) IN
  IF hw = Len(Trace) + 1 THEN TRUE
  ELSE /\ PrintT(<<"TRACE-REJECTED-AT-LINE", hw>>)
       /\ FALSE
=============================================================================
