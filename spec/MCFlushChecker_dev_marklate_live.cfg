\* the code BEFORE the repair under the same fairness -- must violate FlushedEventually (the database stays marked, every request is dropped)
CONSTANTS
  Req = {r1, r2}
  MarkBeforeSend = FALSE
SPECIFICATION FairSpec
PROPERTIES FlushedEventually
CHECK_DEADLOCK FALSE
