"""C05 -- WAL queue: an appended message keeps its sequence and its bytes (module WALQueue)."""
import vcore
from props import walcommon


def run(ctx, replay):
    if replay:
        ok, info = ctx.validate_trace("WALQueueTrace", "WALQueueTrace.cfg", replay, dfs=False)
        if not ok:
            ctx.violation("WALQueue:replay", "replayed trace rejected: %s" % info, replay_src=replay)
        return
    thorough = ctx.tier == "thorough"
    # M: every interleaving of store-level steps, kill between any two stores, reopen
    ctx.model_check("MCWALQueue", "MCWALQueue.cfg" if thorough else "MCWALQueue_quick.cfg", coverage=thorough, timeout=1800)
    # sensitivity: Put as three separate critical sections (pre-repair) must violate Readable
    ctx.model_check("MCWALQueue", "MCWALQueue_devput.cfg", expect="violation", timeout=900)
    # T: real queue; every store observed; the image after every store recovered by the real code
    if thorough:
        tr = walcommon.run_wal(ctx, ["--histories", 60, "--ops", 60, "--images", 25, "--concurrent", 120], "a")
        walcommon.run_wal(ctx, ["--histories", 0, "--big", 8], "big")
        walcommon.run_wal(ctx, ["--histories", 0, "--boundary", 12], "boundary")
        walcommon.run_wal(ctx, ["--histories", 0, "--rollfail", 8], "rollfail")
        walcommon.run_wal(ctx, ["--histories", 0, "--drained", 12], "drained")
    else:
        tr = walcommon.run_wal(ctx, ["--histories", 12, "--ops", 50, "--images", 5, "--concurrent", 25], "a")
        walcommon.run_wal(ctx, ["--histories", 0, "--big", 1], "big")
        # reopen exactly on the last slot of an index page (262144 entries), reached through a forward index reset
        walcommon.run_wal(ctx, ["--histories", 0, "--boundary", 4], "boundary")
        # the roll-over to the next data page fails (page acquisition fault), later appends, roll-over, reopen
        walcommon.run_wal(ctx, ["--histories", 0, "--rollfail", 2], "rollfail")
        # a drained queue (everything acknowledged and synced) is closed, reopened and appended to (every third history
        # after a roll-over): the log continues behind its last message
        walcommon.run_wal(ctx, ["--histories", 0, "--drained", 3], "drained")
    # leg R: API-call histories chosen by TLC from the store-level model, executed against the real queue; `small`: one
    # byte per length unit, crash images after the stores of the part before the first close; `roll`: 32 MiB per unit,
    # the real 128 MiB data pages roll over exactly where the model's 4-unit pages do
    walcommon.run_generated(ctx, "WALQueueGen_small.cfg", 400 if thorough else 60, 300, 1, "small", maximages=8)
    walcommon.run_generated(ctx, "WALQueueGen_roll.cfg", 40 if thorough else 5, 200, 32 * 1024 * 1024, "roll", maximages=3, seed_shift=1)
    vcore.corrupt_selftest(ctx, "WALQueueTrace", "WALQueueTrace.cfg", tr, walcommon.mutate_store, "data store offset +1")
    vcore.corrupt_selftest(ctx, "WALQueueTrace", "WALQueueTrace.cfg", tr, walcommon.mutate_proj, "a message reads back other bytes")
    vcore.corrupt_selftest(ctx, "WALQueueTrace", "WALQueueTrace.cfg", tr, walcommon.drop_store, "meta appended store dropped")
    ctx.assumptions += [
        "process death = every completed store into a MAP_SHARED page survives, nothing else (no power loss, no torn store)",
        "creation of a meta page file and its first two stores are one step (crash points inside queue/group creation and inside an explicit index reset are outside the property)",
        "payload bytes are compared by 64-bit hash (xxhash) of the full message",
    ]
