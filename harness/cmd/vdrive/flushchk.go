package main

// flushchk: the data flush checker of a REAL engine (module FlushChecker, check XFLUSHCHK).
//
// One engine, one database per history.  Database.Flush hands a request to the checker's workers and returns at once;
// the driver waits until the checker is quiet again (hooks tsdb.VerifFlushIdle / VerifFlushInFlight) and records one
// event for the whole call, then the projection: is the database marked in dbInFlushing, the in-flight counter, does the
// family hold unflushed data.  The gated scenario parks the requester right after its request went into the channel
// (gate hook `flushchecker.sent`), waits until a worker has finished the job (the in-flight counter dropped), lets the
// requester go on, and asks for flushes again: a database that stayed marked is never flushed any more.

import (
	"flag"
	"fmt"
	"math/rand"
	"os"
	"path/filepath"
	"sync/atomic"
	"time"

	protoMetricsV1 "github.com/lindb/common/proto/gen/v1/linmetrics"

	"github.com/lindb/lindb/models"
	"github.com/lindb/lindb/pkg/option"
	"github.com/lindb/lindb/pkg/timeutil"
	"github.com/lindb/lindb/tsdb"

	"verif/harness/internal/trace"
)

func init() { register("flushchk", flushchkMain) }

type fcCtx struct {
	rec    *trace.Recorder
	sum    *trace.Summary
	db     tsdb.Database
	fam    tsdb.DataFamily
	base   int64
	next   int
	script []string
	counts map[string]int
	dead   bool
}

func (c *fcCtx) emit(ev string, f trace.F) {
	c.counts[ev]++
	c.rec.Emit(ev, f)
}

func (c *fcCtx) dirty() bool {
	for _, m := range c.fam.GetState().MemoryDatabases {
		if m.NumOfSeries > 0 {
			return true
		}
	}
	return false
}

func (c *fcCtx) proj() {
	c.emit("Proj", trace.F{"mark": !tsdb.VerifFlushIdle(c.db), "inflight": int(tsdb.VerifFlushInFlight(c.db)), "dirty": c.dirty()})
}

func (c *fcCtx) write() {
	c.next++
	m := &protoMetricsV1.Metric{Name: "cpu", Timestamp: c.base + int64(c.next%300)*10000 + 1,
		Tags:         []*protoMetricsV1.KeyValue{{Key: "host", Value: fmt.Sprintf("r%d", c.next)}},
		SimpleFields: []*protoMetricsV1.SimpleField{{Name: "s", Value: 1, Type: protoMetricsV1.SimpleFieldType_DELTA_SUM}}}
	if err := c.fam.WriteRows(storageRows(m)); err != nil {
		c.emit("Unexpected", trace.F{"what": "WriteRows: " + err.Error()})
		c.dead = true
		return
	}
	c.script = append(c.script, "write")
	c.emit("Write", trace.F{})
	c.proj()
}

// quiet: nothing of the database is queued or running (bounded wait)
func (c *fcCtx) quiet(seconds int) bool {
	deadline := time.Now().Add(time.Duration(seconds) * time.Second)
	for time.Now().Before(deadline) {
		if tsdb.VerifFlushIdle(c.db) && tsdb.VerifFlushInFlight(c.db) == 0 {
			return true
		}
		time.Sleep(200 * time.Microsecond)
	}
	return false
}

// flush: one uninterrupted Database.Flush, waited for
func (c *fcCtx) flush() {
	wasMarked := !tsdb.VerifFlushIdle(c.db)
	wasDirty := c.dirty()
	if err := c.db.Flush(); err != nil {
		c.emit("Unexpected", trace.F{"what": "Database.Flush: " + err.Error()})
		c.dead = true
		return
	}
	dropped := false
	if !c.quiet(5) {
		// the checker never becomes quiet: the database is marked although nothing runs -- the request was dropped
		dropped = wasMarked
		if !dropped {
			c.sum.Unresolved = append(c.sum.Unresolved, "the flush checker did not become quiet after Database.Flush")
			c.dead = true
			return
		}
	}
	if dropped && wasDirty && !c.dirty() {
		c.emit("Unexpected", trace.F{"what": "a dropped request flushed the database"})
	}
	c.script = append(c.script, fmt.Sprintf("flush(dropped=%v)", dropped))
	c.emit("Flush", trace.F{"dropped": dropped})
	c.proj()
}

// sendWindow: the requester parked behind its send until the worker has finished the job
func (c *fcCtx) sendWindow() {
	if !tsdb.VerifFlushIdle(c.db) {
		// marked: the request would be dropped at the check, before the gate
		c.flush()
		return
	}
	arrived, goOn := make(chan struct{}), make(chan struct{})
	var gR int64
	tsdb.VerifGate = func(point string) {
		if point == "flushchecker.sent" && flGid() == atomic.LoadInt64(&gR) {
			close(arrived)
			<-goOn
		}
	}
	defer func() { tsdb.VerifGate = nil }()
	done := make(chan struct{})
	flGo(&gR, func() { _ = c.db.Flush(); close(done) })
	select {
	case <-arrived:
	case <-done:
		c.sum.Unresolved = append(c.sum.Unresolved, "send-window: Database.Flush returned without passing the gate flushchecker.sent")
		c.dead = true
		return
	case <-time.After(30 * time.Second):
		c.sum.Unresolved = append(c.sum.Unresolved, "send-window: the requester did not reach the gate")
		c.dead = true
		close(goOn)
		return
	}
	at := tsdb.VerifFlushInFlight(c.db)
	c.emit("Send", trace.F{})
	// a worker takes the request and finishes it: the counter drops by one
	deadline := time.Now().Add(30 * time.Second)
	for tsdb.VerifFlushInFlight(c.db) >= at && time.Now().Before(deadline) {
		time.Sleep(200 * time.Microsecond)
	}
	if tsdb.VerifFlushInFlight(c.db) >= at {
		c.sum.Unresolved = append(c.sum.Unresolved, "send-window: no worker finished the job while the requester was parked")
		c.dead = true
		close(goOn)
		<-done
		return
	}
	c.emit("Take", trace.F{})
	c.emit("Finish", trace.F{})
	c.counts["job-finished-behind-the-send"]++
	close(goOn)
	<-done
	c.emit("Mark", trace.F{})
	c.script = append(c.script, "send-window")
	c.proj()
}

func flushchkMain(args []string) int {
	fs := flag.NewFlagSet("flushchk", flag.ExitOnError)
	out := fs.String("out", "flushchk.ndjson", "trace output")
	seed := fs.Int64("seed", 1, "seed")
	nh := fs.Int("histories", 20, "random histories")
	steps := fs.Int("steps", 12, "steps per random history")
	_ = fs.Parse(args)
	time.Local = time.UTC
	rec, err := trace.New(*out)
	if err != nil {
		fmt.Println(err)
		return 2
	}
	dir, err := os.MkdirTemp("", "flushchk")
	if err != nil {
		fmt.Println(err)
		return 2
	}
	defer os.RemoveAll(dir)
	engine, err := openEngineAt(filepath.Join(dir, "data"))
	if err != nil {
		fmt.Println(err)
		return 2
	}
	rng := rand.New(rand.NewSource(*seed))
	sum := &trace.Summary{Module: "FlushChecker", Extra: map[string]any{}}
	counts := map[string]int{}
	base := time.Date(2022, 3, 1, 11, 0, 0, 0, time.UTC).UnixMilli()
	n := 0
	newCtx := func(scenario string) *fcCtx {
		name := fmt.Sprintf("fc%d", n)
		n++
		opt := &option.DatabaseOption{Intervals: option.Intervals{{Interval: timeutil.Interval(10 * 1000),
			Retention: timeutil.Interval(36500 * 24 * 3600 * 1000)}}, AutoCreateNS: true}
		if err := engine.CreateShards(name, opt, models.ShardID(0)); err != nil {
			sum.Unresolved = append(sum.Unresolved, "create shards: "+err.Error())
			return nil
		}
		db, _ := engine.GetDatabase(name)
		sh, _ := db.GetShard(models.ShardID(0))
		fam, err := sh.GetOrCrateDataFamily(base)
		if err != nil {
			sum.Unresolved = append(sum.Unresolved, "family: "+err.Error())
			return nil
		}
		rec.Reset(trace.F{"mode": "flushchk", "h": name, "scenario": scenario})
		c := &fcCtx{rec: rec, sum: sum, db: db, fam: fam, base: base, counts: counts}
		c.proj()
		return c
	}
	finish := func(c *fcCtx, scenario string) {
		if len(sum.Samples) < 4 {
			sum.Samples = append(sum.Samples, map[string]any{"history": c.db.Name(), "scenario": scenario, "script": c.script})
		}
	}
	// scripted: the window on an idle database, then data and two flush requests; the window on a database with data
	for _, withData := range []bool{false, true} {
		c := newCtx("send-window")
		if c == nil {
			break
		}
		if withData {
			c.write()
		}
		c.sendWindow()
		if !c.dead {
			c.write()
			c.flush()
			c.write()
			c.flush()
		}
		finish(c, "send-window")
	}
	for i := 0; i < *nh; i++ {
		c := newCtx("")
		if c == nil {
			break
		}
		for k := 0; k < *steps && !c.dead; k++ {
			switch r := rng.Intn(10); {
			case r < 4:
				c.write()
			case r < 8:
				c.flush()
			default:
				c.sendWindow()
			}
		}
		finish(c, "")
	}
	_ = rec.Close()
	sum.Traces, sum.Events = rec.Counts()
	sum.Distinct = sum.Traces
	sum.Extra["events_by_kind"] = counts
	sum.Print()
	return 0
}
