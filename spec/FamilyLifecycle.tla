--------------------------- MODULE FamilyLifecycle ---------------------------
(***************************************************************************)
(* Life cycle of one tsdb data family (tsdb/data_family.go, segment.go):    *)
(* an extension beyond the listed properties (DESIGN.md section 0.8).       *)
(*                                                                         *)
(* One kv family (durable: the flushed files and the sequence table of the *)
(* kv version) and the family OBJECTS the segment creates for it over time  *)
(* (`GetOrCreateDataFamily`; an evicted object is closed and dropped from   *)
(* the segment, the next access creates a new object over the same kv       *)
(* family; somebody may still hold the old object).  Every object owns a   *)
(* mutable and an immutable memory database, the replica sequences          *)
(* (`seq`), the persisted sequences (`persistSeq`), acknowledgement         *)
(* callbacks per leader and a write reference count.                        *)
(*                                                                         *)
(* One action per critical section / linearisation point of the code:      *)
(*   WriteRows        = WriteGet (acquireMemoryDatabase: the database and   *)
(*                      the writer registration, family mutex)             *)
(*                      ; WritePut (WriteRow + CompleteWrite, no family lock)*)
(*   Flush            = FlushFreeze | FlushNothing | FlushBusy (isFlushing  *)
(*                      guard + first mutex section), FlushCommit (table    *)
(*                      written, kv commit: file visible), FlushAck per     *)
(*                      leader callback, FlushRelease (memdb.Close),        *)
(*                      FlushDrop (second mutex section), FlushFail         *)
(*   Evict            = EvictRef (ref check, no lock), EvictMem (mutex:     *)
(*                      both memory databases nil; then the age checks),    *)
(*                      then Close, then segment.EvictFamily                *)
(*   Close            = CloseBegin (takes the mutex), CloseWait             *)
(*                      (before the repair: flushCondition.Wait WITH the    *)
(*                      mutex held; now the mutex is taken when no flush    *)
(*                      runs),                                              *)
(*                      CloseCommit / CloseAck / CloseNext for the          *)
(*                      immutable then the mutable database, CloseEnd       *)
(* Memory databases are entities of their own (`Db`): a handle taken by a   *)
(* writer stays the same database after the freeze, and the shard's memory  *)
(* index keeps the slot range of a database under a key (`dbStamp`, its     *)
(* creation time) that two databases may share.                             *)
(* Where: data_family.go Flush 259-317, Evict 346-378, WriteRows 537-575    *)
(* (window 539-548), Close 635-673 (wait for the flush: 639-647),           *)
(* flushMemoryDatabase 669-712; memdb/database.go 140 (createdTime),        *)
(* 208 / 372 / 443 (range by createdTime); memdb/index_database.go 133-150  *)
(* (Cleanup clears the range by createdTime).                               *)
(* The switches name where the code deviates from what the subsystem        *)
(* evidently promises (first group, value of the code in brackets) and the  *)
(* protective steps the code has (second group; switched off only by the    *)
(* deviation configurations, which must violate).                           *)
(***************************************************************************)
EXTENDS Integers, Sequences, FiniteSets, TLC

CONSTANTS
  Leader, MaxRow, MaxObj, MaxDb,
  \* --- behaviour of the code that breaks a promise (code value in brackets)
  DoubleWindow,     \* [TRUE]  the flushed file becomes visible (kv commit) before the flushed memory database is
                    \*         closed and dropped: a reader in between sees the rows twice (known finding C11-K8)
  CloseLocksFirst,  \* [FALSE since the repair, TRUE before] Close takes the family mutex and then waits for a running
                    \*         flush, which needs the same mutex for its last step
  RetryFailed,      \* [FALSE] a flush that failed after the freeze leaves the immutable database in place; later
                    \*         Flush calls return at once ("immutable not nil"), only Close flushes it
  ClosedRejects,    \* [FALSE] WriteRows on a closed (evicted) object is accepted silently
  AtomicWrite,      \* [FALSE] getting the memory database and writing into it are two steps (WriteGet ; WritePut): the
                    \*         database can be frozen in between
  RegisterAtGet,    \* [TRUE since the repair 81b03b7, FALSE before] the writer is registered (AcquireWrite) in the mutex
                    \*         section that hands the database out, so a flush that froze the database waits for the
                    \*         writer before it writes the file (FlushFamilyTo: writeCondition.Wait).  FALSE: AcquireWrite
                    \*         happens later, without the lock -- the database can be flushed and closed in between and
                    \*         the row goes into a closed database: accepted, in no file, never replayed
  AtomicEvict,      \* [FALSE] the checks of Evict (ref, memory databases) and the Close are separate steps
  UniqueStamp,      \* [TRUE since the repair, FALSE before] FALSE: the shard's memory index keeps the slot range of a memory database under its creation
                    \*         time (fasttime, 5 ms ticks): two databases created in one tick share one entry, and the
                    \*         Close of either deletes it -- the rows of the other become unreadable and are skipped
                    \*         by its flush
  \* --- protective steps of the code (TRUE = as the code)
  EvictChecksRef,   \* Evict returns when the write reference count is positive
  EvictChecksMem,   \* Evict returns when a memory database exists (also: a flush is running)
  CloseFlushes,     \* Close flushes the immutable and the mutable memory database
  AckFrozen         \* the callbacks get the sequences captured at the freeze (not the current ones)

Row == 1..MaxRow
Obj == 1..MaxObj
Db  == 1..MaxDb
NoSeq == [l \in Leader |-> -1]
NoRange == <<1, 0>>

VARIABLES
  cur,      \* object in the segment's family map (0 = none)
  mgr,      \* object registered in the family manager under the family's indicator (0 = none)
  nobj,     \* objects created so far
  ndb,      \* memory databases created so far
  next,     \* next row (= its replica sequence)
  old,      \* the age conditions of Evict hold (family older than the write window, not read recently)
  mut, imm, \* [Obj -> Db \cup {0}]
  dbRows,   \* [Db -> SUBSET Row]
  dbSt,     \* [Db -> {"none","live","closed"}]  closed = memdb.Close() ran: nothing readable in it any more
  dbStamp,  \* [Db -> Nat]  key of the database in the shard's memory index (its creation tick)
  stRange,  \* [1..MaxDb -> <<lo, hi>>]  slot range stored under a key (lo > hi: no entry); a row's slot is its number
  seq,      \* [Obj -> [Leader -> Int]]  replica sequences (CommitSequence), -1 = leader unknown
  persist,  \* [Obj -> [Leader -> Int]]  persisted sequences (GetState.AckSequences)
  immSeq,   \* [Obj -> [Leader -> Int]]  sequences captured at the freeze
  cbs,      \* [Obj -> SUBSET Leader]    leaders with an acknowledgement callback
  lastAck,  \* [Obj -> [Leader -> Int]]  last value the callback of the leader received
  ref,      \* [Obj -> Nat]
  fl,       \* [Obj -> {"idle","frozen","committed","released"}]  the flush job (isFlushing = fl # "idle")
  toAck,    \* [Obj -> SUBSET Leader]    callbacks of the running job that were not called yet
  lock,     \* [Obj -> BOOLEAN]          family mutex held across steps (only Close does that)
  cl,       \* [Obj -> {"none","wait","imm","immack","mut","mutack","end","closed"}]
  ev,       \* [Obj -> {"none","refok","closing"}]
  files,    \* Seq(SUBSET Row): the flushed files of the kv family
  dseq,     \* [Leader -> Int]: sequences in the kv version
  where,    \* [Row -> Obj \cup {0}]: the object that accepted the row
  rowLeader,\* [Row -> Leader \cup {0}]
  late,     \* rows accepted by a closed object
  wh, wo,   \* a writer between WriteGet and WritePut: database handle, object (0 = none)
  badEvict, \* history: an object was closed by Evict although it had a reference / data in memory / a running flush
  ignored   \* history: a Flush call returned without doing anything although frozen data waits to be flushed

vars == <<cur, mgr, nobj, ndb, next, old, mut, imm, dbRows, dbSt, dbStamp, stRange, seq, persist, immSeq, cbs, lastAck, ref, fl,
          toAck, lock, cl, ev, files, dseq, where, rowLeader, late, wh, wo, badEvict, ignored>>

Init ==
  /\ cur = 0 /\ mgr = 0 /\ nobj = 0 /\ ndb = 0 /\ next = 1 /\ old \in BOOLEAN
  /\ mut = [o \in Obj |-> 0] /\ imm = [o \in Obj |-> 0]
  /\ dbRows = [d \in Db |-> {}] /\ dbSt = [d \in Db |-> "none"]
  /\ dbStamp = [d \in Db |-> 0] /\ stRange = [k \in Db |-> NoRange]
  /\ seq = [o \in Obj |-> NoSeq] /\ persist = [o \in Obj |-> NoSeq] /\ immSeq = [o \in Obj |-> NoSeq]
  /\ cbs = [o \in Obj |-> {}] /\ lastAck = [o \in Obj |-> NoSeq] /\ ref = [o \in Obj |-> 0]
  /\ fl = [o \in Obj |-> "idle"] /\ toAck = [o \in Obj |-> {}] /\ lock = [o \in Obj |-> FALSE]
  /\ cl = [o \in Obj |-> "none"] /\ ev = [o \in Obj |-> "none"]
  /\ files = << >> /\ dseq = NoSeq
  /\ where = [r \in Row |-> 0] /\ rowLeader = [r \in Row |-> 0] /\ late = {}
  /\ wh = 0 /\ wo = 0 /\ badEvict = FALSE /\ ignored = FALSE

Exists(o) == o \in 1..nobj
Open(o) == Exists(o) /\ cl[o] # "closed"
\* sequences of a flush applied over a sequence table (leaders without a sequence keep the old entry)
Over(new, base) == [l \in Leader |-> IF new[l] >= 0 THEN new[l] ELSE base[l]]

\* ------------------------------------------------------------------ segment
\* shard.GetOrCrateDataFamily / segment.getOrLoadFamily (also what a query does first)
Load ==
  /\ IF cur # 0
       THEN UNCHANGED <<cur, mgr, nobj, seq, persist>>
       ELSE /\ nobj < MaxObj
            /\ nobj' = nobj + 1 /\ cur' = nobj + 1 /\ mgr' = nobj + 1
            /\ seq' = [seq EXCEPT ![nobj + 1] = dseq]
            /\ persist' = [persist EXCEPT ![nobj + 1] = dseq]
  /\ UNCHANGED <<ndb, next, old, mut, imm, dbRows, dbSt, dbStamp, stRange, immSeq, cbs, lastAck, ref, fl, toAck, lock,
                 cl, ev, files, dseq, where, rowLeader, late, wh, wo, badEvict, ignored>>

\* ------------------------------------------------------------------ writes
\* GetOrCreateMemoryDatabase under the family mutex: the handle of the mutable database (created if nil)
GetDb(o) == IF mut[o] # 0 THEN mut[o] ELSE ndb + 1
\* k: the key the new database gets (ignored when the mutable database exists): a fresh one, or -- two databases
\* created in one clock tick -- the key of a database that is still alive
StampOK(k) == k = ndb + 1 \/ (~UniqueStamp /\ \E d \in 1..ndb : dbSt[d] = "live" /\ dbStamp[d] = k)
GetDbEffect(o, k) ==
  IF mut[o] # 0
    THEN UNCHANGED <<mut, ndb, dbSt, dbStamp>>
    ELSE /\ ndb < MaxDb /\ StampOK(k)
         /\ ndb' = ndb + 1 /\ mut' = [mut EXCEPT ![o] = ndb + 1] /\ dbSt' = [dbSt EXCEPT ![ndb + 1] = "live"]
         /\ dbStamp' = [dbStamp EXCEPT ![ndb + 1] = k]
\* StoreTimeRange: the slot of the row joins the range stored under the key
Extend(rg, r) == IF rg[1] > rg[2] THEN <<r, r>> ELSE <<IF r < rg[1] THEN r ELSE rg[1], IF r > rg[2] THEN r ELSE rg[2]>>
\* the rows of a database that can be read and flushed: those inside the range stored under its key
LiveRows(d) == {r \in dbRows[d] : stRange[dbStamp[d]][1] <= r /\ r <= stRange[dbStamp[d]][2]}

\* WriteRows of one row of leader l as ONE step (what a caller sees when nothing runs in between)
Write(o, l, k) ==
  /\ Open(o) /\ ~lock[o] /\ wh = 0 /\ next <= MaxRow
  /\ GetDbEffect(o, k)
  /\ dbRows' = [dbRows EXCEPT ![GetDb(o)] = @ \cup {next}]
  /\ stRange' = [stRange EXCEPT ![dbStamp'[GetDb(o)]] = Extend(@, next)]
  /\ where' = [where EXCEPT ![next] = o] /\ rowLeader' = [rowLeader EXCEPT ![next] = l]
  /\ next' = next + 1
  /\ UNCHANGED <<cur, mgr, nobj, old, imm, seq, persist, immSeq, cbs, lastAck, ref, fl, toAck, lock, cl, ev, files,
                 dseq, late, wh, wo, badEvict, ignored>>

WriteGet(o, k) ==
  /\ ~AtomicWrite
  /\ Open(o) /\ ~lock[o] /\ wh = 0 /\ next <= MaxRow
  /\ GetDbEffect(o, k)
  /\ wh' = GetDb(o) /\ wo' = o
  /\ UNCHANGED <<cur, mgr, nobj, next, old, imm, dbRows, stRange, seq, persist, immSeq, cbs, lastAck, ref, fl, toAck, lock,
                 cl, ev, files, dseq, where, rowLeader, late, badEvict, ignored>>

\* AcquireWrite + WriteRow on the handle, whatever became of that database meanwhile
WritePut(l) ==
  /\ wh # 0
  /\ dbRows' = [dbRows EXCEPT ![wh] = @ \cup {next}]
  /\ stRange' = [stRange EXCEPT ![dbStamp[wh]] = Extend(@, next)]
  /\ where' = [where EXCEPT ![next] = wo] /\ rowLeader' = [rowLeader EXCEPT ![next] = l]
  /\ next' = next + 1 /\ wh' = 0 /\ wo' = 0
  /\ UNCHANGED <<cur, mgr, nobj, ndb, old, mut, imm, dbSt, dbStamp, seq, persist, immSeq, cbs, lastAck, ref, fl, toAck, lock,
                 cl, ev, files, dseq, late, badEvict, ignored>>

\* WriteRows on a closed object: res = "ok" (accepted; nobody will flush or read it) or "err"
WriteClosed(o, l, res) ==
  /\ Exists(o) /\ cl[o] = "closed" /\ next <= MaxRow
  /\ res = IF ClosedRejects THEN "err" ELSE "ok"
  /\ IF res = "ok"
       THEN /\ where' = [where EXCEPT ![next] = o] /\ rowLeader' = [rowLeader EXCEPT ![next] = l]
            /\ late' = late \cup {next} /\ next' = next + 1
       ELSE UNCHANGED <<where, rowLeader, late, next>>
  /\ UNCHANGED <<cur, mgr, nobj, ndb, old, mut, imm, dbRows, dbSt, dbStamp, stRange, seq, persist, immSeq, cbs, lastAck, ref, fl,
                 toAck, lock, cl, ev, files, dseq, wh, wo, badEvict, ignored>>

\* CommitSequence(l, s) after the write of row s of leader l
Commit(o, l, s) ==
  /\ Open(o) /\ ~lock[o]
  /\ s \in Row /\ where[s] = o /\ rowLeader[s] = l /\ s > seq[o][l]
  /\ seq' = [seq EXCEPT ![o][l] = s]
  /\ UNCHANGED <<cur, mgr, nobj, ndb, next, old, mut, imm, dbRows, dbSt, dbStamp, stRange, persist, immSeq, cbs, lastAck, ref, fl, toAck,
                 lock, cl, ev, files, dseq, where, rowLeader, late, wh, wo, badEvict, ignored>>

\* AckSequence(l, fn): registers the callback; it is called at once with the persisted sequence if there is one
AckReg(o, l) ==
  /\ Open(o) /\ ~lock[o] /\ l \notin cbs[o] /\ fl[o] \notin {"committed"} /\ cl[o] = "none"
  /\ cbs' = [cbs EXCEPT ![o] = @ \cup {l}]
  /\ lastAck' = IF persist[o][l] >= 0 THEN [lastAck EXCEPT ![o][l] = persist[o][l]] ELSE lastAck
  /\ UNCHANGED <<cur, mgr, nobj, ndb, next, old, mut, imm, dbRows, dbSt, dbStamp, stRange, seq, persist, immSeq, ref, fl, toAck, lock,
                 cl, ev, files, dseq, where, rowLeader, late, wh, wo, badEvict, ignored>>

Retain(o) ==
  /\ Exists(o)
  /\ ref' = [ref EXCEPT ![o] = @ + 1]
  /\ UNCHANGED <<cur, mgr, nobj, ndb, next, old, mut, imm, dbRows, dbSt, dbStamp, stRange, seq, persist, immSeq, cbs, lastAck, fl, toAck,
                 lock, cl, ev, files, dseq, where, rowLeader, late, wh, wo, badEvict, ignored>>
Release(o) ==
  /\ Exists(o) /\ ref[o] > 0
  /\ ref' = [ref EXCEPT ![o] = @ - 1]
  /\ UNCHANGED <<cur, mgr, nobj, ndb, next, old, mut, imm, dbRows, dbSt, dbStamp, stRange, seq, persist, immSeq, cbs, lastAck, fl, toAck,
                 lock, cl, ev, files, dseq, where, rowLeader, late, wh, wo, badEvict, ignored>>

\* ------------------------------------------------------------------ Flush
FlushUnch == UNCHANGED <<cur, mgr, nobj, ndb, next, old, dbStamp, seq, cbs, ref, lock, cl, ev, where, rowLeader, late, wh, wo,
                         badEvict>>
Flushable(o) == imm[o] = 0 /\ mut[o] # 0 /\ dbRows[mut[o]] # {}

\* isFlushing CAS succeeded, first mutex section: the mutable database becomes the immutable one, sequences captured
FlushFreeze(o) ==
  /\ Open(o) /\ cl[o] = "none" /\ ~lock[o] /\ fl[o] = "idle" /\ Flushable(o)
  /\ imm' = [imm EXCEPT ![o] = mut[o]] /\ mut' = [mut EXCEPT ![o] = 0]
  /\ immSeq' = [immSeq EXCEPT ![o] = seq[o]]
  /\ fl' = [fl EXCEPT ![o] = "frozen"]
  /\ FlushUnch /\ UNCHANGED <<stRange, dbRows, dbSt, persist, lastAck, toAck, files, dseq, ignored>>

\* the immutable database of a failed flush is flushed again (the repair; the code never does this)
FlushRetry(o) ==
  /\ RetryFailed
  /\ Open(o) /\ cl[o] = "none" /\ ~lock[o] /\ fl[o] = "idle" /\ imm[o] # 0
  /\ fl' = [fl EXCEPT ![o] = "frozen"]
  /\ FlushUnch /\ UNCHANGED <<stRange, mut, imm, dbRows, dbSt, persist, immSeq, lastAck, toAck, files, dseq, ignored>>

\* Flush returns nil from the first mutex section: immutable not nil, or no mutable database, or no series in it
FlushNothing(o) ==
  /\ Open(o) /\ cl[o] = "none" /\ ~lock[o] /\ fl[o] = "idle" /\ ~Flushable(o)
  /\ ~(RetryFailed /\ imm[o] # 0)
  /\ ignored' = (ignored \/ imm[o] # 0)
  /\ FlushUnch /\ UNCHANGED <<stRange, mut, imm, dbRows, dbSt, persist, immSeq, lastAck, fl, toAck, files, dseq>>

\* the isFlushing guard: a second Flush while one runs returns nil at once
FlushBusy(o) ==
  /\ Exists(o) /\ fl[o] # "idle"
  /\ UNCHANGED vars

\* the flush fails after the freeze (table file cannot be created / written / committed)
FlushFail(o) ==
  /\ fl[o] = "frozen"
  /\ fl' = [fl EXCEPT ![o] = "idle"]
  /\ FlushUnch /\ UNCHANGED <<stRange, mut, imm, dbRows, dbSt, persist, immSeq, lastAck, toAck, files, dseq, ignored>>

\* FlushFamilyTo + kv commit: the file with the rows of the frozen database and the captured sequences are durable
\* and visible
FlushCommit(o) ==
  /\ fl[o] = "frozen"
  /\ RegisterAtGet => wh # imm[o]     \* writeCondition.Wait(): the registered writer of the frozen database first
  /\ files' = Append(files, LiveRows(imm[o]))
  /\ dseq' = Over(immSeq[o], dseq)
  /\ fl' = [fl EXCEPT ![o] = "committed"]
  /\ toAck' = [toAck EXCEPT ![o] = {l \in cbs[o] : immSeq[o][l] >= 0}]
  /\ FlushUnch /\ UNCHANGED <<stRange, mut, imm, dbRows, dbSt, persist, immSeq, lastAck, ignored>>

FlushAck(o, l) ==
  /\ fl[o] = "committed" /\ l \in toAck[o]
  /\ lastAck' = [lastAck EXCEPT ![o][l] = IF AckFrozen THEN immSeq[o][l] ELSE seq[o][l]]
  /\ toAck' = [toAck EXCEPT ![o] = @ \ {l}]
  /\ FlushUnch /\ UNCHANGED <<stRange, mut, imm, dbRows, dbSt, persist, immSeq, fl, files, dseq, ignored>>

\* memDB.Close() at the end of flushMemoryDatabase: the flushed rows leave the memory side
FlushRelease(o) ==
  /\ fl[o] = "committed" /\ toAck[o] = {}
  /\ dbSt' = [dbSt EXCEPT ![imm[o]] = "closed"]
  /\ stRange' = [stRange EXCEPT ![dbStamp[imm[o]]] = NoRange]
  /\ fl' = [fl EXCEPT ![o] = "released"]
  /\ FlushUnch /\ UNCHANGED <<mut, imm, dbRows, persist, immSeq, lastAck, toAck, files, dseq, ignored>>

\* second mutex section of Flush: immutable database dropped, persisted sequences stored
FlushDrop(o) ==
  /\ fl[o] = "released" /\ ~lock[o]
  /\ imm' = [imm EXCEPT ![o] = 0]
  /\ persist' = [persist EXCEPT ![o] = Over(immSeq[o], @)]
  /\ immSeq' = [immSeq EXCEPT ![o] = NoSeq]
  /\ fl' = [fl EXCEPT ![o] = "idle"]
  /\ FlushUnch /\ UNCHANGED <<stRange, mut, dbRows, dbSt, lastAck, toAck, files, dseq, ignored>>

\* ------------------------------------------------------------------ Close
CloseUnch == UNCHANGED <<nobj, ndb, next, old, mut, imm, dbRows, dbStamp, seq, persist, immSeq, cbs, ref, fl, where, rowLeader,
                         late, wh, wo, ignored>>
\* Close called directly (shutdown: segment.Close) or by Evict (ev = "closing")
CloseBegin(o) ==
  /\ Open(o) /\ cl[o] = "none" /\ ~lock[o]
  /\ AtomicEvict => ev[o] = "none"
  /\ IF CloseLocksFirst THEN TRUE ELSE fl[o] = "idle"
  /\ lock' = [lock EXCEPT ![o] = TRUE]
  /\ cl' = [cl EXCEPT ![o] = "wait"]
  /\ badEvict' = (badEvict \/ (ev[o] = "closing" /\ (ref[o] > 0 \/ mut[o] # 0 \/ imm[o] # 0 \/ fl[o] # "idle")))
  /\ CloseUnch /\ UNCHANGED <<cur, mgr, dbSt, stRange, lastAck, toAck, ev, files, dseq>>

\* flushCondition.Wait() returned: no flush job runs
CloseWait(o) ==
  /\ cl[o] = "wait" /\ fl[o] = "idle"
  /\ cl' = [cl EXCEPT ![o] = IF imm[o] # 0 THEN "imm" ELSE IF mut[o] # 0 THEN "mut" ELSE "end"]
  /\ CloseUnch /\ UNCHANGED <<cur, mgr, dbSt, stRange, lastAck, toAck, lock, ev, files, dseq, badEvict>>

CloseDb(o) == IF cl[o] \in {"imm", "immack"} THEN imm[o] ELSE mut[o]
CloseSeq(o) == IF cl[o] \in {"imm", "immack"} THEN immSeq[o] ELSE seq[o]

\* flushMemoryDatabase of Close up to the kv commit
CloseCommit(o) ==
  /\ cl[o] \in {"imm", "mut"}
  /\ RegisterAtGet => wh # CloseDb(o)
  /\ IF CloseFlushes
       THEN files' = Append(files, LiveRows(CloseDb(o))) /\ dseq' = Over(CloseSeq(o), dseq)
       ELSE UNCHANGED <<files, dseq>>
  /\ toAck' = [toAck EXCEPT ![o] = {l \in cbs[o] : CloseSeq(o)[l] >= 0}]
  /\ cl' = [cl EXCEPT ![o] = IF @ = "imm" THEN "immack" ELSE "mutack"]
  /\ CloseUnch /\ UNCHANGED <<cur, mgr, dbSt, stRange, lastAck, lock, ev, badEvict>>

CloseAck(o, l) ==
  /\ cl[o] \in {"immack", "mutack"} /\ l \in toAck[o]
  /\ lastAck' = [lastAck EXCEPT ![o][l] = CloseSeq(o)[l]]
  /\ toAck' = [toAck EXCEPT ![o] = @ \ {l}]
  /\ CloseUnch /\ UNCHANGED <<cur, mgr, dbSt, stRange, cl, lock, ev, files, dseq, badEvict>>

CloseNext(o) ==
  /\ cl[o] \in {"immack", "mutack"} /\ toAck[o] = {}
  /\ dbSt' = [dbSt EXCEPT ![CloseDb(o)] = "closed"]
  /\ stRange' = [stRange EXCEPT ![dbStamp[CloseDb(o)]] = NoRange]
  /\ cl' = [cl EXCEPT ![o] = IF @ = "immack" /\ mut[o] # 0 THEN "mut" ELSE "end"]
  /\ CloseUnch /\ UNCHANGED <<cur, mgr, lastAck, toAck, lock, ev, files, dseq, badEvict>>

\* RemoveFamily (by indicator), mutex released; after an Evict: segment.EvictFamily (by family time)
CloseEnd(o) ==
  /\ cl[o] = "end"
  /\ mgr' = 0
  /\ lock' = [lock EXCEPT ![o] = FALSE]
  /\ cl' = [cl EXCEPT ![o] = "closed"]
  /\ cur' = IF ev[o] = "closing" THEN 0 ELSE cur
  /\ ev' = [ev EXCEPT ![o] = "none"]
  /\ CloseUnch /\ UNCHANGED <<dbSt, stRange, lastAck, toAck, files, dseq, badEvict>>

\* ------------------------------------------------------------------ Evict (TTL task, walks the family manager)
EvictUnch == UNCHANGED <<cur, mgr, nobj, ndb, next, old, mut, imm, dbRows, dbSt, dbStamp, stRange, seq, persist, immSeq, cbs, lastAck, ref,
                         fl, toAck, lock, cl, files, dseq, where, rowLeader, late, wh, wo, badEvict, ignored>>
\* res: "go" = the check passed
EvictRef(o, res) ==
  /\ ~AtomicEvict
  /\ Open(o) /\ mgr = o /\ ev[o] = "none" /\ cl[o] = "none"
  /\ res = IF ~EvictChecksRef \/ ref[o] <= 0 THEN "go" ELSE "ref"
  /\ ev' = [ev EXCEPT ![o] = IF res = "go" THEN "refok" ELSE "none"]
  /\ EvictUnch
EvictMem(o, res) ==
  /\ ev[o] = "refok" /\ ~lock[o]
  /\ res = IF EvictChecksMem /\ (mut[o] # 0 \/ imm[o] # 0) THEN "mem" ELSE IF ~old THEN "young" ELSE "go"
  /\ ev' = [ev EXCEPT ![o] = IF res = "go" THEN "closing" ELSE "none"]
  /\ EvictUnch
\* the repaired design: checks, close and removal from the segment are one step relative to everything else
EvictAll(o) ==
  /\ AtomicEvict
  /\ Open(o) /\ mgr = o /\ cl[o] = "none" /\ ~lock[o] /\ wh = 0 /\ old
  /\ EvictChecksRef => ref[o] <= 0
  /\ EvictChecksMem => (mut[o] = 0 /\ imm[o] = 0 /\ fl[o] = "idle")
  /\ badEvict' = (badEvict \/ ref[o] > 0 \/ mut[o] # 0 \/ imm[o] # 0 \/ fl[o] # "idle")
  /\ cl' = [cl EXCEPT ![o] = "closed"] /\ mgr' = 0 /\ cur' = 0
  /\ UNCHANGED <<nobj, ndb, next, old, mut, imm, dbRows, dbSt, dbStamp, stRange, seq, persist, immSeq, cbs, lastAck, ref,
                 fl, toAck, lock, ev, files, dseq, where, rowLeader, late, wh, wo, ignored>>

Next ==
  \/ Load
  \/ \E o \in Obj, l \in Leader, k \in Db : Write(o, l, k) /\ AtomicWrite
  \/ \E o \in Obj, k \in Db : WriteGet(o, k)
  \/ \E l \in Leader : WritePut(l)
  \/ \E o \in Obj, l \in Leader, res \in {"ok", "err"} : WriteClosed(o, l, res)
  \/ \E o \in Obj, l \in Leader, s \in Row : Commit(o, l, s)
  \/ \E o \in Obj, l \in Leader : AckReg(o, l)
  \/ \E o \in Obj : Retain(o) \/ Release(o)
  \/ \E o \in Obj : FlushFreeze(o) \/ FlushRetry(o) \/ FlushNothing(o) \/ FlushFail(o) \/ FlushCommit(o)
                     \/ FlushRelease(o) \/ FlushDrop(o)
  \/ \E o \in Obj, l \in Leader : FlushAck(o, l)
  \/ \E o \in Obj : CloseBegin(o) \/ CloseWait(o) \/ CloseCommit(o) \/ CloseNext(o) \/ CloseEnd(o)
  \/ \E o \in Obj, l \in Leader : CloseAck(o, l)
  \/ \E o \in Obj, res \in {"go", "ref"} : EvictRef(o, res)
  \/ \E o \in Obj, res \in {"go", "mem", "young"} : EvictMem(o, res)
  \/ \E o \in Obj : EvictAll(o)

Spec == Init /\ [][Next]_vars

\* ------------------------------------------------------------------ what a reader sees
\* a query goes through the object in the segment (memoryFilter under the family mutex: mutable + immutable database,
\* then the files of the kv snapshot)
MemVis(r) ==
  IF cur = 0 THEN 0
  ELSE (IF mut[cur] # 0 /\ dbSt[mut[cur]] = "live" /\ r \in LiveRows(mut[cur]) THEN 1 ELSE 0)
     + (IF imm[cur] # 0 /\ dbSt[imm[cur]] = "live" /\ r \in LiveRows(imm[cur])
           /\ (DoubleWindow \/ fl[cur] # "committed") THEN 1 ELSE 0)
FileVis(r) == Cardinality({i \in DOMAIN files : r \in files[i]})
Vis(r) == MemVis(r) + FileVis(r)
CanRead == cur = 0 \/ ~lock[cur]
Written == {r \in Row : where[r] # 0}

\* ------------------------------------------------------------------ properties
TypeOK ==
  /\ cur \in 0..nobj /\ mgr \in 0..nobj /\ nobj \in 0..MaxObj /\ ndb \in 0..MaxDb
  /\ \A o \in Obj : mut[o] \in 0..ndb /\ imm[o] \in 0..ndb /\ (mut[o] # 0 => mut[o] # imm[o])
  /\ wh \in 0..ndb

\* isFlushing guard + immutable check: the state of the flush job is consistent with the databases
FlushShape ==
  \A o \in Obj : /\ fl[o] # "idle" => imm[o] # 0
                 /\ fl[o] \in {"frozen", "committed"} => dbSt[imm[o]] = "live"
                 /\ toAck[o] # {} => (fl[o] = "committed" \/ cl[o] \in {"immack", "mutack"})
\* a write during the flush never lands in the frozen database (action property)
FrozenNeverGrows ==
  [][\A o \in Obj : (imm[o] # 0 /\ imm'[o] = imm[o]) => dbRows'[imm[o]] = dbRows[imm[o]]]_vars
\* ... and, with two-step writes, at least never into a database whose file is written already (action property)
FlushedNeverGrows ==
  [][\A o \in Obj : (imm[o] # 0 /\ imm'[o] = imm[o] /\ fl[o] \in {"committed", "released"})
                       => dbRows'[imm[o]] = dbRows[imm[o]]]_vars
\* a row never goes into a closed memory database
NoWriteIntoClosed == [][\A d \in Db : (dbSt[d] = "closed" /\ dbSt'[d] = "closed") => dbRows'[d] = dbRows[d]]_vars
\* no row is flushed into two files
FlushedOnce == \A r \in Row : FileVis(r) <= 1
\* a reader never sees a row twice (violated by the code between commit and drop: DoubleWindow)
VisibleAtMostOnce == CanRead => \A r \in Written : Vis(r) <= 1
\* every accepted row is visible to a reader (memory of the current object or files)
AcceptedVisible == CanRead => \A r \in Written : Vis(r) >= 1
\* sequences: the callbacks never run ahead of what is durable in the kv version ...
AckNotAhead == \A o \in Obj, l \in Leader : lastAck[o][l] <= dseq[l]
\* ... and every row covered by an acknowledged sequence is in a file
AckedRowsDurable ==
  \A o \in Obj, l \in Leader, r \in Row :
     (where[r] = o /\ rowLeader[r] = l /\ r <= lastAck[o][l] /\ r \notin late) => FileVis(r) >= 1
\* the TTL path closes only objects without reference, without memory database and without running flush
EvictOnlyIdle == ~badEvict
\* after Close everything the object accepted before is durable
ClosedIsFlushed ==
  \A o \in Obj : cl[o] = "closed" => \A r \in Row : (where[r] = o /\ r \notin late) => FileVis(r) >= 1
\* no write is accepted by a closed object
NoLateWrite == late = {}
\* Close never waits, holding the family mutex, for a flush that needs the mutex to finish
Stuck(o) == cl[o] = "wait" /\ lock[o] /\ fl[o] = "released"
NoStuck == \A o \in Obj : ~Stuck(o)
\* a Flush call is never ignored while frozen data waits
NoIgnoredFlush == ~ignored
=============================================================================
