CONSTANTS
  Receiver = {r1, r2}
  FallThrough = FALSE
SPECIFICATION Spec
INVARIANTS AtMostOne ExactlyOneAfterAnswer FailureIsReported
CHECK_DEADLOCK FALSE
