package main

// vdrive query -- properties C11 and C12 (module Query).
//
// Drives the REAL query path of lindb in one process: query.MetricDataSearch (root broker) -> loopback
// transport -> real leaf task processors over a real tsdb.Engine (memory databases, kv files), optionally
// through real intermediate (compute) task processors, and records
//   Reset    the universe of one history (stored interval, field types, series, shard count)
//   Write    the points of the rows handed to DataFamily.WriteRows, in arrival order
//   Flush / Compact / Reopen   what was done to which (shard, family)
//   Query    the statement (structured), the layout / delivery schedule and the REAL result set
// Nothing is compared here: TLC judges every Query event against spec/Query.tla (spec/QueryTrace.tla).
// Instants are logged as whole seconds + milliseconds, values as integers (the driver only writes integral
// values; a non-integral result is logged as a string and rejected by the judge).

import (
	"bytes"
	"context"
	"encoding/json"
	"errors"
	"flag"
	"fmt"
	"math"
	"math/rand"
	"os"
	"path/filepath"
	"sort"
	"strings"
	"sync"
	"time"

	commonmodels "github.com/lindb/common/models"
	protoMetricsV1 "github.com/lindb/common/proto/gen/v1/linmetrics"
	"google.golang.org/grpc"

	"github.com/lindb/lindb/constants"
	"github.com/lindb/lindb/coordinator/broker"
	"github.com/lindb/lindb/coordinator/discovery"
	"github.com/lindb/lindb/flow"
	"github.com/lindb/lindb/kv"
	"github.com/lindb/lindb/models"
	"github.com/lindb/lindb/pkg/option"
	"github.com/lindb/lindb/pkg/timeutil"
	protoCommonV1 "github.com/lindb/lindb/proto/gen/v1/common"
	"github.com/lindb/lindb/query"
	querycontext "github.com/lindb/lindb/query/context"
	"github.com/lindb/lindb/rpc"
	"github.com/lindb/lindb/series/metric"
	"github.com/lindb/lindb/sql"
	"github.com/lindb/lindb/sql/stmt"
	"github.com/lindb/lindb/tsdb"

	"verif/harness/internal/trace"
)

func init() { register("query", queryMain) }

// ------------------------------------------------------------------ universe

type qField struct {
	name string
	typ  string // sum | min | max | last | first
	pt   protoMetricsV1.SimpleFieldType
}

var qFields = []qField{
	{"s", "sum", protoMetricsV1.SimpleFieldType_DELTA_SUM},
	{"mi", "min", protoMetricsV1.SimpleFieldType_Min},
	{"ma", "max", protoMetricsV1.SimpleFieldType_Max},
	{"la", "last", protoMetricsV1.SimpleFieldType_LAST},
	{"fi", "first", protoMetricsV1.SimpleFieldType_FIRST},
}

// fields a histogram row expands to
var qHistFields = []qField{
	{"HistogramSum", "sum", 0}, {"HistogramCount", "sum", 0}, {"HistogramMin", "min", 0}, {"HistogramMax", "max", 0},
	{"__bucket_10", "histogram", 0}, {"__bucket_100", "histogram", 0}, {"__bucket_+Inf", "histogram", 0},
}

func qFieldByName(n string) qField {
	for _, f := range qFields {
		if f.name == n {
			return f
		}
	}
	for _, f := range qHistFields {
		if f.name == n {
			return f
		}
	}
	return qField{name: n, typ: "unknown"}
}

// functions a field type supports (series/field/type.go IsFuncSupported, rate excluded); "" = bare field
var qFuncsOf = map[string][]string{
	"sum":   {"", "sum", "min", "max"},
	"min":   {"", "min"},
	"max":   {"", "max"},
	"last":  {"", "last", "sum", "min", "max"},
	"first": {"", "first", "sum", "min", "max"},
	"histogram": {"", "sum"},
}

type qSeries struct{ host, dc string }

var qAllSeries = []qSeries{{"a", "x"}, {"ab", "x"}, {"b", "y"}, {"a", "y"}, {"ba", "y"}, {"cab", "x"}}

func qChars(s string) []string {
	out := []string{}
	for _, r := range s {
		out = append(out, string(r))
	}
	return out
}

type qRow struct {
	w      int // arrival number
	sid    int // 1-based index into the history's series
	ts     int64
	fields []string
	vals   []int
	// optional compound (histogram) field: bucket counts for the bounds qBounds, min, max, sum, count
	hist []int
}

// explicit bounds of the histogram rows; the engine stores HistogramMin/Max/Sum/Count and one __bucket_<bound> field
// (type histogram = sum) per bucket with a positive count
var qBounds = []float64{10, 100, math.Inf(1)}
var qBucketNames = []string{"__bucket_10", "__bucket_100", "__bucket_+Inf"}

// points of a row as (field name, value), simple fields first, then what the compound field expands to
// (tsdb/memdb/database.go writeCompoundField)
func (r *qRow) points() (names []string, vals []int) {
	names = append(names, r.fields...)
	vals = append(vals, r.vals...)
	if r.hist != nil {
		b0, b1, b2, mn, mx, sm, cnt := r.hist[0], r.hist[1], r.hist[2], r.hist[3], r.hist[4], r.hist[5], r.hist[6]
		names = append(names, "HistogramMin", "HistogramMax", "HistogramSum", "HistogramCount")
		vals = append(vals, mn, mx, sm, cnt)
		for i, b := range []int{b0, b1, b2} {
			if b > 0 {
				names = append(names, qBucketNames[i])
				vals = append(vals, b)
			}
		}
	}
	return
}

const qSiv = int64(10) // stored interval (s)

// ------------------------------------------------------------------ loopback cluster

type qTaskMgr struct {
	mu    sync.Mutex
	tasks map[string]querycontext.TaskContext
}

func newQTaskMgr() *qTaskMgr { return &qTaskMgr{tasks: map[string]querycontext.TaskContext{}} }
func (m *qTaskMgr) AddTask(id string, c querycontext.TaskContext) {
	m.mu.Lock()
	m.tasks[id] = c
	m.mu.Unlock()
}
func (m *qTaskMgr) RemoveTask(id string) { m.mu.Lock(); delete(m.tasks, id); m.mu.Unlock() }
func (m *qTaskMgr) get(id string) querycontext.TaskContext {
	m.mu.Lock()
	defer m.mu.Unlock()
	return m.tasks[id]
}

// never used by the code under test in this wiring, required by the interface
func (m *qTaskMgr) Receive(resp *protoCommonV1.TaskResponse, from string) error {
	c := m.get(resp.RequestID)
	if c == nil {
		return fmt.Errorf("request may be evicted")
	}
	c.HandleResponse(resp, from)
	return nil
}

// one pending response: from a node to the task manager of a receiver
type qDelivery struct {
	from, to string
	resp     *protoCommonV1.TaskResponse
}

type qNode struct {
	indicator string
	kind      string // root | compute | leaf
	tm        *qTaskMgr
	proc      query.TaskProcessor
}

// qCluster is the in-process "network": requests start the target's processor on a goroutine, responses
// are parked in the gate and handed to the receiver's task context by the delivery schedule.
type qCluster struct {
	nodes   map[string]*qNode
	timeout time.Duration

	mu      sync.Mutex
	cond    *sync.Cond
	pending []*qDelivery
	log     []string // delivery log: "from>to"
	lost    []string // responses nobody could take
	closed  bool
	free    bool // deliver immediately on a goroutine (no schedule)
}

func newQCluster() *qCluster {
	c := &qCluster{nodes: map[string]*qNode{}, timeout: 8 * time.Second}
	c.cond = sync.NewCond(&c.mu)
	return c
}

// server stream handed to a processor: Send = a response travelling to `to`
type qStream struct {
	grpc.ServerStream
	c        *qCluster
	from, to string
}

func (s *qStream) Send(r *protoCommonV1.TaskResponse) error {
	s.c.post(&qDelivery{from: s.from, to: s.to, resp: r})
	return nil
}
func (s *qStream) Recv() (*protoCommonV1.TaskRequest, error) { select {} }
func (s *qStream) Context() context.Context                  { return context.Background() }

func (c *qCluster) post(d *qDelivery) {
	c.mu.Lock()
	if c.free {
		c.mu.Unlock()
		go c.deliver(d)
		return
	}
	c.pending = append(c.pending, d)
	c.cond.Broadcast()
	c.mu.Unlock()
}

func (c *qCluster) deliver(d *qDelivery) {
	n := c.nodes[d.to]
	var tc querycontext.TaskContext
	if n != nil && n.tm != nil {
		tc = n.tm.get(d.resp.RequestID)
	}
	c.mu.Lock()
	if tc == nil {
		c.lost = append(c.lost, d.from+">"+d.to)
	} else {
		c.log = append(c.log, d.from+">"+d.to)
	}
	if os.Getenv("VERIF_QDEBUG") != "" {
		fmt.Fprintf(os.Stderr, "  deliver %s>%s err=%q payload=%d\n", d.from, d.to, d.resp.ErrMsg, len(d.resp.Payload))
	}
	c.mu.Unlock()
	if tc != nil {
		tc.HandleResponse(d.resp, d.from)
	}
}

// take waits for a pending response matching (from, to) ("" = any) and removes it
func (c *qCluster) take(from, to string, wait time.Duration) *qDelivery {
	deadline := time.Now().Add(wait)
	c.mu.Lock()
	defer c.mu.Unlock()
	for {
		for i, d := range c.pending {
			if (from == "" || d.from == from) && (to == "" || d.to == to) {
				c.pending = append(c.pending[:i], c.pending[i+1:]...)
				return d
			}
		}
		if c.closed || time.Now().After(deadline) {
			return nil
		}
		t := time.AfterFunc(20*time.Millisecond, func() { c.mu.Lock(); c.cond.Broadcast(); c.mu.Unlock() })
		c.cond.Wait()
		t.Stop()
	}
}

// per-node transport manager (rpc.TransportManager)
type qTransport struct {
	self *qNode
	c    *qCluster
	// hook called after each SendRequest of this node (used by the root's delivery schedule)
	afterSend func(n int)
	sent      int
}

func (t *qTransport) SendRequest(target string, req *protoCommonV1.TaskRequest) error {
	n := t.c.nodes[target]
	if n == nil || n.proc == nil {
		return fmt.Errorf("no node %s", target)
	}
	stream := &qStream{c: t.c, from: target, to: t.self.indicator}
	go func() {
		ctx := flow.NewTaskContextWithTimeout(context.Background(), t.c.timeout)
		// TaskHandler.process: an error of Process is answered with an error response
		defer func() {
			if r := recover(); r != nil {
				_ = stream.Send(&protoCommonV1.TaskResponse{RequestID: req.RequestID, Completed: true, ErrMsg: fmt.Sprint("panic: ", r)})
			}
		}()
		if err := n.proc.Process(ctx, stream, req); err != nil {
			_ = stream.Send(&protoCommonV1.TaskResponse{RequestID: req.RequestID, Completed: true, ErrMsg: err.Error()})
		}
	}()
	t.sent++
	if t.afterSend != nil {
		t.afterSend(t.sent)
	}
	return nil
}
func (t *qTransport) SendResponse(string, *protoCommonV1.TaskResponse) error { return nil }

type qChooser struct {
	broker.StateManager
	db    models.Database
	plans func() []*models.PhysicalPlan
}

func (c *qChooser) Choose(string, int) ([]*models.PhysicalPlan, error) { return c.plans(), nil }
func (c *qChooser) GetDatabaseCfg(string) (models.Database, bool)      { return c.db, true }

// ------------------------------------------------------------------ the broker's planner
// qPlanner: a real broker state manager fed with the database config and, per layout, the storage state the master
// would publish (every leaf a live storage node, every shard online and led by the leaf the layout gives it to).
// Its Choose (coordinator/broker/state_manager.go: GetQueryableReplicas -> one target per storage node with the shards it
// leads) is what the root and the compute nodes of a real broker ask; the driver uses ITS targets for the leaves.
type qPlanner struct {
	mgr    broker.StateManager
	cancel context.CancelFunc
	nsent  int
}

func newQPlanner(db string, nsh int, opt *option.DatabaseOption) *qPlanner {
	ctx, cancel := context.WithCancel(context.Background())
	p := &qPlanner{mgr: broker.NewStateManager(ctx, models.StatelessNode{HostIP: "9.9.9.9", GRPCPort: 9000}, bvConnMgr{}, nil), cancel: cancel}
	cfg := models.Database{Name: db, NumOfShard: nsh, ReplicaFactor: 1, Option: opt}
	data, _ := json.Marshal(&cfg)
	p.mgr.EmitEvent(&discovery.Event{Type: discovery.DatabaseConfigChanged, Key: constants.GetDatabaseConfigPath(db), Value: data})
	return p
}

// barrier: a sentinel broker node is registered and removed; when it is gone every earlier event has been handled
func (p *qPlanner) barrier() bool {
	p.nsent++
	name := fmt.Sprintf("sentinel-%d", p.nsent)
	node := models.StatelessNode{HostIP: "7.7.7.7", GRPCPort: uint16(10000 + p.nsent%20000)}
	data, _ := json.Marshal(&node)
	seen := func() bool {
		for _, n := range p.mgr.GetLiveNodes() {
			if n.HostIP == "7.7.7.7" {
				return true
			}
		}
		return false
	}
	p.mgr.EmitEvent(&discovery.Event{Type: discovery.NodeStartup, Key: constants.GetLiveNodePath(name), Value: data})
	deadline := time.Now().Add(10 * time.Second)
	for !seen() {
		if time.Now().After(deadline) {
			return false
		}
		time.Sleep(100 * time.Microsecond)
	}
	p.mgr.EmitEvent(&discovery.Event{Type: discovery.NodeFailure, Key: constants.GetLiveNodePath(name)})
	for seen() {
		if time.Now().After(deadline) {
			return false
		}
		time.Sleep(100 * time.Microsecond)
	}
	return true
}

// plan: the storage state of the layout goes in, the leaf targets of Choose come out
func (p *qPlanner) plan(db string, nodes []*models.StatefulNode, shards [][]models.ShardID) ([]*models.Target, error) {
	st := models.NewStorageState()
	m := map[models.ShardID]models.ShardState{}
	// every leaf is a replica of every shard (replica factor = number of leaves), the layout names the leader
	var all []models.NodeID
	for _, n := range nodes {
		all = append(all, n.ID)
	}
	for i, n := range nodes {
		st.LiveNodes[n.ID] = *n
		for _, sid := range shards[i] {
			m[sid] = models.ShardState{ID: sid, State: models.OnlineShard, Leader: n.ID, Replica: models.Replica{Replicas: all}}
		}
	}
	// one more shard that is not online (just assigned, no leader, no data): it must not be planned and must not keep
	// any online shard out of the plan
	extra := models.ShardID(0)
	for sid := range m {
		if sid >= extra {
			extra = sid + 1
		}
	}
	m[extra] = models.ShardState{ID: extra, State: models.NewShard, Leader: -1, Replica: models.Replica{Replicas: all}}
	st.ShardStates[db] = m
	data, _ := json.Marshal(st)
	p.mgr.EmitEvent(&discovery.Event{Type: discovery.StorageStateChanged, Key: constants.StorageStatePath, Value: data})
	if !p.barrier() {
		return nil, errors.New("the broker state manager did not handle the storage state within 10s")
	}
	plans, err := p.mgr.Choose(db, 1)
	if err != nil {
		return nil, err
	}
	if len(plans) != 1 {
		return nil, fmt.Errorf("Choose returned %d plans", len(plans))
	}
	return plans[0].Targets, nil
}

// ------------------------------------------------------------------ layouts

// qLayout: how the shards of the database are spread over leaves, how many compute nodes, delivery schedule
type qLayout struct {
	leaves   [][]int // shard ids per leaf (a leaf may have none)
	computes int
	// root schedule: order in which the responses addressed to the root are delivered (indices into the
	// root's expected senders, sorted by indicator), and how many of them are delivered before the root's
	// own pipeline completes (i.e. inside its last SendRequest)
	order  []int
	before int
	// compute node schedule: order of leaf responses at every compute node (indices into leaves)
	corder []int
	free   bool // no schedule: responses are delivered as they come, concurrently
	// the last leaf is another storage node that never saw the metric (recorded as a leaf without shards)
	ghost bool
}

func (l *qLayout) event() trace.F {
	lv := [][]int{}
	for _, s := range l.leaves {
		lv = append(lv, append([]int{}, s...))
	}
	return trace.F{"leaves": lv, "computes": l.computes, "order": append([]int{}, l.order...), "before": l.before,
		"corder": append([]int{}, l.corder...), "free": l.free}
}

// ------------------------------------------------------------------ one history

type qHist struct {
	rec    *trace.Recorder
	rng    *rand.Rand
	sum    *trace.Summary
	dir    string
	dbName string
	engine tsdb.Engine
	db     tsdb.Database
	opt    *option.DatabaseOption
	nsh    int
	series []qSeries
	w      int
	base   int64 // ms, start of the first family (an hour)
	debug  bool
	kinds  map[string]int
	rows   []qRow
	fams   map[[2]int64]bool // (shard, family start ms) touched
	hangMs int
	// a second storage node whose database never saw the metric (its leaf answers "not found")
	ghost tsdb.Engine
	// the REAL broker state manager (coordinator/broker): plans the leaves of every layout (Choose)
	planner  *qPlanner
	planReal bool // the query driver only (other drivers use run() as a reader)
}

// ghostEngine opens (once) an engine with the same database and one shard in which nothing was ever written
func (h *qHist) ghostEngine() (tsdb.Engine, error) {
	if h.ghost != nil {
		return h.ghost, nil
	}
	e, err := openEngineAt(h.dir + "-ghost")
	if err != nil {
		return nil, err
	}
	if err := e.CreateShards(h.dbName, h.opt, models.ShardID(0)); err != nil {
		e.Close()
		return nil, err
	}
	h.ghost = e
	return e, nil
}

func (h *qHist) open() error {
	e, err := openEngineAt(h.dir)
	if err != nil {
		return err
	}
	h.engine = e
	return nil
}

func (h *qHist) create(nsh int) error {
	h.nsh = nsh
	h.opt = &option.DatabaseOption{Intervals: option.Intervals{{Interval: timeutil.Interval(qSiv * 1000),
		Retention: timeutil.Interval(3650 * 24 * 3600 * 1000)}}, AutoCreateNS: true}
	var ids []models.ShardID
	for i := 0; i < nsh; i++ {
		ids = append(ids, models.ShardID(i))
	}
	if err := h.engine.CreateShards(h.dbName, h.opt, ids...); err != nil {
		return err
	}
	db, ok := h.engine.GetDatabase(h.dbName)
	if !ok {
		return fmt.Errorf("database missing after create")
	}
	h.db = db
	return nil
}

func (h *qHist) family(shard int, ts int64) (tsdb.DataFamily, error) {
	sh, ok := h.db.GetShard(models.ShardID(shard))
	if !ok {
		return nil, fmt.Errorf("no shard %d", shard)
	}
	return sh.GetOrCrateDataFamily(ts)
}

func qSec(ms int64) []int64 { return []int64{ms / 1000, ms % 1000} }

func (h *qHist) metricOf(r *qRow) *protoMetricsV1.Metric {
	s := h.series[r.sid-1]
	m := &protoMetricsV1.Metric{Name: "cpu", Timestamp: r.ts,
		Tags: []*protoMetricsV1.KeyValue{{Key: "host", Value: s.host}, {Key: "dc", Value: s.dc}}}
	for i, f := range r.fields {
		m.SimpleFields = append(m.SimpleFields, &protoMetricsV1.SimpleField{Name: f, Value: float64(r.vals[i]), Type: qFieldByName(f).pt})
	}
	if r.hist != nil {
		m.CompoundField = &protoMetricsV1.CompoundField{Min: float64(r.hist[3]), Max: float64(r.hist[4]), Sum: float64(r.hist[5]), Count: float64(r.hist[6]),
			ExplicitBounds: qBounds, Values: []float64{float64(r.hist[0]), float64(r.hist[1]), float64(r.hist[2])}}
	}
	return m
}

// write hands rows (all of one shard and one family) to the family in the given order
func (h *qHist) write(shard int, rows []qRow) error {
	if len(rows) == 0 {
		return nil
	}
	var ms []*protoMetricsV1.Metric
	for i := range rows {
		ms = append(ms, h.metricOf(&rows[i]))
	}
	return h.writeStorage(shard, rows, storageRows(ms...))
}

// writeStorage writes the storage rows srows (the wire form of rows, same order) into their family
func (h *qHist) writeStorage(shard int, rows []qRow, srows []*metric.StorageRow) error {
	if len(rows) == 0 {
		return nil
	}
	if len(rows) != len(srows) {
		return fmt.Errorf("%d rows but %d storage rows", len(rows), len(srows))
	}
	f, err := h.family(shard, rows[0].ts)
	if err != nil {
		return err
	}
	pts := [][]any{}
	for i := range rows {
		h.w++
		rows[i].w = h.w
		if srows[i].Timestamp() != rows[i].ts {
			return fmt.Errorf("storage row %d has timestamp %d, expected %d", i, srows[i].Timestamp(), rows[i].ts)
		}
		names, vals := rows[i].points()
		for k, fn := range names {
			pts = append(pts, []any{rows[i].w, rows[i].sid, fn, rows[i].ts / 1000, rows[i].ts % 1000, vals[k]})
		}
	}
	if err := f.WriteRows(srows); err != nil {
		return err
	}
	if h.fams == nil {
		h.fams = map[[2]int64]bool{}
	}
	h.fams[[2]int64{int64(shard), f.FamilyTime()}] = true
	h.rows = append(h.rows, rows...)
	h.rec.Emit("Write", trace.F{"shard": shard, "fam": f.FamilyTime() / 1000, "pts": pts})
	h.kinds["Write"]++
	return nil
}

// files reports, for every family the history touched, the number of level-0 / level-1 files of its kv family
func (h *qHist) files() [][]int64 {
	out := [][]int64{}
	keys := make([][2]int64, 0, len(h.fams))
	for k := range h.fams {
		keys = append(keys, k)
	}
	sort.Slice(keys, func(i, j int) bool { return keys[i][0] < keys[j][0] || (keys[i][0] == keys[j][0] && keys[i][1] < keys[j][1]) })
	for _, k := range keys {
		f, err := h.family(int(k[0]), k[1])
		if err != nil {
			h.sum.Unresolved = append(h.sum.Unresolved, "family: "+err.Error())
			continue
		}
		snap := f.Family().GetSnapshot()
		v := snap.GetCurrent()
		out = append(out, []int64{k[0], k[1] / 1000, int64(v.NumberOfFilesInLevel(0)), int64(v.NumberOfFilesInLevel(1))})
		snap.Close()
	}
	return out
}

func (h *qHist) flush(shard int, famTs int64) error {
	f, err := h.family(shard, famTs)
	if err != nil {
		return err
	}
	if err := f.Flush(); err != nil {
		return err
	}
	h.rec.Emit("Flush", trace.F{"shard": shard, "fam": f.FamilyTime() / 1000, "files": h.files()})
	h.kinds["Flush"]++
	return nil
}

func (h *qHist) compact(shard int, famTs int64) error {
	f, err := h.family(shard, famTs)
	if err != nil {
		return err
	}
	f.Family().Compact()
	kv.VerifWaitFamily(f.Family())
	h.rec.Emit("Compact", trace.F{"shard": shard, "fam": f.FamilyTime() / 1000, "files": h.files()})
	h.kinds["Compact"]++
	return nil
}

func (h *qHist) reopen() error {
	// a clean restart: metadata, index, then data (Close flushes the memory databases)
	if err := h.db.FlushMeta(); err != nil {
		return err
	}
	h.db.WaitFlushMetaCompleted()
	for i := 0; i < h.nsh; i++ {
		sh, _ := h.db.GetShard(models.ShardID(i))
		if err := sh.FlushIndex(); err != nil {
			return err
		}
		sh.WaitFlushIndexCompleted()
	}
	h.engine.Close()
	h.engine = nil
	if err := h.open(); err != nil {
		return err
	}
	db, ok := h.engine.GetDatabase(h.dbName)
	if !ok {
		return fmt.Errorf("database missing after reopen")
	}
	h.db = db
	h.rec.Emit("Reopen", trace.F{"files": h.files()})
	h.kinds["Reopen"]++
	return nil
}

// ------------------------------------------------------------------ queries

type qItem struct {
	fn, f string
}

func (it qItem) sql() string {
	f := it.f
	if strings.HasPrefix(f, "__") {
		f = "'" + f + "'"
	}
	if it.fn == "" {
		return f
	}
	return it.fn + "(" + f + ")"
}

type qCond struct {
	op   string // none | eq | ne | in | notin | and | or
	k    string
	vs   []string
	l, r *qCond
}

func (c *qCond) sql() string {
	switch c.op {
	case "eq":
		return fmt.Sprintf("%s='%s'", c.k, c.vs[0])
	case "ne":
		return fmt.Sprintf("%s!='%s'", c.k, c.vs[0])
	case "like":
		return fmt.Sprintf("%s like '%s'", c.k, c.vs[0])
	case "in", "notin":
		q := []string{}
		for _, v := range c.vs {
			q = append(q, "'"+v+"'")
		}
		if c.op == "in" {
			return fmt.Sprintf("%s in (%s)", c.k, strings.Join(q, ","))
		}
		return fmt.Sprintf("%s not in (%s)", c.k, strings.Join(q, ","))
	case "and":
		return "(" + c.l.sql() + " and " + c.r.sql() + ")"
	case "or":
		return "(" + c.l.sql() + " or " + c.r.sql() + ")"
	}
	return ""
}

func (c *qCond) event() any {
	if c == nil {
		return trace.F{"op": "none"}
	}
	switch c.op {
	case "and", "or":
		return trace.F{"op": c.op, "l": c.l.event(), "r": c.r.event()}
	case "none":
		return trace.F{"op": "none"}
	}
	if c.op == "like" {
		// structured: kind of the pattern and its literal as characters (TLC has no string functions)
		pat := c.vs[0]
		kind, lit := "exact", pat
		switch {
		case pat == "*" || pat == "**":
			kind, lit = "any", ""
		case len(pat) > 1 && strings.HasPrefix(pat, "*") && strings.HasSuffix(pat, "*"):
			kind, lit = "contains", pat[1:len(pat)-1]
		case strings.HasPrefix(pat, "*"):
			kind, lit = "suffix", pat[1:]
		case strings.HasSuffix(pat, "*"):
			kind, lit = "prefix", pat[:len(pat)-1]
		}
		return trace.F{"op": "like", "k": c.k, "vs": []string{pat}, "kind": kind, "lit": qChars(lit)}
	}
	return trace.F{"op": c.op, "k": c.k, "vs": append([]string{}, c.vs...)}
}

type qQuery struct {
	from, to int64 // ms
	qiv      int64 // s, 0 = not given
	items    []qItem
	cond     *qCond
	group    []string
}

func qTime(ms int64) string { return time.UnixMilli(ms).UTC().Format("2006-01-02 15:04:05") }

func (q *qQuery) sql() string {
	its := []string{}
	for _, it := range q.items {
		its = append(its, it.sql())
	}
	s := "select " + strings.Join(its, ",") + " from cpu where time>='" + qTime(q.from) + "' and time<='" + qTime(q.to) + "'"
	if q.cond != nil && q.cond.op != "none" {
		s += " and " + q.cond.sql()
	}
	g := append([]string{}, q.group...)
	if q.qiv > 0 {
		g = append(g, fmt.Sprintf("time(%ds)", q.qiv))
	}
	if len(g) > 0 {
		s += " group by " + strings.Join(g, ",")
	}
	return s + " limit 1000"
}

func (q *qQuery) event() trace.F {
	its := []any{}
	for _, it := range q.items {
		its = append(its, trace.F{"fn": it.fn, "f": it.f, "t": qFieldByName(it.f).typ})
	}
	return trace.F{"from": qSec(q.from), "to": qSec(q.to), "qiv": q.qiv, "items": its, "cond": q.cond.event(),
		"group": append([]string{}, q.group...)}
}

// run executes the query under a layout and returns the fields of the Query event that describe the real answer
func (h *qHist) run(q *qQuery, lay *qLayout) (res trace.F, info string) {
	c := newQCluster()
	c.free = lay.free
	if lay.computes >= 2 {
		// the known hang (receive-only compute nodes never answer): do not wait the full timeout for it;
		// answers normally arrive within milliseconds
		c.timeout = time.Duration(h.hangMs) * time.Millisecond
	}
	root := &qNode{indicator: "9.9.9.9:9000", kind: "root", tm: newQTaskMgr()}
	c.nodes[root.indicator] = root
	dbCfg := models.Database{Name: h.dbName, Option: h.opt}
	var computes []*qNode
	for i := 0; i < lay.computes; i++ {
		n := &qNode{indicator: fmt.Sprintf("8.8.8.%d:9000", i+1), kind: "compute", tm: newQTaskMgr()}
		c.nodes[n.indicator] = n
		computes = append(computes, n)
	}
	var leaves []*qNode
	var leafTargets []*models.Target
	var leafNodes []*models.StatefulNode
	var leafShards [][]models.ShardID
	anyShard := false
	for i, sids := range lay.leaves {
		ln := &models.StatefulNode{StatelessNode: models.StatelessNode{HostIP: fmt.Sprintf("2.2.2.%d", i+1), GRPCPort: 2891}, ID: models.NodeID(i + 1)}
		fct := rpc.NewTaskServerFactory()
		fct.Register(root.indicator, &qStream{c: c, from: ln.Indicator(), to: root.indicator})
		for _, cn := range computes {
			fct.Register(cn.indicator, &qStream{c: c, from: ln.Indicator(), to: cn.indicator})
		}
		eng := h.engine
		ids := []models.ShardID{}
		for _, s := range sids {
			ids = append(ids, models.ShardID(s))
		}
		if lay.ghost && i == len(lay.leaves)-1 {
			g, err := h.ghostEngine()
			if err != nil {
				return trace.F{"ok": false, "err": "harness", "lost": 0}, "ghost engine: " + err.Error()
			}
			eng, ids = g, []models.ShardID{0}
		}
		n := &qNode{indicator: ln.Indicator(), kind: "leaf", proc: query.NewLeafTaskProcessor(ln, eng, fct)}
		c.nodes[n.indicator] = n
		leaves = append(leaves, n)
		leafTargets = append(leafTargets, &models.Target{Indicator: ln.Indicator(), ShardIDs: ids})
		leafNodes, leafShards = append(leafNodes, ln), append(leafShards, ids)
		if len(ids) > 0 {
			anyShard = true
		}
	}
	if h.planReal && !lay.ghost && len(leafNodes) > 0 {
		// the leaves that hold shards are planned by the real broker state manager; what it answers is an event (the
		// specification wants every shard of the layout exactly once, at the leaf that leads it) and is what the
		// root / the compute nodes get; leaves without shards (never a target of a real plan) stay the driver's
		if h.planner == nil {
			h.planner = newQPlanner(h.dbName, h.nsh, h.opt)
		}
		planned, perr := h.planner.plan(h.dbName, leafNodes, leafShards)
		if perr != nil && !((errors.Is(perr, constants.ErrShardNotFound) || errors.Is(perr, constants.ErrReplicaNotFound)) && !anyShard) {
			return trace.F{"ok": false, "err": "harness", "lost": 0}, "planner: " + perr.Error()
		}
		idxOf := map[string]int{}
		for i, n := range leafNodes {
			idxOf[n.Indicator()] = i + 1
		}
		tj := [][]any{}
		for _, t := range planned {
			ids := []int{}
			for _, sid := range t.ShardIDs {
				ids = append(ids, int(sid))
			}
			tj = append(tj, []any{idxOf[t.Indicator], ids})
		}
		lj := [][]int{}
		for _, ids := range leafShards {
			l := []int{}
			for _, sid := range ids {
				l = append(l, int(sid))
			}
			lj = append(lj, l)
		}
		h.rec.Emit("Plan", trace.F{"leaves": lj, "targets": tj})
		h.kinds["Plan"]++
		// a plan that is not the layout's (the specification rejects the Plan event) is not executed: the query runs on
		// the layout's own targets, so that a foreign plan cannot stall the driver
		same := len(planned) > 0 || !anyShard
		seen := map[int]bool{}
		for _, t := range planned {
			i := idxOf[t.Indicator]
			if i == 0 || seen[i] || len(t.ShardIDs) != len(leafShards[i-1]) {
				same = false
				break
			}
			seen[i] = true
			want := map[models.ShardID]bool{}
			for _, sid := range leafShards[i-1] {
				want[sid] = true
			}
			for _, sid := range t.ShardIDs {
				if !want[sid] {
					same = false
				}
				delete(want, sid)
			}
		}
		for i, ids := range leafShards {
			if len(ids) > 0 && !seen[i+1] {
				same = false
			}
		}
		if !same {
			h.kinds["Plan-foreign"]++
			planned = nil
			for i, x := range leafTargets {
				if len(leafShards[i]) > 0 {
					planned = append(planned, x)
				}
			}
		}
		var merged []*models.Target
		for _, t := range planned {
			cp := *t
			merged = append(merged, &cp)
		}
		for i, x := range leafTargets {
			if len(leafShards[i]) == 0 {
				merged = append(merged, x)
			}
		}
		leafTargets = merged
	}
	leafPlan := func() []*models.PhysicalPlan {
		var ts []*models.Target
		for _, x := range leafTargets {
			cp := *x
			ts = append(ts, &cp)
		}
		return []*models.PhysicalPlan{{Database: h.dbName, Targets: ts}}
	}
	ctrans := map[string]*qTransport{}
	for i, cn := range computes {
		sn := models.StatelessNode{HostIP: fmt.Sprintf("8.8.8.%d", i+1), GRPCPort: 9000}
		tr := &qTransport{self: cn, c: c}
		ctrans[cn.indicator] = tr
		cn.proc = query.NewIntermediateTaskProcessor(sn, c.timeout, &qChooser{db: dbCfg, plans: leafPlan}, cn.tm, tr)
	}
	rootPlans := leafPlan
	rootSenders := []string{}
	if lay.computes > 0 {
		rootPlans = func() []*models.PhysicalPlan {
			p := &models.PhysicalPlan{Database: h.dbName}
			for i, cn := range computes {
				p.AddTarget(&models.Target{Indicator: cn.indicator, ReceiveOnly: i != 0})
			}
			return []*models.PhysicalPlan{p}
		}
		for _, cn := range computes {
			rootSenders = append(rootSenders, cn.indicator)
		}
	} else {
		for _, ln := range leaves {
			rootSenders = append(rootSenders, ln.indicator)
		}
	}
	rtrans := &qTransport{self: root, c: c}
	// delivery schedules
	done := make(chan struct{})
	var wg sync.WaitGroup
	if !lay.free {
		// compute nodes: leaf responses in the given order, one at a time
		for _, cn := range computes {
			cn := cn
			wg.Add(1)
			go func() {
				defer wg.Done()
				for _, li := range lay.corder {
					if li >= len(leaves) {
						continue
					}
					d := c.take(leaves[li].indicator, cn.indicator, c.timeout)
					if d == nil {
						return
					}
					c.deliver(d)
				}
			}()
		}
		deliverRoot := func(idx int) bool {
			if idx >= len(rootSenders) {
				return true
			}
			d := c.take(rootSenders[idx], root.indicator, c.timeout)
			if d == nil {
				return false
			}
			c.deliver(d)
			return true
		}
		rtrans.afterSend = func(n int) {
			if n != len(rootSenders) {
				return
			}
			// the last request left: `before` responses reach the root before its own pipeline completes
			for i := 0; i < lay.before && i < len(lay.order); i++ {
				if !deliverRoot(lay.order[i]) {
					return
				}
			}
			wg.Add(1)
			go func() {
				defer wg.Done()
				// let the root's pipeline callback run (it follows the return of SendRequest on the same goroutine)
				time.Sleep(3 * time.Millisecond)
				for i := lay.before; i < len(lay.order); i++ {
					if !deliverRoot(lay.order[i]) {
						return
					}
				}
			}()
		}
	}
	sqlText := q.sql()
	st, err := sql.Parse(sqlText)
	if err != nil {
		return trace.F{"ok": false, "err": "parse"}, "parse: " + err.Error() + " :: " + sqlText
	}
	mgr := &query.SearchMgr{CurNode: models.StatelessNode{HostIP: "9.9.9.9", GRPCPort: 9000},
		Choose: &qChooser{db: dbCfg, plans: rootPlans}, TaskMgr: root.tm, TransportMgr: rtrans, Timeout: c.timeout}
	cctx, cancel := context.WithTimeout(context.Background(), c.timeout)
	defer cancel()
	begin := time.Now()
	rs, err := query.MetricDataSearch(cctx, &models.ExecuteParam{Database: h.dbName, SQL: sqlText}, st.(*stmt.Query), mgr)
	took := time.Since(begin)
	c.mu.Lock()
	c.closed = true
	c.cond.Broadcast()
	c.mu.Unlock()
	close(done)
	wg.Wait()
	c.mu.Lock()
	dlog := append([]string{}, c.log...)
	lost := append([]string{}, c.lost...)
	c.mu.Unlock()
	_ = dlog
	if err != nil {
		cls := "other"
		msg := err.Error()
		switch {
		case strings.Contains(msg, "timeout"):
			cls = "timeout"
		case strings.Contains(msg, "slice bounds out of range"):
			cls = "slicebounds"
		case strings.Contains(msg, "not found"):
			cls = "notfound"
		}
		return trace.F{"ok": false, "err": cls, "lost": len(lost)}, fmt.Sprintf("ERR after %v: %v", took.Round(time.Millisecond), err)
	}
	r := rs.(*commonmodels.ResultSet)
	// select item names as the result set spells them
	names := map[string]int{}
	for i, it := range st.(*stmt.Query).SelectItems {
		if si, ok := it.(*stmt.SelectItem); ok && si.Alias != "" {
			names[si.Alias] = i + 1
		} else {
			names[it.Rewrite()] = i + 1
		}
	}
	series := [][]string{}
	cells := [][]int64{}
	bad := []string{}
	for si, s := range r.Series {
		tv := []string{}
		for _, k := range q.group {
			tv = append(tv, s.Tags[k])
		}
		series = append(series, tv)
		fn := []string{}
		for n := range s.Fields {
			fn = append(fn, n)
		}
		sort.Strings(fn)
		for _, n := range fn {
			idx, ok := names[n]
			if !ok {
				bad = append(bad, "unknown result field "+n)
				continue
			}
			tss := []int64{}
			for t := range s.Fields[n] {
				tss = append(tss, t)
			}
			sort.Slice(tss, func(i, j int) bool { return tss[i] < tss[j] })
			for _, t := range tss {
				v := s.Fields[n][t]
				if v != math.Trunc(v) || math.Abs(v) >= 1e9 || t%1000 != 0 {
					bad = append(bad, fmt.Sprintf("series %d field %s t=%d v=%v", si+1, n, t, v))
					continue
				}
				cells = append(cells, []int64{int64(si + 1), int64(idx), t / 1000, int64(v)})
			}
		}
	}
	res = trace.F{"ok": true, "start": r.StartTime / 1000, "end": r.EndTime / 1000, "iv": r.Interval / 1000,
		"series": series, "cells": cells, "bad": bad, "lost": len(lost)}
	return res, fmt.Sprintf("%d series %d cells in %v", len(series), len(cells), took.Round(time.Millisecond))
}

func (h *qHist) query(q *qQuery, lay *qLayout, extra trace.F) {
	res, info := h.run(q, lay)
	ev := trace.F{"q": q.event(), "lay": lay.event(), "res": res, "sql": q.sql(), "conc": []int64{}}
	for k, v := range extra {
		ev[k] = v
	}
	h.rec.Emit("Query", ev)
	h.kinds["Query"]++
	if h.debug {
		fmt.Fprintf(os.Stderr, "Q %s\n   lay=%v\n   -> %s\n   %v\n", q.sql(), lay.event(), info, res)
	}
}

// concQuery runs the query while the family is being flushed: both start together (a small seeded head start for
// one of them); the Query event precedes the Flush event and names the family, the judge accepts what the query
// may have seen of that family's memory database (still memory / already a file) -- the reference does not care
func (h *qHist) concQuery(q *qQuery, lay *qLayout, shard int, famTs int64) error {
	f, err := h.family(shard, famTs)
	if err != nil {
		return err
	}
	var wg sync.WaitGroup
	var ferr error
	lead := time.Duration(h.rng.Intn(400)) * time.Microsecond
	flushFirst := h.rng.Intn(2) == 0
	wg.Add(1)
	go func() {
		defer wg.Done()
		if !flushFirst {
			time.Sleep(lead)
		}
		ferr = f.Flush()
	}()
	if flushFirst {
		time.Sleep(lead)
	}
	res, info := h.run(q, lay)
	wg.Wait()
	if ferr != nil {
		return ferr
	}
	h.rec.Emit("Query", trace.F{"q": q.event(), "lay": lay.event(), "res": res, "sql": q.sql(), "conc": []int64{int64(shard), f.FamilyTime() / 1000}})
	h.kinds["Query"]++
	h.kinds["QueryConcurrentWithFlush"]++
	if h.debug {
		fmt.Fprintf(os.Stderr, "Q(conc flush) %s\n   -> %s\n   %v\n", q.sql(), info, res)
	}
	h.rec.Emit("Flush", trace.F{"shard": shard, "fam": f.FamilyTime() / 1000, "files": h.files()})
	h.kinds["Flush"]++
	return nil
}

// ------------------------------------------------------------------ generators

func oneLeaf(nsh int) *qLayout {
	all := []int{}
	for i := 0; i < nsh; i++ {
		all = append(all, i)
	}
	return &qLayout{leaves: [][]int{all}, order: []int{0}, before: 0}
}

func (h *qHist) randItems() []qItem {
	rng := h.rng
	n := 1
	if rng.Intn(3) == 0 {
		n = 2 + rng.Intn(2)
	}
	seen := map[string]bool{}
	var out []qItem
	for len(out) < n {
		f := qFields[rng.Intn(len(qFields))]
		if rng.Intn(6) == 0 {
			f = qHistFields[rng.Intn(len(qHistFields))]
		}
		fs := qFuncsOf[f.typ]
		it := qItem{fn: fs[rng.Intn(len(fs))], f: f.name}
		if seen[it.sql()] {
			continue
		}
		seen[it.sql()] = true
		out = append(out, it)
	}
	return out
}

func (h *qHist) randCond() *qCond {
	rng := h.rng
	atom := func() *qCond {
		k := []string{"host", "dc"}[rng.Intn(2)]
		vals := map[string]bool{}
		for _, s := range h.series {
			if k == "host" {
				vals[s.host] = true
			} else {
				vals[s.dc] = true
			}
		}
		var vs []string
		for v := range vals {
			vs = append(vs, v)
		}
		sort.Strings(vs)
		switch rng.Intn(6) {
		case 5:
			v := vs[rng.Intn(len(vs))]
			c := string(v[rng.Intn(len(v))])
			pats := []string{c + "*", "*" + c, "*" + c + "*", v, "*", "**", v + "*", "*" + v}
			return &qCond{op: "like", k: k, vs: []string{pats[rng.Intn(len(pats))]}}
		case 0, 1:
			return &qCond{op: "eq", k: k, vs: []string{vs[rng.Intn(len(vs))]}}
		case 2:
			return &qCond{op: "ne", k: k, vs: []string{vs[rng.Intn(len(vs))]}}
		case 3:
			rng.Shuffle(len(vs), func(i, j int) { vs[i], vs[j] = vs[j], vs[i] })
			return &qCond{op: "in", k: k, vs: vs[:1+rng.Intn(len(vs))]}
		default:
			rng.Shuffle(len(vs), func(i, j int) { vs[i], vs[j] = vs[j], vs[i] })
			return &qCond{op: "notin", k: k, vs: vs[:1+rng.Intn(len(vs))]}
		}
	}
	switch rng.Intn(6) {
	case 0, 1, 2:
		return nil
	case 3, 4:
		return atom()
	default:
		return &qCond{op: []string{"and", "or"}[rng.Intn(2)], l: atom(), r: atom()}
	}
}

func (h *qHist) randQuery() *qQuery {
	rng := h.rng
	q := &qQuery{items: h.randItems(), cond: h.randCond()}
	switch rng.Intn(4) {
	case 0:
		q.group = []string{"host"}
	case 1:
		q.group = []string{"host", "dc"}
	case 2:
		q.group = []string{"dc"}
	}
	// range: inside the two families, whole, or cut
	span := int64(2 * 3600 * 1000)
	switch rng.Intn(4) {
	case 0:
		q.from, q.to = h.base, h.base+span-1000
	case 1:
		q.from, q.to = h.base, h.base+40*60*1000
	default:
		a := h.base + int64(rng.Intn(int(span/1000)))*1000
		b := h.base + int64(rng.Intn(int(span/1000)))*1000
		if a > b {
			a, b = b, a
		}
		q.from, q.to = a, b
	}
	if rng.Intn(2) == 0 {
		q.qiv = []int64{10, 20, 30, 60, 300, 600, 3600}[rng.Intn(7)]
	}
	return q
}

// hot slots (of 10 s) of the two families: duplicates, neighbours, beyond the 15-slot write window, family ends
var qHotSlots = []int{0, 1, 2, 7, 20, 21, 40, 200, 359, 360, 361, 380, 500, 719}

func (h *qHist) randRow() qRow {
	rng := h.rng
	r := qRow{sid: 1 + rng.Intn(len(h.series))}
	slot := qHotSlots[rng.Intn(len(qHotSlots))]
	if rng.Intn(6) == 0 {
		slot = rng.Intn(720)
	}
	r.ts = h.base + int64(slot)*qSiv*1000 + int64(rng.Intn(10000))
	for _, f := range qFields {
		if rng.Intn(5) > 0 {
			r.fields = append(r.fields, f.name)
			r.vals = append(r.vals, 1+rng.Intn(60))
		}
	}
	if rng.Intn(5) == 0 {
		// a histogram (compound field) on the same row
		b := []int{rng.Intn(3), rng.Intn(3), rng.Intn(2)}
		if b[0]+b[1]+b[2] == 0 {
			b[rng.Intn(3)] = 1
		}
		mn := 1 + rng.Intn(9)
		r.hist = []int{b[0], b[1], b[2], mn, mn + rng.Intn(300), 10 + rng.Intn(900), b[0] + b[1] + b[2]}
	}
	if len(r.fields) == 0 && r.hist == nil {
		r.fields, r.vals = []string{"s"}, []int{1 + rng.Intn(60)}
	}
	return r
}

func (h *qHist) famOf(ts int64) int64 { return ts / 3600000 * 3600000 }

var qBases = []time.Time{
	time.Date(2021, 3, 4, 10, 0, 0, 0, time.UTC),
	time.Date(2022, 2, 28, 23, 0, 0, 0, time.UTC),  // second family in the next day and month (another segment)
	time.Date(2020, 12, 31, 23, 0, 0, 0, time.UTC), // ... and year
	time.Date(2023, 7, 9, 0, 0, 0, 0, time.UTC),
}

func (h *qHist) resetEvent(mode string) {
	ft := map[string]string{}
	for _, f := range qFields {
		ft[f.name] = f.typ
	}
	for _, f := range qHistFields {
		ft[f.name] = f.typ
	}
	ft["zz"] = "sum" // never written
	ser := [][]string{}
	chars := map[string][]string{}
	for _, s := range h.series {
		ser = append(ser, []string{s.host, s.dc})
		chars[s.host] = qChars(s.host)
		chars[s.dc] = qChars(s.dc)
	}
	h.rec.Reset(trace.F{"mode": mode, "h": h.dbName, "siv": qSiv, "fields": ft, "series": ser, "keys": []string{"host", "dc"},
		"shards": h.nsh, "base": h.base / 1000, "chars": chars})
	h.kinds["Reset"]++
}

// c11History: one shard, random writes with flush / compact / reopen in between, queries at random points
func c11History(h *qHist, steps, nq int) error {
	rng := h.rng
	if err := h.open(); err != nil {
		return err
	}
	defer func() {
		if h.engine != nil {
			h.engine.Close()
		}
	}()
	if err := h.create(1); err != nil {
		return err
	}
	h.resetEvent("c11")
	lay := oneLeaf(1)
	fams := []int64{h.base, h.base + 3600000}
	for st := 0; st < steps; st++ {
		switch x := rng.Intn(10); {
		case x < 6:
			n := 1 + rng.Intn(6)
			byFam := map[int64][]qRow{}
			for i := 0; i < n; i++ {
				r := h.randRow()
				byFam[h.famOf(r.ts)] = append(byFam[h.famOf(r.ts)], r)
			}
			for _, f := range fams {
				if err := h.write(0, byFam[f]); err != nil {
					return err
				}
			}
		case x < 8:
			fam := fams[rng.Intn(2)]
			if len(h.rows) > 0 && rng.Intn(2) == 0 {
				// a query that overlaps the flush of writes that completed before it started
				q := h.randQuery()
				q.from, q.to = h.base, h.base+2*3600*1000-1000
				if err := h.concQuery(q, lay, 0, fam); err != nil {
					return err
				}
			} else if err := h.flush(0, fam); err != nil {
				return err
			}
		case x < 9:
			if err := h.compact(0, fams[rng.Intn(2)]); err != nil {
				return err
			}
		default:
			if err := h.reopen(); err != nil {
				return err
			}
		}
		if len(h.rows) > 0 && rng.Intn(3) == 0 {
			for i := 0; i < nq; i++ {
				h.query(h.randQuery(), lay, nil)
			}
		}
	}
	for i := 0; i < nq; i++ {
		h.query(h.randQuery(), lay, nil)
	}
	return nil
}

// route sends a batch through the broker's real routing (jump hash of the series over the shards, family
// grouping, wire form) and writes every (shard, family) group into its family; returns the rows per shard
func (h *qHist) route(batch []qRow) error {
	conv, release := metric.NewBrokerRowProtoConverter([]byte("default-ns"), nil, models.NewDefaultLimits())
	defer release(conv)
	bb := metric.NewBrokerBatchRows()
	defer bb.Release()
	byTs := map[int64]qRow{}
	for i := range batch {
		m := h.metricOf(&batch[i])
		byTs[batch[i].ts] = batch[i]
		if err := bb.TryAppend(func(row *metric.BrokerRow) error { return conv.ConvertTo(m, row) }); err != nil {
			return err
		}
	}
	it := bb.NewShardGroupIterator(int32(h.nsh))
	for it.HasRowsForNextShard() {
		shardIdx, fit := it.FamilyRowsForNextShard(timeutil.Interval(qSiv * 1000))
		for fit.HasNextFamily() {
			_, rows := fit.NextFamily()
			var buf bytes.Buffer
			for i := range rows {
				if _, err := rows[i].WriteTo(&buf); err != nil {
					return err
				}
			}
			sb := metric.NewStorageBatchRows()
			sb.UnmarshalRows(buf.Bytes())
			var grp []qRow
			for _, sr := range sb.Rows() {
				r, ok := byTs[sr.Timestamp()]
				if !ok {
					return fmt.Errorf("routed row with unknown timestamp %d", sr.Timestamp())
				}
				grp = append(grp, r)
			}
			if err := h.writeStorage(shardIdx, grp, sb.Rows()); err != nil {
				return err
			}
		}
	}
	return nil
}

// all partitions of the shards 0..n-1 into at most 3 non-empty leaves, optionally with one leaf without shards
func qPartitions(n int) [][][]int {
	var out [][][]int
	var rec func(i int, cur [][]int)
	rec = func(i int, cur [][]int) {
		if i == n {
			cp := [][]int{}
			for _, c := range cur {
				cp = append(cp, append([]int{}, c...))
			}
			out = append(out, cp)
			return
		}
		for k := range cur {
			cur[k] = append(cur[k], i)
			rec(i+1, cur)
			cur[k] = cur[k][:len(cur[k])-1]
		}
		if len(cur) < 3 {
			rec(i+1, append(cur, []int{i}))
		}
	}
	rec(0, nil)
	return out
}

func qPerms(n int) [][]int {
	if n == 0 {
		return [][]int{{}}
	}
	var out [][]int
	for _, p := range qPerms(n - 1) {
		for pos := 0; pos <= len(p); pos++ {
			q := append(append(append([]int{}, p[:pos]...), n-1), p[pos:]...)
			out = append(out, q)
		}
	}
	return out
}

// layouts of a database with nsh shards: every partition of the shards over <= 3 leaves (+ a leaf without
// shards), 0..2 compute nodes (group-by queries only, as the broker plans them), every delivery order of the
// responses to the root and every position of the root's own completion among them (sampled if too many)
func (h *qHist) layouts(nsh int, grouped bool, max int) []*qLayout {
	var all []*qLayout
	for _, part := range qPartitions(nsh) {
		variants := [][][]int{part}
		if len(part) < 3 {
			variants = append(variants, append(append([][]int{}, part...), []int{}))
		}
		for _, leaves := range variants {
			cmax := 0
			if grouped && len(leaves) >= 2 {
				cmax = 2
			}
			for c := 0; c <= cmax; c++ {
				senders := len(leaves)
				if c > 0 {
					senders = c
				}
				for oi, ord := range qPerms(senders) {
					for before := 0; before <= senders; before++ {
						if c >= 2 && (oi > 0 || before > 0) {
							continue // they all hang: one schedule per shape is enough
						}
						l := &qLayout{leaves: leaves, computes: c, order: ord, before: before}
						if c > 0 {
							cp := qPerms(len(leaves))
							l.corder = cp[h.rng.Intn(len(cp))]
						}
						all = append(all, l)
					}
				}
			}
		}
	}
	// the layouts with two compute nodes all hang (known): two of them per query are enough
	{
		var kept []*qLayout
		two := 0
		h.rng.Shuffle(len(all), func(i, j int) { all[i], all[j] = all[j], all[i] })
		for _, l := range all {
			if l.computes >= 2 {
				two++
				if two > 2 {
					continue
				}
			}
			kept = append(kept, l)
		}
		all = kept
	}
	if max > 0 && len(all) > max {
		h.rng.Shuffle(len(all), func(i, j int) { all[i], all[j] = all[j], all[i] })
		// keep every (leaves, computes) shape at least once
		seen := map[string]bool{}
		var keep, rest []*qLayout
		for _, l := range all {
			k := fmt.Sprint(l.leaves, l.computes)
			if !seen[k] {
				seen[k] = true
				keep = append(keep, l)
			} else {
				rest = append(rest, l)
			}
		}
		for len(keep) < max && len(rest) > 0 {
			keep = append(keep, rest[0])
			rest = rest[1:]
		}
		all = keep
	}
	return all
}

// c12History: the same kind of data spread by the real routing over 1..3 shards; every query is answered under
// many layouts (leaf partitions, compute nodes, delivery schedules); each answer is judged against the reference
var c12Directed bool // the history under way also asks the directed skewed-condition queries (its own sub-trace)

func c12History(h *qHist, nsh, batches, nq, maxLay int, sparse bool) error {
	rng := h.rng
	if err := h.open(); err != nil {
		return err
	}
	defer func() {
		if h.ghost != nil {
			h.ghost.Close()
			h.ghost = nil
		}
		if h.engine != nil {
			h.engine.Close()
		}
	}()
	if err := h.create(nsh); err != nil {
		return err
	}
	h.resetEvent("c12")
	fams := []int64{h.base, h.base + 3600000}
	for b := 0; b < batches; b++ {
		// every series at most once per batch: the routing sorts a batch, arrival order inside one series is kept
		perm := rng.Perm(len(h.series))
		n := 1 + rng.Intn(len(h.series))
		if sparse {
			// one series only: every row lands in one shard, the other shards hold nothing for the metric
			perm, n = []int{0}, 1
		}
		var batch []qRow
		used := map[int64]bool{}
		for _, si := range perm[:n] {
			r := h.randRow()
			r.sid = si + 1
			for used[r.ts] {
				r.ts++
			}
			used[r.ts] = true
			batch = append(batch, r)
		}
		if err := h.route(batch); err != nil {
			return err
		}
		switch rng.Intn(6) {
		case 0:
			if err := h.flush(rng.Intn(nsh), fams[rng.Intn(2)]); err != nil {
				return err
			}
		case 1:
			for s := 0; s < nsh; s++ {
				if err := h.flush(s, fams[rng.Intn(2)]); err != nil {
					return err
				}
			}
		}
	}
	for i := 0; i < nq; i++ {
		q := h.randQuery()
		if i%2 == 0 && len(q.group) == 0 {
			q.group = []string{"host"}
		}
		for _, lay := range h.layouts(nsh, len(q.group) > 0, maxLay) {
			h.query(q, lay, nil)
		}
		if i == 0 {
			// a statement that is an error on every leaf, delivered after and before the root's own completion:
			// the property wants the same answer (the error) both times
			eq := *q
			eq.items = []qItem{{"", "zz"}} // a field no row carries: every leaf answers "field not found"
			parts := qPartitions(nsh)
			lv := parts[len(parts)-1]
			ord := qPerms(len(lv))[0]
			h.query(&eq, &qLayout{leaves: lv, order: ord, before: 0}, nil)
			h.query(&eq, &qLayout{leaves: lv, order: ord, before: len(lv)}, nil)
		}
		if sparse && nsh == 3 {
			// leaves that hold nothing for the statement answer "not found": tolerated in EVERY position of the
			// delivery order (also last), before and after the root's own completion
			lv := [][]int{{0, 1}, {2}, {}}
			for _, ord := range qPerms(3) {
				for _, before := range []int{0, 3} {
					h.query(q, &qLayout{leaves: lv, order: ord, before: before, ghost: true}, nil)
				}
			}
		}
		// once without a schedule: responses handled concurrently as they come
		free := oneLeaf(nsh)
		parts := qPartitions(nsh)
		free.leaves = parts[len(parts)-1]
		free.free = true
		h.query(q, free, nil)
	}
	// conditions whose named values live in SOME shards only: with the series spread by the routing hash a shard
	// typically holds series of the metric but none under one of the values a negation / a disjunction names; such a
	// shard still contributes everything the condition selects there
	if nsh > 1 && (c12Directed || sparse) {
		hosts := map[string]bool{}
		for _, s := range h.series {
			hosts[s.host] = true
		}
		var hs []string
		for v := range hosts {
			hs = append(hs, v)
		}
		sort.Strings(hs)
		sumItem := []qItem{{"", "s"}}
		var conds []*qCond
		for _, v := range hs {
			conds = append(conds, &qCond{op: "ne", k: "host", vs: []string{v}})
			conds = append(conds, &qCond{op: "notin", k: "host", vs: []string{v, hs[0]}})
			for _, w := range hs {
				if w > v {
					conds = append(conds, &qCond{op: "or", l: &qCond{op: "eq", k: "host", vs: []string{v}}, r: &qCond{op: "eq", k: "host", vs: []string{w}}})
				}
			}
		}
		rng.Shuffle(len(conds), func(i, j int) { conds[i], conds[j] = conds[j], conds[i] })
		if len(conds) > 6 {
			conds = conds[:6]
		}
		for i, c := range conds {
			q := &qQuery{from: h.base, to: h.base + 2*3600*1000 - 1, items: sumItem, cond: c}
			if i%2 == 0 {
				q.group = []string{"host"}
			}
			lays := h.layouts(nsh, len(q.group) > 0, 4)
			for _, lay := range lays {
				h.query(q, lay, nil)
			}
		}
	}
	return nil
}

// ------------------------------------------------------------------ main

func queryMain(args []string) int {
	fs := flag.NewFlagSet("query", flag.ExitOnError)
	seed := fs.Int64("seed", 1, "seed")
	out := fs.String("out", "query.ndjson", "trace file")
	scratch := fs.String("scratch", "", "scratch directory")
	mode := fs.String("mode", "c11", "c11 | c12 | probe")
	hist := fs.Int("hist", 4, "histories")
	steps := fs.Int("steps", 14, "steps per history")
	nq := fs.Int("queries", 3, "queries per query point")
	debug := fs.Bool("debug", false, "print queries and answers to stderr")
	in := fs.String("in", "", "rerun: recorded sub-trace to execute again")
	maxLay := fs.Int("layouts", 40, "c12: layouts per query (0 = all)")
	hangMs := fs.Int("hangms", 500, "c12: how long a query through >= 2 compute nodes may take before it is logged as a timeout")
	_ = fs.Parse(args)
	time.Local = time.UTC
	rec, err := trace.New(*out)
	if err != nil {
		fmt.Fprintln(os.Stderr, err)
		return 2
	}
	sum := &trace.Summary{Module: "Query", Extra: map[string]any{}}
	if *scratch == "" {
		d, _ := os.MkdirTemp("", "vq")
		*scratch = d
		defer os.RemoveAll(d)
	}
	rng := rand.New(rand.NewSource(*seed))
	kinds := map[string]int{}
	nhist := *hist
	if *mode == "c12" {
		nhist += 2 // two more histories (2 and 3 shards) that also ask the directed skewed-condition queries
	}
	for i := 0; i < nhist; i++ {
		h := &qHist{rec: rec, rng: rng, sum: sum, dir: filepath.Join(*scratch, fmt.Sprintf("%s-%d", *mode, i)), dbName: fmt.Sprintf("db%d", i),
			debug: *debug, kinds: kinds, hangMs: *hangMs, planReal: true}
		h.base = qBases[rng.Intn(len(qBases))].UnixMilli()
		ns := 2 + rng.Intn(3)
		h.series = append([]qSeries{}, qAllSeries[:ns]...)
		var err error
		switch *mode {
		case "c11":
			err = c11History(h, *steps, *nq)
		case "c12":
			// every fourth history is sparse (one series, three shards)
			if i >= *hist {
				c12Directed = true
				err = c12History(h, 2+(i-*hist)%2, *steps, 1, 6, false)
				c12Directed = false
			} else if i%4 == 3 {
				err = c12History(h, 3, *steps, *nq, *maxLay, true)
			} else {
				err = c12History(h, 1+i%3, *steps, *nq, *maxLay, false)
			}
		case "probe":
			err = probeHistory(h)
		case "probe2":
			err = probe2History(h)
		case "rerun":
			err = rerunHistory(h, *in)
		}
		if err != nil {
			sum.Unresolved = append(sum.Unresolved, fmt.Sprintf("history %d: %v", i, err))
		}
		os.RemoveAll(h.dir)
	}
	rec.Close()
	sum.Traces, sum.Events = rec.Counts()
	sum.Extra["events_by_kind"] = kinds
	sum.Print()
	return 0
}

// probeHistory: the data of design probe E14, printed (exploration aid)
func probeHistory(h *qHist) error {
	h.debug = true
	if err := h.open(); err != nil {
		return err
	}
	defer func() {
		if h.engine != nil {
			h.engine.Close()
		}
	}()
	if err := h.create(1); err != nil {
		return err
	}
	h.series = []qSeries{{"a", "x"}, {"b", "x"}}
	h.resetEvent("c11")
	all := []string{"s", "mi", "ma", "la", "fi"}
	mk := func(sid int, off int64, v int) qRow {
		return qRow{sid: sid, ts: h.base + off, fields: all, vals: []int{v, v, v, v, v}}
	}
	_ = h.write(0, []qRow{mk(1, 0, 1), mk(1, 1000, 2), mk(2, 0, 10), mk(1, 10000, 4)})
	_ = h.flush(0, h.base)
	_ = h.write(0, []qRow{mk(1, 2000, 100), mk(2, 20000, 7)})
	lay := oneLeaf(1)
	for _, its := range [][]qItem{{{"", "s"}}, {{"", "la"}}, {{"", "fi"}}, {{"max", "s"}}, {{"min", "s"}}, {{"sum", "s"}, {"max", "s"}}, {{"", "mi"}, {"", "ma"}}} {
		for _, g := range [][]string{nil, {"host"}} {
			for _, iv := range []int64{0, 60} {
				h.query(&qQuery{from: h.base, to: h.base + 600000, qiv: iv, items: its, group: g}, lay, nil)
			}
		}
	}
	return nil
}

// probe2History: exploration of single effects (printed)
func probe2History(h *qHist) error {
	h.debug = true
	if err := h.open(); err != nil {
		return err
	}
	defer func() {
		if h.engine != nil {
			h.engine.Close()
		}
	}()
	if err := h.create(1); err != nil {
		return err
	}
	h.series = []qSeries{{"a", "x"}, {"b", "x"}}
	h.resetEvent("c11")
	all := []string{"s", "mi", "ma", "la", "fi"}
	mk := func(sid int, off int64, v int) qRow {
		return qRow{sid: sid, ts: h.base + off, fields: all, vals: []int{v, v, v, v, v}}
	}
	lay := oneLeaf(1)
	q := func(label string, its []qItem, g []string, from, to int64, iv int64) {
		fmt.Fprintln(os.Stderr, "##", label)
		h.query(&qQuery{from: h.base + from, to: h.base + to, qiv: iv, items: its, group: g}, lay, nil)
	}
	switch os.Getenv("PROBE") {
	case "emptyseries":
		_ = h.write(0, []qRow{mk(1, 0, 1)})
		_ = h.write(0, []qRow{mk(2, 3600000+10000, 5)})
		q("b only in family 2, memory", []qItem{{"", "la"}}, []string{"host"}, 0, 2400000, 0)
		_ = h.flush(0, h.base)
		_ = h.flush(0, h.base+3600000)
		q("b only in family 2, files", []qItem{{"", "la"}}, []string{"host"}, 0, 2400000, 0)
		_ = h.write(0, []qRow{mk(2, 3000000, 5)})
		q("b in family 1 outside the range", []qItem{{"", "la"}}, []string{"host"}, 0, 2400000, 0)
		q("b in family 1 outside the range", []qItem{{"", "la"}}, nil, 0, 2400000, 0)
	case "window":
		// slot 0, slot 20 (window moves), slot 0 again: one memory database, no flush
		_ = h.write(0, []qRow{mk(1, 0, 1)})
		_ = h.write(0, []qRow{mk(1, 200000, 2)})
		_ = h.write(0, []qRow{mk(1, 1000, 4)})
		for _, it := range []qItem{{"", "s"}, {"max", "s"}, {"min", "s"}, {"", "la"}, {"", "fi"}, {"sum", "la"}} {
			q("window moved away and back, memory", []qItem{it}, []string{"host"}, 0, 600000, 0)
		}
		_ = h.write(0, []qRow{mk(1, 201000, 8)})
		for _, it := range []qItem{{"", "s"}, {"", "la"}, {"", "fi"}} {
			q("... and away again (slot 0 of both buffers merged in the compressed buffer)", []qItem{it}, []string{"host"}, 0, 600000, 0)
		}
		_ = h.flush(0, h.base)
		for _, it := range []qItem{{"", "s"}, {"max", "s"}, {"", "la"}, {"", "fi"}} {
			q("after flush", []qItem{it}, []string{"host"}, 0, 600000, 0)
		}
	case "flushwindow":
		// a query that runs after the data file of a flush is visible (the new version is installed) and before the
		// flushed memory database is dropped: the family hands out the file AND the immutable memory database.
		// The window is entered through the sequence acknowledgement callback of the family, which the flush
		// calls exactly there.
		_ = h.write(0, []qRow{mk(1, 0, 3)})
		_ = h.write(0, []qRow{mk(1, 20000, 5)})
		f, err := h.family(0, h.base)
		if err != nil {
			return err
		}
		f.CommitSequence(1, 7)
		armed := false
		f.AckSequence(1, func(int64) {
			if !armed {
				return
			}
			armed = false
			for _, it := range []qItem{{"", "s"}, {"", "ma"}} {
				qq := &qQuery{from: h.base, to: h.base + 600000, qiv: 0, items: []qItem{it}, group: []string{"host"}}
				res, _ := h.run(qq, lay)
				h.rec.Emit("Query", trace.F{"q": qq.event(), "lay": lay.event(), "res": res, "sql": qq.sql(),
					"conc": []int64{0, h.base / 1000}, "window": "after-commit"})
			}
		})
		armed = true
		_ = f.Flush()
		h.rec.Emit("Flush", trace.F{"shard": 0, "fam": h.base / 1000, "files": h.files()})
		q("after the flush", []qItem{{"", "s"}}, []string{"host"}, 0, 600000, 0)
	case "memfile":
		// the same slot of one series in a file, in the immutable-then-flushed... and in the memory database
		_ = h.write(0, []qRow{mk(1, 0, 1)})
		_ = h.write(0, []qRow{mk(1, 1000, 2)})
		_ = h.flush(0, h.base)
		_ = h.write(0, []qRow{mk(1, 2000, 100)})
		for _, it := range []qItem{{"", "s"}, {"", "la"}, {"", "fi"}} {
			q("one file + memory, same slot", []qItem{it}, []string{"host"}, 0, 600000, 0)
		}
	case "compactlast":
		_ = h.write(0, []qRow{mk(1, 0, 1)})
		_ = h.flush(0, h.base)
		_ = h.write(0, []qRow{mk(1, 1000, 2)})
		_ = h.flush(0, h.base)
		_ = h.write(0, []qRow{mk(1, 2000, 4)})
		_ = h.flush(0, h.base)
		for _, it := range []qItem{{"", "s"}, {"", "la"}, {"", "fi"}, {"max", "s"}} {
			q("three files", []qItem{it}, []string{"host"}, 0, 600000, 0)
		}
		_ = h.compact(0, h.base)
		for _, it := range []qItem{{"", "s"}, {"", "la"}, {"", "fi"}, {"max", "s"}} {
			q("compacted", []qItem{it}, []string{"host"}, 0, 600000, 0)
		}
	case "hide":
		only := func(sid int, off int64, f string, v int) qRow {
			return qRow{sid: sid, ts: h.base + off, fields: []string{f}, vals: []int{v}}
		}
		eq := func(v string) *qCond { return &qCond{op: "eq", k: "host", vs: []string{v}} }
		qc := func(label string, f string, c *qCond) {
			fmt.Fprintln(os.Stderr, "##", label)
			h.query(&qQuery{from: h.base, to: h.base + 600000, items: []qItem{{"", f}}, cond: c, group: []string{"host"}}, lay, nil)
		}
		_ = h.write(0, []qRow{only(1, 0, "s", 1)})
		_ = h.flush(0, h.base)
		qc("a.s=1 in a file, no memory database", "s", eq("a"))
		_ = h.write(0, []qRow{only(2, 10000, "s", 2)})
		qc("... b.s=2 written to memory: where host=b (the file has no b)", "s", eq("b"))
		qc("... where host=a", "s", eq("a"))
		qc("... no condition", "s", nil)
		_ = h.write(0, []qRow{only(1, 20000, "ma", 7)})
		_ = h.flush(0, h.base)
		_ = h.write(0, []qRow{only(1, 30000, "mi", 3)})
		qc("a.ma=7 in a file, memory holds only field mi: select ma", "ma", nil)
		qc("... select mi (no file holds mi)", "mi", nil)
		_ = h.reopen()
		qc("after restart (all in files): select s", "s", nil)
		_ = h.write(0, []qRow{only(2, 40000, "s", 5)})
		qc("after restart b.s=5 written: where host=a (a only in files, memory index knows only b)", "s", eq("a"))
		qc("... where host=b", "s", eq("b"))
		qc("... no condition", "s", nil)
	case "histogram":
		hr := func(sid int, off int64, b0, b1, b2, mn, mx, sm int) qRow {
			return qRow{sid: sid, ts: h.base + off, hist: []int{b0, b1, b2, mn, mx, sm, b0 + b1 + b2}}
		}
		_ = h.write(0, []qRow{hr(1, 0, 2, 1, 0, 3, 50, 60), hr(1, 1000, 0, 4, 1, 20, 500, 700)})
		_ = h.flush(0, h.base)
		_ = h.write(0, []qRow{hr(1, 2000, 1, 0, 0, 5, 5, 5)})
		for _, f := range []string{"HistogramSum", "HistogramCount", "HistogramMin", "HistogramMax", "__bucket_10", "__bucket_100", "__bucket_+Inf"} {
			fmt.Fprintln(os.Stderr, "##", f)
			h.query(&qQuery{from: h.base, to: h.base + 600000, items: []qItem{{"", f}}, group: []string{"host"}}, lay, nil)
		}
	case "like":
		_ = h.write(0, []qRow{mk(1, 0, 1), mk(2, 0, 2)})
		for _, pat := range []string{"a*", "*a", "*a*", "a", "*", "**"} {
			fmt.Fprintln(os.Stderr, "## like", pat)
			h.query(&qQuery{from: h.base, to: h.base + 600000, items: []qItem{{"", "s"}}, cond: &qCond{op: "like", k: "host", vs: []string{pat}}, group: []string{"host"}}, lay, nil)
		}
	case "windowend":
		_ = h.write(0, []qRow{mk(1, 10000, 1)})
		_ = h.write(0, []qRow{mk(1, 70000, 2)})
		q("slots 1 and 7 written", []qItem{{"", "s"}}, []string{"host"}, 0, 600000, 0)
		_ = h.write(0, []qRow{mk(1, 20000, 4)})
		q("... then slot 2 (new, inside the window)", []qItem{{"", "s"}}, []string{"host"}, 0, 600000, 0)
		_ = h.flush(0, h.base)
		q("... flushed", []qItem{{"", "s"}}, []string{"host"}, 0, 600000, 0)
	case "hide2":
		only := func(sid int, off int64, f string, v int) qRow {
			return qRow{sid: sid, ts: h.base + off, fields: []string{f}, vals: []int{v}}
		}
		eq := func(v string) *qCond { return &qCond{op: "eq", k: "host", vs: []string{v}} }
		qc := func(label string, f string, c *qCond) {
			fmt.Fprintln(os.Stderr, "##", label)
			h.query(&qQuery{from: h.base, to: h.base + 600000, items: []qItem{{"", f}}, cond: c}, lay, nil)
		}
		_ = h.write(0, []qRow{only(1, 0, "s", 1)})
		_ = h.flush(0, h.base)
		_ = h.write(0, []qRow{only(1, 10000, "ma", 7)})
		_ = h.flush(0, h.base)
		_ = h.write(0, []qRow{only(2, 20000, "ma", 9)})
		qc("file X: a.s, file Y: a.ma, memory: b.ma -- select ma where host=b", "ma", eq("b"))
		_ = h.reopen()
		_ = h.write(0, []qRow{only(2, 30000, "ma", 11)})
		qc("... after restart (3 files) and b.ma again in memory", "ma", eq("b"))
	case "nodata":
		_ = h.write(0, []qRow{mk(1, 0, 1)})
		q("range without data", []qItem{{"", "s"}}, []string{"host"}, 1200000, 2400000, 0)
		q("range in a family that does not exist", []qItem{{"", "s"}}, []string{"host"}, 2 * 3600000, 3 * 3600000, 0)
		h.query(&qQuery{from: h.base, to: h.base + 600000, items: []qItem{{"", "s"}}, cond: &qCond{op: "eq", k: "host", vs: []string{"zz"}}}, lay, nil)
		h.query(&qQuery{from: h.base, to: h.base + 600000, items: []qItem{{"", "s"}}, cond: &qCond{op: "eq", k: "host", vs: []string{"b"}}}, lay, nil)
		h.query(&qQuery{from: h.base, to: h.base + 600000, items: []qItem{{"", "s"}}, cond: &qCond{op: "eq", k: "rack", vs: []string{"b"}}}, lay, nil)
		h.query(&qQuery{from: h.base, to: h.base + 600000, items: []qItem{{"avg", "s"}}}, lay, nil)
		h.query(&qQuery{from: h.base, to: h.base + 600000, items: []qItem{{"", "nofield"}}}, lay, nil)
	}
	return nil
}

// ------------------------------------------------------------------ re-execution of a recorded history
// rerunHistory executes the Write / Flush / Compact / Reopen / Query events of a recorded sub-trace again on a
// fresh engine and records a new trace (exploration aid: is a rejected answer reproducible?)
func rerunHistory(h *qHist, path string) error {
	data, err := os.ReadFile(path)
	if err != nil {
		return err
	}
	var evs []map[string]any
	for _, ln := range strings.Split(string(data), "\n") {
		if strings.TrimSpace(ln) == "" {
			continue
		}
		var m map[string]any
		if err := json.Unmarshal([]byte(ln), &m); err != nil {
			return err
		}
		evs = append(evs, m)
	}
	num := func(v any) int64 { return int64(v.(float64)) }
	var cond func(m map[string]any) *qCond
	cond = func(m map[string]any) *qCond {
		op := m["op"].(string)
		switch op {
		case "none":
			return nil
		case "and", "or":
			return &qCond{op: op, l: cond(m["l"].(map[string]any)), r: cond(m["r"].(map[string]any))}
		}
		c := &qCond{op: op, k: m["k"].(string)}
		for _, v := range m["vs"].([]any) {
			c.vs = append(c.vs, v.(string))
		}
		return c
	}
	if err := h.open(); err != nil {
		return err
	}
	defer func() {
		if h.engine != nil {
			h.engine.Close()
		}
	}()
	for _, e := range evs {
		switch e["ev"].(string) {
		case "Reset":
			h.series = nil
			for _, s := range e["series"].([]any) {
				t := s.([]any)
				h.series = append(h.series, qSeries{t[0].(string), t[1].(string)})
			}
			h.base = num(e["base"]) * 1000
			if err := h.create(int(num(e["shards"]))); err != nil {
				return err
			}
			h.resetEvent(e["mode"].(string))
		case "Write":
			var rows []qRow
			byW := map[int64]int{}
			for _, p := range e["pts"].([]any) {
				t := p.([]any)
				w, sid, f, ts, v := num(t[0]), int(num(t[1])), t[2].(string), num(t[3])*1000+num(t[4]), int(num(t[5]))
				idx, ok := byW[w]
				if !ok {
					rows = append(rows, qRow{sid: sid, ts: ts})
					idx = len(rows) - 1
					byW[w] = idx
				}
				r := &rows[idx]
				if strings.HasPrefix(f, "Histogram") || strings.HasPrefix(f, "__bucket_") {
					if r.hist == nil {
						r.hist = make([]int, 7)
					}
					switch f {
					case "__bucket_10":
						r.hist[0] = v
					case "__bucket_100":
						r.hist[1] = v
					case "__bucket_+Inf":
						r.hist[2] = v
					case "HistogramMin":
						r.hist[3] = v
					case "HistogramMax":
						r.hist[4] = v
					case "HistogramSum":
						r.hist[5] = v
					case "HistogramCount":
						r.hist[6] = v
					}
				} else {
					r.fields = append(r.fields, f)
					r.vals = append(r.vals, v)
				}
			}
			if err := h.write(int(num(e["shard"])), rows); err != nil {
				return err
			}
		case "Flush":
			if err := h.flush(int(num(e["shard"])), num(e["fam"])*1000); err != nil {
				return err
			}
		case "Compact":
			if err := h.compact(int(num(e["shard"])), num(e["fam"])*1000); err != nil {
				return err
			}
		case "Reopen":
			if err := h.reopen(); err != nil {
				return err
			}
		case "Query":
			qe := e["q"].(map[string]any)
			q := &qQuery{qiv: num(qe["qiv"]), cond: cond(qe["cond"].(map[string]any))}
			fr, to := qe["from"].([]any), qe["to"].([]any)
			q.from, q.to = num(fr[0])*1000+num(fr[1]), num(to[0])*1000+num(to[1])
			for _, it := range qe["items"].([]any) {
				m := it.(map[string]any)
				q.items = append(q.items, qItem{fn: m["fn"].(string), f: m["f"].(string)})
			}
			for _, g := range qe["group"].([]any) {
				q.group = append(q.group, g.(string))
			}
			le := e["lay"].(map[string]any)
			lay := &qLayout{computes: int(num(le["computes"])), before: int(num(le["before"])), free: le["free"].(bool)}
			for _, l := range le["leaves"].([]any) {
				sh := []int{}
				for _, x := range l.([]any) {
					sh = append(sh, int(num(x)))
				}
				lay.leaves = append(lay.leaves, sh)
			}
			for _, x := range le["order"].([]any) {
				lay.order = append(lay.order, int(num(x)))
			}
			for _, x := range le["corder"].([]any) {
				lay.corder = append(lay.corder, int(num(x)))
			}
			h.query(q, lay, nil)
		}
	}
	return nil
}
