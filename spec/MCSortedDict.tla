---------------------------- MODULE MCSortedDict ----------------------------
(* Leg M of C20: the algebra of the sorted-map reference, checked on EVERY key   *)
(* set of at most MaxKeys keys of length <= MaxLen over Alphabet (including the  *)
(* empty key and keys that are prefixes of others) and on every probe of length  *)
(* <= MaxLen+1.  The machine collects a key set key by key (ascending, so each   *)
(* set is reached once), builds it, loads it, splits it in two and merges.       *)
EXTENDS SortedDict
CONSTANTS Alphabet, MaxLen, MaxKeys
VARIABLES phase, pend
mcvars == <<vars, phase, pend>>

RECURSIVE Strings(_)
Strings(n) == IF n = 0 THEN {<< >>}
              ELSE LET S == Strings(n - 1) IN S \cup {Append(s, a) : s \in {x \in S : Len(x) = n - 1}, a \in Alphabet}
Universe == Strings(MaxLen)
Probes == Strings(MaxLen + 1)
Lits == {p \in Strings(2) : Len(p) >= 1}

RECURSIVE Code(_)
Code(k) == IF k = << >> THEN 0 ELSE Code(SubSeq(k, 1, Len(k) - 1)) * (Cardinality(Alphabet) + 1) + k[Len(k)] + 1
ValOf(k) == (Code(k) * 7) % 100003       \* injective on the universe, not monotone in the key
Pairs(K) == {<<k, ValOf(k)>> : k \in K}

\* the order is a strict total order on everything the model touches
ASSUME \A a, b \in Universe : (Lt(a, b) /\ ~Lt(b, a) /\ a # b) \/ (Lt(b, a) /\ ~Lt(a, b) /\ a # b) \/ (a = b /\ ~Lt(a, b))
ASSUME \A a, b, c \in Universe : Lt(a, b) /\ Lt(b, c) => Lt(a, c)
ASSUME \A a, b \in Universe : ValOf(a) = ValOf(b) => a = b
ASSUME \A a \in Alphabet : a \in 0..255

RECURSIVE SortedSeq(_)
SortedSeq(K) == IF K = {} THEN << >>
              ELSE LET m == CHOOSE x \in K : \A y \in K : Le(x, y) IN <<m>> \o SortedSeq(K \ {m})
ValSeq(D, ks) == [i \in 1..Len(ks) |-> Get(D, ks[i])]
Rev(s) == [i \in 1..Len(s) |-> s[Len(s) + 1 - i]]
DropAt(s, i) == SubSeq(s, 1, i - 1) \o SubSeq(s, i + 1, Len(s))
SwapAt(s, i) == [j \in 1..Len(s) |-> IF j = i THEN s[i + 1] ELSE IF j = i + 1 THEN s[i] ELSE s[j]]
IdxOf(ks, k) == CHOOSE i \in 1..Len(ks) : ks[i] = k

MCInit == Init /\ phase = "collect" /\ pend = {}
AddKey == /\ phase = "collect" /\ Cardinality(pend) < MaxKeys
          /\ \E k \in Universe : (\A x \in pend : Lt(x, k)) /\ pend' = pend \cup {k}
          /\ UNCHANGED <<dicts, phase>>
DoBuild == phase = "collect" /\ Build(1, Pairs(pend)) /\ phase' = "built" /\ UNCHANGED pend
DoLoad == phase = "built" /\ Load(2, 1) /\ phase' = "loaded" /\ UNCHANGED pend
\* two ways of cutting the dictionary in two parts (alternating / first key apart), then merging them
Part(way) == LET ks == SortedSeq(pend) IN
             IF way = 1 THEN {ks[i] : i \in {j \in 1..Len(ks) : j % 2 = 1}} ELSE {ks[i] : i \in {j \in 1..Len(ks) : j = 1}}
DoSplit == /\ phase = "built"
           /\ \E way \in 1..2 :
                dicts' = [x \in {1, 3, 4} |-> IF x = 1 THEN dicts[1] ELSE IF x = 3 THEN Pairs(Part(way)) ELSE Pairs(pend \ Part(way))]
           /\ phase' = "split" /\ UNCHANGED pend
DoMerge == phase = "split" /\ Merge(5, {3, 4}) /\ phase' = "merged" /\ UNCHANGED pend
MCNext == AddKey \/ DoBuild \/ DoLoad \/ DoSplit \/ DoMerge
MCSpec == MCInit /\ [][MCNext]_mcvars

Built == phase = "built"       \* the query invariants are evaluated once per key set, on the freshly built dictionary
D1 == dicts[1]
K1 == KeysOf(D1)

\* ---- invariants (all quantify over every probe); S is the sorted key sequence of dictionary 1
\* ordered iteration: the sorted sequence is a strictly ascending permutation of the keys; the judges accept the
\* reference answer and reject its neighbours (an element dropped, two adjacent elements swapped, a wrong id)
IterationIsSortedMapS(S) ==
           /\ Asc(S) /\ ToSet(S) = K1 /\ Len(S) = Cardinality(K1)
           /\ IterOK(D1, S, ValSeq(D1, S)) /\ IterBackOK(D1, Rev(S), ValSeq(D1, Rev(S)))
           /\ \A i \in 1..Len(S) : ~IterOK(D1, DropAt(S, i), ValSeq(D1, DropAt(S, i)))
           /\ \A i \in 1..(Len(S) - 1) : ~IterOK(D1, SwapAt(S, i), ValSeq(D1, SwapAt(S, i)))
           /\ \A i \in 1..Len(S) : ~IterOK(D1, S, [ValSeq(D1, S) EXCEPT ![i] = @ + 1])
IterationIsSortedMap == Built => IterationIsSortedMapS(SortedSeq(K1))
\* exact lookup agrees with iteration; absent keys -- in particular proper prefixes and extensions of present keys -- are absent
LookupIsMembership ==
  Built => LET K == K1 IN \A p \in Probes :
     /\ (Get(D1, p) # Absent) <=> (p \in K)
     /\ p \in K => Get(D1, p) = ValOf(p)
     /\ GetOK(D1, K, p, p \in K, Get(D1, p)) /\ ~GetOK(D1, K, p, p \notin K, Get(D1, p))
     /\ p \in K => ~GetOK(D1, K, p, TRUE, Get(D1, p) + 1)
     /\ (p \notin K /\ \E k \in K : IsPrefix(p, k) \/ IsPrefix(k, p)) => Get(D1, p) = Absent
\* the keys with a prefix are one contiguous run of the order, starting at the least key >= the prefix:
\* this is what makes "seek, then scan while the prefix matches" a correct prefix enumeration
FirstOf(P) == CHOOSE i \in P : \A j \in P : i <= j
PrefixIsARangeS(S, K) ==
  \A p \in Probes :
     LET P == {i \in 1..Len(S) : IsPrefix(p, S[i])} IN
     /\ \A i, j \in P : \A m \in i..j : m \in P
     /\ P # {} => IsLeast(GE(K, p), S[FirstOf(P)])
     /\ LET run == [i \in 1..Cardinality(P) |-> S[FirstOf(P) + i - 1]]
        IN PrefixOK(D1, p, run, ValSeq(D1, run))
PrefixIsARange == Built => PrefixIsARangeS(SortedSeq(K1), K1)
\* whatever position Seek is allowed to report (ideal or a named deviation), scanning forward from it while
\* the prefix matches enumerates exactly the keys with the prefix: the deviations cannot be seen through prefix iteration
ScanFrom(S, p, r) ==
  LET s == IdxOf(S, r) IN {S[j] : j \in {x \in s..Len(S) : \A m \in s..x : IsPrefix(p, S[m])}}
SeekThenScanS(S, K) ==
  \A p \in Probes :
     /\ \A r \in K : SeekOK(K, p, TRUE, r) => ScanFrom(S, p, r) = {k \in K : IsPrefix(p, k)}
     /\ SeekOK(K, p, FALSE, << >>) => {k \in K : IsPrefix(p, k)} = {}
     /\ (\E r \in K : SeekOK(K, p, TRUE, r)) \/ SeekOK(K, p, FALSE, << >>)
SeekThenScanIsPrefixEnumeration == Built => SeekThenScanS(SortedSeq(K1), K1)
\* the property as stated: seek = least key >= probe (false under the Seek deviations)
SeekIsLeastUpperBound ==
  Built => LET K == K1 IN
           \A p \in Probes : /\ \A r \in K : SeekOK(K, p, TRUE, r) => SeekIdeal(K, p, TRUE, r)
                             /\ SeekOK(K, p, FALSE, << >>) => SeekIdeal(K, p, FALSE, << >>)
SuggestS(S, K) ==
  \A p \in Probes : \A limit \in 1..3 :
     LET P == {i \in 1..Len(S) : IsPrefix(p, S[i])}
         n == MinI(limit, Cardinality(P))
         head == [i \in 1..n |-> S[FirstOf(P) + i - 1]]
     IN SuggestOK(K, p, limit, head) /\ (n > 0 => ~SuggestOK(K, p, limit, SubSeq(head, 1, n - 1)))
SuggestIsPrefixHead == Built => SuggestS(SortedSeq(K1), K1)
\* marshal then unmarshal gives the same dictionary, hence the same answer to every query
LoadIsIdentity == phase = "loaded" => dicts[2] = dicts[1]
\* merge = union: every key answers as in the part that holds it, nothing else appears, order is the merged order
MergeIsUnion ==
  phase = "merged" =>
     /\ dicts[5] = dicts[1] /\ IsDict(dicts[5])
     /\ KeysOf(dicts[3]) \cap KeysOf(dicts[4]) = {}
     /\ \A p \in Probes : Get(dicts[5], p) = (IF p \in KeysOf(dicts[3]) THEN Get(dicts[3], p) ELSE Get(dicts[4], p))
     /\ LET s == SortedSeq(KeysOf(dicts[5])) IN
        \A x \in 3..4 : SortedSeq(KeysOf(dicts[x])) = SelectSeq(s, LAMBDA k : k \in KeysOf(dicts[x]))
\* like/regex: scanning only the keys that start with the pattern's literal prefix finds every match iff the pattern is anchored
LitPrefix(kind, lits) ==
  IF kind \in {"prefix", "prefixany", "exact"} /\ Len(lits) = 1 THEN lits[1]
  ELSE IF Deviation_RegexScansLiteralPrefixOnly /\ kind \in {"bare", "suffix"} /\ Len(lits) = 1 THEN lits[1]
  ELSE << >>
PatternScanIsComplete ==
  Built => \A kind \in {"prefix", "prefixany", "exact", "suffix", "contains", "bare"} : \A l \in Lits :
     LET scanned == WithPrefix(D1, LitPrefix(kind, <<l>>)) IN
     {kv[2] : kv \in {x \in scanned : RegexMatch(kind, <<l>>, x[1])}} = {kv[2] : kv \in {x \in D1 : RegexMatch(kind, <<l>>, x[1])}}
=============================================================================
