\* the code BEFORE the repair: a family is created on the closed store of an evicted segment object -- must violate NoOrphanFamily
CONSTANTS
  Writer = {w1, w2}
  MaxObj = 3
  MaxFam = 3
  MaxRow = 3
  ClosedSegmentRejects = FALSE
  ClosedFamilyRejects = TRUE
SPECIFICATION Spec
INVARIANTS NoOrphanFamily
CHECK_DEADLOCK FALSE
