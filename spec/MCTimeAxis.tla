----------------------------- MODULE MCTimeAxis -----------------------------
(* Bounded instance of TimeAxis: a six-year window (2019-01-01 .. 2025-01-01, leap day 2020-02-29), *)
(* every hour edge of every day -1 ms / 0 / +1 ms and a mid point, every interval of MCIntervals;   *)
(* planner inputs around every threshold of the interval selection; a shard around a month edge.    *)
EXTENDS TimeAxis
CONSTANTS MCHours,        \* hours of each day whose edges are visited
          MCPool          \* stored intervals the planner may be configured with

WinFirstDay == 17897      \* 2019-01-01
WinLastDay == 20089       \* 2025-01-01
Around(s) == {Minus1ms(<<s, 0>>), <<s, 0>>, Plus1ms(<<s, 0>>), <<s + 1799, 500>>}
MCInstantsOf(g) == IF g[1] = "day" THEN UNION {Around(g[2] * DaySec + h * HourSec) : h \in MCHours} ELSE {}
MCIntervals == {1, 7, 10, 60, 299, 300, 420, 1800, 3599, 3600, 7200, 18000, 86400, 30 * 86400, 365 * 86400}

OptSets == {S \in SUBSET MCPool : S # {} /\ \A a, b \in S : a # b => TypeOf(a) # TypeOf(b)}
AddDur(f, len) == <<f[1] + len[1] + (f[2] + len[2]) \div 1000, (f[2] + len[2]) % 1000>>
Froms == {<<1564617600, 0>>,            \* 2019-08-01T00:00:00
          <<1567295999, 999>>,          \* 2019-08-31T23:59:59.999
          <<1582934400 + 47 * 3600 + 1234, 567>>,  \* 2020-03-01 (after the leap day) 23:20:34.567
          <<1577836799, 1>>}            \* 2019-12-31T23:59:59.001
Edge(s) == {<<s - 1, 999>>, <<s, 0>>}
Lens == {<<0, 0>>, <<59, 999>>, <<86400 * 200, 1>>}
        \cup UNION {Edge(k) : k \in {HourSec, 3 * HourSec, 6 * HourSec, 12 * HourSec, DaySec, 2 * DaySec,
                                     7 * DaySec, 30 * DaySec, 60 * DaySec, 90 * DaySec}}
MCPlanInputsOf(g) ==
  IF g[1] = "opts"
  THEN {[opts |-> g[2], qiv |-> q, auto |-> a, from |-> f, to |-> AddDur(f, len)] :
          q \in {0, 1, 10, 45, 300, 7200, 100000}, a \in BOOLEAN, f \in Froms, len \in Lens}
  ELSE {}
MCGroups == {<<"day", d>> : d \in WinFirstDay..WinLastDay} \cup {<<"opts", o>> : o \in OptSets}
\* the calendar walk starts at the epoch, which is 1970-01-01 by definition
Epoch == [y |-> 1970, m |-> 1, d |-> 1]

\* a shard of the month calculator (families = days) around 2019-08-31 / 2019-09-01
MCShardInterval == 300
Noon(y, m, d) == <<DaysFromCivil(y, m, d) * DaySec + 12 * HourSec, 0>>
MCShardInstants == {Noon(2019, 8, 5), Noon(2019, 8, 25), Noon(2019, 8, 31), Noon(2019, 9, 1), Noon(2019, 9, 3), Noon(2019, 9, 25)}
=============================================================================
