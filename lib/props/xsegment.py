"""XSEGMENT -- life cycle of the segments of a shard interval (module SegmentLifecycle): an extension beyond the listed
properties (DESIGN 0.8): GetOrCreateSegment / GetOrCreateDataFamily against the TTL task's EvictSegment and Evict."""
import concurrent.futures
import json
import os

import vcore

DEVIATIONS = ["MCSegmentLifecycle_code_latewrite.cfg", "MCSegmentLifecycle_dev_orphan.cfg", "MCSegmentLifecycle_dev_orphan2.cfg",
              "MCSegmentLifecycle_dev_orphan3.cfg"]


def describe(sig, lines, rel, info):
    head = "".join(lines[:rel])
    kind = "evict-window" if '"ev":"EvictClose"' in head else "sequential"
    return "%s:%s" % (sig, kind)


def run(ctx, replay):
    if replay:
        ok, info = ctx.validate_trace("SegmentLifecycleTrace", "SegmentLifecycleTrace.cfg", replay, dfs=False)
        if not ok:
            ctx.violation("SegmentLifecycle:replay", "replayed trace rejected: %s" % info, replay_src=replay)
        return
    segment_leg(ctx, ctx.tier == "thorough")


def segment_leg(ctx, thorough):
    # M: the design with both windows closed satisfies everything; the code (since the repair) the core properties; the
    # remaining window of the code and the code before the repair violate the property they are named for
    ctx.model_check("MCSegmentLifecycle", "MCSegmentLifecycle_thorough.cfg" if thorough else "MCSegmentLifecycle.cfg", timeout=3600)
    ctx.model_check("MCSegmentLifecycle", "MCSegmentLifecycle_code.cfg", timeout=1800)
    with concurrent.futures.ThreadPoolExecutor(max_workers=4) as ex:
        futs = [ex.submit(ctx.model_check, "MCSegmentLifecycle", c, expect="violation", timeout=900, workers=4) for c in DEVIATIONS]
        for f in futs:
            f.result()
    # M, unbounded in the number of steps: an inductive invariant of the repaired design (7 segment objects, 7 family objects,
    # 6 rows, 2 writers) discharged by Apalache; it must have models with an evicted object held by a writer, and the
    # inductive step must fail for the code before the repair 129c8b7
    ctx.apalache("SegmentLifecycleInd", "Init", "IndInv", 0)
    ctx.apalache("SegmentLifecycleInd", "IndInit", "IndInv", 1)
    ctx.apalache("SegmentLifecycleInd", "IndInit", "Safety", 0)
    ctx.apalache("SegmentLifecycleInd", "IndInit", "NotVacuous", 0, expect="violation")
    ctx.apalache("SegmentLifecycleInd", "IndInit", "IndInv", 1, cinit="CInitOrphan", expect="violation")
    # T: the real segments of a real shard
    tr = os.path.join(ctx.scratch, "seglife.ndjson")
    nh, steps = (600, 30) if thorough else (80, 20)
    summ, rc, _ = ctx.run_vdrive(["seglife", "--seed", ctx.seed, "--histories", nh, "--steps", steps, "--out", tr], timeout=3600)
    for u in summ["unresolved"]:
        raise vcore.Unresolved("seglife driver: %s" % u)
    for s in summ["samples"][:2]:
        ctx.sample(s)
    kinds = summ.get("extra", {}).get("events_by_kind", {})
    ctx.extra["segment_events"] = summ["events"]
    ctx.extra["segment_events_by_kind"] = kinds
    vcore.validate_all(ctx, "SegmentLifecycleTrace", "SegmentLifecycleTrace.cfg", tr, describe=describe, dfs=False, max_rejections=40)
    accepted = ctx.accepted_path
    need = {"evict-window-entered": "the eviction of a segment object a writer holds (gated)", "EvictClose": "Segment.Close inside the window",
            "GetFamDone": "a family asked from the evicted segment object", "FamEvict": "DataFamily.Evict", "EvictSeg": "Shard.EvictSegment"}
    for k, what in need.items():
        if not kinds.get(k):
            raise vcore.Unresolved("the driver never exercised: %s (%s)" % (what, k))
    cov = ctx.tlc("SegmentLifecycleTrace", "SegmentLifecycleTrace.cfg", workers=1, files={"trace.ndjson": accepted}, coverage=True, count=False)
    taken = {k.split("@")[0]: v for k, v in cov.coverage.items()}
    for a in ["TGetSeg", "TGetFam", "TGetFamDone", "TWrite", "TDone", "TFlush", "TFamEvict", "TEvictSeg", "TEvictBegin", "TEvictCheck",
              "TEvictClose", "TProj"]:
        if not taken.get(a):
            raise vcore.Unresolved("trace action %s never taken (coverage run)" % a)

    def corrupt(pred, change):
        def mutate(ls):
            for i, ln in enumerate(ls):
                if pred(ln):
                    d = json.loads(ln)
                    if change(d) is False:
                        continue
                    out = list(ls)
                    out[i] = json.dumps(d, separators=(",", ":")) + "\n"
                    return out
            return None
        return mutate

    def flip(key):
        def f(d):
            d[key] = not d[key]
        return f

    def stores_more(d):
        d["stores"] += 1

    clean = os.path.join(ctx.scratch, "seglife-clean.ndjson")
    with open(clean, "w") as f:
        for t in vcore.split_traces(vcore.read_lines(accepted))[:10]:
            f.write("".join(t))
    cfg = "SegmentLifecycleTrace.cfg"
    vcore.corrupt_selftest(ctx, "SegmentLifecycleTrace", cfg, clean, corrupt(lambda ln: '"ev":"Flush"' in ln and '"dirty"' not in ln, flip("ok")), "outcome of a Flush flipped")
    vcore.corrupt_selftest(ctx, "SegmentLifecycleTrace", cfg, clean, corrupt(lambda ln: '"ev":"EvictSeg"' in ln, flip("closed")), "outcome of EvictSegment flipped")
    vcore.corrupt_selftest(ctx, "SegmentLifecycleTrace", cfg, clean, corrupt(lambda ln: '"ev":"GetSeg"' in ln, flip("created")), "a segment object reported as new / as the one of the map")
    vcore.corrupt_selftest(ctx, "SegmentLifecycleTrace", cfg, clean, corrupt(lambda ln: '"ev":"Proj"' in ln, stores_more), "one more open store over the segment directory")
    ctx.assumptions += [
        "one real engine, one database / shard per history (intervals 10s + 5m), one segment name (one day) and one family time; segment objects are told apart by the kv store registered for the segment directory in the store manager; family objects only through Shard.GetOrCrateDataFamily and the exported DataFamily interface",
        "the window between IntervalSegment.GetOrCreateSegment and Segment.GetOrCreateDataFamily is entered through the kv MkDir seam (creation of the rollup target's store) and the goroutine dump (EvictSegment parked inside CloseStore of the day segment); the order Close -> GetOrCreateDataFamily on the closed object follows from the segment mutex; the scenario is repeated until the shard's interval map put the day segment first",
        "the clock is not injectable: the age conditions of DataFamily.Evict are made true by the write window option (ahead = -4h); durability is judged by the outcome of Flush (kv commit), not by a restart",
    ]
