CONSTANTS
  CountAtSend = FALSE
  CountThenMerge = FALSE
SPECIFICATION TraceSpec
INVARIANTS CompleteAfterAll ResultComplete NoSilentError ErrorHasCause TimeoutOnlyIfMissing
CONSTRAINT HighWater
POSTCONDITION TraceAccepted
CHECK_DEADLOCK FALSE
