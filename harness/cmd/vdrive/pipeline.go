package main

import (
	"context"
	"errors"
	"flag"
	"fmt"
	"math/rand"
	"sync"
	"time"

	"github.com/lindb/common/models"

	"github.com/lindb/lindb/flow"
	"github.com/lindb/lindb/query"
	stagepkg "github.com/lindb/lindb/query/stage"
	trackerpkg "github.com/lindb/lindb/query/tracker"

	"verif/harness/internal/sched"
	"verif/harness/internal/trace"
)

func init() { register("pipeline", pipelineMain) }

// scripted plan node: the body of a stage.
type scriptNode struct {
	body func() error
}

func (n *scriptNode) Execute() error { return n.body() }
func (n *scriptNode) ExecuteWithStats() (*models.OperatorStats, error) {
	return nil, n.body()
}
func (n *scriptNode) Children() []stagepkg.PlanNode { return nil }
func (n *scriptNode) AddChild(stagepkg.PlanNode)    {}
func (n *scriptNode) IgnoreNotFound() bool          { return false }

type pipeCase struct {
	Stages   []string            `json:"stages"`
	Children map[string][]string `json:"children"`
	Async    map[string]bool     `json:"async"`
	Outcome  map[string]string   `json:"outcome"`
	Root     string              `json:"root"`
}

func (c *pipeCase) key() string {
	return fmt.Sprint(c.Children, c.Async, c.Outcome)
}

// genTree makes a random tree over n stages s0..s(n-1), s0 root.
func genCase(rng *rand.Rand, n int, pErr, pPanic float64) *pipeCase {
	c := &pipeCase{Children: map[string][]string{}, Async: map[string]bool{}, Outcome: map[string]string{}, Root: "s0"}
	for i := 0; i < n; i++ {
		s := fmt.Sprintf("s%d", i)
		c.Stages = append(c.Stages, s)
		c.Children[s] = []string{}
	}
	for i := 1; i < n; i++ {
		p := fmt.Sprintf("s%d", rng.Intn(i))
		c.Children[p] = append(c.Children[p], fmt.Sprintf("s%d", i))
	}
	for _, s := range c.Stages {
		c.Async[s] = rng.Intn(2) == 0
		r := rng.Float64()
		switch {
		case r < pErr:
			c.Outcome[s] = "err"
		case r < pErr+pPanic/2:
			c.Outcome[s] = "panic"
		case r < pErr+pPanic:
			c.Outcome[s] = "planpanic"
		default:
			c.Outcome[s] = "ok"
		}
	}
	return c
}

type pipeResult struct {
	calls    int
	err      bool
	quiesced bool
	schedule []string
}

func runPipeCase(rec *trace.Recorder, c *pipeCase, seed int64, free bool) pipeResult {
	sc := sched.New(seed)
	sc.Free = free
	parent := map[string]string{}
	for p, cs := range c.Children {
		for _, ch := range cs {
			parent[ch] = p
		}
	}
	var owner func(s string) string
	owner = func(s string) string {
		if c.Async[s] {
			return s
		}
		if p, ok := parent[s]; ok {
			return owner(p)
		}
		return "main"
	}
	rec.Reset(trace.F{"children": c.Children, "async": c.Async, "outcome": c.Outcome, "root": c.Root})

	var mu sync.Mutex
	res := pipeResult{}
	ctx := context.Background()
	var mk func(s string) stagepkg.Stage
	mk = func(s string) stagepkg.Stage {
		node := &scriptNode{body: func() error {
			sc.Yield(owner(s), "exec:"+s)
			rec.Emit("Exec", trace.F{"s": s, "outcome": c.Outcome[s]})
			switch c.Outcome[s] {
			case "err":
				return errors.New("boom " + s)
			case "panic":
				panic("kaboom " + s)
			}
			return nil
		}}
		return stagepkg.NewVerifStage(ctx, &stagepkg.VerifScript{
			ID:    s,
			Async: c.Async[s],
			PlanFn: func() stagepkg.PlanNode {
				if c.Outcome[s] == "planpanic" {
					// Plan() runs on the goroutine of the caller of executeStage (the parent's thread)
					rec.Emit("Exec", trace.F{"s": s, "outcome": "planpanic"})
					panic("plan kaboom " + s)
				}
				return node
			},
			Next: func() []stagepkg.Stage {
				sc.Yield(owner(s), "next:"+s)
				var out []stagepkg.Stage
				for _, ch := range c.Children[s] {
					out = append(out, mk(ch))
				}
				return out
			},
			OnIdentifier: func() { rec.Emit("Register", trace.F{"s": s}) },
			OnComplete:   func() { rec.Emit("FinMark", trace.F{"s": s}) },
			Wrap: func(complete func(), fail func(error)) (func(), func(error)) {
				if c.Async[s] {
					sc.Spawn(s)
				}
				wc := func() {
					normal := false
					defer func() {
						if normal {
							rec.Emit("FinEnd", trace.F{"s": s})
							if c.Async[s] {
								sc.Done(s)
							}
						}
					}()
					complete()
					normal = true
				}
				wf := func(err error) {
					sc.Yield(owner(s), "fail:"+s)
					fail(err)
					rec.Emit("FinEnd", trace.F{"s": s})
					if c.Async[s] {
						sc.Done(s)
					}
				}
				return wc, wf
			},
		})
	}
	tr := trackerpkg.NewStageTracker(flow.NewTaskContextWithTimeout(ctx, 30*time.Second))
	p := query.NewExecutePipeline(tr, func(err error) {
		rec.Emit("Callback", trace.F{"err": err != nil})
		mu.Lock()
		res.calls++
		res.err = err != nil
		mu.Unlock()
	})
	sc.Spawn("main")
	go func() {
		defer sc.Done("main")
		sc.Yield("main", "start")
		p.Execute(mk(c.Root))
		rec.Emit("MainReturn", trace.F{})
	}()
	ok := sc.Run()
	res.quiesced = ok
	res.schedule = sc.Choices
	if !ok {
		sc.ReleaseAll()
	}
	mu.Lock()
	rec.Emit("Quiesce", trace.F{"timeout": !ok, "calls": res.calls})
	mu.Unlock()
	return res
}

func pipelineMain(args []string) int {
	fs := flag.NewFlagSet("pipeline", flag.ExitOnError)
	out := fs.String("out", "pipeline.ndjson", "trace output")
	seed := fs.Int64("seed", 1, "seed")
	n := fs.Int("traces", 200, "number of random cases")
	maxStages := fs.Int("stages", 5, "max stages per tree")
	free := fs.Bool("free", false, "free-running (no gates)")
	_ = fs.Parse(args)
	rec, err := trace.New(*out)
	if err != nil {
		fmt.Println(err)
		return 2
	}
	rng := rand.New(rand.NewSource(*seed))
	sum := &trace.Summary{Module: "Pipeline"}
	distinct := map[string]bool{}
	for i := 0; i < *n; i++ {
		k := 1 + rng.Intn(*maxStages)
		pe, pp := 0.2, 0.2
		if i%4 == 0 {
			pe, pp = 0.0, 0.0
		}
		c := genCase(rng, k, pe, pp)
		r := runPipeCase(rec, c, rng.Int63(), *free)
		nontrivial := k >= 2
		if nontrivial {
			distinct[c.key()+fmt.Sprint(r.schedule)] = true
		}
		if len(sum.Samples) < 3 && k >= 3 {
			sum.Samples = append(sum.Samples, map[string]any{"case": c, "schedule": r.schedule, "callbacks": r.calls, "err": r.err})
		}
	}
	_ = rec.Close()
	sum.Traces, sum.Events = rec.Counts()
	sum.Distinct = len(distinct)
	sum.Print()
	return 0
}
