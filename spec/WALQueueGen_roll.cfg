CONSTANTS
  PageSize = 4
  AtomicPut = TRUE
  ClampConsumed = TRUE
  MetaByPage = TRUE
  Threads = {main}
  Groups = {g1, g2, g3}
  Lens = {1,2,3}
  MaxPut = 14
  MaxOps = 400
  MaxDown = 4
SPECIFICATION GSpec
CHECK_DEADLOCK FALSE
