---------------------------- MODULE MCRootGather ----------------------------
(* Bounded instance of RootGather: every non-empty set of targets out of     *)
(* Leaves, every assignment of answer kinds, every interleaving of the sends *)
(* (any order) with the two parts of the handling of the answers (also       *)
(* between two sends, also never: timeout; in one critical section or -- the *)
(* deviation CountThenMerge -- in two, other handlers and the completion in  *)
(* between), the completion wherever it is enabled.                          *)
EXTENDS RootGather

CONSTANT Leaves

MCNext ==
  \/ \E T \in (SUBSET Leaves) \ {{}} : \E K \in [T -> Kinds] : Setup(K)
  \/ Plan(DOMAIN kinds)
  \/ \E t \in Leaves : Send(t) \/ AnswerCount(t) \/ AnswerMerge(t)
  \/ Result
  \/ Timeout
MCSpec == Init /\ [][MCNext]_vars

\* the query completes at most once: a result, once given, never changes
ResultIsFinal == [][res.kind # "none" => res' = res]_vars
=============================================================================
