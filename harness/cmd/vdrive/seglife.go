package main

// seglife: the segments of one shard interval of a REAL engine (module SegmentLifecycle, check XSEGMENT).
//
// One engine per process, one database per history (intervals 10s and 5m: the shard has a rollup target, so
// Shard.GetOrCrateDataFamily creates the segment of the target between getting the source segment and asking it for
// the family -- that file-system work is the seam the gated scenario parks a writer in).  Two writers hold handles;
// every call is one event with what the driver observed: whether a new kv store was registered for the directory of the
// day segment (store manager), whether a family came back, the results of WriteRows / Flush / Evict / EvictSegment, and
// after every call how many stores of the segment directory are registered.
//
// evict-window (scripted): writer w1 is parked inside the creation of the month segment's kv store (kv MkDir seam;
// it holds the source segment object already), the TTL task's Shard.EvictSegment runs on a goroutine of its own until it
// is parked inside CloseStore of the day segment (goroutine dump: it passed NeedEvict and holds the segment mutex; the
// store manager's mutex is held by the parked writer), the writer is released: the eviction completes, then the writer
// asks the CLOSED segment object for the family.  The iteration order of the shard's interval map decides whether the
// day segment is evicted first; the scenario is repeated (new database) until it was.

import (
	"flag"
	"fmt"
	"math/rand"
	"os"
	"path/filepath"
	"runtime"
	"strings"
	"sync/atomic"
	"time"

	protoMetricsV1 "github.com/lindb/common/proto/gen/v1/linmetrics"

	"github.com/lindb/lindb/kv"
	"github.com/lindb/lindb/models"
	"github.com/lindb/lindb/pkg/option"
	"github.com/lindb/lindb/pkg/timeutil"
	"github.com/lindb/lindb/tsdb"

	"verif/harness/internal/trace"
)

func init() { register("seglife", seglifeMain) }

// flStackHas: the goroutine is not running and its stack contains the function
func flStackHas(gid *int64, fn string) bool {
	id := atomic.LoadInt64(gid)
	if id == 0 {
		return false
	}
	buf := make([]byte, 8<<20)
	n := runtime.Stack(buf, true)
	for _, g := range strings.Split(string(buf[:n]), "\n\n") {
		if !strings.HasPrefix(g, fmt.Sprintf("goroutine %d [", id)) {
			continue
		}
		first := g[:strings.Index(g, "\n")]
		if strings.Contains(first, "running") || strings.Contains(first, "runnable") {
			return false
		}
		return strings.Contains(g, fn)
	}
	return false
}

type sgWriter struct {
	name string
	f    tsdb.DataFamily
	dirty bool // a row was accepted through the handle since its last flush
}

type sgCtx struct {
	rec    *trace.Recorder
	rng    *rand.Rand
	sum    *trace.Summary
	db     string
	sh     tsdb.Shard
	base   int64
	w      []*sgWriter
	next   int
	script []string
	counts map[string]int
	dead   bool
}

func (c *sgCtx) note(s string, a ...any) { c.script = append(c.script, fmt.Sprintf(s, a...)) }
func (c *sgCtx) emit(ev string, f trace.F) {
	c.counts[ev]++
	c.rec.Emit(ev, f)
}

// dayStore: the kv store registered for the directory of the day segment (nil: none)
func (c *sgCtx) dayStore() kv.Store {
	st := storesOf(c.db, "day")
	if len(st) == 0 {
		return nil
	}
	return st[0]
}

func (c *sgCtx) proj() { c.emit("Proj", trace.F{"stores": len(storesOf(c.db, "day"))}) }

func (c *sgCtx) metric(row int) *protoMetricsV1.Metric {
	return &protoMetricsV1.Metric{Name: "cpu", Timestamp: c.base + int64(row%300)*10000 + 1,
		Tags:         []*protoMetricsV1.KeyValue{{Key: "host", Value: fmt.Sprintf("r%d", row)}},
		SimpleFields: []*protoMetricsV1.SimpleField{{Name: "s", Value: 1, Type: protoMetricsV1.SimpleFieldType_DELTA_SUM}}}
}

func (c *sgCtx) get(w *sgWriter) {
	if w.f != nil {
		return
	}
	before := c.dayStore()
	f, err := c.sh.GetOrCrateDataFamily(c.base)
	after := c.dayStore()
	c.note("get:%s:%v", w.name, err == nil)
	c.emit("GetSeg", trace.F{"w": w.name, "created": after != nil && after != before})
	if err != nil {
		c.emit("Unexpected", trace.F{"what": "GetOrCrateDataFamily: " + err.Error(), "w": w.name})
		c.dead = true
		return
	}
	c.emit("GetFam", trace.F{"w": w.name, "res": "ok"})
	w.f = f
	c.proj()
}

func (c *sgCtx) write(w *sgWriter) {
	if w.f == nil || c.next > 70 {
		return
	}
	row := c.next
	res := "ok"
	if err := w.f.WriteRows(storageRows(c.metric(row))); err != nil {
		res = "err"
	}
	c.note("write:%s:%d:%s", w.name, row, res)
	c.emit("Write", trace.F{"w": w.name, "row": row, "res": res})
	if res == "ok" {
		c.next++
		w.dirty = true
	}
}

func (c *sgCtx) flush(w *sgWriter) {
	if w.f == nil {
		return
	}
	err := w.f.Flush()
	c.note("flush:%s:%v", w.name, err == nil)
	f := trace.F{"w": w.name, "ok": err == nil}
	if err != nil {
		f["err"] = err.Error()
	}
	c.emit("Flush", f)
	c.proj()
}

func (c *sgCtx) done(w *sgWriter) {
	if w.f == nil {
		return
	}
	w.f = nil
	c.note("done:%s", w.name)
	c.emit("Done", trace.F{"w": w.name})
}

func (c *sgCtx) inMgr(f tsdb.DataFamily) bool {
	found := false
	tsdb.GetFamilyManager().WalkEntry(func(x tsdb.DataFamily) {
		if x == f {
			found = true
		}
	})
	return found
}

// famEvict: what the TTL task does -- DataFamily.Evict of every family of the family manager (here: of this database)
func (c *sgCtx) famEvict() {
	var fams []tsdb.DataFamily
	tsdb.GetFamilyManager().WalkEntry(func(x tsdb.DataFamily) {
		if strings.HasPrefix(x.Indicator(), c.db+"/") {
			fams = append(fams, x)
		}
	})
	closed := 0
	for _, f := range fams {
		f.Evict()
		if !c.inMgr(f) {
			closed++
		}
	}
	c.note("famevict:%d/%d", closed, len(fams))
	c.emit("FamEvict", trace.F{"families": len(fams), "closed": closed})
	c.proj()
}

func (c *sgCtx) evictSeg() {
	before := c.dayStore()
	c.sh.EvictSegment()
	after := c.dayStore()
	closed := before != nil && after == nil
	c.note("evictseg:%v", closed)
	c.emit("EvictSeg", trace.F{"closed": closed})
	c.proj()
}

func (c *sgCtx) randomHistory(steps int) {
	for i := 0; i < steps && !c.dead; i++ {
		w := c.w[c.rng.Intn(len(c.w))]
		switch k := c.rng.Intn(100); {
		case k < 25:
			c.get(w)
		case k < 50:
			c.write(w)
		case k < 65:
			c.flush(w)
		case k < 75:
			c.done(w)
		case k < 87:
			c.famEvict()
		default:
			c.evictSeg()
		}
	}
}

// ------------------------------------------------------------------ the gated scenario
var sgSeam struct {
	armed   atomic.Bool
	gid     int64
	arrived chan struct{}
	goOn    chan struct{}
}

func sgInstallSeam() {
	seams := kv.VerifGetSeams()
	w := seams
	w.MkDir = func(path string) error {
		if sgSeam.armed.Load() && strings.Contains(path, "/segment/month/") && flGid() == atomic.LoadInt64(&sgSeam.gid) {
			sgSeam.armed.Store(false)
			close(sgSeam.arrived)
			<-sgSeam.goOn
		}
		return seams.MkDir(path)
	}
	kv.VerifSetSeams(w)
}

// evictWindow returns true when the window was entered (the day segment was evicted while the writer held it)
func (c *sgCtx) evictWindow() bool {
	w1, w2 := c.w[0], c.w[1]
	sgSeam.arrived, sgSeam.goOn = make(chan struct{}), make(chan struct{})
	sgSeam.armed.Store(true)
	done := make(chan struct{})
	var f tsdb.DataFamily
	var ferr error
	flGo(&sgSeam.gid, func() {
		defer close(done)
		f, ferr = c.sh.GetOrCrateDataFamily(c.base)
	})
	select {
	case <-sgSeam.arrived:
	case <-done:
		sgSeam.armed.Store(false)
		c.sum.Unresolved = append(c.sum.Unresolved, "evict-window: the writer did not create a month segment")
		c.dead = true
		return false
	}
	// program order: the source segment object was obtained before the rollup target's store is created
	c.emit("GetSeg", trace.F{"w": w1.name, "created": true})
	evDone := make(chan struct{})
	var gE int64
	flGo(&gE, func() { c.sh.EvictSegment(); close(evDone) })
	inClose := false
	flAwait(func() bool {
		if flStackHas(&gE, "kv.(*storeManager).CloseStore") {
			inClose = true
			return true
		}
		// parked at the interval mutex of the month segment (held by the writer): the day segment comes later
		return flStackHas(&gE, "tsdb.(*intervalSegment).EvictSegment") && !flStackHas(&gE, "tsdb.(*segment).Close")
	}, evDone, 30)
	if inClose {
		// program order: EvictSegment took the interval mutex, NeedEvict answered true, Close holds the segment mutex
		c.emit("EvictBegin", trace.F{})
		c.emit("EvictCheck", trace.F{"go": true})
	}
	close(sgSeam.goOn)
	<-done
	select {
	case <-evDone:
	case <-time.After(60 * time.Second):
		c.sum.Unresolved = append(c.sum.Unresolved, "evict-window: EvictSegment did not return")
		c.dead = true
		return false
	}
	if !inClose {
		// the eviction stood at the interval mutex of the month segment (held by the parked writer) before it reached the
		// day segment: whether it then saw the writer's family is a free race -- the history ends here (a valid prefix)
		c.note("evict-window:missed")
		return false
	}
	c.counts["evict-window-entered"]++
	c.note("evict-window:entered")
	// the segment mutex: Close first (it held the mutex), then the writer's GetOrCreateDataFamily
	c.emit("EvictClose", trace.F{})
	if ferr != nil {
		c.emit("Unexpected", trace.F{"what": "GetOrCrateDataFamily: " + ferr.Error(), "w": w1.name})
		c.dead = true
		return true
	}
	c.emit("GetFamDone", trace.F{"w": w1.name, "ok": true})
	w1.f = f
	c.proj()
	c.write(w1)
	c.flush(w1)
	c.get(w2)
	c.write(w2)
	c.flush(w2)
	c.write(w1)
	c.flush(w1)
	c.done(w1)
	c.done(w2)
	c.evictSeg()
	return true
}

func seglifeMain(args []string) int {
	fs := flag.NewFlagSet("seglife", flag.ExitOnError)
	out := fs.String("out", "seglife.ndjson", "trace output")
	seed := fs.Int64("seed", 1, "seed")
	nh := fs.Int("histories", 40, "random histories")
	steps := fs.Int("steps", 20, "steps per random history")
	_ = fs.Parse(args)
	time.Local = time.UTC
	rec, err := trace.New(*out)
	if err != nil {
		fmt.Println(err)
		return 2
	}
	dir, err := os.MkdirTemp("", "seglife")
	if err != nil {
		fmt.Println(err)
		return 2
	}
	defer os.RemoveAll(dir)
	engine, err := openEngineAt(filepath.Join(dir, "data"))
	if err != nil {
		fmt.Println(err)
		return 2
	}
	sgInstallSeam()
	rng := rand.New(rand.NewSource(*seed))
	sum := &trace.Summary{Module: "SegmentLifecycle", Extra: map[string]any{}}
	counts := map[string]int{}
	base := time.Date(2022, 3, 1, 11, 0, 0, 0, time.UTC).UnixMilli()
	long := timeutil.Interval(36500 * 24 * 3600 * 1000)
	n := 0
	newCtx := func(scenario string) *sgCtx {
		name := fmt.Sprintf("sg%d", n)
		n++
		opt := &option.DatabaseOption{Intervals: option.Intervals{
			{Interval: timeutil.Interval(10 * 1000), Retention: long},
			{Interval: timeutil.Interval(5 * 60 * 1000), Retention: long}}, AutoCreateNS: true}
		if err := engine.CreateShards(name, opt, models.ShardID(0)); err != nil {
			sum.Unresolved = append(sum.Unresolved, "create shards: "+err.Error())
			return nil
		}
		db, _ := engine.GetDatabase(name)
		// the clock is not injectable: the age conditions of DataFamily.Evict are made true by moving the write window
		db.GetOption().Ahead = "-4h"
		sh, _ := db.GetShard(models.ShardID(0))
		c := &sgCtx{rec: rec, rng: rand.New(rand.NewSource(rng.Int63())), sum: sum, db: name, sh: sh, base: base, next: 1,
			w: []*sgWriter{{name: "w1"}, {name: "w2"}}, counts: counts}
		rec.Reset(trace.F{"mode": "seglife", "h": name, "scenario": scenario})
		return c
	}
	finish := func(c *sgCtx, scenario string) {
		if len(sum.Samples) < 4 {
			sum.Samples = append(sum.Samples, map[string]any{"history": c.db, "scenario": scenario, "script": c.script})
		}
	}
	// the gated scenario, until the window was entered (each attempt is a valid history either way)
	for k := 0; k < 24; k++ {
		c := newCtx("evict-window")
		if c == nil {
			break
		}
		entered := c.evictWindow()
		finish(c, "evict-window")
		if entered || c.dead {
			break
		}
	}
	for i := 0; i < *nh; i++ {
		c := newCtx("")
		if c == nil {
			break
		}
		c.randomHistory(*steps)
		finish(c, "")
	}
	_ = rec.Close()
	sum.Traces, sum.Events = rec.Counts()
	sum.Distinct = sum.Traces
	sum.Extra["events_by_kind"] = counts
	sum.Print()
	return 0
}
