------------------------------ MODULE MCQuery ------------------------------
(* Bounded instance of Query: every history of row writes (duplicate slots,  *)
(* out-of-order slots beyond the 15-slot write window, two families, two      *)
(* series routed to their shards) interleaved with flush / compaction /       *)
(* restart, and in every reachable placement every supported (field type,     *)
(* function) pair x group-by x interval: Engine = Naive.                      *)
EXTENDS Query

CONSTANTS
  MCSids,      \* series ids
  MCOffs,      \* second offsets from MCBase of the rows that may be written
  MCVals,      \* values
  MaxRows,     \* rows per history
  MCShards,    \* 1: one shard; 2: series s lives in shard s % 2
  MCIntervals,         \* query intervals (s) of the model's queries; 0 = not given (the stored interval)
  MCCompleteErases,    \* TRUE (the code): the root's own completion stores its nil error over an error already recorded
  MCTolerantPerTarget  \* TRUE (the code): one tolerated not-found per target; FALSE: a single one (sensitivity of NotFoundIsTolerated)

MCBase == 1614852000   \* 2021-03-04 10:00:00 UTC, start of an hour family
MCFields == [s |-> "sum", mi |-> "min", ma |-> "max", la |-> "last", fi |-> "first"]
MCTags == [s \in MCSids |-> [host |-> IF s = 1 THEN "a" ELSE "b", dc |-> "x"]]
ShardOf(s) == IF MCShards = 1 THEN 0 ELSE s % 2

VARIABLES rows,
          lay     \* C12 protocol model: the root's response handling under a delivery schedule ("off" in the data model)
mcvars == <<vars, rows, lay>>

DataInit == /\ ftype = MCFields /\ tags = MCTags /\ chars = << >> /\ stiv = 10
          /\ pts = << >> /\ srcs = << >> /\ vis = << >> /\ cur = << >> /\ win = << >> /\ dead = {} /\ nid = 1 /\ rst = 0 /\ rows = 0
MCInit == DataInit /\ lay = [phase |-> "off"]

\* one row carries a value for every field (as the driver's rows mostly do)
FieldSeq == <<"s", "mi", "ma", "la", "fi">>
WriteRow(sid, off, v) ==
  LET t == <<MCBase + off, 0>> IN
  /\ rows < MaxRows /\ rows' = rows + 1 /\ UNCHANGED lay
  /\ Write(ShardOf(sid), FamS(t), [j \in 1..5 |-> [sid |-> sid, f |-> FieldSeq[j], t |-> t, v |-> v]])

Fams == {FamS(<<MCBase + o, 0>>) : o \in MCOffs}
Shards == {ShardOf(s) : s \in MCSids}
MCNext ==
  \/ \E sid \in MCSids, off \in MCOffs, v \in MCVals : WriteRow(sid, off, v)
  \/ \E sh \in Shards, fam \in Fams : <<sh, fam>> \in DOMAIN cur /\ Flush(sh, fam) /\ UNCHANGED <<rows, lay>>
  \/ \E sh \in Shards, fam \in Fams : Cardinality(FilesOf(sh, fam, 0)) > 1 /\ Compact(sh, fam) /\ UNCHANGED <<rows, lay>>
  \/ (\E s \in DOMAIN srcs : srcs[s].kind = "mem") /\ Reopen /\ UNCHANGED <<rows, lay>>
MCSpec == MCInit /\ [][MCNext]_mcvars

\* queries: the whole window of both families
NoCond == [op |-> "none"]
Funcs(T) == {fn \in {"", "sum", "min", "max", "last", "first"} : Supported(T, fn)}
MCQueries ==
  {[from |-> <<MCBase, 0>>, to |-> <<MCBase + 2 * 3600 - 1, 0>>, qiv |-> iv,
    items |-> <<[fn |-> fn, f |-> f]>>, cond |-> NoCond, group |-> g]
   : iv \in MCIntervals, g \in {<< >>, <<"host">>},
     f \in DOMAIN MCFields, fn \in {"", "sum", "min", "max", "last", "first"}}
\* a tag condition (one series selected) and a range that ends inside the first family
MCCondQueries ==
  {[from |-> <<MCBase, 0>>, to |-> <<MCBase + last, 0>>, qiv |-> 0,
    items |-> <<[fn |-> "", f |-> f]>>, cond |-> [op |-> "eq", k |-> "host", vs |-> <<h>>], group |-> <<"host">>]
   : last \in {1799, 7199}, h \in {"a", "b"}, f \in {"s", "la"}}
C11Placement == /\ \A q \in MCQueries : Supported(MCFields[q.items[1].f], q.items[1].fn) => PlacementIndependent(q)
                /\ \A q \in MCCondQueries : PlacementIndependent(q)

\* ---- C12: the root's response handling (query/context/task_context.go, metric_context.go) under every delivery
\* schedule.  A leaf answers "data" (cells), "empty" (no aggregator specs) or "notfound"; the responses are
\* delivered in any order, and the root's own pipeline completes (its callback stores ITS error, nil, into the
\* context) at any position among them.  st = [expect, tolerant, err, merged (leaves whose data were merged)]
Leaves == 1..3
Handle(st, leaf, kind) ==
  LET e == st.expect - 1 IN
  CASE kind = "notfound" ->
         IF st.tolerant - 1 > 0 THEN [st EXCEPT !.expect = e, !.tolerant = st.tolerant - 1]
         ELSE [st EXCEPT !.expect = e, !.tolerant = st.tolerant - 1, !.err = "notfound"]
    [] kind = "error" -> [st EXCEPT !.expect = e, !.err = "error"]
    [] kind = "data" -> [st EXCEPT !.expect = e, !.merged = st.merged \cup {leaf}]
    [] OTHER -> [st EXCEPT !.expect = e]
LInit == DataInit /\ lay = [phase |-> "pick"]
LPick == /\ lay.phase = "pick"
         /\ \E kinds \in [Leaves -> {"data", "empty", "notfound", "error"}] :
              lay' = [phase |-> "run", kinds |-> kinds, pending |-> Leaves, completed |-> FALSE,
                      st |-> [expect |-> Cardinality(Leaves),
                              tolerant |-> IF MCTolerantPerTarget THEN Cardinality(Leaves) ELSE 1,
                              err |-> "none", merged |-> {}]]
LDeliver == /\ lay.phase = "run"
            /\ \E l \in lay.pending :
                 lay' = [lay EXCEPT !.pending = @ \ {l}, !.st = Handle(lay.st, l, lay.kinds[l])]
LComplete == /\ lay.phase = "run" /\ ~lay.completed
             /\ lay' = [lay EXCEPT !.completed = TRUE,
                                    !.st = IF MCCompleteErases THEN [lay.st EXCEPT !.err = "none"] ELSE lay.st]
LNext == (LPick \/ LDeliver \/ LComplete) /\ UNCHANGED <<vars, rows>>
LSpec == LInit /\ [][LNext]_mcvars
\* a leaf that holds no matching data never turns a non-empty answer into an error or an empty answer, and
\* every leaf with data is merged, whatever the delivery order and wherever the root's own completion falls
NotFoundIsTolerated ==
  (lay.phase = "run" /\ lay.pending = {} /\ lay.completed /\ (\E l \in Leaves : lay.kinds[l] = "data")
     /\ \A l \in Leaves : lay.kinds[l] # "error") =>
     /\ lay.st.err = "none" /\ lay.st.expect = 0
     /\ lay.st.merged = {l \in Leaves : lay.kinds[l] = "data"}
\* a leaf's real error is never lost, whatever the delivery order and wherever the root's own completion falls
ErrorIsReported ==
  (lay.phase = "run" /\ lay.pending = {} /\ lay.completed /\ \E l \in Leaves : lay.kinds[l] = "error") => lay.st.err # "none"
=============================================================================
