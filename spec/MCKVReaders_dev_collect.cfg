CONSTANTS
  SwitchCurrentEarly = FALSE
  NoNextFileNumberLog = FALSE
  StoreSnapshotLogsManifest = FALSE
  Reader = {"r1", "r2"}
  Flusher = {"f1"}
  MaxFlush = 3
  MaxCompact = 1
  MaxCleanup = 2
  CollectActiveFirst = TRUE
  UnpendEarly = FALSE
  BaseBeforeLock = FALSE
SPECIFICATION MCSpec
INVARIANTS SnapshotFilesExist NeededFilesExist NoPartialVisible ContentIsCommitted
PROPERTIES CleanupRemovesOnlyDead
CHECK_DEADLOCK FALSE
