----------------------------- MODULE Replication -----------------------------
(***************************************************************************)
(* Leader -> follower replication of one write-ahead-log partition         *)
(* (replica/replicator_remote.go, replicator.go, partition.go,             *)
(* app/storage/rpc/replica.go) -- property C08.  One follower.             *)
(*                                                                         *)
(* The two logs are the WALQueue module reduced to what replication sees:  *)
(* appended sequence, queue-wide acknowledged sequence, payload id per     *)
(* position; the leader's consumer group for the follower has consumed /   *)
(* acknowledged.  Actions are the steps of partition.replica():            *)
(* the IsReady handshake transcribed branch by branch, Connect, and one    *)
(* Consume -> GetMessage -> Send -> (follower ReplicaLog) -> Recv -> Ack   *)
(* round, plus the faults the property quantifies over.                    *)
(*                                                                         *)
(* FixLostTail = TRUE models the repaired handshake (a follower that is at *)
(* or beyond the leader's append index makes the leader adopt it).         *)
(***************************************************************************)
EXTENDS Integers, Sequences, FiniteSets, TLC

CONSTANTS
  \* @type: Bool;
  FixLostTail,
  \* @type: Bool;
  MismatchResync   \* TRUE: an answer whose ack index differs from the sent index (the follower did not append:
                           \* wrong position or its write failed) puts the replicator into the failure state, the next
                           \* iteration handshakes; FALSE (before the repair): the channel stays ready and goes on sending

VARIABLES
  \* @type: Int -> Int;
  lLog,                \* leader log: [pos -> id]
  \* @type: Int;
  lA,                  \* ... appended
  \* @type: Int;
  lQ,                  \* ... queue-wide acknowledged
  \* @type: Int;
  cons,                \* leader's consumer group for the follower: consumed
  \* @type: Int;
  gack,                \* ... acknowledged
  \* @type: Int -> Int;
  fLog,                \* follower log
  \* @type: Int;
  fA,
  \* @type: Int;
  fQ,
  \* @type: Str;
  st,                  \* replicator state: "init" "ready" "fail"
  \* @type: Str;
  stream,              \* "none" "open" "broken" (the follower side died / restarted)
  \* @type: Bool;
  aligned              \* ghost: FALSE between a leader tail loss and the next handshake

vars == <<lLog, lA, lQ, cons, gack, fLog, fA, fQ, st, stream, aligned>>

\* @type: Int -> Int;
Empty == [x \in {} |-> 0]
\* @type: (Int -> Int, Int, Int) => Int -> Int;
Put1(f, k, v) == [x \in (DOMAIN f) \cup {k} |-> IF x = k THEN v ELSE f[x]]

Init ==
  /\ lLog = Empty /\ lA = -1 /\ lQ = -1 /\ cons = -1 /\ gack = -1
  /\ fLog = Empty /\ fA = -1 /\ fQ = -1
  /\ st = "init" /\ stream = "none" /\ aligned = TRUE

\* ConsumerGroup.Ack: ignored outside [acknowledged, consumed]
AckTo(s, c, a) == IF s >= a /\ s <= c THEN s ELSE a

\* Queue.Get on the leader: readable iff above the queue ack and at most appended
LReadable(s) == s > lQ /\ s <= lA /\ s \in DOMAIN lLog

LeaderAppend(id) ==
  /\ lLog' = Put1(lLog, lA + 1, id) /\ lA' = lA + 1
  /\ UNCHANGED <<lQ, cons, gack, fLog, fA, fQ, st, stream, aligned>>

\* ---- IsReady: the handshake (state is not ready)
\* rpcfail: "none" | "ack" (GetReplicaAckIndex failed) | "reset" (Reset failed) | "connect" (stream creation failed)
\* the state the handshake ends in: "ready" (IsReady succeeded and Connect() worked) or "fail"; the Reset rpc is only
\* made when the follower is behind the leader's acknowledged position (and the fast path is not taken)
HsResult(rpcfail) ==
  IF rpcfail = "ack" \/ rpcfail = "connect" THEN "fail"
  ELSE IF rpcfail = "reset" /\ fA + 1 # cons + 1 /\ fA < gack THEN "fail"
  ELSE "ready"

Handshake(rpcfail) ==
  /\ st # "ready"
  /\ st' = HsResult(rpcfail)
  /\ IF rpcfail = "ack"
       THEN UNCHANGED <<lLog, lA, lQ, cons, gack, fLog, fA, fQ>>
       ELSE
       LET R == fA                 \* follower: ReplicaAckIndex() = its appended sequence
           next == R + 1
           appendIdx == lA + 1
       IN
       IF next = cons + 1
         THEN /\ IF FixLostTail /\ R > lA
                   THEN \* repaired: the leader lost its tail, adopt the follower's position
                        lA' = R /\ lQ' = R /\ cons' = R /\ gack' = R
                   ELSE UNCHANGED <<lA, lQ, cons, gack>>
              /\ UNCHANGED <<lLog, fLog, fA, fQ>>
       ELSE IF R < gack
         THEN \* follower is behind the leader's ack: reset its append index to ack + 1
              IF rpcfail = "reset"
                THEN UNCHANGED <<lLog, lA, lQ, cons, gack, fLog, fA, fQ>>
                ELSE /\ fA' = gack /\ fQ' = gack        \* FanOutQueue.SetAppendedSeq(ack)
                     /\ cons' = gack                     \* ResetReplicaIndex(ack + 1)
                     /\ UNCHANGED <<lLog, lA, lQ, gack, fLog>>
       ELSE IF (IF FixLostTail THEN R >= appendIdx ELSE R > appendIdx)
         THEN \* follower is ahead of the leader's log: ResetAppendIndex(next) (queue and every group)
              /\ lA' = R /\ lQ' = R /\ cons' = R /\ gack' = R
              /\ UNCHANGED <<lLog, fLog, fA, fQ>>
         ELSE \* rewind the replica cursor to what the follower needs next
              /\ cons' = R /\ gack' = AckTo(R, R, gack)
              /\ UNCHANGED <<lLog, lA, lQ, fLog, fA, fQ>>

\* IsReady closes the old stream; on success partition.replica() calls Connect() right away
\* (`IsReady() && Connect()`), modelled as one step; rpcfail = "connect" is a failing stream creation
HandshakeStep(rpcfail) ==
  /\ Handshake(rpcfail)
  /\ stream' = IF HsResult(rpcfail) = "ready" THEN "open" ELSE "none"
  /\ aligned' = (aligned \/ HsResult(rpcfail) = "ready" \/ rpcfail = "connect")

\* ---- one replication round; fault: "none" | "send" | "recv" | "fput"
Step(fault) ==
  /\ st = "ready" /\ stream \in {"open", "broken"} /\ cons < lA
  /\ LET seq == cons + 1 IN
     /\ cons' = seq
     /\ IF ~LReadable(seq)
          THEN \* GetMessage fails: IgnoreMessage
               /\ gack' = IF gack + 1 = seq THEN AckTo(seq, seq, gack) ELSE gack
               /\ UNCHANGED <<fLog, fA, st, stream>>
          ELSE IF fault = "send" \/ stream = "broken"
          THEN /\ st' = "fail" /\ stream' = "none" /\ UNCHANGED <<fLog, fA, gack>>
          ELSE \* fault "fput": the follower is at the right position but its Queue.Put fails (answer: ack index -1 + error)
               LET applied == (seq = fA + 1) /\ fault # "fput"
                   resp == IF seq = fA + 1 THEN (IF fault = "fput" THEN -1 ELSE seq) ELSE fA + 1
               IN /\ IF applied THEN fLog' = Put1(fLog, seq, lLog[seq]) /\ fA' = fA + 1
                                ELSE UNCHANGED <<fLog, fA>>
                  /\ IF fault = "recv"
                       THEN st' = "fail" /\ stream' = "none" /\ UNCHANGED gack
                       ELSE /\ IF resp # seq /\ MismatchResync
                                 THEN st' = "fail" /\ stream' = "none"
                                 ELSE UNCHANGED <<st, stream>>
                            /\ gack' = IF resp = seq THEN AckTo(seq, seq, gack) ELSE gack
  /\ UNCHANGED <<lLog, lA, lQ, fQ, aligned>>

\* ---- faults
FollowerRestart ==       \* close + reopen of the follower's log: positions survive, the stream dies
  /\ stream' = IF stream = "open" THEN "broken" ELSE stream
  /\ UNCHANGED <<lLog, lA, lQ, cons, gack, fLog, fA, fQ, st, aligned>>

FollowerLoseLog ==
  /\ fLog' = Empty /\ fA' = -1 /\ fQ' = -1
  /\ stream' = IF stream = "open" THEN "broken" ELSE stream
  /\ UNCHANGED <<lLog, lA, lQ, cons, gack, st, aligned>>

LeaderRestart ==         \* queue and group meta survive; a new replicator starts in state init
  /\ st' = "init" /\ stream' = "none"
  /\ UNCHANGED <<lLog, lA, lQ, cons, gack, fLog, fA, fQ, aligned>>

LeaderLoseTail(k) ==     \* the leader restarts with an older appended sequence (group meta survives)
  /\ k >= 1 /\ lA - k >= -1 /\ lA - k >= lQ
  /\ lA' = lA - k /\ st' = "init" /\ stream' = "none" /\ aligned' = FALSE
  /\ UNCHANGED <<lLog, lQ, cons, gack, fLog, fA, fQ>>

\* the leader restarts with an older image of the follower's consumer-group meta page (the page is mmap'd and
\* only synced by FanOutQueue.Sync): consumed / acknowledged roll back, the log itself is intact
LeaderLoseGroup(k) ==
  /\ k >= 1 /\ cons - k >= -1 /\ cons - k >= lQ
  /\ cons' = cons - k /\ gack' = (IF gack < cons - k THEN gack ELSE cons - k)
  /\ st' = "init" /\ stream' = "none"
  /\ UNCHANGED <<lLog, lA, lQ, fLog, fA, fQ, aligned>>

LeaderGC ==              \* FanOutQueue.Sync + Queue.GC on the leader
  /\ LET m == IF gack < lA THEN gack ELSE lA IN
     lQ' = IF m >= 0 /\ m > lQ THEN m ELSE lQ
  /\ UNCHANGED <<lLog, lA, cons, gack, fLog, fA, fQ, st, stream, aligned>>

\* ------------------------------------------------------------------ properties (C08)
\* a position both logs hold carries the same bytes
PositionalEquality ==
  \A i \in (DOMAIN lLog) \cap (DOMAIN fLog) : (i > lQ /\ i <= lA /\ i > fQ /\ i <= fA) => lLog[i] = fLog[i]
\* the follower's readable range has no holes
NoHoles == \A i \in (fQ + 1)..fA : i \in DOMAIN fLog
\* the leader never treats a position as acknowledged that the follower has not appended
\* (checked while the channel believes it is healthy: after the follower lost its log the leader
\* cannot know before the broken stream makes it re-handshake)
AckImpliesAppended == (st = "ready" /\ stream = "open") => gack <= fA
\* ... and whenever the acknowledged position moves, it moves to a position the follower has
\* appended (or that the leader has already released for every group)
AckOnlyAppended == [][gack' > gack => (gack' <= fA' \/ gack' <= lQ')]_vars
\* below the replication cursor nothing is missing on the follower (no silent skip)
NoSilentSkip == (st = "ready" /\ stream = "open") => \A i \in (lQ + 1)..lA : (i > fA /\ i > fQ) => i > cons
=============================================================================
