\* the code: a closed family object accepts rows -- must violate AcceptedCanBeDurable
CONSTANTS
  Writer = {w1, w2}
  MaxObj = 3
  MaxFam = 3
  MaxRow = 3
  ClosedSegmentRejects = TRUE
  ClosedFamilyRejects = FALSE
SPECIFICATION Spec
INVARIANTS AcceptedCanBeDurable
CHECK_DEADLOCK FALSE
