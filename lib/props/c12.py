"""C12 -- query results do not depend on sharding, node placement or response order (module Query)."""
import json

import vcore
from props import querycommon as qc


def run(ctx, replay):
    if replay:
        # the replayed trace is judged like a fresh one: deviations -> known findings, anything else -> violation
        acc, stats, _ = qc.judge(ctx, replay)
        ctx.extra["judged"] = stats
        return
    thorough = ctx.tier == "thorough"
    # ---- leg M: sources of several shards, the root's response handling under every delivery schedule
    qc.model_legs(ctx, "C12", thorough)

    # ---- leg T: the same kind of data routed by the real jump hash over 1..3 shards; every query under many layouts
    hist, batches, nq, lay = (24, 14, 4, 0) if thorough else (6, 10, 3, 36)
    tr = qc.run_driver(ctx, "c12", "c12", ["--hist", hist, "--steps", batches, "--queries", nq, "--layouts", lay])
    acc, stats, marked = qc.judge(ctx, tr)
    ctx.extra["judged"] = stats
    # what was covered: layout shapes and schedules
    shapes, sched = {}, 0
    for ln in vcore.read_lines(tr):
        if '"ev":"Query"' in ln:
            d = json.loads(ln)
            l = d["lay"]
            k = "shards/leaf=%s computes=%d%s" % (l["leaves"], l["computes"], " free" if l["free"] else "")
            shapes[k] = shapes.get(k, 0) + 1
            sched += 1
    ctx.extra["layout_shapes"] = shapes
    ctx.log("judged %d answers (%d layout shapes) of %d datasets: %d equal to the reference, deviations %s, rejected %d" % (
        stats["queries"], len(shapes), stats["subtraces"], stats["clean"], stats["by_class"], stats["rejected"]))
    qc.samples(ctx, tr)
    if stats["queries"] < 100 or stats["clean"] < 40 or len(shapes) < 8:
        raise vcore.Unresolved("too few judged answers / layout shapes (%s, %d shapes)" % (stats, len(shapes)))

    def fake_timeout(d):
        d["res"] = {"ok": False, "err": "timeout", "lost": 0}

    def fake_notfound(d):
        d["res"] = {"ok": False, "err": "notfound", "lost": 0}

    extra = [
        (qc.mutate_query(fake_timeout, lambda d: qc.has_cells(d) and d["lay"]["computes"] < 2), "a layout without two compute nodes times out", qc.CFG),
        (qc.mutate_query(fake_notfound, lambda d: qc.has_cells(d) and len(d["lay"]["leaves"]) > 1), "a non-empty answer turns into not-found", qc.CFG),
    ]
    def multi_leaf_answer(t):
        for ln in t:
            if '"ev":"Query"' in ln:
                d = json.loads(ln)
                if qc.has_cells(d) and d["lay"]["computes"] < 2 and len(d["lay"]["leaves"]) > 1:
                    return True
        return False
    qc.selftests(ctx, tr, marked, thorough, extra=extra, want_extra=multi_leaf_answer)
    qc.coverage(ctx, [tr], need=["TReset", "TWrite", "TFlush", "TQuery"])
    ctx.assumptions += qc.ASSUMPTIONS + [
        "layouts: rows routed by the real BrokerBatchRows shard/family iterators over 1..3 shards of one engine; leaves = real leaf task processors "
        "with disjoint shard sets (also a leaf without shards); 0..2 compute nodes = real intermediate task processors (group-by queries only, first "
        "target executes, the others receive-only, as coordinator/broker plans them); the loopback transport parks every response and delivers "
        "them in the scheduled order, a prefix of them before the root's own pipeline completes; one run without schedule (concurrent delivery)",
        "a batch holds each series at most once (the broker sorts a batch by shard, which may reorder rows of one series)",
    ]
