CONSTANTS
  DevPartial = FALSE
  DevOrder = FALSE
  DevMulti = FALSE
  DevCompute = FALSE
  DevEmptySeries = FALSE
  DevHide = FALSE
  DevWindow = FALSE
  DevLikeStar = FALSE
  DevSwallow = FALSE
SPECIFICATION TraceSpec
CONSTRAINT HighWater
POSTCONDITION TraceAccepted
CHECK_DEADLOCK FALSE
