"""C09 -- name-to-ID assignment is a stable injective function (module IDDict)."""
import json
import os

import vcore


def describe(sig, lines, rel, info):
    try:
        r = json.loads(lines[0])
        mode = r.get("mode", "?")
        if r.get("scenario"):
            mode += "-" + r["scenario"]
    except ValueError:
        mode = "?"
    kind = ""
    # the call the rejected return belongs to
    try:
        ev = json.loads(lines[min(rel, len(lines)) - 1])
        t = ev.get("t")
        for ln in reversed(lines[: rel - 1]):
            d = json.loads(ln)
            if d.get("ev") == "Call" and d.get("t") == t:
                kind = d.get("kind", "")
                break
    except ValueError:
        pass
    return "%s:%s:%s" % (sig, mode, kind)


def run(ctx, replay):
    if replay:
        ok, info = ctx.validate_trace("IDDictTrace", "IDDictTrace.cfg", replay, dfs=False)
        if not ok:
            ctx.violation("IDDict:replay", "replayed trace rejected: %s" % info, replay_src=replay)
        return
    thorough = ctx.tier == "thorough"
    # M: the implementation model of get-or-create (lock sections, bucket cache, flush) refines the dictionary
    # the schema store (field / tag key ids of one metric) at the level of its lock sections: all three protective
    # steps on -> Stable / Injective / Function hold; each one off (the pinned code) -> counterexample
    ctx.model_check("SchemaStore", "MCSchemaStore.cfg", timeout=900)
    # ... and the storage level: one file per flush (deltas), level-0 compaction as a background job; a merger that
    # drops what its inputs hold (loads them "already persisted", the delta-only writer skips them) -> counterexample
    for dev in ("MCSchemaStore_dev_private.cfg", "MCSchemaStore_dev_markall.cfg", "MCSchemaStore_dev_stale.cfg",
                "MCSchemaStore_dev_mergedrop.cfg"):
        ctx.model_check("SchemaStore", dev, expect="violation", timeout=300)
    ctx.model_check("IDDict", "MCIDDict_thorough.cfg" if thorough else "MCIDDict.cfg", timeout=1800)
    for dev in ("mem", "disk", "cache"):
        ctx.model_check("IDDict", "MCIDDict_dev_%s.cfg" % dev, expect="violation", timeout=600)
    # series ids of one metric in one shard: dictionary + postings, event loop vs background flush job, crash.
    # Both protective properties of the code on -> Stable / Injective / UsedDurable; each one off -> counterexample
    ctx.model_check("IDDictSeries", "MCIDDictSeries_thorough.cfg" if thorough else "MCIDDictSeries.cfg", timeout=900)
    for dev in ("bgprepare", "dictfirst"):
        ctx.model_check("IDDictSeries", "MCIDDictSeries_dev_%s.cfg" % dev, expect="violation", timeout=300)
    tr = os.path.join(ctx.scratch, "iddict.ndjson")
    scr = os.path.join(ctx.scratch, "scr-iddict")
    os.makedirs(scr, exist_ok=True)
    nc, ng, ns, ni, nl = (3000, 400, 200, 60, 400) if thorough else (300, 60, 24, 6, 40)
    ncp = 64 if thorough else 8
    nrev = 60 if thorough else 8
    summ, rc, _ = ctx.run_vdrive(["iddict", "--seed", ctx.seed, "--concurrent", nc, "--gated", ng, "--sequential", ns,
                                  "--images", ni, "--loop", nl, "--compact", ncp, "--reverse", nrev, "--out", tr, "--scratch", scr],
                                 timeout=3000)
    # compaction family: every level-0 compaction that was due (threshold reached / Family.Compact with > 1 file)
    # must have run to its end, else the histories did not exercise what they are there for
    ctx.extra["compact_histories"] = ncp
    ctx.extra["reverse_lookup_histories"] = nrev
    ctx.extra["compact_jobs"] = summ["extra"].get("compact_jobs_done", 0)
    if ncp and (summ["extra"].get("compact_jobs_due", 0) == 0
                or summ["extra"].get("compact_jobs_done", 0) < summ["extra"].get("compact_jobs_due", 0)):
        raise vcore.Unresolved("compaction family: %d of %d due level-0 compactions ran to their end" % (
            summ["extra"].get("compact_jobs_done", 0), summ["extra"].get("compact_jobs_due", 0)))
    ctx.extra["loop_histories"] = nl
    ctx.extra["loop_blocked_steps"] = summ["extra"].get("loop_blocked", 0)
    if summ["extra"].get("loop_stuck", 0):
        raise vcore.Unresolved("index-loop: %d gated schedule(s) made no progress" % summ["extra"]["loop_stuck"])
    if nl and not summ["extra"].get("loop_blocked", 0):
        # on a tree whose loop runs prepare-flush itself some scheduled steps must have been refused
        ctx.log("index-loop: no scheduled step was blocked (every forced order was possible)")
    ctx.extra["events"] = summ["events"]
    ctx.extra["crash_images"] = summ["extra"].get("images", 0)
    ctx.extra["concurrent_histories"] = nc
    ctx.extra["gated_scenarios"] = ng
    lines = vcore.read_lines(tr)
    for t in vcore.split_traces(lines)[nc:nc + 2]:
        ctx.sample({"trace_prefix": [json.loads(x) for x in t[:12]]})
    vcore.validate_all(ctx, "IDDictTrace", "IDDictTrace.cfg", tr, describe=describe, dfs=False)

    def second_id(lines):
        # one caller gets another id for a name that was already returned with an id
        seen = set()
        call = {}
        for i, ln in enumerate(lines):
            if '"ev":"Reset"' in ln:
                seen, call = set(), {}
            elif '"ev":"Call"' in ln:
                d = json.loads(ln)
                call[d["t"]] = (d["kind"], d["scope"], d["name"])
            elif '"ev":"Ret"' in ln and '"found":true' in ln:
                d = json.loads(ln)
                key = call.get(d["t"])
                if key in seen:
                    d["id"] = d["id"] + 17
                    out = list(lines)
                    out[i] = json.dumps(d, separators=(",", ":")) + "\n"
                    return out
                seen.add(key)
        return None

    def shared_id(lines):
        # a new name receives the id of another name of the same kind
        last = {}
        for i, ln in enumerate(lines):
            if '"ev":"Call"' in ln and '"kind":"metric"' in ln and '"create":true' in ln:
                d = json.loads(ln)
                j = i + 1
                if j < len(lines) and '"ev":"Ret"' in lines[j] and json.loads(lines[j]).get("t") == d["t"]:
                    r = json.loads(lines[j])
                    for name, rid in last.items():
                        if name != d["name"] and rid != r["id"]:
                            r["id"] = rid
                            out = list(lines)
                            out[j] = json.dumps(r, separators=(",", ":")) + "\n"
                            return out
                    last[d["name"]] = r["id"]
            if '"ev":"Reset"' in ln:
                last = {}
        return None
    def foreign_name(lines):
        # the reverse lookup returns, for one id, the name of another id
        for i, ln in enumerate(lines):
            if '"ev":"Collect"' in ln:
                d = json.loads(ln)
                ids = sorted(d["pairs"])
                if len(ids) >= 2:
                    d["pairs"][ids[0]] = d["pairs"][ids[1]]
                    out = list(lines)
                    out[i] = json.dumps(d, separators=(",", ":")) + "\n"
                    return out
        return None
    rev = os.path.join(ctx.scratch, "iddict-rev.ndjson")
    with open(rev, "w") as f:
        for t in [x for x in vcore.split_traces(lines) if '"mode":"reverse"' in x[0]][:2]:
            f.write("".join(t))
    vcore.corrupt_selftest(ctx, "IDDictTrace", "IDDictTrace.cfg", rev, foreign_name, "the reverse lookup returns another id's name")
    seq = os.path.join(ctx.scratch, "iddict-seq.ndjson")
    with open(seq, "w") as f:
        for t in vcore.split_traces(lines)[nc + ng:nc + ng + 3]:
            f.write("".join(t))
    vcore.corrupt_selftest(ctx, "IDDictTrace", "IDDictTrace.cfg", seq, second_id, "a name is returned with a second id")
    vcore.corrupt_selftest(ctx, "IDDictTrace", "IDDictTrace.cfg", seq, shared_id, "two metric names share an id")

    # index-loop family (the last nl traces of the file): series ids after a restart, postings
    def series_rets(lines):
        """(line index of the Ret, scope, name, id, index of the last Reopen / Reset before it)"""
        out, call, epoch = [], {}, 0
        for i, ln in enumerate(lines):
            if '"ev":"Reset"' in ln or '"ev":"Reopen"' in ln:
                call, epoch = {}, i
            elif '"ev":"Call"' in ln:
                d = json.loads(ln)
                call[d["t"]] = d
            elif '"ev":"Ret"' in ln:
                d = json.loads(ln)
                c = call.pop(d["t"], None)
                if c and c["kind"] == "series" and d.get("found"):
                    out.append((i, c["scope"], c["name"], d["id"], epoch))
        return out

    def recovered_id_reused(lines):
        # after a restart a series comes back with the id another series of the metric was returned with
        rets = series_rets(lines)
        for i, scope, name, rid, ep in rets:
            if '"ev":"Reopen"' not in lines[ep]:
                continue
            for j, scope2, name2, rid2, ep2 in rets:
                if ep2 == ep and j < i and scope2 == scope and name2 != name and rid2 != rid:
                    d = json.loads(lines[i])
                    d["id"] = rid2
                    out = list(lines)
                    out[i] = json.dumps(d, separators=(",", ":")) + "\n"
                    return out
        return None

    def posting_missing(lines):
        # the postings of a metric lack the id of a series the dictionary has just resolved
        rets = series_rets(lines)
        for i, ln in enumerate(lines):
            if '"ev":"Postings"' not in ln:
                continue
            d = json.loads(ln)
            for j, scope, name, rid, ep in rets:
                if j < i and scope == d["scope"] and rid in d["ids"] and \
                        not any('"ev":"Reopen"' in x or '"ev":"Reset"' in x for x in lines[j:i]):
                    d["ids"] = [x for x in d["ids"] if x != rid]
                    out = list(lines)
                    out[i] = json.dumps(d, separators=(",", ":")) + "\n"
                    return out
        return None
    # compaction family (the ncp traces before the index-loop ones): a name asked again after the merge of the files
    def renamed_after_compact(lines):
        # the first get-or-create after a Compact event that returns an id the name already had: another id
        seen, call, after = {}, {}, False
        for i, ln in enumerate(lines):
            if '"ev":"Reset"' in ln:
                seen, call, after = {}, {}, False
            elif '"ev":"Compact"' in ln:
                after = True
            elif '"ev":"Call"' in ln:
                d = json.loads(ln)
                call[d["t"]] = (d["kind"], d["scope"], d["name"])
            elif '"ev":"Ret"' in ln and '"found":true' in ln:
                d = json.loads(ln)
                key = call.pop(d["t"], None)
                if after and key in seen and key[0] in ("tagkey", "field"):
                    d["id"] = max(seen.values()) + 1
                    out = list(lines)
                    out[i] = json.dumps(d, separators=(",", ":")) + "\n"
                    return out
                seen[key] = d["id"]
        return None

    def lost_after_compact(lines):
        # a lookup after a Compact event does not find a name that was returned with an id before
        seen, call, after = set(), {}, False
        for i, ln in enumerate(lines):
            if '"ev":"Reset"' in ln:
                seen, call, after = set(), {}, False
            elif '"ev":"Compact"' in ln:
                after = True
            elif '"ev":"Reopen"' in ln:
                seen = set()
            elif '"ev":"Call"' in ln:
                d = json.loads(ln)
                call[d["t"]] = (d["kind"], d["scope"], d["name"], d["create"])
            elif '"ev":"Ret"' in ln and '"found":true' in ln:
                d = json.loads(ln)
                c = call.pop(d["t"], None)
                if after and c and not c[3] and c[:3] in seen:
                    out = list(lines)
                    out[i] = json.dumps({"ev": "Ret", "t": d["t"], "found": False, "id": -1, "n": d.get("n", 0)},
                                        separators=(",", ":")) + "\n"
                    return out
                if c:
                    seen.add(c[:3])
        return None
    if ncp:
        cpt = os.path.join(ctx.scratch, "iddict-compact.ndjson")
        all_traces = vcore.split_traces(lines)
        cp_traces = all_traces[len(all_traces) - nl - ncp:len(all_traces) - nl]
        with open(cpt, "w") as f:
            for t in cp_traces[:2]:
                f.write("".join(t))
        vcore.corrupt_selftest(ctx, "IDDictTrace", "IDDictTrace.cfg", cpt, renamed_after_compact,
                               "a tag key / field gets another id after the compaction of the schema family")
        vcore.corrupt_selftest(ctx, "IDDictTrace", "IDDictTrace.cfg", cpt, lost_after_compact,
                               "a name is not found any more after a compaction")
    if nl:
        loop = os.path.join(ctx.scratch, "iddict-loop.ndjson")
        with open(loop, "w") as f:
            for t in vcore.split_traces(lines)[-nl:][:4]:
                f.write("".join(t))
        vcore.corrupt_selftest(ctx, "IDDictTrace", "IDDictTrace.cfg", loop, recovered_id_reused,
                               "a series comes back after a restart with the id of another series")
        vcore.corrupt_selftest(ctx, "IDDictTrace", "IDDictTrace.cfg", loop, posting_missing,
                               "the postings of a metric lack the id of a resolved series")
    ctx.assumptions += [
        "traces are validated against the abstract dictionary (specification layer of IDDict); the implementation model of the lock sections is bound by TLC refinement and by the gated scenarios that drive the real code through its counterexample windows",
        "concurrent callers: GenMetricID / GenTagKeyID / GenTagValueID / GetMetricID on one shared MetricMetaDatabase (what the metadata goroutine and the shards' index goroutines do); field ids are created by one goroutine",
        "series ids: the shard's index event loop (memdb.NewIndexDatabase over the real index / metadata databases) is driven with rows and flush requests under gated schedules (gates = driver-side wrappers at PrepareFlush, Flush, GenSeriesID and its mid point MetricMetaDatabase.Name()); a scheduled step is recorded as blocked when the loop goroutine is parked at a gate of an earlier item of the channel (single in-order consumer); crash = close of both loops and stores without flush at quiescent points (crash images inside an index flush are C07's)",
        "compaction family: the level-0 compaction of every kv family of the metadata store and of the shard index store is started (store check with the default threshold of 4 files, or Family.Compact) and joined at quiescent points of sequential histories (names in memory or not, one or two compactions, reopen); compaction concurrent with a flush or with get-or-create calls is not scheduled",
        "crash = the metadata directory copied after each file-system operation of a metadata flush (kv seams); the sequence file is a MAP_SHARED mapping",
    ]
