CONSTANTS
  FixLostTail = FALSE
  MismatchResync = TRUE
  MaxMsgs = 10
  MaxFaults = 6
  TailLoss = TRUE
  AppendOnlyWhenAligned = FALSE
SPECIFICATION GSpec
CHECK_DEADLOCK FALSE
