package main

// vdrive taxis -- property C13 (module TimeAxis).
//
// Drives the real time bucketing code of lindb and records inputs + the real outputs;
// TLC judges every event against spec/TimeAxis.tla (spec/TimeAxisTrace.tla):
//   Calc      timeutil.Interval.Calculator(): GetSegment / ParseSegmentTime / CalcSegmentTime / CalcFamily /
//             CalcFamilyTime / CalcFamilyStartTime / CalcFamilyEndTime / CalcSlot, timeutil.CalcTimestamp
//   SlotRange timeutil.Interval.CalcSlotRange
//   Group     metric.BrokerBatchRows -> BrokerBatchShardFamilyIterator (family grouping of ingested rows)
//   Plan      query/context.RootMetricContext.MakePlan (calcTimeRangeAndInterval) + timeutil.CalPointCount
//   Create    tsdb.Shard.GetOrCrateDataFamily(t).TimeRange() on a real engine (real kv stores)
//   Lookup    tsdb.Shard.GetDataFamilies(type, range)
// Instants are logged as [seconds, milliseconds] (TLC integers are 32 bit), intervals in seconds.

import (
	"context"
	"flag"
	"fmt"
	"math/rand"
	"os"
	"sort"
	"time"

	protoMetricsV1 "github.com/lindb/common/proto/gen/v1/linmetrics"

	"github.com/lindb/lindb/config"
	"github.com/lindb/lindb/coordinator/broker"
	"github.com/lindb/lindb/models"
	"github.com/lindb/lindb/pkg/option"
	"github.com/lindb/lindb/pkg/timeutil"
	querycontext "github.com/lindb/lindb/query/context"
	"github.com/lindb/lindb/series/metric"
	"github.com/lindb/lindb/sql/stmt"
	"github.com/lindb/lindb/tsdb"

	"verif/harness/internal/trace"
)

func init() { register("taxis", taxisMain) }

const (
	txSec  = int64(1000)
	txMin  = 60 * txSec
	txHour = 60 * txMin
	txDay  = 24 * txHour
)

// instant as [seconds, milliseconds]
func txP(ms int64) []int64 { return []int64{ms / 1000, ms % 1000} }

func txDate(y int, m time.Month, d, h, mi, s, ms int) int64 {
	return time.Date(y, m, d, h, mi, s, ms*1000000, time.UTC).UnixMilli()
}

var (
	txWinStart = txDate(2019, 1, 1, 0, 0, 0, 0)
	txWinEnd   = txDate(2025, 1, 1, 0, 0, 0, 0)
)

// interval values (seconds) a database option / a query may carry: n x {s, m, h, d, M, y}
var txFixedIntervals = []int64{1, 2, 5, 7, 10, 15, 30, 60, 120, 299, // day calculator
	300, 420, 600, 900, 1800, 3540, 3599, // month calculator
	3600, 7200, 18000, 21600, 43200, 86400, 2 * 86400, 30 * 86400, 365 * 86400} // year calculator

func txRandInterval(rng *rand.Rand) int64 {
	if rng.Intn(3) > 0 {
		return txFixedIntervals[rng.Intn(len(txFixedIntervals))]
	}
	switch rng.Intn(6) {
	case 0:
		return int64(1 + rng.Intn(299)) // n s
	case 1:
		return int64(1+rng.Intn(120)) * 60 // n m
	case 2:
		return int64(1+rng.Intn(48)) * 3600 // n h
	case 3:
		return int64(1+rng.Intn(40)) * 86400 // n d
	case 4:
		return int64(1+rng.Intn(3)) * 30 * 86400 // n M
	default:
		return 365 * 86400 // 1 y
	}
}

// a random instant of the window, biased towards the edges the property is about
func txRandInstant(rng *rand.Rand) int64 {
	switch rng.Intn(10) {
	case 0: // around a month edge
		y, m := 2019+rng.Intn(6), time.Month(1+rng.Intn(12))
		return txDate(y, m, 1, 0, 0, 0, 0) + int64(rng.Intn(5)-2)
	case 1: // around a year edge
		return txDate(2019+rng.Intn(7), 1, 1, 0, 0, 0, 0) + int64(rng.Intn(5)-2)
	case 2: // around the leap day
		return txDate(2020, 2, 28+rng.Intn(3), 0, 0, 0, 0) + int64(rng.Intn(3)-1) + int64(rng.Intn(2))*(txDay-1)
	case 3: // around an hour edge
		return txWinStart + int64(rng.Intn(int((txWinEnd-txWinStart)/txHour)))*txHour + int64(rng.Intn(5)-2)
	case 4: // last day of a month, any time
		y, m := 2019+rng.Intn(6), time.Month(1+rng.Intn(12))
		return txDate(y, m+1, 1, 0, 0, 0, 0) - 1 - rng.Int63n(txDay)
	default:
		return txWinStart + rng.Int63n(txWinEnd-txWinStart)
	}
}

func txClamp(t int64) int64 {
	if t < txWinStart {
		return txWinStart
	}
	if t >= txWinEnd+31*txDay {
		return txWinEnd + 31*txDay - 1
	}
	return t
}

type txRun struct {
	rec  *trace.Recorder
	rng  *rand.Rand
	sum  *trace.Summary
	kind map[string]int
}

func (r *txRun) count(k string) { r.kind[k]++ }

// one Calc event: every calculator method on (interval, t); returns the real family range
func (r *txRun) calc(ivS, t int64) (fs, fe int64) {
	iv := timeutil.Interval(ivS * 1000)
	c := iv.Calculator()
	seg := c.GetSegment(t)
	pseg, err := c.ParseSegmentTime(seg)
	if err != nil {
		r.sum.Unresolved = append(r.sum.Unresolved, "ParseSegmentTime: "+err.Error())
	}
	segt := c.CalcSegmentTime(t)
	fam := c.CalcFamily(t, segt)
	ft := c.CalcFamilyTime(t)
	fs = c.CalcFamilyStartTime(segt, fam)
	fe = c.CalcFamilyEndTime(fs)
	slot := c.CalcSlot(t, fs, iv.Int64())
	back := timeutil.CalcTimestamp(fs, slot, iv)
	r.rec.Emit("Calc", trace.F{"iv": ivS, "t": txP(t), "type": iv.Type().String(), "seg": seg, "segt": txP(segt),
		"pseg": txP(pseg), "fam": fam, "ft": txP(ft), "fs": txP(fs), "fe": txP(fe), "slot": slot, "back": txP(back)})
	r.count("Calc")
	if len(r.sum.Samples) < 2 {
		r.sum.Samples = append(r.sum.Samples, map[string]any{"event": "Calc", "interval_s": ivS,
			"t": time.UnixMilli(t).UTC().Format("2006-01-02T15:04:05.000Z"), "segment": seg, "family": fam,
			"family_start": time.UnixMilli(fs).UTC().Format(time.RFC3339), "slot": slot})
	}
	return fs, fe
}

func (r *txRun) slotRange(ivS, t int64) {
	iv := timeutil.Interval(ivS * 1000)
	c := iv.Calculator()
	ft := c.CalcFamilyTime(t)
	flen := c.CalcFamilyEndTime(ft) - ft + 1
	from := txClamp(t - r.rng.Int63n(2*flen))
	to := txClamp(t + r.rng.Int63n(2*flen))
	if r.rng.Intn(4) == 0 {
		from = t
	}
	if r.rng.Intn(4) == 0 {
		to = t
	}
	sr := iv.CalcSlotRange(ft, timeutil.TimeRange{Start: from, End: to})
	r.rec.Emit("SlotRange", trace.F{"iv": ivS, "f": txP(ft), "from": txP(from), "to": txP(to), "lo": int(sr.Start), "hi": int(sr.End)})
	r.count("SlotRange")
}

func (r *txRun) calcBatch(n int) {
	r.rec.Reset(trace.F{"kind": "calc"})
	for i := 0; i < n; {
		ivS := txRandInterval(r.rng)
		t := txRandInstant(r.rng)
		if t < txWinStart {
			t = txWinStart
		}
		fs, fe := r.calc(ivS, t)
		i++
		switch r.rng.Intn(6) {
		case 0: // the tiling: the instant after the family's end, the instant before its start (taken from the real outputs)
			r.calc(ivS, fe+1)
			if fs-1 >= txWinStart {
				r.calc(ivS, fs-1)
			}
			i += 2
		case 1:
			r.calc(ivS, fs)
			r.calc(ivS, fe)
			i += 2
		case 2:
			r.slotRange(ivS, t)
			i++
		}
	}
}

// ---- ingestion: rows grouped by family
func (r *txRun) groupBatch(n int) {
	r.rec.Reset(trace.F{"kind": "group"})
	conv := metric.NewProtoConverter(models.NewDefaultLimits())
	for i := 0; i < n; i++ {
		ivS := txRandInterval(r.rng)
		iv := timeutil.Interval(ivS * 1000)
		c := iv.Calculator()
		base := txRandInstant(r.rng)
		if base < txWinStart {
			base = txWinStart
		}
		ft := c.CalcFamilyTime(base)
		flen := c.CalcFamilyEndTime(ft) - ft + 1
		k := 1 + r.rng.Intn(7)
		var ts []int64
		spread := []int64{1000, flen / 2, flen, 3 * flen}[r.rng.Intn(4)]
		for j := 0; j < k; j++ {
			t := base + r.rng.Int63n(spread)
			if r.rng.Intn(5) == 0 && j > 0 {
				t = ts[r.rng.Intn(j)] // duplicates
			}
			ts = append(ts, t)
		}
		batch := metric.NewBrokerBatchRows()
		for _, t := range ts {
			tt := t
			err := batch.TryAppend(func(row *metric.BrokerRow) error {
				return conv.ConvertTo(&protoMetricsV1.Metric{Name: "m", Timestamp: tt,
					SimpleFields: []*protoMetricsV1.SimpleField{{Name: "f", Value: 1, Type: protoMetricsV1.SimpleFieldType_DELTA_SUM}}}, row)
			})
			if err != nil {
				r.sum.Unresolved = append(r.sum.Unresolved, "ConvertTo: "+err.Error())
			}
		}
		var in [][]int64
		for _, row := range batch.Rows() {
			m := row.Metric()
			in = append(in, txP(m.Timestamp()))
		}
		groups := []map[string]any{}
		it := batch.NewShardGroupIterator(1)
		for it.HasRowsForNextShard() {
			_, fit := it.FamilyRowsForNextShard(iv)
			for fit.HasNextFamily() {
				familyTime, rows := fit.NextFamily()
				gts := [][]int64{}
				for _, row := range rows {
					m := row.Metric()
					gts = append(gts, txP(m.Timestamp()))
				}
				groups = append(groups, map[string]any{"ft": txP(familyTime), "ts": gts})
			}
		}
		batch.Release()
		r.rec.Emit("Group", trace.F{"iv": ivS, "ts": in, "groups": groups})
		r.count("Group")
	}
}

// ---- planner: RootMetricContext.MakePlan with a state manager that only knows the database option
type txChooser struct {
	broker.StateManager
	cfg models.Database
}

func (c *txChooser) Choose(database string, _ int) ([]*models.PhysicalPlan, error) {
	return []*models.PhysicalPlan{{Database: database, Targets: []*models.Target{{Indicator: "1.1.1.1:9000", ShardIDs: []models.ShardID{1}}}}}, nil
}
func (c *txChooser) GetDatabaseCfg(string) (models.Database, bool) { return c.cfg, true }

// an interval whose slots inside a family lie on the epoch grid (it divides the family length)
func txRegular(v int64) bool {
	if v < 300 {
		return 3600%v == 0
	}
	return 86400%v == 0
}

// stored intervals of a database option; regular: only intervals that divide their family length
func (r *txRun) randOpts(regular bool) []int64 {
	var day, month, year []int64
	for _, v := range txFixedIntervals {
		if regular && !txRegular(v) {
			continue
		}
		switch timeutil.Interval(v * 1000).Type() {
		case timeutil.Day:
			day = append(day, v)
		case timeutil.Month:
			month = append(month, v)
		default:
			year = append(year, v)
		}
	}
	pick := func(l []int64) int64 {
		if r.rng.Intn(4) == 0 {
			for {
				v := txRandInterval(r.rng)
				if timeutil.Interval(v*1000).Type() == timeutil.Interval(l[0]*1000).Type() && (!regular || txRegular(v)) {
					return v
				}
			}
		}
		return l[r.rng.Intn(len(l))]
	}
	var opts []int64
	for len(opts) == 0 {
		if r.rng.Intn(3) > 0 {
			opts = append(opts, pick(day))
		}
		if r.rng.Intn(2) > 0 {
			opts = append(opts, pick(month))
		}
		if r.rng.Intn(2) > 0 {
			opts = append(opts, pick(year))
		}
	}
	return opts // ascending by construction (day < month < year type), as the schema parser stores them
}

var txLens = []int64{0, 1, txHour - 1, txHour, 3*txHour - 1, 3 * txHour, 6*txHour - 1, 6 * txHour, 12*txHour - 1, 12 * txHour,
	txDay - 1, txDay, 2*txDay - 1, 2 * txDay, 7*txDay - 1, 7 * txDay, 30*txDay - 1, 30 * txDay, 60*txDay - 1, 60 * txDay,
	90*txDay - 1, 90 * txDay}

// regular = false: at least one stored interval does not divide its family length (known finding C13-K2)
func (r *txRun) planBatch(n int, regular bool) {
	r.rec.Reset(trace.F{"kind": "plan", "regular": regular})
	planEnd := txDate(2024, 12, 1, 0, 0, 0, 0)
	for i := 0; i < n; i++ {
		opts := r.randOpts(regular)
		for !regular {
			irr := false
			for _, o := range opts {
				irr = irr || !txRegular(o)
			}
			if irr {
				break
			}
			opts = r.randOpts(false)
		}
		var ivs option.Intervals
		for _, o := range opts {
			ivs = append(ivs, option.Interval{Interval: timeutil.Interval(o * 1000), Retention: timeutil.Interval(3650 * txDay)})
		}
		var qiv int64
		if r.rng.Intn(3) > 0 {
			qiv = txRandInterval(r.rng)
		}
		auto := r.rng.Intn(4) == 0
		from := txRandInstant(r.rng)
		if from < txWinStart {
			from = txWinStart
		}
		if from > planEnd {
			from = planEnd
		}
		var ln int64
		switch r.rng.Intn(3) {
		case 0:
			ln = txLens[r.rng.Intn(len(txLens))]
		case 1:
			ln = r.rng.Int63n(3 * txDay)
		default:
			ln = r.rng.Int63n(planEnd + 30*txDay - from)
		}
		to := from + ln
		q := &stmt.Query{MetricName: "m", TimeRange: timeutil.TimeRange{Start: from, End: to},
			Interval: timeutil.Interval(qiv * 1000), AutoGroupByTime: auto}
		if r.rng.Intn(3) == 0 {
			q.GroupBy = []string{"host"}
		}
		ctx := querycontext.NewRootMetricContext(&querycontext.RootMetricContextDeps{
			Ctx: context.Background(), Request: &models.Request{RequestID: "r"}, Database: "db",
			CurrentNode: models.StatelessNode{HostIP: "1.1.1.2", GRPCPort: 9000},
			Statement:   q,
			Choose:      &txChooser{cfg: models.Database{Name: "db", Option: &option.DatabaseOption{Intervals: ivs}}},
		})
		if err := ctx.MakePlan(); err != nil {
			r.sum.Unresolved = append(r.sum.Unresolved, "MakePlan: "+err.Error())
			continue
		}
		if q.Interval.Int64()%1000 != 0 || q.StorageInterval.Int64()%1000 != 0 {
			r.sum.Unresolved = append(r.sum.Unresolved, fmt.Sprintf("planner produced a sub-second interval %d/%d", q.Interval, q.StorageInterval))
			continue
		}
		pc := timeutil.CalPointCount(q.TimeRange.Start, q.TimeRange.End, q.Interval.Int64())
		r.rec.Emit("Plan", trace.F{"opts": opts, "qiv": qiv, "auto": auto, "from": txP(from), "to": txP(to),
			"ofrom": txP(q.TimeRange.Start), "oto": txP(q.TimeRange.End), "oiv": q.Interval.Int64() / 1000,
			"osiv": q.StorageInterval.Int64() / 1000, "oratio": q.IntervalRatio, "pc": pc})
		r.count("Plan")
		if r.kind["Plan"] == 1 {
			r.sum.Samples = append(r.sum.Samples, map[string]any{"event": "Plan", "stored_intervals_s": opts, "statement_interval_s": qiv,
				"range": []string{time.UnixMilli(from).UTC().Format(time.RFC3339), time.UnixMilli(to).UTC().Format(time.RFC3339)},
				"planned": map[string]any{"start": q.TimeRange.Start, "end": q.TimeRange.End, "interval": q.Interval.String(),
					"storage": q.StorageInterval.String(), "ratio": q.IntervalRatio}})
		}
	}
}

// ---- shard: real engine, families are real kv families
type txShards struct {
	r      *txRun
	engine tsdb.Engine
	n      int
}

func (s *txShards) newShard(ivS int64) (tsdb.Shard, error) {
	s.n++
	name := fmt.Sprintf("db%d", s.n)
	opt := &option.DatabaseOption{Intervals: option.Intervals{{Interval: timeutil.Interval(ivS * 1000),
		Retention: timeutil.Interval(200 * 365 * txDay)}}}
	if err := s.engine.CreateShards(name, opt, models.ShardID(1)); err != nil {
		return nil, err
	}
	sh, ok := s.engine.GetShard(name, models.ShardID(1))
	if !ok {
		return nil, fmt.Errorf("shard of %s not found", name)
	}
	return sh, nil
}

func (s *txShards) create(sh tsdb.Shard, ivS, t int64) bool {
	f, err := sh.GetOrCrateDataFamily(t)
	if err != nil {
		s.r.sum.Unresolved = append(s.r.sum.Unresolved, "GetOrCrateDataFamily: "+err.Error())
		return false
	}
	tr := f.TimeRange()
	s.r.rec.Emit("Create", trace.F{"iv": ivS, "t": txP(t), "fr": [][]int64{txP(tr.Start), txP(tr.End)}, "ftime": txP(f.FamilyTime())})
	s.r.count("Create")
	return true
}

func (s *txShards) lookup(sh tsdb.Shard, ivS, from, to int64) {
	iv := timeutil.Interval(ivS * 1000)
	fams := sh.GetDataFamilies(iv.Type(), timeutil.TimeRange{Start: from, End: to})
	got := []int64{}
	for _, f := range fams {
		got = append(got, f.TimeRange().Start/1000)
	}
	sort.Slice(got, func(i, j int) bool { return got[i] < got[j] })
	c := iv.Calculator()
	s.r.rec.Emit("Lookup", trace.F{"iv": ivS, "from": txP(from), "to": txP(to),
		"xseg": c.GetSegment(from) != c.GetSegment(to), "got": got})
	s.r.count("Lookup")
}

// a random history on a fresh shard; sameSeg restricts lookups to ranges inside one segment
func (s *txShards) history(ivS int64, sameSeg bool, creates, lookups int) {
	rng := s.r.rng
	iv := timeutil.Interval(ivS * 1000)
	c := iv.Calculator()
	sh, err := s.newShard(ivS)
	if err != nil {
		s.r.sum.Unresolved = append(s.r.sum.Unresolved, "CreateShards: "+err.Error())
		return
	}
	s.r.rec.Reset(trace.F{"kind": "shard", "iv": ivS, "sameseg": sameSeg})
	// anchor at a segment edge; instants within a few families around it
	var anchor, flen int64
	switch iv.Type() {
	case timeutil.Day:
		anchor, flen = txDate(2019+rng.Intn(6), time.Month(1+rng.Intn(12)), 1+rng.Intn(28), 0, 0, 0, 0), txHour
	case timeutil.Month:
		anchor, flen = txDate(2019+rng.Intn(6), time.Month(1+rng.Intn(12)), 1, 0, 0, 0, 0), txDay
	default:
		anchor, flen = txDate(2020+rng.Intn(5), 1, 1, 0, 0, 0, 0), 30*txDay
	}
	span := int64(10)
	pick := func() int64 {
		t := anchor + (rng.Int63n(2*span)-span)*flen + rng.Int63n(flen)
		if rng.Intn(4) == 0 {
			// an instant in the FIRST family of its segment
			t = c.CalcSegmentTime(t) + rng.Int63n(flen)
		}
		return t
	}
	done := 0
	for i := 0; i < creates+lookups; i++ {
		if done < 2 || (rng.Intn(creates+lookups) < creates) {
			if s.create(sh, ivS, pick()) {
				done++
			}
			continue
		}
		a, b := pick(), pick()
		if a > b {
			a, b = b, a
		}
		if rng.Intn(5) == 0 {
			b = a + rng.Int63n(flen)
		}
		// range limits exactly on a segment base time (the end of a range is inclusive: the start of the last slot)
		if rng.Intn(4) == 0 && c.CalcSegmentTime(b) >= a {
			b = c.CalcSegmentTime(b)
		}
		if rng.Intn(8) == 0 {
			a = c.CalcSegmentTime(a)
		}
		if sameSeg && c.GetSegment(a) != c.GetSegment(b) {
			// keep the range inside the segment of a: cut it at the segment's last millisecond
			end := c.CalcFamilyEndTime(c.CalcFamilyTime(a))
			for c.GetSegment(end+1) == c.GetSegment(a) {
				end = c.CalcFamilyEndTime(c.CalcFamilyTime(end + 1))
			}
			b = end - rng.Int63n(flen/2)
			if b < a {
				b = a
			}
		}
		s.lookup(sh, ivS, a, b)
	}
}

// the two scripted cross-segment histories that re-confirm the known finding (families of a
// month / year calculator looked up by a range that crosses a segment edge)
func (s *txShards) scripted() {
	sh, err := s.newShard(300)
	if err == nil {
		s.r.rec.Reset(trace.F{"kind": "shard", "iv": 300, "sameseg": false, "scripted": true})
		for _, d := range [][2]int{{8, 5}, {8, 25}, {8, 28}, {8, 31}, {9, 1}, {9, 3}, {9, 25}} {
			s.create(sh, 300, txDate(2019, time.Month(d[0]), d[1], 3, 0, 0, 0))
		}
		s.lookup(sh, 300, txDate(2019, 8, 1, 0, 0, 0, 0), txDate(2019, 8, 31, 23, 0, 0, 0))
		s.lookup(sh, 300, txDate(2019, 8, 25, 0, 0, 0, 0), txDate(2019, 9, 5, 0, 0, 0, 0))
	}
	sh, err = s.newShard(3600)
	if err == nil {
		s.r.rec.Reset(trace.F{"kind": "shard", "iv": 3600, "sameseg": false, "scripted": true})
		for _, d := range [][2]int{{2019, 10}, {2019, 11}, {2019, 12}, {2020, 1}, {2020, 2}, {2020, 11}} {
			s.create(sh, 3600, txDate(d[0], time.Month(d[1]), 7, 3, 0, 0, 0))
		}
		s.lookup(sh, 3600, txDate(2019, 10, 2, 0, 0, 0, 0), txDate(2019, 12, 30, 0, 0, 0, 0))
		s.lookup(sh, 3600, txDate(2019, 11, 15, 0, 0, 0, 0), txDate(2020, 2, 10, 0, 0, 0, 0))
	}
}

func taxisMain(args []string) int {
	fs := flag.NewFlagSet("taxis", flag.ExitOnError)
	out := fs.String("out", "taxis.ndjson", "trace output (Calc / SlotRange / Group / Plan)")
	shardOut := fs.String("shardout", "taxis-shard.ndjson", "trace output (Create / Lookup on real shards; plans with irregular stored intervals)")
	seed := fs.Int64("seed", 1, "seed")
	nCalc := fs.Int("calc", 20000, "Calc / SlotRange events")
	nGroup := fs.Int("groups", 1000, "Group events")
	nPlan := fs.Int("plans", 3000, "Plan events")
	nShard := fs.Int("shards", 4, "random shard histories per interval type and kind")
	nIrr := fs.Int("irregular", 2, "plan batches (40 plans each) with stored intervals that do not divide their family length")
	scratch := fs.String("scratch", "", "scratch directory")
	_ = fs.Parse(args)
	time.Local = time.UTC // the calculators use time.Local; the property is stated for UTC
	if *scratch == "" {
		d, _ := os.MkdirTemp("", "vdrive-taxis-")
		*scratch = d
		defer os.RemoveAll(d)
	}
	sum := &trace.Summary{Module: "TimeAxis"}
	rec, err := trace.New(*out)
	if err != nil {
		fmt.Println(err)
		return 2
	}
	run := &txRun{rec: rec, rng: rand.New(rand.NewSource(*seed)), sum: sum, kind: map[string]int{}}
	for left := *nCalc; left > 0; left -= 2000 {
		n := left
		if n > 2000 {
			n = 2000
		}
		run.calcBatch(n)
	}
	for left := *nGroup; left > 0; left -= 500 {
		n := left
		if n > 500 {
			n = 500
		}
		run.groupBatch(n)
	}
	for left := *nPlan; left > 0; left -= 1000 {
		n := left
		if n > 1000 {
			n = 1000
		}
		run.planBatch(n, true)
	}
	_ = rec.Close()
	t1, e1 := rec.Counts()

	srec, err := trace.New(*shardOut)
	if err != nil {
		fmt.Println(err)
		return 2
	}
	run.rec = srec
	for i := 0; i < *nIrr; i++ {
		run.planBatch(40, false)
	}
	config.SetGlobalStorageConfig(&config.StorageBase{TSDB: config.TSDB{Dir: *scratch}})
	engine, err := tsdb.NewEngine()
	if err != nil {
		sum.Unresolved = append(sum.Unresolved, "NewEngine: "+err.Error())
	} else {
		sh := &txShards{r: run, engine: engine}
		sh.scripted()
		for i := 0; i < *nShard; i++ {
			for _, ivS := range []int64{10, 300, 3600} {
				sh.history(ivS, true, 8, 10)
			}
			// the day calculator re-bases by subtraction: ranges across segments are fine there
			sh.history([]int64{1, 10, 60}[run.rng.Intn(3)], false, 8, 10)
		}
		// a few random cross-segment histories of the month / year calculators
		for i := 0; i < *nShard/4; i++ {
			sh.history(300, false, 8, 6)
			sh.history(3600, false, 8, 6)
		}
		engine.Close()
	}
	_ = srec.Close()
	t2, e2 := srec.Counts()
	sum.Traces, sum.Events = t1+t2, e1+e2
	sum.Extra = map[string]any{"events_by_kind": run.kind, "main_events": e1, "shard_events": e2, "shard_traces": t2}
	sum.Print()
	return 0
}
