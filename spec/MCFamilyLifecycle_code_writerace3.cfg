\* the code BEFORE the repair 81b03b7: handle and writer registration are two steps -- must violate AckedRowsDurable (the lost row is covered by a later acknowledgement)
CONSTANTS
  Leader = {1}
  MaxRow = 3
  MaxObj = 2
  MaxDb = 3
  MaxFail = 1
  MaxRef = 1
  DoubleWindow = FALSE
  CloseLocksFirst = FALSE
  RetryFailed = TRUE
  ClosedRejects = TRUE
  AtomicWrite = FALSE
  RegisterAtGet = FALSE
  AtomicEvict = TRUE
  UniqueStamp = TRUE
  EvictChecksRef = TRUE
  EvictChecksMem = TRUE
  CloseFlushes = TRUE
  AckFrozen = TRUE
SPECIFICATION MCSpec
INVARIANTS AckedRowsDurable
CHECK_DEADLOCK FALSE
