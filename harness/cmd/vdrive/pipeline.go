package main

import (
	"context"
	"errors"
	"flag"
	"fmt"
	"math/rand"
	"runtime"
	"strconv"
	"strings"
	"sync"
	"time"

	"github.com/lindb/lindb/constants"
	"github.com/lindb/lindb/flow"
	"github.com/lindb/lindb/query"
	stagepkg "github.com/lindb/lindb/query/stage"
	trackerpkg "github.com/lindb/lindb/query/tracker"

	"verif/harness/internal/sched"
	"verif/harness/internal/trace"
)

func init() { register("pipeline", pipelineMain) }

// scriptOp is the operator of one node of a stage's plan tree, with a scripted result. The plan tree itself is
// made of the real plan nodes (stage.NewEmptyPlanNode / NewPlanNode / NewPlanNodeWithIgnore) and is walked by the
// real baseStage.execute.
type scriptOp struct {
	id   string
	body func() error
}

func (o *scriptOp) Identifier() string { return o.id }
func (o *scriptOp) Execute() error     { return o.body() }

// pipeCase: a tree of stages (Children / Async / Outcome: "tree" = Plan() returns the plan tree, "planpanic" =
// Plan() panics) and, per stage, a plan tree (PRoot[stage] = its root node; PKids / POut over all plan nodes:
// "none" no operator, "ok", "err", "panic", "ign" = not-found on a node that ignores not-found).
type pipeCase struct {
	Stages   []string            `json:"stages"`
	Children map[string][]string `json:"children"`
	Async    map[string]bool     `json:"async"`
	Outcome  map[string]string   `json:"outcome"`
	Root     string              `json:"root"`
	PKids    map[string][]string `json:"pkids"`
	POut     map[string]string   `json:"pout"`
	PRoot    map[string]string   `json:"proot"`
	// how the operator / node produces its outcome (not part of the model): for "err": 0 plain error, 1 plain error on
	// an ignore-not-found node, 2 not-found on a plain node; for "ok": 1 = ignore-not-found node; for a stage
	// whose plan is one node without operator: 1 = Plan() returns nil
	Flavor map[string]int `json:"flavor"`
	// a panic while the stage, whose own plan succeeded, plans / registers its next stages (the complete-callback of
	// pipeline.executeStage): -1 none, 0 NextStages() itself panics (no next stage registered yet), k >= 1 the
	// Identifier() of the k-th next stage panics inside stateMachine.executeStage (the next stages before it are
	// registered and started)
	NextPanic map[string]int `json:"npanic"`
}

func (c *pipeCase) key() string {
	return fmt.Sprint(c.Children, c.Async, c.Outcome, c.PKids, c.POut, c.NextPanic)
}

func newPipeCase() *pipeCase {
	return &pipeCase{Children: map[string][]string{}, Async: map[string]bool{}, Outcome: map[string]string{}, Root: "s0",
		PKids: map[string][]string{}, POut: map[string]string{}, PRoot: map[string]string{}, Flavor: map[string]int{},
		NextPanic: map[string]int{}}
}

// pn: literal plan tree of the scripted cases.
type pn struct {
	out  string
	kids []*pn
}

func nd(out string, kids ...*pn) *pn { return &pn{out: out, kids: kids} }

func (c *pipeCase) addStage(s string, async bool, plan *pn, children ...string) {
	c.Stages = append(c.Stages, s)
	c.Children[s] = append([]string{}, children...)
	c.Async[s] = async
	c.Outcome[s] = "tree"
	c.NextPanic[s] = -1
	if plan == nil {
		c.Outcome[s] = "planpanic"
		plan = nd("ok")
	}
	cnt := 0
	var add func(p *pn) string
	add = func(p *pn) string {
		id := fmt.Sprintf("%sn%d", s, cnt)
		cnt++
		c.POut[id] = p.out
		c.PKids[id] = []string{}
		for _, k := range p.kids {
			c.PKids[id] = append(c.PKids[id], add(k))
		}
		return id
	}
	c.PRoot[s] = add(plan)
}

// genPlan makes a random plan tree for stage s: depth <= 3, an inner node has 1..3 children.
func genPlan(rng *rand.Rand, c *pipeCase, s string, pErr, pPanic, pIgn float64) {
	cnt := 0
	var gen func(depth int) string
	gen = func(depth int) string {
		id := fmt.Sprintf("%sn%d", s, cnt)
		cnt++
		pNone := 0.15
		if depth == 1 {
			pNone = 0.5 // the real stages plan an empty root with the operators below it
		}
		r := rng.Float64()
		switch {
		case rng.Float64() < pNone:
			c.POut[id] = "none"
		case r < pErr:
			c.POut[id] = "err"
		case r < pErr+pPanic:
			c.POut[id] = "panic"
		case r < pErr+pPanic+pIgn:
			c.POut[id] = "ign"
		default:
			c.POut[id] = "ok"
		}
		c.Flavor[id] = rng.Intn(3)
		c.PKids[id] = []string{}
		nk := 0
		pLeaf := []float64{0, 0.2, 0.55, 1}[depth]
		if rng.Float64() >= pLeaf {
			nk = 1 + rng.Intn(3)
		}
		for i := 0; i < nk; i++ {
			c.PKids[id] = append(c.PKids[id], gen(depth+1))
		}
		return id
	}
	c.PRoot[s] = gen(1)
}

// genCase makes a random tree over n stages s0..s(n-1), s0 root, and a random plan tree per stage.
func genCase(rng *rand.Rand, n int, pErr, pPanic float64) *pipeCase {
	c := newPipeCase()
	for i := 0; i < n; i++ {
		s := fmt.Sprintf("s%d", i)
		c.Stages = append(c.Stages, s)
		c.Children[s] = []string{}
	}
	for i := 1; i < n; i++ {
		p := fmt.Sprintf("s%d", rng.Intn(i))
		c.Children[p] = append(c.Children[p], fmt.Sprintf("s%d", i))
	}
	for _, s := range c.Stages {
		c.Async[s] = rng.Intn(2) == 0
		c.Outcome[s] = "tree"
		if rng.Float64() < pPanic/2 {
			c.Outcome[s] = "planpanic"
		}
		// a plan has some 4 operators: per operator a third of the stage's share
		genPlan(rng, c, s, pErr/3, pPanic/6, pErr/4)
	}
	return c
}

// scriptedCases: plan trees in which the place of the failing operator matters (a failing operator that is not
// the last one of its level, followed by siblings / uncles / nothing but an empty node), inline and on the pool.
func scriptedCases() []*pipeCase {
	var out []*pipeCase
	solo := func(async bool, plan *pn) {
		c := newPipeCase()
		c.addStage("s0", async, plan)
		out = append(out, c)
	}
	for _, async := range []bool{false, true} {
		solo(async, nd("none", nd("ok"), nd("err"), nd("ok")))                       // a family read fails, the operators after it succeed
		solo(async, nd("none", nd("err"), nd("ok")))                                 // first operator fails
		solo(async, nd("none", nd("ok"), nd("err")))                                 // last operator fails
		solo(async, nd("ok", nd("ok", nd("ok"), nd("err")), nd("ok")))               // failure at the end of an inner level, an uncle follows
		solo(async, nd("none", nd("ok", nd("err"), nd("ok")), nd("ok", nd("ok"))))   // failure inside, siblings and uncles follow
		solo(async, nd("none", nd("err"), nd("none")))                               // only a node without operator follows
		solo(async, nd("none", nd("ok", nd("panic"), nd("ok")), nd("ok")))           // panic in the middle
		solo(async, nd("none", nd("ign", nd("err")), nd("ok"), nd("err"), nd("ok"))) // ignored not-found prunes its subtree
		solo(async, nd("ok", nd("ok", nd("ok"), nd("ok"), nd("ok")), nd("none", nd("ok"), nd("ok")), nd("ok", nd("ok"))))
		solo(async, nd("err", nd("ok"), nd("ok"))) // the root operator fails: no child runs
	}
	// lookup -> (shard1 fails in the middle of its plan, shard2 succeeds), every inline / pool combination
	for m := 0; m < 8; m++ {
		c := newPipeCase()
		c.addStage("s0", m&1 != 0, nd("ok"), "s1", "s2")
		c.addStage("s1", m&2 != 0, nd("none", nd("ok"), nd("err"), nd("ok")))
		c.addStage("s2", m&4 != 0, nd("none", nd("ok"), nd("ok"), nd("ok")))
		out = append(out, c)
	}
	// a chain: the failing plan is the one of the last stage, below a stage whose plan has an ignored not-found
	for m := 0; m < 4; m++ {
		c := newPipeCase()
		c.addStage("s0", m&1 != 0, nd("none", nd("ign", nd("ok")), nd("ok")), "s1")
		c.addStage("s1", m&2 != 0, nd("ok", nd("ok", nd("panic")), nd("ok")), "s2")
		c.addStage("s2", false, nd("ok"))
		out = append(out, c)
	}
	return out
}

// pipelineSetGate installs the gate function of the pipeline state machine (query.VerifGate, point
// "completeStage.unlocked": completeStage released the mutex and has not decremented pending yet). It is set by
// pipeline_gate.go, which needs the gate hook in package query; without it the gate never fires: completeStage then
// runs from its lock section to its end in one scheduler step and no Unlocked event is recorded (Reset.gate = false).
var pipelineSetGate func(fn func(point string))

// pipeGoid: the id of the calling goroutine (the gate function gets no argument that identifies the stage; the
// stage is the one whose Complete() this goroutine ran last, inside the lock section of the same completeStage call).
func pipeGoid() int64 {
	var buf [64]byte
	f := strings.Fields(string(buf[:runtime.Stack(buf[:], false)]))
	if len(f) < 2 {
		return -1
	}
	id, _ := strconv.ParseInt(f[1], 10, 64)
	return id
}

// finishOrders: every order of the lock sections ("L:x") and decrements ("D:x") of the completeStage calls of the
// stages r (root, plans its children first: L:r comes first) and kids, with L:x before D:x.
func finishOrders(kids []string) [][]string {
	toks := []string{"D:r"}
	for _, k := range kids {
		toks = append(toks, "L:"+k, "D:"+k)
	}
	var out [][]string
	used := make([]bool, len(toks))
	var cur []string
	var gen func()
	gen = func() {
		if len(cur) == len(toks) {
			out = append(out, append([]string{"L:r"}, cur...))
			return
		}
		for i, t := range toks {
			if used[i] {
				continue
			}
			if t[0] == 'D' && t != "D:r" {
				locked := false
				for _, c := range cur {
					if c == "L:"+t[2:] {
						locked = true
					}
				}
				if !locked {
					continue
				}
			}
			used[i] = true
			cur = append(cur, t)
			gen()
			cur = cur[:len(cur)-1]
			used[i] = false
		}
	}
	gen()
	return out
}

// finishCase: stage r with the asynchronous children kids; one child fails (error or panic), the others succeed.
type finishCase struct {
	c     *pipeCase
	order []string
}

// finishCases: concurrently finishing stages, one failing, in every order of their lock sections and decrements:
// r -> a (3 orders), r -> (a, b) (30 orders x failing child x r inline / on the pool), r -> (a, b, c) (630 orders,
// a seeded sample of them). Without the gate the decrements cannot be placed: the orders collapse to the orders of
// the lock sections (duplicates dropped).
func finishCases(rng *rand.Rand, sample int, gated bool) []finishCase {
	var out []finishCase
	seen := map[string]bool{}
	add := func(rAsync bool, kids []string, failing int, how string, order []string) {
		c := newPipeCase()
		c.addStage("r", rAsync, nd("ok"), kids...)
		for i, k := range kids {
			if i == failing {
				c.addStage(k, true, nd("none", nd("ok"), nd(how)))
			} else {
				c.addStage(k, true, nd("ok"))
			}
		}
		c.Root = "r"
		if !gated {
			var o []string
			for _, t := range order {
				if t[0] != 'D' {
					o = append(o, t)
				}
			}
			order = o
		}
		key := c.key() + fmt.Sprint(order)
		if seen[key] {
			return
		}
		seen[key] = true
		out = append(out, finishCase{c, order})
	}
	for _, o := range finishOrders([]string{"a"}) {
		add(false, []string{"a"}, 0, "err", o)
		add(true, []string{"a"}, 0, "panic", o)
	}
	for i, o := range finishOrders([]string{"a", "b"}) {
		for f := 0; f < 2; f++ {
			for _, ra := range []bool{false, true} {
				how := "err"
				if (i+f)%5 == 4 {
					how = "panic"
				}
				add(ra, []string{"a", "b"}, f, how, o)
			}
		}
	}
	all := finishOrders([]string{"a", "b", "c"})
	for i, j := range rng.Perm(len(all)) {
		if i >= sample {
			break
		}
		add(i%2 == 1, []string{"a", "b", "c"}, i%3, "err", all[j])
	}
	return out
}

// nextPanicCases: a stage whose own plan succeeded panics while it plans / registers its next stages -- in
// NextStages() itself (nothing registered yet) or in the Identifier() of its k-th next stage (the next stages before
// it are registered and started) -- inline and on the pool, as the last pending stage and with siblings / already
// started next stages still running (every order of the lock sections and decrements of the completeStage calls).
func nextPanicCases(gated bool) []finishCase {
	var out []finishCase
	seen := map[string]bool{}
	add := func(c *pipeCase, order []string) {
		if !gated {
			var o []string
			for _, t := range order {
				if t[0] != 'D' {
					o = append(o, t)
				}
			}
			order = o
		}
		key := c.key() + fmt.Sprint(order)
		if !seen[key] {
			seen[key] = true
			out = append(out, finishCase{c, order})
		}
	}
	for _, async := range []bool{false, true} {
		// the only stage of the pipeline
		c := newPipeCase()
		c.addStage("s0", async, nd("none", nd("ok"), nd("ok")))
		c.NextPanic["s0"] = 0
		add(c, nil)
	}
	for m := 0; m < 4; m++ {
		// r -> a, a panics in NextStages(); a on the pool: before / after r is completed
		c := newPipeCase()
		c.Root = "r"
		c.addStage("r", m&1 != 0, nd("ok"), "a")
		c.addStage("a", m&2 != 0, nd("ok"))
		c.NextPanic["a"] = 0
		if m&2 == 0 {
			add(c, nil)
			continue
		}
		for _, o := range finishOrders([]string{"a"}) {
			add(c, o)
		}
	}
	// r -> (a, b) on the pool, a panics in NextStages(): a is the last pending stage, or b / r are still pending
	for i, o := range finishOrders([]string{"a", "b"}) {
		c := newPipeCase()
		c.Root = "r"
		c.addStage("r", i%2 == 1, nd("ok"), "a", "b")
		c.addStage("a", true, nd("ok"))
		c.addStage("b", true, nd("none", nd("ok"), nd("ok")))
		c.NextPanic["a"] = 0
		if i%7 == 3 {
			c.POut["bn1"] = "err" // ... and the sibling fails as well
		}
		add(c, o)
	}
	// r -> (a, b), a or b inline: the panic of the inline next stage is recovered inside r's complete-callback
	for m := 0; m < 8; m++ {
		c := newPipeCase()
		c.Root = "r"
		c.addStage("r", m&1 != 0, nd("ok"), "a", "b")
		c.addStage("a", m&2 != 0, nd("ok"))
		c.addStage("b", m&2 == 0, nd("ok"))
		if m&4 != 0 {
			c.NextPanic["a"] = 0
		} else {
			c.NextPanic["b"] = 0
		}
		add(c, nil)
	}
	// r -> a -> b: the stage in the middle panics in NextStages(), b never exists
	for m := 0; m < 4; m++ {
		c := newPipeCase()
		c.Root = "r"
		c.addStage("r", m&1 != 0, nd("ok"), "a")
		c.addStage("a", m&2 != 0, nd("ok"), "b")
		c.addStage("b", true, nd("ok"))
		c.NextPanic["a"] = 0
		add(c, nil)
	}
	return out
}

// identPanicCases: the Identifier() of the k-th next stage panics inside stateMachine.executeStage.
func identPanicCases(gated bool) []finishCase {
	var out []finishCase
	add := func(c *pipeCase, order []string) {
		if !gated {
			var o []string
			for _, t := range order {
				if t[0] != 'D' {
					o = append(o, t)
				}
			}
			order = o
		}
		out = append(out, finishCase{c, order})
	}
	for _, async := range []bool{false, true} {
		// r -> a, the registration of a panics: r is the only stage that ever started
		c := newPipeCase()
		c.Root = "r"
		c.addStage("r", async, nd("ok"), "a")
		c.addStage("a", true, nd("ok"))
		c.NextPanic["r"] = 1
		add(c, nil)
		// r -> (a, b), a is registered and running on the pool when the registration of b panics
		for _, o := range finishOrders([]string{"a"}) {
			c := newPipeCase()
			c.Root = "r"
			c.addStage("r", async, nd("ok"), "a", "b")
			c.addStage("a", true, nd("none", nd("ok"), nd("ok")))
			c.addStage("b", true, nd("ok"))
			c.NextPanic["r"] = 2
			add(c, o)
		}
		// ... a ran inline (and is finished) when the registration of b panics
		c = newPipeCase()
		c.Root = "r"
		c.addStage("r", async, nd("ok"), "a", "b")
		c.addStage("a", false, nd("ok"))
		c.addStage("b", false, nd("ok"))
		c.NextPanic["r"] = 2
		add(c, nil)
	}
	return out
}

// orderPick drives the scheduler through `order`: the next lock section / decrement of the order is released as soon
// as its thread is parked in front of it; parked threads that are not in front of a step of the order run first
// (planning, operators); *missed counts the steps that could not be placed (the thread of the step never arrived
// while every other thread was parked in front of a later step).
func orderPick(order []string, missed *int) func(ids []string, labels map[string]string) string {
	rest := append([]string{}, order...)
	at := func(label string) string { // the step of the order a thread parked at `label` is in front of
		switch {
		case strings.HasPrefix(label, "next:"):
			return "L:" + label[5:]
		case strings.HasPrefix(label, "fail:"):
			return "L:" + label[5:]
		case strings.HasPrefix(label, "unl:"):
			return "D:" + label[4:]
		}
		return ""
	}
	return func(ids []string, labels map[string]string) string {
		pending := map[string]bool{}
		for _, t := range rest {
			pending[t] = true
		}
		for len(rest) > 0 {
			for _, id := range ids {
				if at(labels[id]) == rest[0] {
					rest = rest[1:]
					return id
				}
			}
			for _, id := range ids {
				if !pending[at(labels[id])] {
					return id
				}
			}
			// nobody can move without leaving the order: give the step up
			*missed++
			delete(pending, rest[0])
			rest = rest[1:]
		}
		return ids[0]
	}
}

type pipeResult struct {
	calls    int
	err      bool
	quiesced bool
	schedule []string
	missed   int // steps of a scripted order that could not be placed
}

func runPipeCase(rec *trace.Recorder, c *pipeCase, seed int64, free bool, order []string) pipeResult {
	sc := sched.New(seed)
	sc.Free = free
	res := pipeResult{}
	if len(order) > 0 {
		sc.Pick = orderPick(order, &res.missed)
		// no gate is inside a critical section: a released thread always parks again or finishes, a slow one is
		// not blocked (the order must not be disturbed by releasing a second thread on a loaded machine)
		sc.StepWait = 2 * time.Second
	}
	parent := map[string]string{}
	for p, cs := range c.Children {
		for _, ch := range cs {
			parent[ch] = p
		}
	}
	var owner func(s string) string
	owner = func(s string) string {
		if c.Async[s] {
			return s
		}
		if p, ok := parent[s]; ok {
			return owner(p)
		}
		return "main"
	}
	gated := pipelineSetGate != nil
	if order == nil {
		order = []string{}
	}
	rec.Reset(trace.F{"children": c.Children, "async": c.Async, "outcome": c.Outcome, "root": c.Root,
		"pkids": c.PKids, "pout": c.POut, "proot": c.PRoot, "flavor": c.Flavor, "npanic": c.NextPanic, "gate": gated, "order": order})

	var mu sync.Mutex
	ctx := context.Background()
	// the gate between the unlock and the decrement of completeStage: one Unlocked event, one scheduler step
	var gmu sync.Mutex
	marked := map[int64]string{} // goroutine -> the stage whose lock section it has just left
	if gated {
		pipelineSetGate(func(point string) {
			if point != "completeStage.unlocked" {
				return
			}
			g := pipeGoid()
			gmu.Lock()
			s, ok := marked[g]
			delete(marked, g)
			gmu.Unlock()
			if !ok {
				return
			}
			rec.Emit("Unlocked", trace.F{"s": s})
			sc.Yield(owner(s), "unl:"+s)
		})
		defer pipelineSetGate(nil)
	}
	var mk func(s string) stagepkg.Stage
	mk = func(s string) stagepkg.Stage {
		// the plan tree of the stage: real plan nodes, scripted operators
		var build func(n string) stagepkg.PlanNode
		build = func(n string) stagepkg.PlanNode {
			var node stagepkg.PlanNode
			oc, fl := c.POut[n], c.Flavor[n]
			op := &scriptOp{id: n, body: func() error {
				sc.Yield(owner(s), "op:"+n)
				rec.Emit("Op", trace.F{"s": s, "node": n, "outcome": oc})
				switch oc {
				case "err":
					if fl == 2 {
						return fmt.Errorf("boom %s: %w", n, constants.ErrNotFound)
					}
					return errors.New("boom " + n)
				case "ign":
					return fmt.Errorf("nothing in %s: %w", n, constants.ErrNotFound)
				case "panic":
					panic("kaboom " + n)
				}
				return nil
			}}
			switch {
			case oc == "none":
				node = stagepkg.NewEmptyPlanNode()
			case oc == "ign", oc == "err" && fl == 1, oc == "ok" && fl == 1:
				node = stagepkg.NewPlanNodeWithIgnore(op)
			default:
				node = stagepkg.NewPlanNode(op)
			}
			for _, k := range c.PKids[n] {
				node.AddChild(build(k))
			}
			return node
		}
		return stagepkg.NewVerifStage(ctx, &stagepkg.VerifScript{
			ID:    s,
			Async: c.Async[s],
			PlanFn: func() stagepkg.PlanNode {
				if c.Outcome[s] == "planpanic" {
					// Plan() runs on the goroutine of the caller of executeStage (the parent's thread)
					rec.Emit("PlanPanic", trace.F{"s": s})
					panic("plan kaboom " + s)
				}
				r := c.PRoot[s]
				if c.POut[r] == "none" && len(c.PKids[r]) == 0 && c.Flavor[r] == 1 {
					return nil // no plan at all: baseStage.execute(nil)
				}
				return build(r)
			},
			Next: func() []stagepkg.Stage {
				sc.Yield(owner(s), "next:"+s)
				if k, has := c.NextPanic[s]; has && k == 0 {
					// NextStages() of a stage whose plan succeeded panics: nothing is registered yet
					rec.Emit("NextPanic", trace.F{"s": s, "k": 0})
					panic("next kaboom " + s)
				}
				var out []stagepkg.Stage
				for _, ch := range c.Children[s] {
					out = append(out, mk(ch))
				}
				return out
			},
			OnIdentifier: func() {
				// called by stateMachine.executeStage inside its lock section
				if p, ok := parent[s]; ok {
					if k := c.NextPanic[p]; k >= 1 && k <= len(c.Children[p]) && c.Children[p][k-1] == s {
						// the registration of the k-th next stage of p panics (on p's goroutine, inside p's complete-callback)
						rec.Emit("NextPanic", trace.F{"s": p, "k": k})
						panic("identifier kaboom " + s)
					}
				}
				rec.Emit("Register", trace.F{"s": s})
			},
			OnComplete: func() {
				// called by completeStage inside its lock section
				if gated {
					gmu.Lock()
					marked[pipeGoid()] = s
					gmu.Unlock()
				}
				rec.Emit("FinMark", trace.F{"s": s})
			},
			Wrap: func(complete func(), fail func(error)) (func(), func(error)) {
				if c.Async[s] {
					sc.Spawn(s)
				}
				wc := func() {
					normal := false
					defer func() {
						if normal {
							rec.Emit("FinEnd", trace.F{"s": s})
							if c.Async[s] {
								sc.Done(s)
							}
						}
					}()
					complete()
					normal = true
				}
				wf := func(err error) {
					sc.Yield(owner(s), "fail:"+s)
					fail(err)
					rec.Emit("FinEnd", trace.F{"s": s})
					if c.Async[s] {
						sc.Done(s)
					}
				}
				return wc, wf
			},
		})
	}
	tr := trackerpkg.NewStageTracker(flow.NewTaskContextWithTimeout(ctx, 30*time.Second))
	p := query.NewExecutePipeline(tr, func(err error) {
		rec.Emit("Callback", trace.F{"err": err != nil})
		mu.Lock()
		res.calls++
		res.err = err != nil
		mu.Unlock()
	})
	sc.Spawn("main")
	go func() {
		defer sc.Done("main")
		sc.Yield("main", "start")
		p.Execute(mk(c.Root))
		rec.Emit("MainReturn", trace.F{})
	}()
	ok := sc.Run()
	res.quiesced = ok
	res.schedule = sc.Choices
	// a thread that comes back to a gate after the scheduler has finished (code that calls a handler of a finished
	// stage once more) must not park for ever on a worker of the shared pool: from here on the gates are open
	sc.ReleaseAll()
	mu.Lock()
	rec.Emit("Quiesce", trace.F{"timeout": !ok, "calls": res.calls})
	mu.Unlock()
	return res
}

func pipelineMain(args []string) int {
	fs := flag.NewFlagSet("pipeline", flag.ExitOnError)
	out := fs.String("out", "pipeline.ndjson", "trace output")
	seed := fs.Int64("seed", 1, "seed")
	n := fs.Int("traces", 200, "number of random cases")
	maxStages := fs.Int("stages", 5, "max stages per tree")
	free := fs.Bool("free", false, "free-running (no gates)")
	orders := fs.Int("orders", 60, "sample of the 630 finishing orders of three concurrent stages")
	ident := fs.Bool("ident", true, "the cases with a panicking Identifier() of a next stage (the code before the repair 37fa917 hangs in them)")
	only := fs.String("only", "", "debug: `nextpanic` runs the next-stage panic cases only")
	_ = fs.Parse(args)
	rec, err := trace.New(*out)
	if err != nil {
		fmt.Println(err)
		return 2
	}
	rng := rand.New(rand.NewSource(*seed))
	sum := &trace.Summary{Module: "Pipeline"}
	distinct := map[string]bool{}
	scripted := 0
	for _, c := range scriptedCases() {
		if *only != "" {
			break
		}
		r := runPipeCase(rec, c, rng.Int63(), *free, nil)
		distinct[c.key()+fmt.Sprint(r.schedule)] = true
		scripted++
	}
	// concurrently finishing stages, one failing: every order of the lock sections and decrements of completeStage
	finishing, missed, stuck, missedNP := 0, 0, 0, 0
	const maxStuck = 25 // every stuck case costs seconds and is a rejected trace: that many are evidence enough
	if !*free && *only == "" {
		for _, fc := range finishCases(rng, *orders, pipelineSetGate != nil) {
			r := runPipeCase(rec, fc.c, rng.Int63(), false, fc.order)
			distinct[fc.c.key()+fmt.Sprint(r.schedule)] = true
			finishing++
			if r.missed > 0 && r.quiesced {
				missed++
			}
			if !r.quiesced {
				if stuck++; stuck > maxStuck {
					break
				}
			}
		}
		if missed > 0 {
			sum.Unresolved = append(sum.Unresolved, fmt.Sprintf("%d of %d finishing orders could not be scheduled", missed, finishing))
		}
	}
	// a panic while a stage plans / registers its next stages
	nextPanics := 0
	if !*free {
		cases := nextPanicCases(pipelineSetGate != nil)
		if *ident {
			cases = append(cases, identPanicCases(pipelineSetGate != nil)...)
		}
		for _, fc := range cases {
			r := runPipeCase(rec, fc.c, rng.Int63(), false, fc.order)
			distinct[fc.c.key()+fmt.Sprint(r.schedule)] = true
			nextPanics++
			if r.missed > 0 && r.quiesced {
				missedNP++
			}
			if !r.quiesced {
				if stuck++; stuck > maxStuck {
					break
				}
			}
		}
		if missedNP > 0 {
			sum.Unresolved = append(sum.Unresolved, fmt.Sprintf("%d of %d next-stage panic orders could not be scheduled", missedNP, nextPanics))
		}
	}
	for i := 0; i < *n; i++ {
		if *only != "" {
			break
		}
		k := 1 + rng.Intn(*maxStages)
		pe, pp := 0.2, 0.2
		if i%4 == 0 {
			pe, pp = 0.0, 0.0
		}
		c := genCase(rng, k, pe, pp)
		if stuck > maxStuck {
			break
		}
		r := runPipeCase(rec, c, rng.Int63(), *free, nil)
		if !r.quiesced {
			stuck++
		}
		nontrivial := k >= 2
		if nontrivial {
			distinct[c.key()+fmt.Sprint(r.schedule)] = true
		}
		if len(sum.Samples) < 3 && k >= 3 {
			sum.Samples = append(sum.Samples, map[string]any{"case": c, "schedule": r.schedule, "callbacks": r.calls, "err": r.err})
		}
	}
	_ = rec.Close()
	sum.Traces, sum.Events = rec.Counts()
	sum.Distinct = len(distinct)
	sum.Extra = map[string]any{"scripted_plan_tree_cases": scripted, "finishing_orders": finishing, "next_stage_panic_cases": nextPanics,
		"completeStage_gate": pipelineSetGate != nil}
	sum.Print()
	return 0
}
