---------------------------- MODULE MCElection ----------------------------
EXTENDS Election
CONSTANTS MaxExpire, MaxFail
VARIABLES nexp, nfail
mcvars == <<vars, nexp, nfail>>
MCInit == Init /\ nexp = 0 /\ nfail = 0
MCNext ==
  \/ (\E n \in Node : Elect(n)) /\ UNCHANGED <<nexp, nfail>>
  \/ LeaseExpire /\ nexp < MaxExpire /\ nexp' = nexp + 1 /\ UNCHANGED nfail
  \/ (\E n \in Node : HandleDelete(n)) /\ UNCHANGED <<nexp, nfail>>
  \/ (\E n \in Node : HandleModify(n, "ok")) /\ UNCHANGED <<nexp, nfail>>
  \/ (\E n \in Node : HandleModify(n, "fail")) /\ nfail < MaxFail /\ nfail' = nfail + 1 /\ UNCHANGED nexp
MCSpec == MCInit /\ [][MCNext]_mcvars
Bounded == \A n \in Node : Len(evq[n]) <= 6
\* liveness: the system always settles again (no fairness on LeaseExpire needed: it is bounded)
Fair == MCSpec /\ WF_mcvars(MCNext)
EventuallySettled == <>[]Settled
=============================================================================
