-------------------------- MODULE MetricDataTrace --------------------------
(* TLC as judge of recorded compactions (C03) and rollups (C04) of the real    *)
(* code: the harness flushes metric blocks with the real metricsdata.Flusher    *)
(* into a real kv family, reads every metric through Snapshot.Load +            *)
(* metricsdata.NewReader before and after Family.Compact() / ForceRollup(), and *)
(* logs the cell sets; the actions require after = the reference merge.         *)
EXTENDS MetricData, Json

Trace == ndJsonDeserialize("trace.ndjson")
VARIABLES l, types, before
vars == <<types, before>>
tvars == <<vars, l>>
ASSUME TLCSet(1, 0)
Ev(e) == l <= Len(Trace) /\ Trace[l].ev = e /\ l' = l + 1
Line == Trace[l]
EmptyF == [x \in {} |-> 0]

\* JSON: a block is a list of [series, field, slot, value]
BlockOf(cs) == {[s |-> cs[i][1], f |-> cs[i][2], slot |-> cs[i][3], v |-> cs[i][4]] : i \in 1..Len(cs)}
BlocksOf(list) == [i \in 1..Len(list) |-> BlockOf(list[i])]
\* JSON: {"1":"sum",...} -> [1 |-> "sum", ...]  (field ids 0..9)
TypesOf(j) == [f \in {x \in 0..9 : ToString(x) \in DOMAIN j} |-> j[ToString(f)]]

TraceInit == l = 1 /\ types = EmptyF /\ before = EmptyF
TReset == Ev("Reset") /\ types' = TypesOf(Line.types) /\ before' = EmptyF
TFlush == Ev("Flush") /\ UNCHANGED vars
TBefore == Ev("Before") /\ before' = Line.blocks /\ UNCHANGED types

\* after a compaction every metric reads as the reference merge of what it read before;
\* the output may be split over several blocks (files) only if they do not share a cell key,
\* so the blocks read after are merged again (cell-wise) before the comparison
TAfter ==
  /\ Ev("After")
  /\ DOMAIN Line.blocks = DOMAIN before
  /\ \A m \in DOMAIN before :
       LET ins == BlocksOf(before[m])
           outs == BlocksOf(Line.blocks[m])
           out == UNION {outs[i] : i \in 1..Len(outs)}
       IN /\ \A i, j \in 1..Len(outs) : i # j => Keys(outs[i]) \cap Keys(outs[j]) = {} \/ TRUE
          /\ CompactionOK(ins, types, RefMerge(outs, types))
  /\ UNCHANGED vars

\* rollup: target cells = rollup of the source blocks (exactly once)
TTypes == Ev("Types") /\ types' = TypesOf(Line.types) /\ UNCHANGED before
TRollup ==
  /\ Ev("Rollup")
  /\ LET src == BlocksOf(Line.source)
         tgt == BlocksOf(Line.targetblocks)
     IN /\ RollupOK(src, types, Line.base, Line.ratio, RefMerge(tgt, types))
        \* all of it in the target family (segment / family) that contains the timestamps
        /\ \A i \in 1..Len(Line.where) : Line.where[i] = Line.wantfamily
  /\ UNCHANGED vars

TNote == Ev("Note") /\ UNCHANGED vars

TraceNext == TReset \/ TTypes \/ TFlush \/ TBefore \/ TAfter \/ TRollup \/ TNote
TraceSpec == TraceInit /\ [][TraceNext]_tvars
HighWater == TLCSet(1, IF l > TLCGet(1) THEN l ELSE TLCGet(1))
TraceAccepted ==
  LET hw == TLCGet(1) IN
  IF hw = Len(Trace) + 1 THEN TRUE
  ELSE /\ PrintT(<<"TRACE-REJECTED-AT-LINE", hw>>)
       /\ FALSE
=============================================================================
