CONSTANTS
  ReadFaultGivesUp = TRUE
  MaxNodes = 5
  MaxShards = 8
SPECIFICATION ASpec
INVARIANTS AssignOK GrowOK
CHECK_DEADLOCK FALSE
